#!/bin/bash
# confirm_seed2.sh <ID> <seed dir> <go test pkg dir | -> <test -run regex | demo script name> [plz|wt]
# Re-confirms a seeded change in a fresh scratch worktree: compiles, passes the 347-test baseline, demo fails with it and passes without it.
# With "-" as package the demonstration is a shell script taking either a plz binary ("plz") or a worktree ("wt") as its argument.
ID=$1; SD=$2; PKG=$3; RUN=$4; ARG=${5:-wt}
WT=/tmp/confirm-$ID
export GOFLAGS=-mod=mod GOPROXY=off
git -C /repo worktree remove --force $WT 2>/dev/null
git -C /repo worktree add -q --detach $WT HEAD || exit 2
cd $WT
demo() {
  if [ "$PKG" = "-" ]; then
    if [ "$ARG" = plz ]; then go build -o $WT/plz-confirm ./src && bash $SD/$RUN $WT/plz-confirm; else bash $SD/$RUN $WT; fi
  else
    go test -vet=off -count=1 -run "$RUN" ./$PKG/
  fi
}
[ "$PKG" != "-" ] && cp $SD/*_test.go $WT/$PKG/ 2>/dev/null
echo "== demo on unmodified code (must pass)"; demo > /tmp/confirm-$ID.clean.log 2>&1; C=$?; tail -3 /tmp/confirm-$ID.clean.log
git apply $SD/patch.diff || { echo "PATCH DOES NOT APPLY"; exit 2; }
echo "== build"; go build ./src/... ; B=$?
echo "== demo with change (must fail)"; demo > /tmp/confirm-$ID.mut.log 2>&1; M=$?; tail -5 /tmp/confirm-$ID.mut.log
[ "$PKG" != "-" ] && rm -f $WT/$PKG/zz_seed_demo_test.go
rm -f $WT/plz-confirm
echo "== baseline"; /tmp/tools/baseline.py $WT | tail -3; S=${PIPESTATUS[0]}
cd /; git -C /repo worktree remove --force $WT
echo "RESULT id=$ID build=$B demo_clean_exit=$C demo_mutant_exit=$M baseline_exit=$S"

#!/usr/bin/env python3
"""baseline.py [repo_dir] — runs the pinned test suite (BASELINE.json cmd semantics) in repo_dir (default /repo)
and reports which of the 347 stable tests do not pass. Exit 0 iff all 347 pass."""
import json, subprocess, sys, os
repo = sys.argv[1] if len(sys.argv) > 1 else "/repo"
base = json.load(open("/root/.vp/BASELINE.json"))
stable = set(base["stable_pass"])
env = dict(os.environ, GOFLAGS="-mod=mod", GOPROXY="off")
passed = set()
for m in [".", "./test"]:
    d = os.path.join(repo, m)
    if not os.path.exists(os.path.join(d, "go.mod")):
        continue
    p = subprocess.run(["go", "test", "-mod=mod", "-json", "-vet=off", "-count=1", "-timeout", "25m", "./..."], cwd=d, env=env, capture_output=True, text=True)
    for line in p.stdout.splitlines():
        try:
            e = json.loads(line)
        except Exception:
            continue
        if e.get("Action") == "pass" and e.get("Test"):
            passed.add(e["Package"] + "::" + e["Test"])
# the suite itself edits two tracked files (TestInitPleasings appends to src/plzinit/BUILD; go adds a go line to test/go.mod): undo that
subprocess.run(["git", "-C", repo, "checkout", "--", "src/plzinit/BUILD", "test/go.mod"], capture_output=True)
missing = sorted(stable - passed)
print("stable tests passing: %d / %d" % (len(stable & passed), len(stable)))
for m in missing:
    print("  NOT PASSING:", m)
sys.exit(0 if not missing else 1)

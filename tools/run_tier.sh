#!/bin/bash
# run_tier.sh <tier> [ids...] : runs the given tier of the listed (default: all registered) checks one after the other; one summary line each.
TIER=${1:-quick}; shift
export VERIF_ROOT=${VERIF_ROOT:-$PWD}
cd "$VERIF_ROOT" || exit 2
IDS=${@:-$(ls tools/checks.d | sed 's/.json$//')}
for id in $IDS; do
  s=$(date +%s)
  out=$(timeout 3600 tools/vcheck $id --tier $TIER 2>&1); rc=$?
  echo "== $id rc=$rc $(( $(date +%s) - s ))s :: $(echo "$out" | grep -E "^$id (quick|thorough):" | tail -1)"
  echo "$out" | grep -E "^VIOLATION|HARNESS|BUILD-FAILED|NONDETERMINISM" | cut -c1-400 | head -5
done

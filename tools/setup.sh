#!/bin/sh
# Run once after a fresh restore: warms the Go build cache for the overlay builds. Everything is offline.
cd /verif || exit 1
export GOFLAGS=-mod=mod GOPROXY=off
mkdir -p .work/bin evidence out
for id in $(ls tools/checks.d | sed 's/.json$//'); do
  VERIF_BUILD_ONLY=1 tools/vcheck "$id" || echo "setup: build of $id failed" >&2
done
exit 0

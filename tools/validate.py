#!/opt/veriftools/pyvenv/bin/python3
import json, jsonschema, glob, sys
ok = True
try:
    jsonschema.validate(json.load(open('/verif/MANIFEST.json')), json.load(open('/root/.vp/MANIFEST.schema.json')))
except Exception as e:
    ok = False; print("MANIFEST:", e)
es = json.load(open('/root/.vp/EVIDENCE.schema.json'))
m = json.load(open('/verif/MANIFEST.json'))
for c in m["checks"]:
    f = c["evidence_file"]
    try:
        ev = json.load(open(f))
        jsonschema.validate(ev, es)
        if ev["level"] != c["level_claimed"]["category"]:
            ok = False; print(f, "level mismatch", ev["level"], c["level_claimed"]["category"])
    except Exception as e:
        ok = False; print(f, str(e)[:300])
print("valid" if ok else "INVALID"); sys.exit(0 if ok else 1)

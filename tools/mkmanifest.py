#!/opt/veriftools/pyvenv/bin/python3
"""Generates /verif/MANIFEST.json from tools/checks.json (claimed checks) + properties.jsonl (everything else -> not_applicable with reason)."""
import json, os
V = "/verif"
checks = {}
for fn in sorted(os.listdir(V + "/tools/checks.d")):
    if fn.endswith(".json"):
        checks.update(json.load(open(V + "/tools/checks.d/" + fn)))
props = [json.loads(l) for l in open(V + "/properties.jsonl")]
na_reasons = json.load(open(V + "/tools/not_applicable.json")) if os.path.exists(V + "/tools/not_applicable.json") else {}
import jsonschema
EVS = json.load(open("/root/.vp/EVIDENCE.schema.json"))
def evidence_ok(i, level):
    try:
        ev = json.load(open(V + "/evidence/%s.json" % i))
        jsonschema.validate(ev, EVS)
        return ev["level"] == level and ev.get("violations", 0) == 0
    except Exception:
        return False
out_checks, na = [], []
for p in props:
    i = p["id"]
    c = checks.get(i)
    if c and c.get("claimed", True) and not evidence_ok(i, c["level"]):
        na.append({"property_id": i, "reason": "check is built (harness/%s) but its last run on the unchanged tree has not produced valid, violation-free evidence yet; not claimed until it does" % c["pkg"]})
    elif c and c.get("claimed", True):
        out_checks.append({
            "property_id": i,
            "quick_cmd": "tools/vcheck %s --tier quick" % i,
            "thorough_cmd": "tools/vcheck %s --tier thorough" % i,
            "evidence_file": "/verif/evidence/%s.json" % i,
            "replay_cmd_template": "tools/vcheck %s --replay {path}" % i,
            "engine": c.get("engine", "enum"),
            "level_claimed": {"category": c["level"], "text": c["text"], "design_ref": c.get("design_ref", "DESIGN.md §4 " + i)},
            "level_note": c["note"],
            "technique": c["technique"],
        })
    else:
        na.append({"property_id": i, "reason": na_reasons.get(i, "not yet claimed: the check for this property has not been built/validated yet (work in progress, see DESIGN.md §8 build order)")})
m = {
    "version": 1,
    "setup_cmd": "tools/setup.sh",
    "hooks": {
        "guard": "verif",
        "enable": "go build -tags verif -overlay <generated overlay.json>: harness, shim and export files are overlay-only virtual files (//go:build verif); /repo itself carries no hook commits",
        "baseline_off_cmd": json.load(open("/root/.vp/BASELINE.json"))["cmd"],
        "source_commits": [],
        "add_only": True,
    },
    "engines": [
        {"name": "vsched", "path": "/verif/shim/vsched", "serves_properties": [k for k, c in checks.items() if c.get("engine") == "vsched"], "kind_free_text": "controlled cooperative scheduler + stateless DFS with preemption bounding over mechanically rewritten real code"},
        {"name": "vos", "path": "/verif/shim/vos", "serves_properties": [k for k, c in checks.items() if c.get("engine") == "vos"], "kind_free_text": "file-system op seam: trace / crash@k / fail@k enumeration"},
        {"name": "hist", "path": "/verif/harness/hist", "serves_properties": [k for k, c in checks.items() if c.get("engine") == "hist"], "kind_free_text": "explicit-state BFS over edit/build histories executed by the real plz binary"},
        {"name": "enum", "path": "/verif/harness/lib", "serves_properties": [k for k, c in checks.items() if c.get("engine", "enum") == "enum"], "kind_free_text": "bounded-exhaustive input enumeration against a reference model"},
    ],
    "checks": out_checks,
    "not_applicable": na,
    "notes": "All checks rebuild from /repo's working tree via go build -overlay (tools/vcheck). See DESIGN.md.",
}
json.dump(m, open(V + "/MANIFEST.json", "w"), indent=1)
print("claimed", len(out_checks), "not_applicable", len(na))

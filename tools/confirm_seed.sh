#!/bin/bash
# confirm_seed.sh <ID> <go test pkg dir> <test -run regex>
# Re-confirms a seeded change in a fresh scratch worktree: compiles, passes the 347-test baseline, demo fails with it and passes without it.
ID=$1; PKG=$2; RUN=$3
WT=/tmp/confirm-$ID
export GOFLAGS=-mod=mod GOPROXY=off
git -C /repo worktree remove --force $WT 2>/dev/null
git -C /repo worktree add -q --detach $WT HEAD || exit 2
cd $WT
cp /tmp/seed-$ID/*_test.go $WT/$PKG/ 2>/dev/null
echo "== demo on unmodified code (must pass)"; go test -count=1 -run "$RUN" ./$PKG/ > /tmp/confirm-$ID.clean.log 2>&1; C=$?; tail -3 /tmp/confirm-$ID.clean.log
git apply /tmp/seed-$ID/patch.diff || { echo "PATCH DOES NOT APPLY"; exit 2; }
echo "== build"; go build ./src/... ; B=$?
echo "== demo with change (must fail)"; go test -count=1 -run "$RUN" ./$PKG/ > /tmp/confirm-$ID.mut.log 2>&1; M=$?; tail -5 /tmp/confirm-$ID.mut.log
rm -f $WT/$PKG/zz_seed_demo_test.go
echo "== baseline"; /tmp/tools/baseline.py $WT | tail -3; S=${PIPESTATUS[0]}
cd /; git -C /repo worktree remove --force $WT
echo "RESULT id=$ID build=$B demo_clean_exit=$C demo_mutant_exit=$M baseline_exit=$S"

#!/usr/bin/env python3
"""addknown.py PROP  (reads lines 'class<TAB>site<TAB>note' from stdin; witness taken from the violation artefact in out/violations if present)"""
import json, sys, glob, hashlib
prop = sys.argv[1]
p = '/verif/known_findings.json'
k = json.load(open(p))
have = {(e["property"], e["class"]) for e in k}
for line in sys.stdin:
    line = line.rstrip("\n")
    if not line.strip():
        continue
    parts = line.split("\t")
    cls, site, note = parts[0], parts[1] if len(parts) > 1 else "", parts[2] if len(parts) > 2 else ""
    if (prop, cls) in have:
        continue
    h = hashlib.sha1(cls.encode()).hexdigest()[:12]
    wit = None
    for f in glob.glob(f'/verif/out/violations/{prop}-{h}.json'):
        wit = json.load(open(f)).get("witness")
    k.append({"property": prop, "kind": "known", "class": cls, "witness": wit, "site": site, "note": note})
    print("added", prop, cls)
json.dump(k, open(p, 'w'), indent=1)

// Command rewrite mechanically instruments packages of /repo for the controlled scheduler (vsched):
// it reads the CURRENT files of the named packages, splices in shim calls for `go`, channel operations,
// select, close, range-over-channel (and, for listed files, range-over-map), redirects sync / sync/atomic /
// errgroup imports to the shims, maps selected `time.X` / `os.X` selectors to shim functions, optionally
// renames listed functions (wrap-by-rename), writes the results under cfg.Out and prints the overlay
// fragment {virtual path: generated file} on stdout. Nothing under /repo is modified.
package main

import (
	"encoding/json"
	"fmt"
	"go/ast"
	"go/token"
	"go/types"
	"os"
	"path/filepath"
	"sort"
	"strings"

	"golang.org/x/tools/go/packages"
)

type config struct {
	Name        string            `json:"name"`
	Repo        string            `json:"repo"`
	Out         string            `json:"out"`
	Packages    []string          `json:"packages"`     // e.g. ./src/cmap
	MapRange    []string          `json:"map_range"`    // file suffixes in which range-over-map becomes a choice
	Rename      map[string]string `json:"rename"`       // "pkgdir:Recv.Func" or "pkgdir:Func" -> new name
	Selectors   map[string]string `json:"selectors"`    // "time.After" -> "vtime.After" (alias.Func of a shim)
	Methods     map[string]string `json:"methods"`      // "os/exec.Cmd.Start" -> "vproc.Start": x.Start(a) becomes vproc.Start(x, a)
	NoSched     bool              `json:"no_sched"`     // only selector/rename rewrites (file-system seam builds): leave go/chan/sync alone
	Fatal       bool              `json:"fatal"`        // rewrite log.Fatalf/log.Fatal to vsched.Fatal
	BaseOverlay map[string]string `json:"base_overlay"` // overlay used while loading (export files etc.)
}

const shimBase = "github.com/thought-machine/please/verifshim/"

var importMap = map[string]string{
	"sync":                       shimBase + "vsync",
	"sync/atomic":                shimBase + "vatomic",
	"golang.org/x/sync/errgroup": shimBase + "verrgroup",
}

var defaultSelectors = map[string]string{
	"time.After":     "vtime.After",
	"time.NewTimer":  "vtime.NewTimer",
	"time.NewTicker": "vtime.NewTicker",
	"time.Sleep":     "vtime.Sleep",
	"time.AfterFunc": "vtime.AfterFunc",
	"time.Tick":      "vtime.Tick",
	"time.Timer":     "vtime.Timer",
	"time.Ticker":    "vtime.Ticker",
}

type site struct {
	pos, end token.Pos
	render   func() string
}

type fileRW struct {
	cfg            *config
	fset           *token.FileSet
	src            []byte
	file           *ast.File
	tf             *token.File
	info           *types.Info
	sites          []site
	uses           map[string]bool // shim aliases needed
	mapRange       bool
	tmp            int
	rendering      map[token.Pos]token.Pos
	pkgdir         string
	renamed        []string
	timeRewritten  bool
	osRewritten    bool
	xattrRewritten bool
}

func (rw *fileRW) off(p token.Pos) int { return rw.tf.Offset(p) }

// span renders source [from,to) with the outermost rewrite sites inside it replaced.
func (rw *fileRW) span(from, to token.Pos) string {
	var sb strings.Builder
	cur := from
	for _, s := range rw.sites {
		if s.pos < cur || s.end > to || s.pos < from {
			continue
		}
		if s.pos == from && s.end == to && rw.rendering[s.pos] == s.end {
			continue // the site being rendered itself
		}
		sb.Write(rw.src[rw.off(cur):rw.off(s.pos)])
		prev, had := rw.rendering[s.pos]
		rw.rendering[s.pos] = s.end
		sb.WriteString(s.render())
		if had {
			rw.rendering[s.pos] = prev
		} else {
			delete(rw.rendering, s.pos)
		}
		cur = s.end
	}
	sb.Write(rw.src[rw.off(cur):rw.off(to)])
	return sb.String()
}

func (rw *fileRW) text(n ast.Node) string { return rw.span(n.Pos(), n.End()) }

func (rw *fileRW) tmpName(p string) string {
	rw.tmp++
	return fmt.Sprintf("__%s%d", p, rw.tmp)
}

func (rw *fileRW) isChan(e ast.Expr) bool {
	t := rw.info.TypeOf(e)
	if t == nil {
		return false
	}
	_, ok := t.Underlying().(*types.Chan)
	if !ok {
		// type parameter with chan core type: ignore
		return false
	}
	return true
}

func (rw *fileRW) isMap(e ast.Expr) bool {
	t := rw.info.TypeOf(e)
	if t == nil {
		return false
	}
	_, ok := t.Underlying().(*types.Map)
	return ok
}

func (rw *fileRW) isConstOrNil(e ast.Expr) bool {
	tv, ok := rw.info.Types[e]
	if !ok {
		return false
	}
	return tv.Value != nil || tv.IsNil()
}

func (rw *fileRW) isBuiltin(id *ast.Ident, name string) bool {
	if id.Name != name {
		return false
	}
	_, ok := rw.info.Uses[id].(*types.Builtin)
	return ok
}

func (rw *fileRW) pkgOf(e ast.Expr) string {
	id, ok := e.(*ast.Ident)
	if !ok {
		return ""
	}
	if pn, ok := rw.info.Uses[id].(*types.PkgName); ok {
		return pn.Imported().Path()
	}
	return ""
}

func unparen(e ast.Expr) ast.Expr {
	for {
		p, ok := e.(*ast.ParenExpr)
		if !ok {
			return e
		}
		e = p.X
	}
}

func recvOf(e ast.Expr) *ast.UnaryExpr {
	u, ok := unparen(e).(*ast.UnaryExpr)
	if ok && u.Op == token.ARROW {
		return u
	}
	return nil
}

func (rw *fileRW) add(n ast.Node, f func() string) {
	rw.sites = append(rw.sites, site{n.Pos(), n.End(), f})
}

func (rw *fileRW) collect() {
	selectors := map[string]string{}
	for k, v := range defaultSelectors {
		selectors[k] = v
	}
	for k, v := range rw.cfg.Selectors {
		selectors[k] = v
	}
	inSelectComm := map[ast.Node]bool{}
	var labelOf = map[ast.Stmt]*ast.LabeledStmt{}
	ast.Inspect(rw.file, func(n ast.Node) bool {
		switch x := n.(type) {
		case *ast.LabeledStmt:
			labelOf[x.Stmt] = x
		case *ast.ImportSpec:
			path := strings.Trim(x.Path.Value, "\"")
			if np, ok := importMap[path]; ok && !rw.cfg.NoSched {
				name := filepath.Base(path)
				if x.Name != nil {
					name = x.Name.Name
				}
				rw.add(x, func() string { return fmt.Sprintf("%s %q", name, np) })
			}
		case *ast.SelectorExpr:
			if p := rw.pkgOf(x.X); p != "" {
				key := p + "." + x.Sel.Name
				if p == "time" || p == "os" {
					key = p + "." + x.Sel.Name
				}
				if to, ok := selectors[key]; ok {
					alias := strings.SplitN(to, ".", 2)[0]
					rw.uses[alias] = true
					if p == "time" {
						rw.timeRewritten = true
					}
					if p == "os" {
						rw.osRewritten = true
					}
					if p == "github.com/pkg/xattr" {
						rw.xattrRewritten = true
					}
					rw.add(x, func() string { return "__" + to })
				}
			}
			if rw.cfg.Fatal {
				if id, ok := x.X.(*ast.Ident); ok && id.Name == "log" && (x.Sel.Name == "Fatalf" || x.Sel.Name == "Fatal") {
					if _, isPkg := rw.info.Uses[id].(*types.PkgName); !isPkg {
						rw.uses["vsched"] = true
						name := x.Sel.Name
						rw.add(x, func() string { return "__vsched.Log" + name })
					}
				}
			}
		case *ast.GoStmt:
			if rw.cfg.NoSched {
				return true
			}
			rw.uses["vsched"] = true
			rw.add(x, func() string { return rw.renderGo(x) })
		case *ast.SendStmt:
			if rw.cfg.NoSched {
				return true
			}
			if inSelectComm[x] {
				return true
			}
			rw.uses["vsched"] = true
			rw.add(x, func() string { return fmt.Sprintf("__vsched.Send(%s, %s)", rw.text(x.Chan), rw.text(x.Value)) })
		case *ast.SelectStmt:
			if rw.cfg.NoSched {
				return true
			}
			rw.uses["vsched"] = true
			for _, c := range x.Body.List {
				cc := c.(*ast.CommClause)
				if cc.Comm != nil {
					inSelectComm[cc.Comm] = true
					switch s := cc.Comm.(type) {
					case *ast.ExprStmt:
						inSelectComm[unparen(s.X)] = true
					case *ast.AssignStmt:
			if rw.cfg.NoSched {
				return true
			}
						inSelectComm[unparen(s.Rhs[0])] = true
					}
				}
			}
			lbl := labelOf[x]
			if lbl != nil {
				// move the label onto the generated switch: handled by rendering the labeled statement as a whole
				rw.add(lbl, func() string { return rw.renderSelect(x, lbl.Label.Name) })
			} else {
				rw.add(x, func() string { return rw.renderSelect(x, "") })
			}
		case *ast.AssignStmt:
			if inSelectComm[x] {
				return true
			}
			if len(x.Lhs) == 2 && len(x.Rhs) == 1 {
				if u := recvOf(x.Rhs[0]); u != nil {
					rw.uses["vsched"] = true
					inSelectComm[u] = true // do not also rewrite the inner <-ch
					rw.add(x, func() string {
						return fmt.Sprintf("%s, %s %s __vsched.Recv2(%s)", rw.text(x.Lhs[0]), rw.text(x.Lhs[1]), x.Tok.String(), rw.text(u.X))
					})
				}
			}
		case *ast.ValueSpec:
			if rw.cfg.NoSched {
				return true
			}
			if len(x.Names) == 2 && len(x.Values) == 1 {
				if u := recvOf(x.Values[0]); u != nil {
					rw.uses["vsched"] = true
					inSelectComm[u] = true
					rw.add(x.Values[0], func() string { return fmt.Sprintf("__vsched.Recv2(%s)", rw.text(u.X)) })
				}
			}
		case *ast.UnaryExpr:
			if rw.cfg.NoSched {
				return true
			}
			if x.Op == token.ARROW && !inSelectComm[x] {
				rw.uses["vsched"] = true
				rw.add(x, func() string { return fmt.Sprintf("__vsched.Recv(%s)", rw.text(x.X)) })
			}
		case *ast.CallExpr:
			if sel, ok := x.Fun.(*ast.SelectorExpr); ok && len(rw.cfg.Methods) > 0 {
				if s := rw.info.Selections[sel]; s != nil && s.Kind() == types.MethodVal {
					if fn, ok := s.Obj().(*types.Func); ok {
						rt := fn.Type().(*types.Signature).Recv().Type()
						if p, ok := rt.(*types.Pointer); ok {
							rt = p.Elem()
						}
						if named, ok := rt.(*types.Named); ok && named.Obj().Pkg() != nil {
							if to, ok := rw.cfg.Methods[named.Obj().Pkg().Path()+"."+named.Obj().Name()+"."+fn.Name()]; ok {
								rw.uses[strings.SplitN(to, ".", 2)[0]] = true
								rw.add(x, func() string {
									args := []string{rw.text(sel.X)}
									for _, a := range x.Args {
										args = append(args, rw.text(a))
									}
									return "__" + to + "(" + strings.Join(args, ", ") + ")"
								})
								return true
							}
						}
					}
				}
			}
			if rw.cfg.NoSched {
				return true
			}
			if id, ok := x.Fun.(*ast.Ident); ok && rw.isBuiltin(id, "close") && len(x.Args) == 1 {
				rw.uses["vsched"] = true
				rw.add(x, func() string { return fmt.Sprintf("__vsched.Close(%s)", rw.text(x.Args[0])) })
			}
		case *ast.RangeStmt:
			if rw.cfg.NoSched {
				return true
			}
			if rw.isChan(x.X) {
				rw.uses["vsched"] = true
				rw.add(x.X, func() string { return fmt.Sprintf("__vsched.RangeChan(%s)", rw.span(x.X.Pos(), x.X.End())) })
			} else if rw.mapRange && rw.isMap(x.X) {
				rw.uses["vsched"] = true
				rw.add(x.X, func() string { return fmt.Sprintf("__vsched.MapRange(%s)", rw.span(x.X.Pos(), x.X.End())) })
			}
		case *ast.FuncDecl:
			key := x.Name.Name
			if x.Recv != nil && len(x.Recv.List) == 1 {
				t := x.Recv.List[0].Type
				if s, ok := t.(*ast.StarExpr); ok {
					t = s.X
				}
				if ix, ok := t.(*ast.IndexExpr); ok {
					t = ix.X
				}
				if id, ok := t.(*ast.Ident); ok {
					key = id.Name + "." + key
				}
			}
			if nn, ok := rw.cfg.Rename[rw.pkgdir+":"+key]; ok {
				rw.add(x.Name, func() string { return nn })
				rw.renamed = append(rw.renamed, key)
			}
		}
		return true
	})
	sort.SliceStable(rw.sites, func(i, j int) bool {
		if rw.sites[i].pos != rw.sites[j].pos {
			return rw.sites[i].pos < rw.sites[j].pos
		}
		return rw.sites[i].end > rw.sites[j].end // outermost first
	})
}

func (rw *fileRW) renderGo(g *ast.GoStmt) string {
	call := g.Call
	var pre []string
	fun := ""
	switch f := unparen(call.Fun).(type) {
	case *ast.FuncLit:
		fun = "(" + rw.text(f) + ")"
	default:
		// bind the function value (evaluates a method receiver now, as `go` does)
		if id, ok := f.(*ast.Ident); ok {
			if _, isFunc := rw.info.Uses[id].(*types.Func); isFunc {
				fun = rw.text(call.Fun)
				break
			}
			if _, isBuiltin := rw.info.Uses[id].(*types.Builtin); isBuiltin {
				fun = rw.text(call.Fun)
				break
			}
		}
		if sel, ok := f.(*ast.SelectorExpr); ok && rw.pkgOf(sel.X) != "" {
			fun = rw.text(call.Fun)
			break
		}
		n := rw.tmpName("f")
		pre = append(pre, fmt.Sprintf("%s := %s", n, rw.text(call.Fun)))
		fun = n
	}
	var args []string
	for i, a := range call.Args {
		if rw.isConstOrNil(a) {
			args = append(args, rw.text(a))
			continue
		}
		if _, isLit := unparen(a).(*ast.FuncLit); isLit {
			args = append(args, rw.text(a))
			continue
		}
		n := rw.tmpName("a")
		pre = append(pre, fmt.Sprintf("%s := %s", n, rw.text(a)))
		if i == len(call.Args)-1 && call.Ellipsis.IsValid() {
			n += "..."
		}
		args = append(args, n)
	}
	pos := rw.fset.Position(g.Pos())
	name := fmt.Sprintf("%s:%d", filepath.Base(pos.Filename), pos.Line)
	body := fmt.Sprintf("__vsched.GoNamed(%q, func() { %s(%s) })", name, fun, strings.Join(args, ", "))
	if len(pre) == 0 {
		return body
	}
	return "{ " + strings.Join(pre, "; ") + "; " + body + " }"
}

func (rw *fileRW) renderSelect(s *ast.SelectStmt, label string) string {
	var pre, cases, arms []string
	hasDefault := false
	idx := 0
	iv, rv := rw.tmpName("i"), rw.tmpName("r")
	for _, c := range s.Body.List {
		cc := c.(*ast.CommClause)
		body := ""
		if len(cc.Body) > 0 {
			body = rw.span(cc.Body[0].Pos(), cc.Body[len(cc.Body)-1].End())
		}
		if cc.Comm == nil {
			hasDefault = true
			arms = append(arms, "case -1:\n"+body)
			continue
		}
		cn := rw.tmpName("c")
		switch st := cc.Comm.(type) {
		case *ast.SendStmt:
			pre = append(pre, fmt.Sprintf("%s := %s", cn, rw.text(st.Chan)))
			val := rw.text(st.Value)
			if !rw.isConstOrNil(st.Value) {
				vn := rw.tmpName("v")
				pre = append(pre, fmt.Sprintf("%s := %s", vn, val))
				val = vn
			}
			cases = append(cases, fmt.Sprintf("__vsched.SendCase(%s, %s)", cn, val))
			arms = append(arms, fmt.Sprintf("case %d:\n%s", idx, body))
		case *ast.ExprStmt:
			u := recvOf(st.X)
			pre = append(pre, fmt.Sprintf("%s := %s", cn, rw.text(u.X)))
			cases = append(cases, fmt.Sprintf("__vsched.RecvCase(%s)", cn))
			arms = append(arms, fmt.Sprintf("case %d:\n%s", idx, body))
		case *ast.AssignStmt:
			u := recvOf(st.Rhs[0])
			pre = append(pre, fmt.Sprintf("%s := %s", cn, rw.text(u.X)))
			cases = append(cases, fmt.Sprintf("__vsched.RecvCase(%s)", cn))
			var asg string
			if len(st.Lhs) == 2 {
				asg = fmt.Sprintf("%s, %s %s __vsched.SelRecv2(%s, %s)", rw.text(st.Lhs[0]), rw.text(st.Lhs[1]), st.Tok.String(), cn, rv)
			} else {
				asg = fmt.Sprintf("%s %s __vsched.SelRecv(%s, %s)", rw.text(st.Lhs[0]), st.Tok.String(), cn, rv)
			}
			arms = append(arms, fmt.Sprintf("case %d:\n%s\n%s", idx, asg, body))
		}
		idx++
	}
	lbl := ""
	if label != "" {
		lbl = label + ":\n"
	}
	sep := ""
	if len(cases) > 0 {
		sep = ", "
	}
	return fmt.Sprintf("{\n%s\n%s, %s := __vsched.Select(%v%s%s)\n_ = %s\n%sswitch %s {\n%s\ndefault:\npanic(\"vsched: select returned an impossible case\")\n}\n}",
		strings.Join(pre, "\n"), iv, rv, hasDefault, sep, strings.Join(cases, ", "), rv, lbl, iv, strings.Join(arms, "\n"))
}

func main() {
	if len(os.Args) != 2 {
		fmt.Fprintln(os.Stderr, "usage: rewrite cfg.json")
		os.Exit(2)
	}
	var cfg config
	b, err := os.ReadFile(os.Args[1])
	if err != nil {
		die(err)
	}
	if err := json.Unmarshal(b, &cfg); err != nil {
		die(err)
	}
	os.RemoveAll(cfg.Out)
	overlay := map[string][]byte{}
	for k, v := range cfg.BaseOverlay {
		// only export files matter for loading (harness packages are not loaded)
		if strings.Contains(k, "zz_verif_") {
			data, err := os.ReadFile(v)
			if err != nil {
				die(err)
			}
			overlay[k] = data
		}
	}
	fset := token.NewFileSet()
	pcfg := &packages.Config{
		Mode:       packages.NeedName | packages.NeedFiles | packages.NeedCompiledGoFiles | packages.NeedSyntax | packages.NeedTypes | packages.NeedTypesInfo | packages.NeedImports | packages.NeedDeps,
		Dir:        cfg.Repo,
		Fset:       fset,
		BuildFlags: []string{"-tags=verif"},
		Overlay:    nil,
		Env:        append(os.Environ(), "GOFLAGS=-mod=mod", "GOPROXY=off", "CGO_ENABLED=0"),
	}
	pkgs, err := packages.Load(pcfg, cfg.Packages...)
	if err != nil {
		die(err)
	}
	out := map[string]string{}
	nsites := 0
	for _, p := range pkgs {
		for _, e := range p.Errors {
			die(fmt.Errorf("load %s: %s", p.PkgPath, e))
		}
		for i, f := range p.Syntax {
			fn := p.CompiledGoFiles[i]
			if strings.HasSuffix(fn, "_test.go") || !strings.HasPrefix(fn, cfg.Repo) {
				continue
			}
			src, err := os.ReadFile(fn)
			if err != nil {
				die(err)
			}
			rel, _ := filepath.Rel(cfg.Repo, fn)
			rw := &fileRW{cfg: &cfg, fset: fset, src: src, file: f, tf: fset.File(f.Pos()), info: p.TypesInfo, uses: map[string]bool{}, rendering: map[token.Pos]token.Pos{}, pkgdir: filepath.Dir(rel)}
			for _, suf := range cfg.MapRange {
				if strings.HasSuffix(fn, suf) || strings.Contains(fn, suf) {
					rw.mapRange = true
				}
			}
			rw.collect()
			if len(rw.sites) == 0 {
				continue
			}
			nsites += len(rw.sites)
			body := rw.span(f.FileStart, f.FileEnd)
			// add shim imports right after the package clause
			var imps []string
			for a := range rw.uses {
				imps = append(imps, fmt.Sprintf("import __%s %q", a, shimBase+a))
			}
			sort.Strings(imps)
			if len(imps) > 0 {
				pkgEnd := rw.off(f.Name.End()) - rw.off(f.FileStart)
				body = body[:pkgEnd] + "; " + strings.Join(imps, "; ") + body[pkgEnd:]
			}
			if rw.timeRewritten {
				body += "\nvar _ time.Duration\n"
			}
			if rw.osRewritten {
				body += "\nvar _ os.FileMode\n"
			}
			if rw.xattrRewritten {
				body += "\nvar _ = xattr.LGet\n"
			}
			dst := filepath.Join(cfg.Out, rel)
			os.MkdirAll(filepath.Dir(dst), 0o755)
			if err := os.WriteFile(dst, []byte(body), 0o644); err != nil {
				die(err)
			}
			out[fn] = dst
		}
	}
	fmt.Fprintf(os.Stderr, "rewrite: %d packages, %d files, %d sites\n", len(pkgs), len(out), nsites)
	json.NewEncoder(os.Stdout).Encode(out)
}

func die(err error) {
	fmt.Fprintln(os.Stderr, "rewrite:", err)
	os.Exit(1)
}

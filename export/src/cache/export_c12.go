//go:build verif

package cache

import "github.com/thought-machine/please/src/core"

// VerifDirCacheC12 is the real directory cache, reached from the C12 / C14 checks.
type VerifDirCacheC12 = dirCache

// VerifNewDirCacheC12 builds a dirCache exactly as newSyncCache does.
func VerifNewDirCacheC12(config *core.Configuration) *dirCache { return newDirCache(config) }

// VerifCleanC14 runs one pass of the real cache cleaner.
func VerifCleanC14(c *dirCache, high, low uint64) uint64 { return c.clean(high, low) }

// VerifMarkC14 marks an entry path as used by this process, exactly as Store / Retrieve do.
func VerifMarkC14(c *dirCache, path string, size uint64) { c.markDir(path, size) }

// VerifPathC14 returns the final and the temporary (in-flight) path of an entry.
func VerifPathC14(c *dirCache, target *core.BuildTarget, key []byte) (final, tmp string) {
	return c.getPath(target, key, ""), c.getFullPath(target, key, "", "=")
}

//go:build verif

package cache

import (
	"sync/atomic"
	"unsafe"

	"github.com/thought-machine/please/src/core"
)

// VerifDirCacheC12 is the real directory cache, reached from the C12 / C14 checks.
type VerifDirCacheC12 = dirCache

// VerifNewDirCacheC12 builds a dirCache exactly as newSyncCache does.
func VerifNewDirCacheC12(config *core.Configuration) *dirCache { return newDirCache(config) }

// VerifCleanC14 runs one pass of the real cache cleaner.
func VerifCleanC14(c *dirCache, high, low uint64) uint64 { return c.clean(high, low) }

// VerifMarkC14 marks an entry path as used by this process, exactly as Store / Retrieve do.
func VerifMarkC14(c *dirCache, path string, size uint64) { c.markDir(path, size) }

// VerifPathC14 returns the final and the temporary (in-flight) path of an entry.
func VerifPathC14(c *dirCache, target *core.BuildTarget, key []byte) (final, tmp string) {
	return c.getPath(target, key, ""), c.getFullPath(target, key, "", "=")
}

// VerifLockC12 / VerifUnlockC12 hold the dirCache's own mutex from the harness: a Retrieve then stops inside markDir,
// i.e. after it has seen that the entry exists and before it opens it - a pause point the file-system seam cannot give.
func VerifLockC12(c *dirCache)   { c.mutex.Lock() }
func VerifUnlockC12(c *dirCache) { c.mutex.Unlock() }

// VerifWaitersC12 reports whether some goroutine is parked on the dirCache's mutex (sync.Mutex keeps the number of
// waiters in the upper bits of its first word; mutexWaiterShift = 3).
func VerifWaitersC12(c *dirCache) bool {
	return atomic.LoadInt32((*int32)(unsafe.Pointer(&c.mutex)))>>3 > 0
}

//go:build verif

package cache

import "github.com/thought-machine/please/src/core"

// VerifNewHTTPCacheC13 builds the real HTTP cache from a configuration, as newSyncCache does.
func VerifNewHTTPCacheC13(config *core.Configuration) core.Cache { return newHTTPCache(config) }

// VerifNewCmdCacheC13 builds the real command cache from a configuration, as newSyncCache does.
func VerifNewCmdCacheC13(config *core.Configuration) core.Cache { return newCmdCache(config) }

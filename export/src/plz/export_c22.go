//go:build verif

package plz

import (
	"github.com/thought-machine/please/src/cli"
	"github.com/thought-machine/please/src/core"
)

// VerifOriginalTargetsC22 runs the command-line target expansion of one invocation (findOriginalTaskSet) on a fresh state
// and returns the labels it registered as original targets.
func VerifOriginalTargetsC22(config *core.Configuration, targets []core.BuildLabel) []core.BuildLabel {
	state := verifStatesC22[config]
	if state == nil {
		state = core.NewBuildState(config)
		verifStatesC22[config] = state
		core.VerifResetOriginalTargets(state, true)
	} else {
		core.VerifResetOriginalTargets(state, false)
	}
	findOriginalTaskSet(state, targets, true, cli.HostArch())
	return core.VerifOriginalTargetLabels(state)
}

// (one state per configuration and process: creating a BuildState costs milliseconds)
var verifStatesC22 = map[*core.Configuration]*core.BuildState{}

//go:build verif

package remote

import (
	pb "github.com/bazelbuild/remote-apis/build/bazel/remote/execution/v2"
	"github.com/bazelbuild/remote-apis-sdks/go/pkg/uploadinfo"
	"google.golang.org/protobuf/proto"

	"github.com/thought-machine/please/src/core"
)

// VerifDirBuilderC28 gives access to the unexported dirBuilder.
type VerifDirBuilderC28 struct{ b *dirBuilder }

// VerifNewDirBuilderC28 makes an empty builder (the client is not used by Dir/Build).
func VerifNewDirBuilderC28() *VerifDirBuilderC28 { return &VerifDirBuilderC28{newDirBuilder(nil)} }

// Dir is dirBuilder.Dir.
func (v *VerifDirBuilderC28) Dir(name string) *pb.Directory { return v.b.Dir(name) }

// Build is dirBuilder.Build; it returns the root and every Directory message sent for upload.
func (v *VerifDirBuilderC28) Build() (*pb.Directory, [][]byte) {
	ch := make(chan *uploadinfo.Entry, 4096)
	root := v.b.Build(ch)
	close(ch)
	var msgs [][]byte
	for e := range ch {
		msgs = append(msgs, e.Contents)
	}
	return root, msgs
}

// VerifNewClientC28 makes a client that is never connected: enough for digest computation (buildAction, uploadInputs
// with label inputs whose outputs are registered through VerifSetOutputsC28).
func VerifNewClientC28(state *core.BuildState) *Client {
	return &Client{
		state:        state,
		instance:     "verif",
		outputs:      map[core.BuildLabel]*pb.Directory{},
		subrepoTrees: map[core.BuildLabel]*pb.Tree{},
		platform:     convertPlatform([]string{"OSFamily=linux"}),
		shellPath:    "/bin/sh",
		userHome:     "/home/verif",
	}
}

// VerifSetOutputsC28 registers the outputs of an already "built" target.
func (c *Client) VerifSetOutputsC28(label core.BuildLabel, d *pb.Directory) {
	c.outputMutex.Lock()
	defer c.outputMutex.Unlock()
	c.outputs[label] = d
}

// VerifResetC28 forgets all outputs.
func (c *Client) VerifResetC28(state *core.BuildState) {
	c.outputMutex.Lock()
	defer c.outputMutex.Unlock()
	c.outputs = map[core.BuildLabel]*pb.Directory{}
	c.state = state
}

// VerifStoreDirectoryC28 makes a Directory known by digest (as if it had been downloaded) and returns the digest.
func (c *Client) VerifStoreDirectoryC28(d *pb.Directory) *pb.Digest {
	dg := c.digestMessage(d)
	c.directories.Store(dg.Hash, d)
	return dg
}

// VerifUploadInputsC28 is uploadInputs: the input root plus every Directory message sent for upload.
func (c *Client) VerifUploadInputsC28(target *core.BuildTarget, isTest bool) (*pb.Directory, [][]byte, error) {
	ch := make(chan *uploadinfo.Entry, 4096)
	root, err := c.uploadInputs(ch, target, isTest)
	close(ch)
	var msgs [][]byte
	for e := range ch {
		msgs = append(msgs, e.Contents)
	}
	return root, msgs, err
}

// VerifBuildActionC28 is buildAction for a build (not test) action.
func (c *Client) VerifBuildActionC28(target *core.BuildTarget) (*pb.Command, *pb.Digest, error) {
	return c.buildAction(target, false, false, 1)
}

// VerifBuildEnvC28 is buildEnv.
func (c *Client) VerifBuildEnvC28(target *core.BuildTarget, env core.BuildEnv, sandbox bool) []*pb.Command_EnvironmentVariable {
	return c.buildEnv(target, env, sandbox)
}

// VerifDigestC28 is digestMessage.
func (c *Client) VerifDigestC28(msg proto.Message) *pb.Digest { return c.digestMessage(msg) }

//go:build verif

package asp

import (
	"bytes"
	"errors"
)

// VerifErrPosC19 reports the source position carried by err (or by an error in its chain), if any.
func VerifErrPosC19(err error) (FilePosition, bool) {
	var st *errorStack
	if errors.As(err, &st) && st != nil && len(st.Stack) > 0 {
		return st.Stack[0], true
	}
	return FilePosition{}, false
}

// VerifErrCauseC19 returns the underlying error below the position wrapper (err itself if there is no wrapper).
func VerifErrCauseC19(err error) error {
	var st *errorStack
	if errors.As(err, &st) && st != nil && st.err != nil {
		return st.err
	}
	return err
}

// VerifParseRawC19 is the loop of parseFileInput WITHOUT its recover. It is used only to find the panic site
// of an input that ParseData has already been seen to mishandle (classification; never the verdict).
func VerifParseRawC19(data []byte, name string) {
	p := &parser{l: newLexer(&namedReader{r: bytes.NewReader(data), name: name})}
	for tok := p.l.Peek(); tok.Type != EOF; tok = p.l.Peek() {
		p.parseStatement()
	}
}

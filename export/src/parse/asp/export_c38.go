//go:build verif

package asp

import (
	"fmt"
	"sort"
	"strings"

	"github.com/thought-machine/please/src/core"
)

// VerifEvalBuildC38 parses and interprets code as the BUILD file of pkg, exactly as ParseFile does
// (parseAndHandleErrors + interpreter.interpretAll), and returns the file-level globals as plain Go values.
func VerifEvalBuildC38(p *Parser, pkg *core.Package, code string) (map[string]any, error) {
	p.limiter.Acquire() // as ParseFile does; the real subinclude() releases and re-acquires it while it waits
	defer p.limiter.Release()
	stmts, err := p.parseAndHandleErrors(&namedReader{r: strings.NewReader(code), name: "verif_c38_input.build"})
	if err != nil {
		return nil, err
	}
	s, err := p.interpreter.interpretAll(pkg, nil, nil, 0, stmts)
	if err != nil {
		return nil, err
	}
	out := map[string]any{}
	for k, v := range s.locals {
		if k == "CONFIG" {
			continue
		}
		out[k] = verifPlainC38(v)
	}
	return out, nil
}

// VerifRecordSubincludesC38 replaces the native code of subinclude() by a recorder of the (flattened) arguments
// of every call, in order, each with what the call could see at that moment: the targets the package has so far (a
// local label must be defined before the subinclude) and the calling scope's variables. Nothing is loaded.
func VerifRecordSubincludesC38(p *Parser, rec func(label string)) {
	setNativeCode(p.interpreter.scope, "subinclude", func(s *scope, args []pyObject) pyObject {
		var names []string
		if s.pkg != nil {
			for _, t := range s.pkg.AllTargets() {
				names = append(names, t.Label.Name)
			}
		}
		sort.Strings(names)
		var vars []string
		for k, v := range s.locals {
			if k != "CONFIG" {
				vars = append(vars, fmt.Sprintf("%s=%v", k, verifPlainC38(v)))
			}
		}
		sort.Strings(vars)
		ctx := fmt.Sprintf(" @ targets=%v vars=%v", names, vars)
		for _, arg := range args {
			switch a := arg.(type) {
			case pyList:
				for _, e := range a {
					rec(fmt.Sprintf("%v", verifPlainC38(e)) + ctx)
				}
			default:
				rec(fmt.Sprintf("%v", verifPlainC38(arg)) + ctx)
			}
		}
		return None
	}, true)
}

func verifPlainC38(v pyObject) any {
	switch x := v.(type) {
	case nil:
		return "<nil>"
	case pyBool:
		return bool(x)
	case pyNone:
		return nil
	case pyInt:
		return int(x)
	case pyString:
		return string(x)
	case pyList:
		out := make([]any, len(x))
		for i, e := range x {
			out[i] = verifPlainC38(e)
		}
		return out
	case pyFrozenList:
		return verifPlainC38(x.pyList)
	case pyDict:
		out := map[string]any{}
		for k, e := range x {
			out[k] = verifPlainC38(e)
		}
		return out
	case pyFrozenDict:
		return verifPlainC38(x.pyDict)
	case *pyFunc:
		aliases := []string{}
		for name, idx := range x.argIndices {
			aliases = append(aliases, fmt.Sprintf("%s=%d", name, idx))
		}
		sort.Strings(aliases)
		defaults := make([]any, len(x.args))
		for i := range x.args {
			switch {
			case i < len(x.constants) && x.constants[i] != nil:
				defaults[i] = verifPlainC38(x.constants[i])
			case i < len(x.defaults) && x.defaults[i] != nil:
				defaults[i] = "<expression>"
			default:
				defaults[i] = "<none>"
			}
		}
		return map[string]any{
			"<func>": x.name, "args": fmt.Sprint(x.args), "names": fmt.Sprint(aliases), "types": fmt.Sprint(x.types),
			"defaults": defaults, "kwargsonly": x.kwargsonly, "varargs": x.varargs, "kwargs": x.kwargs,
			"return": x.returnType, // the docstring is documentation, not a value: left out
		}
	default:
		return fmt.Sprintf("%T:%s", v, v.String())
	}
}

//go:build verif

package asp

import (
	"fmt"
	"strings"

	"github.com/thought-machine/please/src/core"
)

// VerifToGoC16 converts an interpreter value to plain Go data (int, string, bool, nil, []any, map[string]any).
// ok is false for values that have no plain counterpart (functions, CONFIG, sentinels).
func VerifToGoC16(o pyObject) (v any, ok bool) {
	switch t := o.(type) {
	case pyInt:
		return int(t), true
	case pyString:
		return string(t), true
	case pyBool:
		return bool(t), true
	case pyNone:
		return nil, true
	case pyFrozenList:
		return VerifToGoC16(t.pyList)
	case pyList:
		out := make([]any, len(t))
		for i, x := range t {
			e, ok := VerifToGoC16(x)
			if !ok {
				return nil, false
			}
			out[i] = e
		}
		return out, true
	case pyFrozenDict:
		return VerifToGoC16(t.pyDict)
	case pyDict:
		out := make(map[string]any, len(t))
		for k, x := range t {
			e, ok := VerifToGoC16(x)
			if !ok {
				return nil, false
			}
			out[k] = e
		}
		return out, true
	case *pyRange:
		return VerifToGoC16(t.toList(0))
	}
	return nil, false
}

func verifGlobalsC16(d pyDict) map[string]any {
	out := make(map[string]any, len(d))
	for k, o := range d {
		if k == "CONFIG" {
			continue
		}
		if v, ok := VerifToGoC16(o); ok {
			out[k] = v
		}
	}
	return out
}

func verifRecoverC16(err *error) {
	if r := recover(); r != nil {
		*err = fmt.Errorf("panic: %v", r)
	}
}

// VerifEvalBuildC16 evaluates code exactly as Parser.ParseReader does for a BUILD file (parse, then
// interpretAll in a package scope; no optimise / optimiseExpressions) and returns the plain globals.
func VerifEvalBuildC16(p *Parser, pkg *core.Package, code string) (res map[string]any, err error) {
	p.limiter.Acquire() // as ParseFile/ParseReader do; subinclude() releases and re-acquires it while waiting
	defer p.limiter.Release()
	defer verifRecoverC16(&err)
	stmts, err := p.parseAndHandleErrors(strings.NewReader(code))
	if err != nil {
		return nil, err
	}
	s, err := p.interpreter.interpretAll(pkg, nil, nil, 0, stmts)
	if err != nil {
		return nil, err
	}
	return verifGlobalsC16(s.locals), nil
}

// VerifEvalDefsC16 evaluates code the way a subincluded build_defs file is: parse, Parser.optimise,
// interpreter.optimiseExpressions (parseSubinclude), interpretation in a fresh child of the root scope with its
// own CONFIG copy, then scope.Freeze (Subinclude). Returns the plain (frozen) globals.
func VerifEvalDefsC16(p *Parser, code string) (res map[string]any, err error) {
	defer verifRecoverC16(&err)
	stmts, err := p.ParseData([]byte(code), "verif.build_defs")
	if err != nil {
		return nil, err
	}
	i := p.interpreter
	stmts = p.optimise(stmts)
	i.optimiseExpressions(stmts)
	s := i.scope.NewScope("verif.build_defs", 0)
	s.config = i.scope.config.Copy()
	s.Set("CONFIG", s.config)
	if _, err := i.interpretStatements(s, stmts); err != nil {
		return nil, err
	}
	return verifGlobalsC16(s.Freeze()), nil
}

// VerifPkgRunC17 is a package whose top-level statements are interpreted one at a time (the scope is made by the
// real interpretAll, so it is exactly the scope a normal parse of the package uses).
type VerifPkgRunC17 struct {
	p     *Parser
	s     *scope
	stmts []*Statement
}

// VerifStartPackageC17 parses code and creates the package scope (interpretAll with no statements).
func VerifStartPackageC17(p *Parser, pkg *core.Package, code string) (run *VerifPkgRunC17, err error) {
	p.limiter.Acquire()
	defer p.limiter.Release()
	defer verifRecoverC16(&err)
	stmts, err := p.parseAndHandleErrors(strings.NewReader(code))
	if err != nil {
		return nil, err
	}
	s, err := p.interpreter.interpretAll(pkg, nil, nil, 0, nil)
	if err != nil {
		return nil, err
	}
	s.Callback = false // interpretAll sets it once the (here: empty) statement list is done
	return &VerifPkgRunC17{p: p, s: s, stmts: stmts}, nil
}

// Len is the number of top-level statements.
func (r *VerifPkgRunC17) Len() int { return len(r.stmts) }

// Step interprets top-level statement k in the package scope.
func (r *VerifPkgRunC17) Step(k int) (err error) {
	r.p.limiter.Acquire()
	defer r.p.limiter.Release()
	defer verifRecoverC16(&err)
	_, err = r.p.interpreter.interpretStatements(r.s, r.stmts[k:k+1])
	return err
}

// Globals returns the plain globals of the package scope.
func (r *VerifPkgRunC17) Globals() map[string]any { return verifGlobalsC16(r.s.locals) }

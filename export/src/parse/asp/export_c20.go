//go:build verif

package asp

import "github.com/thought-machine/please/src/core"

// VerifValidateSandboxC20 exposes validateSandbox (sandbox opt-out whitelist / experimental-dir exemption).
func VerifValidateSandboxC20(state *core.BuildState, target *core.BuildTarget) error {
	return validateSandbox(state, target)
}

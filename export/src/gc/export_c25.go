//go:build verif

package gc

import "github.com/thought-machine/please/src/core"

// VerifTargetsToRemoveC25 exposes the dry-run computation of `plz gc`: the targets and source files it would propose to remove.
func VerifTargetsToRemoveC25(graph *core.BuildGraph, filter, targets, targetsToKeep []core.BuildLabel, keepLabels []string, includeTests bool) (core.BuildLabels, []string) {
	return targetsToRemove(graph, filter, targets, targetsToKeep, keepLabels, includeTests)
}

//go:build verif

package core

// VerifCycleCheck runs the real cycle detector over a graph once.
func VerifCycleCheck(g *BuildGraph) []*BuildTarget {
	c := &cycleDetector{graph: g}
	if e := c.Check(); e != nil {
		return e.Cycle
	}
	return nil
}

// VerifUnforwardedResults returns how many build results have been logged but not yet forwarded to the Results() channel.
func VerifUnforwardedResults(state *BuildState) int {
	return len(state.progress.internalResults)
}

// VerifNewCycleChecker returns a long-lived detector for g, as the build uses one: every call runs one Check.
func VerifNewCycleChecker(g *BuildGraph) func() []*BuildTarget {
	c := &cycleDetector{graph: g}
	return func() []*BuildTarget {
		if e := c.Check(); e != nil {
			return e.Cycle
		}
		return nil
	}
}

// VerifResolveDep resolves from's declared dependency on to (as happens one by one while a build runs).
func VerifResolveDep(from, to *BuildTarget) { from.resolveDependency(to.Label, to) }

// VerifOriginalTargetLabels returns the labels recorded as original (command-line) targets, unexpanded.
func VerifOriginalTargetLabels(state *BuildState) []BuildLabel {
	return state.progress.originalTargets.AllTargets()
}

// VerifResetOriginalTargets forgets the recorded original targets and keeps the parse queue drained (nothing is parsed):
// lets a harness reuse one state for many command-line expansions.
func VerifResetOriginalTargets(state *BuildState, startDrain bool) {
	state.progress.originalTargets = NewTargetSet()
	if startDrain {
		go func() {
			for range state.pendingParses {
			}
		}()
	}
}

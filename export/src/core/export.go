//go:build verif

package core

// VerifCycleCheck runs the real cycle detector over a graph once.
func VerifCycleCheck(g *BuildGraph) []*BuildTarget {
	c := &cycleDetector{graph: g}
	if e := c.Check(); e != nil {
		return e.Cycle
	}
	return nil
}

// VerifUnforwardedResults returns how many build results have been logged but not yet forwarded to the Results() channel.
func VerifUnforwardedResults(state *BuildState) int {
	return len(state.progress.internalResults)
}

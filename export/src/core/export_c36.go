//go:build verif

package core

// VerifResetOriginalTargetsC36 gives the state an empty set of command-line targets (TargetSet has no reset).
func VerifResetOriginalTargetsC36(state *BuildState) {
	state.progress.originalTargets = NewTargetSet()
}

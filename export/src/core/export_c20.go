//go:build verif

package core

// VerifIsExperimentalC20 exposes BuildLabel.isExperimental (the experimental-directory membership test).
func VerifIsExperimentalC20(state *BuildState, label BuildLabel) bool {
	return label.isExperimental(state)
}

//go:build verif

package test

import (
	"time"

	"github.com/thought-machine/please/src/core"
)

// VerifParseDatumC26 is the format-dispatching parser of one results file.
func VerifParseDatumC26(data []byte) (core.TestSuite, error) { return parseTestResultDatum(data) }

// VerifParseTestOutputC26 combines parsed results with the exit status of the test process.
func VerifParseTestOutputC26(runErr error, target *core.BuildTarget, data [][]byte) core.TestSuite {
	return parseTestOutput("", "", runErr, time.Millisecond, target, data)
}

// VerifDoFlakeRunC26 is the real flaky-retry loop, executing "remotely" (i.e. through state.RemoteClient).
func VerifDoFlakeRunC26(state *core.BuildState, target *core.BuildTarget) core.TestSuite {
	results, _ := doFlakeRun(state, target, 1, true)
	return results
}

// VerifSerialiseC26 writes the results of all test targets of the graph the way --test_results_file does.
func VerifSerialiseC26(graph *core.BuildGraph) []byte { return mustSerialiseResults(graph, false) }

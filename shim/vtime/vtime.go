//go:build verif

// Package vtime provides the timer-creating parts of package time on the scheduler's fake clock.
package vtime

import (
	"time"

	"github.com/thought-machine/please/verifshim/vsched"
)

type Timer struct {
	C    <-chan time.Time
	stop func() bool
	f    func()
}

func (t *Timer) Stop() bool { return t.stop() }

func (t *Timer) Reset(d time.Duration) bool {
	was := t.stop()
	if t.f != nil {
		t.stop = vsched.AfterFunc(d, t.f)
	} else {
		ch, stop := vsched.NewTimerChan(d, 0)
		t.C, t.stop = ch, stop
	}
	return was
}

type Ticker struct {
	C    <-chan time.Time
	stop func() bool
}

func (t *Ticker) Stop()                 { t.stop() }
func (t *Ticker) Reset(d time.Duration) {}

func After(d time.Duration) <-chan time.Time {
	if !vsched.Active() {
		if vsched.Dead() {
			return make(chan time.Time)
		}
		return time.After(d)
	}
	ch, _ := vsched.NewTimerChan(d, 0)
	return ch
}

func NewTimer(d time.Duration) *Timer {
	ch, stop := vsched.NewTimerChan(d, 0)
	return &Timer{C: ch, stop: stop}
}

func NewTicker(d time.Duration) *Ticker {
	ch, stop := vsched.NewTimerChan(d, d)
	return &Ticker{C: ch, stop: stop}
}

func Tick(d time.Duration) <-chan time.Time { return NewTicker(d).C }

func AfterFunc(d time.Duration, f func()) *Timer {
	return &Timer{stop: vsched.AfterFunc(d, f), f: f}
}

func Sleep(d time.Duration) { vsched.Sleep(d) }

//go:build verif

// Package vfile is a small in-memory model of the few file operations src/remote/fs/cache performs on its blob
// directory. Under the controlled scheduler every system call is one atomic step on the file's object, and
// os.WriteFile is what it is in the kernel: open with O_CREATE|O_TRUNC (the file exists and is empty), then the
// bytes arrive in two writes, then close. Outside a controlled execution every function is the real one.
package vfile

import (
	"os"
	"path/filepath"
	"time"

	iofs "io/fs"

	"github.com/thought-machine/please/verifshim/vsched"
)

// World is the file system of one execution.
type World struct {
	Files map[string][]byte
	Dirs  map[string]bool
	Log   []string
}

var world *World

// NewWorld installs an empty file system for one controlled execution.
func NewWorld() *World {
	world = &World{Files: map[string][]byte{}, Dirs: map[string]bool{"/": true}}
	return world
}

type fileObj struct{ path string }

var objs = map[string]*fileObj{}

func step(path string) {
	o := objs[path]
	if o == nil {
		o = &fileObj{path}
		objs[path] = o
	}
	vsched.Point(vsched.OpAtomic, o, "file "+filepath.Base(path), nil)
}

// WriteFile is os.WriteFile.
func WriteFile(name string, data []byte, perm os.FileMode) error {
	if !vsched.Active() {
		if vsched.Dead() {
			return nil
		}
		return os.WriteFile(name, data, perm)
	}
	w := world
	step(name)
	if !w.Dirs[filepath.Dir(name)] {
		return &os.PathError{Op: "open", Path: name, Err: os.ErrNotExist}
	}
	w.Files[name] = []byte{}
	w.Log = append(w.Log, "open(O_TRUNC) "+filepath.Base(name))
	if len(data) > 1 {
		step(name)
		w.Files[name] = append([]byte{}, data[:len(data)/2]...)
		w.Log = append(w.Log, "write first half "+filepath.Base(name))
	}
	step(name)
	w.Files[name] = append([]byte{}, data...)
	w.Log = append(w.Log, "write rest "+filepath.Base(name))
	return nil
}

// ReadFile is os.ReadFile.
func ReadFile(name string) ([]byte, error) {
	if !vsched.Active() {
		if vsched.Dead() {
			return nil, os.ErrNotExist
		}
		return os.ReadFile(name)
	}
	step(name)
	b, ok := world.Files[name]
	if !ok {
		return nil, &os.PathError{Op: "open", Path: name, Err: os.ErrNotExist}
	}
	return append([]byte{}, b...), nil
}

type info struct {
	name string
	size int64
	dir  bool
}

func (i info) Name() string { return i.name }
func (i info) Size() int64  { return i.size }
func (i info) Mode() iofs.FileMode {
	if i.dir {
		return iofs.ModeDir | 0775
	}
	return 0644
}
func (i info) ModTime() time.Time { return time.Time{} }
func (i info) IsDir() bool        { return i.dir }
func (i info) Sys() any           { return nil }

// Lstat is os.Lstat.
func Lstat(name string) (os.FileInfo, error) {
	if !vsched.Active() {
		if vsched.Dead() {
			return nil, os.ErrNotExist
		}
		return os.Lstat(name)
	}
	step(name)
	if b, ok := world.Files[name]; ok {
		return info{filepath.Base(name), int64(len(b)), false}, nil
	}
	if world.Dirs[name] {
		return info{filepath.Base(name), 0, true}, nil
	}
	return nil, &os.PathError{Op: "lstat", Path: name, Err: os.ErrNotExist}
}

// MkdirAll is os.MkdirAll.
func MkdirAll(path string, perm os.FileMode) error {
	if !vsched.Active() {
		if vsched.Dead() {
			return nil
		}
		return os.MkdirAll(path, perm)
	}
	step(path)
	for p := path; ; p = filepath.Dir(p) {
		world.Dirs[p] = true
		if p == "/" || p == "." {
			break
		}
	}
	return nil
}

//go:build verif

// Package vproc is a small model of the kernel's process side as src/process uses it: starting a command, waiting for
// it, signalling its process group, and the deadline context. Under the controlled scheduler every call is one atomic
// step on the "kernel" object; the processes of a command are threads of the scheduler that exit by themselves at a
// fake-clock instant given by the harness. Outside a controlled execution every function is the real one.
//
// Model (kept boring; it is validated against the real kernel by C30's real-execution tier, which runs the same cases):
//   - Start creates the command's main process (pid P, process group P) and, per the harness's Spec, one background
//     child in the same group that may hold the command's output pipe.
//   - Kill(-P, SIGTERM) ends every live process of the group that does not ignore SIGTERM; Kill(-P, SIGKILL) ends all.
//     Kill(P, sig) affects only the main process. A signal to a group without live members fails with ESRCH.
//   - Wait returns once the main process is dead AND no live process holds the output pipe (os/exec's Wait waits for
//     its copying goroutines, which end when every holder of the pipe's write end is gone).
package vproc

import (
	"context"
	"errors"
	"fmt"
	"os"
	"os/exec"
	"strconv"
	"syscall"
	"time"

	"github.com/thought-machine/please/verifshim/vsched"
)

// Spec describes the command that the next Start will create.
type Spec struct {
	IgnoreTerm      bool          // the main process ignores SIGTERM
	ChildIgnoreTerm bool          // the background child ignores SIGTERM
	Child           string        // "none", "holds-stdout", "detached" (same process group; detached = does not hold the pipe)
	ExitAfter       time.Duration // the main process exits by itself at this instant (<=0: never)
	ChildFor        time.Duration // the child exits by itself at this instant (<=0: never)
}

type proc struct {
	pid, pgid  int
	alive      bool
	ignoreTerm bool
	holdsOut   bool
	killedBy   syscall.Signal
	cmd        *exec.Cmd
}

// World is the kernel state of one execution.
type World struct {
	Specs   []Spec // the command whose last argument is the decimal number i gets Specs[i]
	procs   []*proc
	cmds    map[*exec.Cmd][]*proc
	main    map[int]*proc // spec index -> main process
	nextPid int
	Log     []string
}

var world *World

// NewWorld installs a fresh kernel model for one controlled execution.
func NewWorld(specs ...Spec) *World {
	world = &World{Specs: specs, nextPid: 1000, cmds: map[*exec.Cmd][]*proc{}, main: map[int]*proc{}}
	return world
}

// Alive returns the number of live processes started for command i.
func (w *World) Alive(i int) int {
	n := 0
	if m := w.main[i]; m != nil {
		for _, p := range w.procs {
			if p.alive && p.cmd == m.cmd {
				n++
			}
		}
	}
	return n
}

// MainAlive reports whether command i's main process is alive.
func (w *World) MainAlive(i int) bool { return w.main[i] != nil && w.main[i].alive }

// MainExitedByItself reports whether command i's main process ended without a signal.
func (w *World) MainExitedByItself(i int) bool {
	m := w.main[i]
	return m != nil && !m.alive && m.killedBy == 0
}

func step() { vsched.Point(vsched.OpAtomic, world, "kernel", nil) }

func (w *World) spawn(cmd *exec.Cmd, pgid int, ignoreTerm, holdsOut bool, exitAfter time.Duration, name string) *proc {
	w.nextPid++
	p := &proc{pid: w.nextPid, alive: true, ignoreTerm: ignoreTerm, holdsOut: holdsOut, cmd: cmd}
	if pgid == 0 {
		pgid = p.pid
	}
	p.pgid = pgid
	w.procs = append(w.procs, p)
	w.cmds[cmd] = append(w.cmds[cmd], p)
	if exitAfter > 0 {
		vsched.GoNamed(name, func() {
			vsched.SetDaemon()
			vsched.Sleep(exitAfter)
			step()
			if p.alive {
				p.alive = false
				w.Log = append(w.Log, name+" exits by itself")
			}
		})
	}
	return p
}

// Start is (*exec.Cmd).Start.
func Start(cmd *exec.Cmd) error {
	if !vsched.Active() {
		return cmd.Start()
	}
	step()
	w := world
	idx, _ := strconv.Atoi(cmd.Args[len(cmd.Args)-1])
	spec := w.Specs[idx]
	pgid := 0
	if cmd.SysProcAttr == nil || !cmd.SysProcAttr.Setpgid {
		pgid = 1 // stays in the caller's process group
	}
	m := w.spawn(cmd, pgid, spec.IgnoreTerm, true, spec.ExitAfter, fmt.Sprintf("proc%d-main", idx))
	w.main[idx] = m
	switch spec.Child {
	case "holds-stdout":
		w.spawn(cmd, m.pgid, spec.ChildIgnoreTerm, true, spec.ChildFor, fmt.Sprintf("proc%d-child", idx))
	case "detached":
		w.spawn(cmd, m.pgid, spec.ChildIgnoreTerm, false, spec.ChildFor, fmt.Sprintf("proc%d-child", idx))
	}
	cmd.Process = &os.Process{Pid: m.pid}
	return nil
}

func (w *World) waitable(cmd *exec.Cmd) bool {
	ps := w.cmds[cmd]
	if len(ps) == 0 || ps[0].alive {
		return false
	}
	for _, p := range ps {
		if p.alive && p.holdsOut {
			return false
		}
	}
	return true
}

// Wait is (*exec.Cmd).Wait.
func Wait(cmd *exec.Cmd) error {
	if !vsched.Active() {
		if vsched.Dead() {
			return errors.New("execution over")
		}
		return cmd.Wait()
	}
	w := world
	vsched.Point(vsched.OpAtomic, w, "kernel", func() bool { return w.waitable(cmd) })
	if s := w.cmds[cmd][0].killedBy; s != 0 {
		return errors.New("signal: " + s.String())
	}
	return nil
}

// Kill is syscall.Kill.
func Kill(pid int, sig syscall.Signal) error {
	if !vsched.Active() {
		if vsched.Dead() {
			return nil
		}
		return syscall.Kill(pid, sig)
	}
	step()
	w := world
	found := false
	for _, p := range w.procs {
		if !p.alive {
			continue
		}
		if (pid < 0 && p.pgid == -pid) || (pid > 0 && p.pid == pid) {
			found = true
			if sig == syscall.SIGKILL || (sig == syscall.SIGTERM && !p.ignoreTerm) {
				p.alive = false
				p.killedBy = sig
			}
		}
	}
	if !found {
		return syscall.ESRCH
	}
	return nil
}

// deadline context on the fake clock.
type tctx struct {
	context.Context
	done     chan struct{}
	err      error
	deadline time.Time
}

func (c *tctx) Done() <-chan struct{}       { return c.done }
func (c *tctx) Err() error                  { return c.err }
func (c *tctx) Deadline() (time.Time, bool) { return c.deadline, true }

func (c *tctx) cancel(err error) {
	if c.err == nil {
		c.err = err
		vsched.Close(c.done)
	}
}

// WithTimeout is context.WithTimeout.
func WithTimeout(parent context.Context, d time.Duration) (context.Context, context.CancelFunc) {
	if !vsched.Active() {
		return context.WithTimeout(parent, d)
	}
	c := &tctx{Context: parent, done: make(chan struct{}), deadline: vsched.Now().Add(d)}
	stop := vsched.AfterFunc(d, func() {
		vsched.SetDaemon()
		c.cancel(context.DeadlineExceeded)
	})
	return c, func() {
		stop()
		if vsched.Active() {
			c.cancel(context.Canceled)
		}
	}
}

//go:build verif

// Package verrgroup mirrors golang.org/x/sync/errgroup on top of the controlled scheduler.
package verrgroup

import (
	"context"

	"github.com/thought-machine/please/verifshim/vsched"
	"github.com/thought-machine/please/verifshim/vsync"
)

type Group struct {
	cancel func(error)
	wg     vsync.WaitGroup
	mu     vsync.Mutex
	err    error
	limit  int
	active int
}

func WithContext(ctx context.Context) (*Group, context.Context) {
	ctx, cancel := context.WithCancelCause(ctx)
	return &Group{cancel: cancel}, ctx
}

func (g *Group) SetLimit(n int) { g.limit = n }

func (g *Group) Go(f func() error) {
	if g.limit > 0 {
		vsched.Point(vsched.OpLock, &g.limit, "errgroup-sem", func() bool { return g.active < g.limit })
		g.active++
	}
	g.wg.Add(1)
	vsched.Go(func() {
		defer func() {
			if g.limit > 0 {
				vsched.Point(vsched.OpUnlock, &g.limit, "errgroup-sem", nil)
				g.active--
			}
			g.wg.Done()
		}()
		if err := f(); err != nil {
			g.mu.Lock()
			if g.err == nil {
				g.err = err
				if g.cancel != nil {
					g.cancel(g.err)
				}
			}
			g.mu.Unlock()
		}
	})
}

func (g *Group) TryGo(f func() error) bool {
	if g.limit > 0 && g.active >= g.limit {
		return false
	}
	g.Go(f)
	return true
}

func (g *Group) Wait() error {
	g.wg.Wait()
	if g.cancel != nil {
		g.cancel(g.err)
	}
	return g.err
}

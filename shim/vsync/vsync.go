//go:build verif

// Package vsync mirrors the parts of package sync that the repository uses, with every operation a vsched point.
package vsync

import (
	"sync"

	"github.com/thought-machine/please/verifshim/vsched"
)

type Locker = sync.Locker
type Pool = sync.Pool

// Mutex is a modelled mutex: Lock is enabled iff free.
type Mutex struct {
	held bool
	real sync.Mutex
}

func (m *Mutex) Lock() {
	if !vsched.Active() {
		if !vsched.Dead() {
			m.real.Lock()
		}
		return
	}
	vsched.Point(vsched.OpLock, m, "mutex", func() bool { return !m.held })
	m.held = true
}

func (m *Mutex) TryLock() bool {
	if !vsched.Active() {
		if !vsched.Dead() {
			return m.real.TryLock()
		}
		return true
	}
	vsched.Point(vsched.OpLock, m, "mutex", nil)
	if m.held {
		return false
	}
	m.held = true
	return true
}

func (m *Mutex) Unlock() {
	if !vsched.Active() {
		if !vsched.Dead() {
			m.real.Unlock()
		}
		return
	}
	vsched.Release(vsched.OpUnlock, m, "mutex")
	if !m.held {
		panic("sync: unlock of unlocked mutex")
	}
	m.held = false
}

// RWMutex is a modelled reader/writer lock (no writer preference: every admissible order is explored).
type RWMutex struct {
	writer  bool
	readers int
	real    sync.RWMutex
}

func (m *RWMutex) Lock() {
	if !vsched.Active() {
		if !vsched.Dead() {
			m.real.Lock()
		}
		return
	}
	vsched.Point(vsched.OpLock, m, "rwmutex", func() bool { return !m.writer && m.readers == 0 })
	m.writer = true
}

func (m *RWMutex) Unlock() {
	if !vsched.Active() {
		if !vsched.Dead() {
			m.real.Unlock()
		}
		return
	}
	vsched.Release(vsched.OpUnlock, m, "rwmutex")
	if !m.writer {
		panic("sync: Unlock of unlocked RWMutex")
	}
	m.writer = false
}

func (m *RWMutex) RLock() {
	if !vsched.Active() {
		if !vsched.Dead() {
			m.real.RLock()
		}
		return
	}
	vsched.Point(vsched.OpRLock, m, "rwmutex", func() bool { return !m.writer })
	m.readers++
}

func (m *RWMutex) RUnlock() {
	if !vsched.Active() {
		if !vsched.Dead() {
			m.real.RUnlock()
		}
		return
	}
	vsched.Release(vsched.OpRUnlock, m, "rwmutex")
	if m.readers <= 0 {
		panic("sync: RUnlock of unlocked RWMutex")
	}
	m.readers--
}

func (m *RWMutex) TryLock() bool {
	if !vsched.Active() {
		return vsched.Dead() || m.real.TryLock()
	}
	vsched.Point(vsched.OpLock, m, "rwmutex", nil)
	if m.writer || m.readers > 0 {
		return false
	}
	m.writer = true
	return true
}

func (m *RWMutex) TryRLock() bool {
	if !vsched.Active() {
		return vsched.Dead() || m.real.TryRLock()
	}
	vsched.Point(vsched.OpRLock, m, "rwmutex", nil)
	if m.writer {
		return false
	}
	m.readers++
	return true
}

func (m *RWMutex) RLocker() Locker { return (*rlocker)(m) }

type rlocker RWMutex

func (r *rlocker) Lock()   { (*RWMutex)(r).RLock() }
func (r *rlocker) Unlock() { (*RWMutex)(r).RUnlock() }

// WaitGroup: Wait is enabled iff the counter is zero.
type WaitGroup struct {
	n    int
	real sync.WaitGroup
}

func (wg *WaitGroup) Add(delta int) {
	if !vsched.Active() {
		if !vsched.Dead() {
			wg.real.Add(delta)
		}
		return
	}
	vsched.Point(vsched.OpWgAdd, wg, "waitgroup", nil)
	wg.n += delta
	if wg.n < 0 {
		panic("sync: negative WaitGroup counter")
	}
}

func (wg *WaitGroup) Done() { wg.Add(-1) }

func (wg *WaitGroup) Wait() {
	if !vsched.Active() {
		if !vsched.Dead() {
			wg.real.Wait()
		}
		return
	}
	vsched.Point(vsched.OpWgWait, wg, "waitgroup", func() bool { return wg.n == 0 })
}

func (wg *WaitGroup) Go(f func()) {
	wg.Add(1)
	vsched.Go(func() {
		defer wg.Done()
		f()
	})
}

// Once: a second caller blocks while the first is still running f.
type Once struct {
	done    bool
	running bool
	real    sync.Once
}

func (o *Once) Do(f func()) {
	if !vsched.Active() {
		if !vsched.Dead() {
			if o.done {
				return
			}
			o.real.Do(func() { f(); o.done = true })
		}
		return
	}
	vsched.Point(vsched.OpOnce, o, "once", func() bool { return !o.running })
	if o.done {
		return
	}
	o.running = true
	defer func() {
		o.done = true
		o.running = false
	}()
	f()
}

// Map wraps sync.Map with a scheduling point before every operation.
type Map struct {
	m sync.Map
}

func (m *Map) pt() { vsched.Point(vsched.OpAtomic, m, "syncmap", nil) }

func (m *Map) Load(key any) (any, bool)               { m.pt(); return m.m.Load(key) }
func (m *Map) Store(key, value any)                   { m.pt(); m.m.Store(key, value) }
func (m *Map) LoadOrStore(key, value any) (any, bool) { m.pt(); return m.m.LoadOrStore(key, value) }
func (m *Map) LoadAndDelete(key any) (any, bool)      { m.pt(); return m.m.LoadAndDelete(key) }
func (m *Map) Delete(key any)                         { m.pt(); m.m.Delete(key) }
func (m *Map) Swap(key, value any) (any, bool)        { m.pt(); return m.m.Swap(key, value) }
func (m *Map) CompareAndSwap(key, old, new any) bool {
	m.pt()
	return m.m.CompareAndSwap(key, old, new)
}
func (m *Map) CompareAndDelete(key, old any) bool { m.pt(); return m.m.CompareAndDelete(key, old) }
func (m *Map) Range(f func(key, value any) bool)  { m.pt(); m.m.Range(f) }
func (m *Map) Clear()                             { m.pt(); m.m.Clear() }

// Cond is a modelled condition variable.
type Cond struct {
	L       Locker
	waiters []*int
}

func NewCond(l Locker) *Cond { return &Cond{L: l} }

func (c *Cond) Wait() {
	if !vsched.Active() {
		return
	}
	tok := new(int)
	c.waiters = append(c.waiters, tok)
	c.L.Unlock()
	vsched.Point(vsched.OpCond, c, "cond", func() bool { return *tok == 1 })
	c.L.Lock()
}

func (c *Cond) Signal() {
	if !vsched.Active() {
		return
	}
	vsched.Point(vsched.OpCond, c, "cond", nil)
	if len(c.waiters) > 0 {
		*c.waiters[0] = 1
		c.waiters = c.waiters[1:]
	}
}

func (c *Cond) Broadcast() {
	if !vsched.Active() {
		return
	}
	vsched.Point(vsched.OpCond, c, "cond", nil)
	for _, w := range c.waiters {
		*w = 1
	}
	c.waiters = nil
}

func OnceFunc(f func()) func() {
	var o Once
	return func() { o.Do(f) }
}

func OnceValue[T any](f func() T) func() T {
	var o Once
	var v T
	return func() T { o.Do(func() { v = f() }); return v }
}

func OnceValues[T1, T2 any](f func() (T1, T2)) func() (T1, T2) {
	var o Once
	var v1 T1
	var v2 T2
	return func() (T1, T2) { o.Do(func() { v1, v2 = f() }); return v1, v2 }
}

//go:build verif

package vsched

import (
	"iter"
	"reflect"
	"runtime"
	"sort"
	"time"
)

// Channels: operations work on the REAL channel value. Buffered data lives in the real channel
// (enabledness from len/cap plus a closed-set; safe because exactly one controlled thread runs).
// Unbuffered rendez-vous: an operation is enabled iff a counterpart is parked on the same channel;
// whoever is scheduled performs the hand-over for both sides.

// chanPtr returns the identity of a channel. The channel value is retained for the rest of the execution so
// that the garbage collector cannot hand the same address to a different channel while side tables
// (closed-set, mailboxes) still mention it.
func chanPtr(ch any) uintptr {
	p := reflect.ValueOf(ch).Pointer()
	if e := ex; e != nil && p != 0 {
		if _, ok := e.keep[p]; !ok {
			e.keep[p] = ch
		}
	}
	return p
}

type chanWait struct {
	ch   uintptr
	send bool
	val  any
	idx  int // case index for select
}

// waits lists, per parked thread, the channel operations it is offering (1 for plain ops, n for select).
var waits = map[*thread][]chanWait{}

func (e *exec) counterpart(self *thread, ch uintptr, wantSend bool) (*thread, int) {
	for _, t := range e.threads {
		if t == self || t.done || t.resolved {
			continue
		}
		for i, w := range waits[t] {
			if w.ch == ch && w.send == wantSend {
				return t, i
			}
		}
	}
	return nil, -1
}

func (e *exec) isClosed(ch uintptr) bool { return e.closed[ch] }

// recvReady reports whether a receive on ch can complete now.
func (e *exec) recvReady(self *thread, ch any, p uintptr) bool {
	if p == 0 {
		return false // nil channel blocks forever
	}
	if len(e.mail[p]) > 0 || e.closed[p] {
		return true
	}
	v := reflect.ValueOf(ch)
	if v.Len() > 0 {
		return true
	}
	if v.Cap() == 0 {
		if t, _ := e.counterpart(self, p, true); t != nil {
			return true
		}
	}
	if _, ok := e.timerFor(p); ok {
		return false // a vtime channel: filled only by the scheduler
	}
	if !e.known[p] {
		// a channel never touched by instrumented code (e.g. ctx.Done()): probe it without blocking.
		if v.Type().ChanDir()&reflect.RecvDir != 0 {
			x, ok := v.TryRecv()
			if ok {
				e.mail[p] = append(e.mail[p], x.Interface())
				return true
			} else if x.IsValid() {
				e.closed[p] = true // received zero value, !ok => closed
				return true
			}
		}
	}
	return false
}

func (e *exec) sendReady(self *thread, ch any, p uintptr) bool {
	if p == 0 {
		return false
	}
	if e.closed[p] {
		return true // will panic, like the real thing
	}
	v := reflect.ValueOf(ch)
	if v.Cap() > 0 {
		return v.Len() < v.Cap()
	}
	t, _ := e.counterpart(self, p, false)
	return t != nil
}

func (e *exec) markKnown(p uintptr) {
	if e.known == nil {
		e.known = map[uintptr]bool{}
	}
	e.known[p] = true
}

// doRecv performs a receive that is known to be ready.
func (e *exec) doRecv(self *thread, ch any, p uintptr) (any, bool) {
	if m := e.mail[p]; len(m) > 0 {
		e.mail[p] = m[1:]
		return m[0], true
	}
	v := reflect.ValueOf(ch)
	if v.Len() > 0 {
		x, _ := v.TryRecv()
		return x.Interface(), true
	}
	if v.Cap() == 0 {
		if t, i := e.counterpart(self, p, true); t != nil {
			w := waits[t][i]
			t.resolved, t.selIdx = true, w.idx
			delete(waits, t)
			return w.val, true
		}
	}
	if e.closed[p] {
		return reflect.Zero(v.Type().Elem()).Interface(), false
	}
	panic("vsched: doRecv on a channel that is not ready")
}

func (e *exec) doSend(self *thread, ch any, p uintptr, val any) {
	if e.closed[p] {
		panic("send on closed channel")
	}
	v := reflect.ValueOf(ch)
	if v.Cap() > 0 {
		rv := reflect.ValueOf(val)
		if !rv.IsValid() {
			rv = reflect.Zero(v.Type().Elem())
		}
		if !v.TrySend(rv) {
			panic("vsched: buffered send failed although ready")
		}
		return
	}
	t, i := e.counterpart(self, p, false)
	if t == nil {
		panic("vsched: doSend without a receiver")
	}
	w := waits[t][i]
	t.resolved, t.selIdx, t.rval, t.rok = true, w.idx, val, true
	delete(waits, t)
}

// Send is `ch <- v`.
func Send[T any](ch chan<- T, v T) {
	e := ex
	if e == nil {
		ch <- v
		return
	}
	if e.dead.Load() {
		runtime.Goexit()
	}
	p := chanPtr(ch)
	e.markKnown(p)
	t := e.cur
	waits[t] = []chanWait{{ch: p, send: true, val: v}}
	Point(OpSend, p, "chan", func() bool { return e.sendReady(t, ch, p) })
	if t.resolved { // a receiver took our value
		t.resolved = false
		return
	}
	delete(waits, t)
	e.doSend(t, ch, p, v)
}

// Recv2 is `v, ok := <-ch`.
func Recv2[T any](ch <-chan T) (T, bool) {
	e := ex
	if e == nil {
		v, ok := <-ch
		return v, ok
	}
	if e.dead.Load() {
		runtime.Goexit()
	}
	p := chanPtr(ch)
	t := e.cur
	waits[t] = []chanWait{{ch: p, send: false}}
	Point(OpRecv, p, "chan", func() bool { return e.recvReady(t, ch, p) })
	var x any
	var ok bool
	if t.resolved { // a sender handed us its value
		t.resolved = false
		x, ok = t.rval, t.rok
		t.rval = nil
	} else {
		delete(waits, t)
		x, ok = e.doRecv(t, ch, p)
	}
	if x == nil {
		var zero T
		return zero, ok
	}
	return x.(T), ok
}

// Recv is `<-ch`.
func Recv[T any](ch <-chan T) T {
	v, _ := Recv2(ch)
	return v
}

// Close is `close(ch)`.
func Close[T any](ch chan<- T) {
	e := ex
	if e == nil {
		close(ch)
		return
	}
	if e.dead.Load() {
		return
	}
	p := chanPtr(ch)
	e.markKnown(p)
	Point(OpClose, p, "chan", nil)
	if e.closed[p] {
		panic("close of closed channel")
	}
	e.closed[p] = true
	func() {
		defer func() { recover() }()
		close(ch) // keep the real channel consistent for uninstrumented readers
	}()
}

// RangeChan is `for v := range ch`.
func RangeChan[T any](ch <-chan T) iter.Seq[T] {
	return func(yield func(T) bool) {
		for {
			v, ok := Recv2(ch)
			if !ok || !yield(v) {
				return
			}
		}
	}
}

// A SelCase is one case of a select.
type SelCase struct {
	ch   any
	p    uintptr
	send bool
	val  any
}

// RecvCase builds a receive case.
func RecvCase[T any](ch <-chan T) SelCase { return SelCase{ch: ch, p: chanPtr(ch)} }

// SendCase builds a send case.
func SendCase[T any](ch chan<- T, v T) SelCase {
	return SelCase{ch: ch, p: chanPtr(ch), send: true, val: v}
}

// SelResult carries the received value of the chosen case.
type SelResult struct {
	val any
	ok  bool
}

// Select is `select { ... }`; returns the index of the chosen case (-1 = default).
func Select(hasDefault bool, cases ...SelCase) (int, SelResult) {
	e := ex
	if e == nil {
		return realSelect(hasDefault, cases)
	}
	if e.dead.Load() {
		runtime.Goexit()
	}
	t := e.cur
	ws := make([]chanWait, 0, len(cases))
	for i, c := range cases {
		if c.p != 0 {
			if c.send {
				e.markKnown(c.p)
			}
			ws = append(ws, chanWait{ch: c.p, send: c.send, val: c.val, idx: i})
		}
	}
	ready := func() []int {
		var r []int
		for i, c := range cases {
			if c.p == 0 {
				continue
			}
			if c.send && e.sendReady(t, c.ch, c.p) || !c.send && e.recvReady(t, c.ch, c.p) {
				r = append(r, i)
			}
		}
		return r
	}
	waits[t] = ws
	// the select is an operation on every channel it mentions; use the first for hashing plus a combined key
	var key any = "select"
	if len(ws) > 0 {
		key = ws[0].ch
	}
	Point(OpSelect, key, "select", func() bool { return hasDefault || len(ready()) > 0 })
	if t.resolved {
		t.resolved = false
		i := t.selIdx
		r := SelResult{val: t.rval, ok: t.rok}
		t.rval = nil
		e.touch(t, cases[i].p)
		return i, r
	}
	delete(waits, t)
	rs := ready()
	if len(rs) == 0 {
		return -1, SelResult{}
	}
	i := rs[0]
	if len(rs) > 1 {
		i = rs[e.choose(len(rs), true, "select")]
	}
	c := cases[i]
	e.touch(t, c.p)
	if c.send {
		e.doSend(t, c.ch, c.p, c.val)
		return i, SelResult{}
	}
	v, ok := e.doRecv(t, c.ch, c.p)
	return i, SelResult{val: v, ok: ok}
}

// touch records in the hashes that t operated on channel p (for selects, whose Point key is only the first channel).
func (e *exec) touch(t *thread, p uintptr) {
	o := e.object(p, "chan")
	oh := o.hist
	o.hist = mix(o.hist, t.pid, t.hist, OpSelect)
	t.hist = mix(t.hist, OpSelect, o.id, oh)
}

// SelRecv extracts the received value for a case on ch.
func SelRecv[T any](ch <-chan T, r SelResult) T {
	if r.val == nil {
		var zero T
		return zero
	}
	return r.val.(T)
}

// SelRecv2 extracts value and ok.
func SelRecv2[T any](ch <-chan T, r SelResult) (T, bool) {
	return SelRecv(ch, r), r.ok
}

func realSelect(hasDefault bool, cases []SelCase) (int, SelResult) {
	rc := make([]reflect.SelectCase, 0, len(cases)+1)
	for _, c := range cases {
		if c.send {
			rc = append(rc, reflect.SelectCase{Dir: reflect.SelectSend, Chan: reflect.ValueOf(c.ch), Send: reflect.ValueOf(c.val)})
		} else {
			rc = append(rc, reflect.SelectCase{Dir: reflect.SelectRecv, Chan: reflect.ValueOf(c.ch)})
		}
	}
	if hasDefault {
		rc = append(rc, reflect.SelectCase{Dir: reflect.SelectDefault})
	}
	i, v, ok := reflect.Select(rc)
	if hasDefault && i == len(cases) {
		return -1, SelResult{}
	}
	if v.IsValid() {
		return i, SelResult{val: v.Interface(), ok: ok}
	}
	return i, SelResult{}
}

// MapRange is `for k, v := range m` with the iteration order owned by the explorer:
// default = sorted keys; deviations = other permutations (all for <=3 keys, rotations beyond).
func MapRange[M ~map[K]V, K comparable, V any](m M) iter.Seq2[K, V] {
	return func(yield func(K, V) bool) {
		keys := make([]K, 0, len(m))
		for k := range m {
			keys = append(keys, k)
		}
		sort.Slice(keys, func(i, j int) bool { return lessAny(keys[i], keys[j]) })
		if e := ex; e != nil && !e.dead.Load() && len(keys) > 1 && e.mapChoices {
			keys = permute(keys, Choose(numPerms(len(keys)), "maporder"))
		}
		for _, k := range keys {
			if v, ok := m[k]; ok {
				if !yield(k, v) {
					return
				}
			}
		}
	}
}

// EnableMapChoices turns map-iteration-order choices on for the current execution.
func EnableMapChoices() {
	if e := ex; e != nil {
		e.mapChoices = true
	}
}

func numPerms(n int) int {
	if n <= 3 {
		f := 1
		for i := 2; i <= n; i++ {
			f *= i
		}
		return f
	}
	return n + 1 // identity, rotations 1..n-1, reversal
}

func permute[K any](keys []K, c int) []K {
	n := len(keys)
	if c == 0 {
		return keys
	}
	out := make([]K, 0, n)
	if n <= 3 {
		// c-th permutation in lexicographic order
		idx := make([]int, n)
		for i := range idx {
			idx[i] = i
		}
		for i := 0; i < n; i++ {
			f := 1
			for j := 2; j < n-i; j++ {
				f *= j
			}
			q := c / f
			c %= f
			out = append(out, keys[idx[q]])
			idx = append(idx[:q], idx[q+1:]...)
		}
		return out
	}
	if c == n {
		for i := n - 1; i >= 0; i-- {
			out = append(out, keys[i])
		}
		return out
	}
	return append(append(out, keys[c:]...), keys[:c]...)
}

func lessAny(a, b any) bool {
	va, vb := reflect.ValueOf(a), reflect.ValueOf(b)
	return cmpValue(va, vb) < 0
}

func cmpValue(a, b reflect.Value) int {
	switch a.Kind() {
	case reflect.String:
		if a.String() < b.String() {
			return -1
		} else if a.String() > b.String() {
			return 1
		}
		return 0
	case reflect.Int, reflect.Int8, reflect.Int16, reflect.Int32, reflect.Int64:
		if a.Int() < b.Int() {
			return -1
		} else if a.Int() > b.Int() {
			return 1
		}
		return 0
	case reflect.Uint, reflect.Uint8, reflect.Uint16, reflect.Uint32, reflect.Uint64, reflect.Uintptr:
		if a.Uint() < b.Uint() {
			return -1
		} else if a.Uint() > b.Uint() {
			return 1
		}
		return 0
	case reflect.Bool:
		if a.Bool() == b.Bool() {
			return 0
		} else if !a.Bool() {
			return -1
		}
		return 1
	case reflect.Struct:
		for i := 0; i < a.NumField(); i++ {
			if c := cmpValue(a.Field(i), b.Field(i)); c != 0 {
				return c
			}
		}
		return 0
	case reflect.Pointer, reflect.Chan, reflect.UnsafePointer:
		// pointers: order by a stable per-execution id is not available; fall back to the String() of the pointee if it has one
		if s, ok := a.Interface().(interface{ String() string }); ok {
			if s2, ok := b.Interface().(interface{ String() string }); ok {
				x, y := s.String(), s2.String()
				if x < y {
					return -1
				} else if x > y {
					return 1
				}
				return 0
			}
		}
		if a.Pointer() < b.Pointer() {
			return -1
		} else if a.Pointer() > b.Pointer() {
			return 1
		}
		return 0
	case reflect.Interface:
		if a.IsNil() || b.IsNil() {
			if a.IsNil() && !b.IsNil() {
				return -1
			} else if !a.IsNil() && b.IsNil() {
				return 1
			}
			return 0
		}
		return cmpValue(a.Elem(), b.Elem())
	}
	return 0
}

// ---------------------------------------------------------------------------------------------
// Timers (fake clock). A timer fires (its channel is filled / its func is started) only when the
// scheduler decides: for free when nothing else is enabled, or early at the cost of one deviation.

type vtimer struct {
	at      int64
	ch      chan time.Time
	f       func()
	period  int64
	fired   bool
	stopped bool
	obj     *object
}

func (e *exec) timerFor(p uintptr) (*vtimer, bool) {
	for _, tm := range e.timers {
		if tm.ch != nil && chanPtr(tm.ch) == p {
			return tm, true
		}
	}
	return nil, false
}

func (e *exec) pendingTimers() []*vtimer {
	var ts []*vtimer
	for _, tm := range e.timers {
		if !tm.fired && !tm.stopped {
			ts = append(ts, tm)
		}
	}
	sort.SliceStable(ts, func(i, j int) bool { return ts[i].at < ts[j].at })
	return ts
}

func (e *exec) fire(tm *vtimer) {
	if tm.at > e.now {
		e.now = tm.at
	}
	tm.obj.hist = mix(tm.obj.hist, 0x66697265)
	if tm.f != nil {
		tm.fired = true
		e.newThread(e.cur, "timerfunc", tm.f)
		return
	}
	select {
	case tm.ch <- time.Unix(0, e.now):
	default:
	}
	if tm.period > 0 {
		tm.at = e.now + tm.period
		e.ticks++
		if e.ticks > e.maxTicks() {
			tm.stopped = true
		}
	} else {
		tm.fired = true
	}
}

func (e *exec) maxTicks() int {
	if e.opt.MaxTicks > 0 {
		return e.opt.MaxTicks
	}
	return 64
}

func (e *exec) fireTimerFree() bool {
	ts := e.pendingTimers()
	if len(ts) == 0 {
		return false
	}
	e.fire(ts[0])
	return true
}

func (e *exec) earlyTimerAlternatives() int {
	if !e.opt.EarlyTimers {
		return 0
	}
	return len(e.pendingTimers())
}

func (e *exec) fireTimerEarly(i int) {
	ts := e.pendingTimers()
	e.fire(ts[i])
}

// NewTimerChan registers a one-shot (period 0) or periodic timer and returns its channel.
func NewTimerChan(d time.Duration, period time.Duration) (chan time.Time, func() bool) {
	e := ex
	ch := make(chan time.Time, 1)
	if e == nil || e.dead.Load() {
		return ch, func() bool { return false }
	}
	tm := &vtimer{at: e.now + int64(d), ch: ch, period: int64(period)}
	tm.obj = e.object(tm, "timer")
	e.timers = append(e.timers, tm)
	return ch, func() bool {
		was := !tm.fired && !tm.stopped
		tm.stopped = true
		return was
	}
}

// AfterFunc registers a function timer.
func AfterFunc(d time.Duration, f func()) func() bool {
	e := ex
	if e == nil || e.dead.Load() {
		return func() bool { return false }
	}
	tm := &vtimer{at: e.now + int64(d), f: f}
	tm.obj = e.object(tm, "timerfunc")
	e.timers = append(e.timers, tm)
	return func() bool {
		was := !tm.fired && !tm.stopped
		tm.stopped = true
		return was
	}
}

// Sleep blocks the current thread until the fake clock has advanced by d.
func Sleep(d time.Duration) {
	e := ex
	if e == nil {
		time.Sleep(d)
		return
	}
	if e.dead.Load() {
		return
	}
	ch, _ := NewTimerChan(d, 0)
	Recv[time.Time](ch)
}

// Now returns the fake time.
func Now() time.Time {
	if e := ex; e != nil {
		return time.Unix(1_600_000_000, e.now)
	}
	return time.Now()
}

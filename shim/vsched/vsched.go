//go:build verif

// Package vsched is a controlled cooperative scheduler for rewritten code: exactly one controlled
// goroutine runs at a time; every synchronisation operation is a scheduling point; blocking is modelled
// (an operation is scheduled only when enabled); "no enabled thread" is a deadlock; every choice is
// recorded so an execution is a pure function of its choice sequence.
package vsched

import (
	"fmt"
	"os"
	"runtime"
	"sort"
	"strings"
	"sync"
	"sync/atomic"
	"time"
)

// Op kinds (for hashing and for traces).
const (
	OpStart = iota + 1
	OpLock
	OpUnlock
	OpRLock
	OpRUnlock
	OpWgAdd
	OpWgWait
	OpOnce
	OpAtomic
	OpSend
	OpRecv
	OpClose
	OpSelect
	OpEvent
	OpYield
	OpMap
	OpTimer
	OpCond
	OpFS
)

var opNames = map[int]string{OpStart: "start", OpLock: "lock", OpUnlock: "unlock", OpRLock: "rlock", OpRUnlock: "runlock", OpWgAdd: "wgadd",
	OpWgWait: "wgwait", OpOnce: "once", OpAtomic: "atomic", OpSend: "send", OpRecv: "recv", OpClose: "close", OpSelect: "select", OpEvent: "event",
	OpYield: "yield", OpMap: "map", OpTimer: "timer", OpCond: "cond", OpFS: "fs"}

type thread struct {
	id      int
	pid     uint64
	name    string
	gate    chan struct{}
	hist    uint64
	nobj    uint64
	nchild  uint64
	done    bool
	kind    int
	obj     *object
	enabled func() bool
	steps   int
	// rendezvous results handed over by the counterpart
	resolved bool
	rval     any
	rok      bool
	selIdx   int
	daemon   bool
	exited   chan struct{} // closed when the thread's goroutine has unwound
	demoted  int // >0: this thread was delayed (preempted by a deviation); it runs again only when no undelayed thread can
}

type object struct {
	id   uint64
	hist uint64
	name string
}

// PointInfo describes one recorded choice point.
type PointInfo struct {
	N       int  // number of alternatives
	Preempt bool // choosing alt!=0 is a deviation (costs 1)
	Kind    string
}

// Result is what one execution produced.
type Result struct {
	Choices    []int
	Points     []PointInfo
	Costs      []int  // cumulative cost before each point
	Status     string // "ok", "deadlock", "panic", "pruned", "fatal", "steplimit"
	Detail     string
	Steps      int
	Trace      []string
	Blocked    []string
	NewStates  int
	EarlyFires int // timers fired before quiescence (each cost one deviation)
}

// Options for one execution.
type Options struct {
	Prefix         []int
	Bound          int                // deviation budget (for pruning decisions)
	Visited        map[[2]uint64]int8 // state key -> best remaining budget explored (nil = no pruning)
	Trace          bool
	StepLimit      int
	NoSchedChoices bool // scheduling decisions always take the default (only Choose/ChooseFree points branch)
	NewestFirst    bool // default scheduler prefers the most recently created enabled thread instead of the oldest
	DelayBound     bool // every non-default scheduling choice costs one deviation (delay bounding), not only preemptions
	EarlyTimers    bool // timers may fire early at the cost of one deviation
	MaxTicks       int  // cap on periodic timer firings per execution
}

type exec struct {
	threads    []*thread
	cur        *thread
	opt        Options
	res        *Result
	cost       int
	objs       map[any]*object
	dead       atomic.Bool
	finished   chan struct{}
	wg         sync.WaitGroup
	finOnce    sync.Once
	timers     []*vtimer
	now        int64
	steps      int
	closed     map[uintptr]bool
	mail       map[uintptr][]any
	known      map[uintptr]bool
	mapChoices bool
	ticks      int
	demoteSeq  int
	keep       map[uintptr]any
	finT       *thread // the thread in which the execution ended
}

var ex *exec

// Active reports whether a controlled execution is in progress (shims fall back to real primitives if not).
func Active() bool { return ex != nil && !ex.dead.Load() }

func mix(h uint64, vs ...uint64) uint64 {
	for _, v := range vs {
		h ^= v + 0x9e3779b97f4a7c15 + (h << 6) + (h >> 2)
		h *= 0xff51afd7ed558ccd
		h ^= h >> 33
	}
	return h
}

func mix2(v uint64) uint64 {
	v ^= v >> 31
	v *= 0xc4ceb9fe1a85ec53
	v ^= v >> 29
	v *= 0x94d049bb133111eb
	return v ^ (v >> 32)
}

// Run performs one controlled execution of body under the given choice prefix.
func Run(opt Options, body func()) *Result {
	if opt.StepLimit == 0 {
		opt.StepLimit = 200000
	}
	e := &exec{opt: opt, res: &Result{Status: "ok"}, objs: map[any]*object{}, finished: make(chan struct{}), closed: map[uintptr]bool{}, mail: map[uintptr][]any{}, keep: map[uintptr]any{}}
	ex = e
	waits = map[*thread][]chanWait{}
	t0 := e.newThread(nil, "main", body)
	e.cur = t0
	t0.gate <- struct{}{}
	watch := time.NewTimer(60 * time.Second)
	select {
	case <-e.finished:
	case <-watch.C:
		dumpAndDie(e, "UNCONTROLLED-BLOCK: no scheduling point reached for 60s (an uninstrumented primitive blocked a controlled thread)")
	}
	watch.Stop()
	e.dead.Store(true)
	// Threads unwind (runtime.Goexit, running their deferred calls) ONE AT A TIME: in dead mode the lock shims are no-ops,
	// so deferred code of two threads touching the same map must not run concurrently. The thread that ended the
	// execution is already unwinding; it goes first.
	unwind := time.NewTimer(60 * time.Second)
	waitExit := func(t *thread) {
		select {
		case <-t.exited:
		case <-unwind.C:
			dumpAndDie(e, "UNCONTROLLED-BLOCK: threads did not unwind in dead mode")
		}
	}
	if e.finT != nil {
		waitExit(e.finT)
	}
	for i := 0; i < len(e.threads); i++ { // (a deferred call may still start threads: dead mode refuses, the slice is stable)
		t := e.threads[i]
		select {
		case t.gate <- struct{}{}:
		default:
		}
		waitExit(t)
	}
	unwind.Stop()
	e.wg.Wait()
	ex = nil
	e.res.Steps = e.steps
	return e.res
}

func dumpAndDie(e *exec, msg string) {
	buf := make([]byte, 1<<20)
	n := runtime.Stack(buf, true)
	fmt.Fprintf(os.Stderr, "%s\nchoices=%v\n%s\n", msg, e.res.Choices, buf[:n])
	os.Exit(2)
}

func (e *exec) newThread(parent *thread, name string, f func()) *thread {
	t := &thread{id: len(e.threads), gate: make(chan struct{}, 1), exited: make(chan struct{}), name: name, kind: OpStart, enabled: func() bool { return true }}
	if parent != nil {
		parent.nchild++
		t.pid = mix(parent.pid, parent.nchild, 0x7468)
	} else {
		t.pid = 0x1234567
	}
	t.hist = t.pid
	e.threads = append(e.threads, t)
	e.wg.Add(1)
	go func() {
		defer e.wg.Done()
		defer close(t.exited)
		defer func() {
			if r := recover(); r != nil {
				if !e.dead.Load() {
					buf := make([]byte, 8192)
					n := runtime.Stack(buf, false)
					e.finish("panic", fmt.Sprintf("thread %d (%s): %v\n%s", t.id, t.name, r, buf[:n]))
				}
			}
		}()
		<-t.gate
		if e.dead.Load() {
			return
		}
		f()
		if e.dead.Load() {
			return
		}
		t.done = true
		e.schedule(t)
	}()
	return t
}

func (e *exec) finish(status, detail string) {
	e.finOnce.Do(func() {
		e.finT = e.cur
		e.res.Status = status
		e.res.Detail = detail
		if status == "deadlock" {
			for _, t := range e.threads {
				if !t.done {
					e.res.Blocked = append(e.res.Blocked, fmt.Sprintf("%d:%s@%s(%s)", t.id, t.name, opNames[t.kind], objName(t.obj)))
				}
			}
		}
		e.dead.Store(true)
		close(e.finished)
	})
}

func objName(o *object) string {
	if o == nil {
		return ""
	}
	return o.name
}

func (e *exec) object(key any, name string) *object {
	if o, ok := e.objs[key]; ok {
		return o
	}
	t := e.cur
	t.nobj++
	o := &object{id: mix(t.hist, t.nobj, 0x6f626a), name: name}
	o.hist = o.id
	e.objs[key] = o
	return o
}

// Go starts a new controlled thread.
func Go(f func()) { GoNamed("", f) }

// GoNamed starts a new controlled thread with a name for traces.
func GoNamed(name string, f func()) {
	e := ex
	if e == nil || e.dead.Load() {
		if e == nil {
			go f()
		}
		return
	}
	e.newThread(e.cur, name, f)
}

// SetDaemon marks the current thread as one that may legitimately stay blocked forever at the end.
func SetDaemon() {
	if e := ex; e != nil && !e.dead.Load() {
		e.cur.daemon = true
	}
}

// Point is a scheduling point for operation kind on the object identified by key; the operation is
// performed by the caller after Point returns, atomically (no other controlled thread runs until the next point).
// enabled==nil means always enabled.
func Point(kind int, key any, name string, enabled func() bool) {
	e := ex
	if e == nil || e.dead.Load() {
		return
	}
	t := e.cur
	var o *object
	if key != nil {
		o = e.object(key, name)
	}
	t.kind, t.obj, t.enabled = kind, o, enabled
	e.schedule(t)
	e.commit(t, kind, o)
}

// Release records a release-type operation (unlock, read-unlock) without offering a context switch first.
// A release is a left-mover: no other thread can have touched the lock since the releasing thread's previous
// step in a way that conflicts with the release, so every execution that preempts just before a release is
// equivalent (same results for every thread, same final state) to one that does not; skipping the scheduling
// point therefore loses no behaviour. Threads waiting for the lock become enabled at the releasing thread's next point.
func Release(kind int, key any, name string) {
	e := ex
	if e == nil || e.dead.Load() {
		return
	}
	e.commit(e.cur, kind, e.object(key, name))
}

// commit records that thread t performed op kind on o (hash bookkeeping + trace).
func (e *exec) commit(t *thread, kind int, o *object) {
	e.steps++
	t.steps++
	if o != nil {
		oh := o.hist
		o.hist = mix(o.hist, t.pid, t.hist, uint64(kind))
		t.hist = mix(t.hist, uint64(kind), o.id, oh)
	} else {
		t.hist = mix(t.hist, uint64(kind))
	}
	if e.opt.Trace {
		e.res.Trace = append(e.res.Trace, fmt.Sprintf("T%d %s %s", t.id, opNames[kind], objName(o)))
	}
	t.kind, t.obj, t.enabled = 0, nil, nil
	if e.steps > e.opt.StepLimit {
		e.finish("steplimit", fmt.Sprintf("more than %d steps", e.opt.StepLimit))
		runtime.Goexit()
	}
}

func (t *thread) isEnabled() bool {
	if t.done {
		return false
	}
	if t.resolved {
		return true
	}
	return t.enabled == nil || t.enabled()
}

// schedule picks the next thread to run; returns when t is chosen again (or never, if the execution ended).
func (e *exec) schedule(t *thread) {
	for {
		var en []*thread
		curEnabled := t.isEnabled()
		if curEnabled {
			en = append(en, t)
		}
		// Delay-bounded order: undelayed threads first (oldest or newest first), then delayed ones in the order they were delayed.
		var rest []*thread
		for _, o := range e.threads {
			if o != t && o.isEnabled() {
				rest = append(rest, o)
			}
		}
		sort.SliceStable(rest, func(i, j int) bool {
			a, b := rest[i], rest[j]
			if a.demoted != b.demoted {
				if a.demoted == 0 || b.demoted == 0 {
					return a.demoted == 0
				}
				return a.demoted < b.demoted
			}
			if e.opt.NewestFirst {
				return a.id > b.id
			}
			return a.id < b.id
		})
		en = append(en, rest...)
		if len(en) == 0 {
			if e.fireTimerFree() {
				continue
			}
			alldone := true
			for _, o := range e.threads {
				if !o.done && !o.daemon {
					alldone = false
				}
			}
			if alldone {
				e.finish("ok", "")
			} else {
				e.finish("deadlock", "no enabled thread")
			}
			runtime.Goexit()
		}
		idx := 0
		nalt := len(en) + e.earlyTimerAlternatives()
		if nalt > 1 && !e.opt.NoSchedChoices {
			idx = e.choose(nalt, curEnabled || e.opt.DelayBound, "sched")
		}
		if idx >= len(en) {
			e.fireTimerEarly(idx - len(en))
			e.res.EarlyFires++
			continue
		}
		next := en[idx]
		if next == t {
			return
		}
		if curEnabled && e.opt.DelayBound {
			// the running thread was delayed in favour of another one: it goes to the back of the queue
			e.demoteSeq++
			t.demoted = e.demoteSeq
		}
		e.cur = next
		next.gate <- struct{}{}
		if t.done {
			return
		}
		<-t.gate
		if e.dead.Load() {
			runtime.Goexit()
		}
		return
	}
}

// choose records a choice among n alternatives; alt 0 is the default; other alternatives cost 1 if dev.
func (e *exec) choose(n int, dev bool, kind string) int {
	i := len(e.res.Choices)
	c := 0
	if i < len(e.opt.Prefix) {
		c = e.opt.Prefix[i]
		if c >= n {
			fmt.Fprintf(os.Stderr, "REPLAY-DIVERGENCE: choice %d at point %d but only %d alternatives (prefix %v)\n", c, i, n, e.opt.Prefix)
			os.Exit(2)
		}
	} else if e.opt.Visited != nil {
		k := e.stateKey()
		rem := int8(e.opt.Bound - e.cost)
		if old, ok := e.opt.Visited[k]; ok && old >= rem {
			e.finish("pruned", "")
			runtime.Goexit()
		}
		if _, ok := e.opt.Visited[k]; !ok {
			e.res.NewStates++
		}
		e.opt.Visited[k] = rem
	}
	e.res.Points = append(e.res.Points, PointInfo{N: n, Preempt: dev, Kind: kind})
	e.res.Costs = append(e.res.Costs, e.cost)
	e.res.Choices = append(e.res.Choices, c)
	if c != 0 && dev {
		e.cost++
	}
	return c
}

// Choose is a harness/shim-visible choice (map order, select case, rendezvous partner...). Non-default alternatives cost one deviation.
func Choose(n int, kind string) int {
	e := ex
	if e == nil || e.dead.Load() || n <= 1 {
		return 0
	}
	return e.choose(n, true, kind)
}

// ChooseFree is a choice whose alternatives are all free (an input choice rather than a deviation).
func ChooseFree(n int, kind string) int {
	e := ex
	if e == nil || e.dead.Load() || n <= 1 {
		return 0
	}
	return e.choose(n, false, kind)
}

func (e *exec) stateKey() [2]uint64 {
	var a, b uint64
	for _, t := range e.threads {
		var h uint64
		if t.done {
			h = mix(t.pid, 0xdead)
		} else {
			var oid uint64
			if t.obj != nil {
				oid = t.obj.id
			}
			h = mix(t.pid, t.hist, uint64(t.kind), oid)
			if t.resolved {
				h = mix(h, 0x7265)
			}
		}
		a += h
		b += mix2(h)
	}
	for _, o := range e.objs {
		h := mix(o.id, o.hist)
		a += h
		b += mix2(h)
	}
	for _, tm := range e.timers {
		if !tm.fired && !tm.stopped {
			h := mix(tm.obj.id, uint64(tm.at), 0x746d)
			a += h
			b += mix2(h)
		}
	}
	a = mix(a, e.cur.pid)
	b = mix(b, e.cur.pid, 1)
	return [2]uint64{a, b}
}

// Yield is a pure scheduling point (used inside fakes to let others run).
func Yield() { Point(OpYield, nil, "", nil) }

// Event is a scheduling point on a named global object: harnesses use it to make observations
// (call/return, start/end of an action) totally ordered and visible to the state key.
func Event(name string) {
	Point(OpEvent, "event:"+name, name, nil)
}

// CurrentID returns the running controlled thread's id (or -1).
func CurrentID() int {
	if e := ex; e != nil && !e.dead.Load() {
		return e.cur.id
	}
	return -1
}

// Dead reports that the current execution is being torn down (shim ops must be no-ops).
func Dead() bool { e := ex; return e != nil && e.dead.Load() }

// Fatal ends the execution with status "fatal" (stand-in for log.Fatal in instrumented code).
func Fatal(msg string) {
	e := ex
	if e == nil {
		fmt.Fprintln(os.Stderr, msg)
		os.Exit(1)
	}
	if e.dead.Load() {
		runtime.Goexit()
	}
	e.finish("fatal", msg)
	runtime.Goexit()
}

// End ends the execution normally from the current thread (horizon reached).
func End() {
	e := ex
	if e == nil || e.dead.Load() {
		return
	}
	e.finish("ok", "ended by harness")
	runtime.Goexit()
}

// FormatTrace renders a trace.
func FormatTrace(tr []string) string { return strings.Join(tr, "\n") }

// ---------------------------------------------------------------------------------------------
// Explorer: stateless DFS with iterative deviation bounding and optional state-key pruning.

// Stats summarises an exploration.
type Stats struct {
	Executions  int
	Pruned      int
	States      int
	Transitions int
	MaxPoints   int
	Bound       int
	Complete    bool
	Outcomes    map[string]int
}

// Explore enumerates all executions of body with at most bound deviations. check is called on every
// complete (non-pruned) execution and returns false to stop. stop() is polled for time caps.
func Explore(body func(), bound int, prune bool, check func(*Result) bool, stop func() bool) Stats {
	return ExploreOpt(body, Options{Bound: bound}, prune, [][]int{nil}, check, stop)
}

// ExploreOpt is Explore with explicit options and an initial set of prefixes (for sharding a search over processes).
func ExploreOpt(body func(), base Options, prune bool, roots [][]int, check func(*Result) bool, stop func() bool) Stats {
	bound := base.Bound
	st := Stats{Bound: bound, Complete: true, Outcomes: map[string]int{}}
	var visited map[[2]uint64]int8
	if prune {
		visited = map[[2]uint64]int8{}
	}
	stack := append([][]int{}, roots...)
	for len(stack) > 0 {
		if stop != nil && stop() {
			st.Complete = false
			break
		}
		prefix := stack[len(stack)-1]
		stack = stack[:len(stack)-1]
		o := base
		o.Prefix, o.Visited = prefix, visited
		t0 := time.Now()
		r := Run(o, body)
		if os.Getenv("VSCHED_TIMING") != "" {
			fmt.Fprintf(os.Stderr, "run: %v status=%s steps=%d points=%d prefix=%d\n", time.Since(t0), r.Status, r.Steps, len(r.Points), len(prefix))
		}
		st.Executions++
		st.Transitions += r.Steps
		st.States += r.NewStates
		if len(r.Points) > st.MaxPoints {
			st.MaxPoints = len(r.Points)
		}
		if r.Status == "pruned" {
			st.Pruned++
		} else {
			st.Outcomes[r.Status]++
			if !check(r) {
				st.Complete = false
				return st
			}
		}
		// push alternatives in reverse so that the simplest (earliest point, lowest alt) is explored first
		var next [][]int
		for i := len(prefix); i < len(r.Points); i++ {
			p := r.Points[i]
			cost := r.Costs[i]
			if p.Preempt {
				cost++
			}
			if cost > bound {
				continue
			}
			for alt := 1; alt < p.N; alt++ {
				np := make([]int, i+1)
				copy(np, r.Choices[:i])
				np[i] = alt
				next = append(next, np)
			}
		}
		for i := len(next) - 1; i >= 0; i-- {
			stack = append(stack, next[i])
		}
	}
	return st
}

// SortedKeys is a helper for deterministic iteration in harnesses.
func SortedKeys[V any](m map[string]V) []string {
	ks := make([]string, 0, len(m))
	for k := range m {
		ks = append(ks, k)
	}
	sort.Strings(ks)
	return ks
}

// LogFatalf stands in for log.Fatalf in instrumented packages.
func LogFatalf(format string, args ...any) { Fatal(fmt.Sprintf(format, args...)) }

// LogFatal stands in for log.Fatal.
func LogFatal(args ...any) { Fatal(fmt.Sprint(args...)) }

//go:build verif

// Package vos is the file-system seam (engine E2): the mutating subset of package os and of github.com/pkg/xattr.
// Every mutating call is one numbered operation. A plan decides what happens at operation k:
//   - in-process: Hook(op, path) is consulted (nil error = perform the real operation; a non-nil error is returned
//     instead of performing it). Harnesses use it to trace, to inject an error at op k, or to "freeze the disk" at op k
//     (every later operation fails without being performed), which models a process death at that point.
//   - subprocess (real plz built with this seam): VOS_PLAN=trace:<file> logs operations; VOS_PLAN=crash@k makes the
//     process SIGKILL itself immediately before operation k; VOS_PLAN=fail@k:<errno> makes operation k fail.
package vos

import (
	"fmt"
	"os"
	"strconv"
	"strings"
	"sync"
	"sync/atomic"
	"syscall"
	"time"

	"github.com/pkg/xattr"
)

// Hook is the in-process plan.
var Hook func(n int64, op, path string) error

var (
	count    atomic.Int64
	planOnce sync.Once
	planKind string
	planK    int64
	planErr  syscall.Errno
	traceF   *os.File
	traceMu  sync.Mutex
	pauseDir string
	planKey  string
	normDir  string
	occ      map[string]int64
	tearPath string

	afterK   int64
	afterKey string
	afterDir string
	afterOcc = map[string]int64{}

	plan2K    int64
	plan2Key  string
	pauseDir2 string
)

// Reset restarts operation numbering (in-process harnesses call it before each run).
func Reset() { count.Store(0) }

// Count returns the number of operations so far.
func Count() int64 { return count.Load() }

func loadPlan() {
	p := os.Getenv("VOS_PLAN")
	if pa := os.Getenv("VOS_PAUSE_AFTER"); pa != "" {
		if parts := strings.SplitN(pa, ":", 2); len(parts) == 2 {
			afterK, _ = strconv.ParseInt(parts[0], 10, 64)
			afterKey = parts[1]
			afterDir = os.Getenv("VOS_PAUSE_DIR_AFTER")
			if normDir == "" {
				normDir = os.Getenv("VOS_NORM")
			}
		}
	}
	if t := os.Getenv("VOS_TRACE"); t != "" { // tracing can be combined with a crash/fail plan
		traceF, _ = os.OpenFile(t, os.O_WRONLY|os.O_CREATE|os.O_APPEND, 0o644)
	}
	switch {
	case strings.HasPrefix(p, "trace:"):
		planKind = "trace"
		traceF, _ = os.OpenFile(strings.TrimPrefix(p, "trace:"), os.O_WRONLY|os.O_CREATE|os.O_APPEND, 0o644)
	case strings.HasPrefix(p, "pause@"):
		// pause@k:<dir>: before operation k create <dir>/reached and wait until <dir>/go exists (cross-process scheduling)
		planKind = "pause"
		parts := strings.SplitN(strings.TrimPrefix(p, "pause@"), ":", 2)
		planK, _ = strconv.ParseInt(parts[0], 10, 64)
		if len(parts) == 2 {
			pauseDir = parts[1]
		}
	case strings.HasPrefix(p, "tear@"):
		planKind = "tear"
		planK, _ = strconv.ParseInt(strings.TrimPrefix(p, "tear@"), 10, 64)
	case strings.HasPrefix(p, "crash@"):
		planKind = "crash"
		planK, _ = strconv.ParseInt(strings.TrimPrefix(p, "crash@"), 10, 64)
	case strings.HasPrefix(p, "crashop@"), strings.HasPrefix(p, "tearafter@"), strings.HasPrefix(p, "pauseop@"):
		// pauseop@i:<op> <path>   : before the i-th occurrence of that operation create $VOS_PAUSE_DIR/reached and wait
		//                           until $VOS_PAUSE_DIR/go exists (cross-process scheduling by operation identity)
		pauseDir = os.Getenv("VOS_PAUSE_DIR")
		// crashop@i:<op> <path>   : SIGKILL immediately before the i-th occurrence of that operation (paths with the
		//                           directory VOS_NORM replaced by "@"), whatever its number in this run
		// tearafter@i:<op> <path> : let the i-th occurrence of that file-creating operation happen, then, at the next
		//                           operation of the process, cut the file to half its size and SIGKILL (died while writing it)
		planKind = p[:strings.IndexByte(p, '@')]
		rest := p[strings.IndexByte(p, '@')+1:]
		parts := strings.SplitN(rest, ":", 2)
		planK, _ = strconv.ParseInt(parts[0], 10, 64)
		if len(parts) == 2 {
			planKey = parts[1]
		}
		normDir = os.Getenv("VOS_NORM")
		occ = map[string]int64{}
		// VOS_PAUSE2="i:<op> <path>" with VOS_PAUSE_DIR2: a second pause point of the same process (pauseop plans only)
		if p2 := os.Getenv("VOS_PAUSE2"); p2 != "" && planKind == "pauseop" {
			parts2 := strings.SplitN(p2, ":", 2)
			if len(parts2) == 2 {
				plan2K, _ = strconv.ParseInt(parts2[0], 10, 64)
				plan2Key = parts2[1]
				pauseDir2 = os.Getenv("VOS_PAUSE_DIR2")
			}
		}
	case strings.HasPrefix(p, "fail@"):
		planKind = "fail"
		parts := strings.SplitN(strings.TrimPrefix(p, "fail@"), ":", 2)
		planK, _ = strconv.ParseInt(parts[0], 10, 64)
		planErr = syscall.EIO
		if len(parts) == 2 {
			if e, err := strconv.Atoi(parts[1]); err == nil {
				planErr = syscall.Errno(e)
			}
		}
	}
}

// post is called right after a link / rename happened. VOS_PAUSE_AFTER="i:<op> <path>" (with VOS_PAUSE_DIR_AFTER)
// stops the calling thread there: the file is in place, whatever the process does with it next (e.g. read it) has
// not happened yet. This is the one place where a pause point is needed between a mutating operation and a read.
func post(op, path string) {
	planOnce.Do(loadPlan)
	if afterKey == "" {
		return
	}
	key := op + " " + path
	if normDir != "" {
		key = strings.ReplaceAll(key, normDir, "@")
	}
	traceMu.Lock()
	afterOcc[key]++
	hit := key == afterKey && afterOcc[key] == afterK
	traceMu.Unlock()
	if hit {
		os.WriteFile(afterDir+"/reached", []byte(fmt.Sprintf("after %s %s\n", op, path)), 0o644)
		for {
			if _, err := os.Stat(afterDir + "/go"); err == nil {
				break
			}
			time.Sleep(2 * time.Millisecond)
		}
	}
}

func step(op, path string) error {
	n := count.Add(1)
	if Hook != nil {
		return Hook(n, op, path)
	}
	planOnce.Do(loadPlan)
	if traceF != nil {
		traceMu.Lock()
		fmt.Fprintf(traceF, "%d %s %s\n", n, op, path)
		traceMu.Unlock()
	}
	switch planKind {
	case "crashop", "tearafter", "pauseop":
		traceMu.Lock()
		if tearPath != "" {
			if fi, err := os.Lstat(tearPath); err == nil && fi.Mode().IsRegular() && fi.Size() >= 2 {
				os.Truncate(tearPath, fi.Size()/2)
			}
			syscall.Kill(os.Getpid(), syscall.SIGKILL)
			select {}
		}
		key := op + " " + path
		if normDir != "" {
			key = strings.ReplaceAll(key, normDir, "@")
		}
		occ[key]++
		hit := key == planKey && occ[key] == planK
		hit2 := planKind == "pauseop" && plan2Key != "" && key == plan2Key && occ[key] == plan2K
		if hit && planKind == "tearafter" {
			tearPath = path
			if i := strings.Index(path, " -> "); i >= 0 {
				tearPath = path[i+4:]
			}
			hit = false
		}
		traceMu.Unlock()
		if hit && planKind == "pauseop" {
			os.WriteFile(pauseDir+"/reached", []byte(fmt.Sprintf("%d %s %s\n", n, op, path)), 0o644)
			for {
				if _, err := os.Stat(pauseDir + "/go"); err == nil {
					break
				}
				time.Sleep(2 * time.Millisecond)
			}
			hit = false
		}
		if hit2 {
			os.WriteFile(pauseDir2+"/reached", []byte(fmt.Sprintf("%d %s %s\n", n, op, path)), 0o644)
			for {
				if _, err := os.Stat(pauseDir2 + "/go"); err == nil {
					break
				}
				time.Sleep(2 * time.Millisecond)
			}
		}
		if hit {
			syscall.Kill(os.Getpid(), syscall.SIGKILL)
			select {} // never proceed to the operation
		}
	case "pause":
		if n == planK {
			os.WriteFile(pauseDir+"/reached", []byte(fmt.Sprintf("%d %s %s\n", n, op, path)), 0o644)
			for {
				if _, err := os.Stat(pauseDir + "/go"); err == nil {
					break
				}
				time.Sleep(2 * time.Millisecond)
			}
		}
	case "tear":
		if n == planK {
			TearLast() // the file being written when the process died is only half there
			syscall.Kill(os.Getpid(), syscall.SIGKILL)
			select {}
		}
	case "crash":
		if n == planK {
			syscall.Kill(os.Getpid(), syscall.SIGKILL)
			select {} // never proceed to the operation
		}
	case "fail":
		if n == planK {
			return planErr
		}
	}
	return nil
}

func perr(op, path string, err error) error { return &os.PathError{Op: op, Path: path, Err: err} }

func Mkdir(name string, perm os.FileMode) error {
	if err := step("mkdir", name); err != nil {
		return perr("mkdir", name, err)
	}
	return os.Mkdir(name, perm)
}

func MkdirAll(path string, perm os.FileMode) error {
	if fi, err := os.Stat(path); err == nil && fi.IsDir() {
		return nil // nothing to do: not an operation
	}
	if err := step("mkdirall", path); err != nil {
		return perr("mkdir", path, err)
	}
	return os.MkdirAll(path, perm)
}

func Remove(name string) error {
	if err := step("remove", name); err != nil {
		return perr("remove", name, err)
	}
	return os.Remove(name)
}

func RemoveAll(path string) error {
	if _, err := os.Lstat(path); err != nil && os.IsNotExist(err) {
		return nil
	}
	if err := step("removeall", path); err != nil {
		return perr("unlinkat", path, err)
	}
	return os.RemoveAll(path)
}

func Rename(oldpath, newpath string) error {
	if err := step("rename", oldpath+" -> "+newpath); err != nil {
		return &os.LinkError{Op: "rename", Old: oldpath, New: newpath, Err: err}
	}
	err := os.Rename(oldpath, newpath)
	post("rename", oldpath+" -> "+newpath)
	return err
}

func Link(oldname, newname string) error {
	if err := step("link", oldname+" -> "+newname); err != nil {
		return &os.LinkError{Op: "link", Old: oldname, New: newname, Err: err}
	}
	err := os.Link(oldname, newname)
	post("link", oldname+" -> "+newname)
	return err
}

func Symlink(oldname, newname string) error {
	if err := step("symlink", oldname+" -> "+newname); err != nil {
		return &os.LinkError{Op: "symlink", Old: oldname, New: newname, Err: err}
	}
	return os.Symlink(oldname, newname)
}

// Create is an operation; the bytes written to the file afterwards are covered by the *next* operation's crash point
// ("file complete") and by TearLast ("file half written").
func Create(name string) (*os.File, error) {
	if err := step("create", name); err != nil {
		return nil, perr("open", name, err)
	}
	f, err := os.Create(name)
	if err == nil {
		lastCreated.Store(&name)
	}
	return f, err
}

func OpenFile(name string, flag int, perm os.FileMode) (*os.File, error) {
	if flag&(os.O_WRONLY|os.O_RDWR|os.O_CREATE|os.O_TRUNC|os.O_APPEND) != 0 {
		if err := step("openfile", name); err != nil {
			return nil, perr("open", name, err)
		}
		f, err := os.OpenFile(name, flag, perm)
		if err == nil {
			lastCreated.Store(&name)
		}
		return f, err
	}
	return os.OpenFile(name, flag, perm)
}

func WriteFile(name string, data []byte, perm os.FileMode) error {
	if err := step("writefile", name); err != nil {
		return perr("open", name, err)
	}
	err := os.WriteFile(name, data, perm)
	if err == nil {
		lastCreated.Store(&name)
	}
	return err
}

func CreateTemp(dir, pattern string) (*os.File, error) {
	if err := step("createtemp", dir+"/"+pattern); err != nil {
		return nil, perr("open", dir, err)
	}
	f, err := os.CreateTemp(dir, pattern)
	if err == nil {
		n := f.Name()
		lastCreated.Store(&n)
	}
	return f, err
}

func MkdirTemp(dir, pattern string) (string, error) {
	if err := step("mkdirtemp", dir+"/"+pattern); err != nil {
		return "", perr("mkdir", dir, err)
	}
	return os.MkdirTemp(dir, pattern)
}

func Chmod(name string, mode os.FileMode) error {
	if err := step("chmod", name); err != nil {
		return perr("chmod", name, err)
	}
	return os.Chmod(name, mode)
}

func Chtimes(name string, a, m timeT) error {
	if err := step("chtimes", name); err != nil {
		return perr("chtimes", name, err)
	}
	return os.Chtimes(name, a, m)
}

func Truncate(name string, size int64) error {
	if err := step("truncate", name); err != nil {
		return perr("truncate", name, err)
	}
	return os.Truncate(name, size)
}

var lastCreated atomic.Pointer[string]

// TearLast truncates the most recently created/written file to half its size: the state of a process that died
// while writing it. Harnesses call it after a freeze/crash to explore the torn variant of that crash point.
func TearLast() (string, bool) {
	p := lastCreated.Load()
	if p == nil {
		return "", false
	}
	fi, err := os.Lstat(*p)
	if err != nil || !fi.Mode().IsRegular() || fi.Size() < 2 {
		return *p, false
	}
	return *p, os.Truncate(*p, fi.Size()/2) == nil
}

// xattr seam.

func XLSet(path, name string, data []byte) error {
	if err := step("lsetxattr", path+" "+name); err != nil {
		return &xattr.Error{Op: "xattr.LSet", Path: path, Name: name, Err: err}
	}
	return xattr.LSet(path, name, data)
}

func XSet(path, name string, data []byte) error {
	if err := step("setxattr", path+" "+name); err != nil {
		return &xattr.Error{Op: "xattr.Set", Path: path, Name: name, Err: err}
	}
	return xattr.Set(path, name, data)
}

func XLRemove(path, name string) error {
	if err := step("lremovexattr", path+" "+name); err != nil {
		return &xattr.Error{Op: "xattr.LRemove", Path: path, Name: name, Err: err}
	}
	return xattr.LRemove(path, name)
}

func XRemove(path, name string) error {
	if err := step("removexattr", path+" "+name); err != nil {
		return &xattr.Error{Op: "xattr.Remove", Path: path, Name: name, Err: err}
	}
	return xattr.Remove(path, name)
}

//go:build verif

package vos

import "time"

type timeT = time.Time

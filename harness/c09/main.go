// C09: path hashes distinguish every difference in a file tree.
//
// Every small tree (bounded entries/depth, names, contents and relative symlink targets from small alphabets) is
// created on disk and hashed by the real fs.PathHasher; all unordered pairs of different trees must have different
// hashes. Collisions are classified by the weakest abstraction of the tree that still explains them.
package main

import (
	"crypto/sha1"
	"crypto/sha256"
	"encoding/hex"
	"fmt"
	"hash"
	"os"
	"path/filepath"
	"strings"

	"github.com/thought-machine/please/src/fs"
	"github.com/thought-machine/please/verifharness/c09/tree"
	"github.com/thought-machine/please/verifharness/lib"
)

type witness struct {
	Algo   string     `json:"algo"`
	Xattrs bool       `json:"xattrs"`
	A      *tree.Node `json:"a"`
	B      *tree.Node `json:"b"`
}

var algos = map[string]func() hash.Hash{"sha1": sha1.New, "sha256": sha256.New}

// ---------------------------------------------------------------------------------------------------------------
// abstractions of a tree, from the most to the least informative; the class of a collision is named after the
// first one under which the two trees are equal.

type leaf struct {
	link    bool
	content string
}

func shape(n *tree.Node, targets bool) string {
	switch n.Kind {
	case "f":
		return "f(" + n.Content + ")"
	case "l":
		if targets {
			return "l(" + n.Target + ")"
		}
		return "l"
	}
	var sb strings.Builder
	sb.WriteString("d[")
	for _, k := range n.Names() {
		sb.WriteString(shape(n.Children[k], targets) + ",")
	}
	sb.WriteString("]")
	return sb.String()
}

func leaves(n *tree.Node, out *[]leaf) {
	switch n.Kind {
	case "f":
		*out = append(*out, leaf{false, string(tree.Expand(n.Content))})
	case "l":
		*out = append(*out, leaf{true, ""})
	default:
		for _, k := range n.Names() {
			leaves(n.Children[k], out)
		}
	}
}

var levelNames = []string{
	"names-not-hashed",
	"symlink-targets-not-hashed",
	"directory-structure-not-hashed",
	"empty-files-not-hashed",
	"file-boundaries-not-hashed",
	"symlink-marker-ambiguous-with-content",
	"symlinks-not-hashed",
}

func levels(n *tree.Node) []string {
	var ls []leaf
	leaves(n, &ls)
	var flat, noEmpty, merged, stream, noLinks strings.Builder
	prevFile := false
	for _, l := range ls {
		if l.link {
			flat.WriteString("L,")
			noEmpty.WriteString("L,")
			merged.WriteString("|L|")
			stream.WriteString("\x02")
			prevFile = false
			continue
		}
		flat.WriteString("f(" + l.content + "),")
		if l.content != "" {
			noEmpty.WriteString("f(" + l.content + "),")
		}
		_ = prevFile
		merged.WriteString(l.content)
		stream.WriteString(l.content)
		noLinks.WriteString(l.content)
	}
	return []string{shape(n, true), shape(n, false), flat.String(), noEmpty.String(), merged.String(), stream.String(), noLinks.String()}
}

type item struct {
	n      *tree.Node
	canon  string
	levels []string
	hash   string
	size   int
	idx    string // generation order, for stable tie-breaks between equally small witnesses
}

func classOf(x, y *item) string {
	if x.n.Kind != y.n.Kind {
		a, b := x.n.Kind, y.n.Kind
		if a > b {
			a, b = b, a
		}
		if b == "l" {
			// a root symlink is hashed as the byte 0x02 followed by its target: other kinds can produce the same stream
			return "pathhash:root-symlink-marker-ambiguous-with-content:" + a + "-vs-l"
		}
		return "pathhash:root-kind-not-hashed:" + a + "-vs-" + b
	}
	if x.n.Kind != "d" {
		return "pathhash:root-" + x.n.Kind + ":unexplained-collision"
	}
	for i, name := range levelNames {
		if x.levels[i] == y.levels[i] {
			return "pathhash:dir:" + name
		}
	}
	return "pathhash:dir:unexplained-collision"
}

// ---------------------------------------------------------------------------------------------------------------

var root string

// hashTree materialises the tree in a fresh directory under the working root and hashes it with a fresh hasher.
var seq int

// hashFailures: error kind -> first (smallest) tree for which PathHasher.Hash returned an error.
var hashFailures = map[string]string{}

func hashTree(n *tree.Node, algo string, xattrs bool) string {
	seq++
	base := filepath.Join("src", fmt.Sprintf("t%d", seq))
	if xattrs {
		base = filepath.Join("plz-out", "gen", fmt.Sprintf("t%d", seq))
	}
	if err := os.MkdirAll(base, 0o755); err != nil {
		lib.Fatal("%s", err)
	}
	if err := os.WriteFile(filepath.Join(base, "a"), []byte("sibling"), 0o644); err != nil { // what a root symlink points at
		lib.Fatal("%s", err)
	}
	p := filepath.Join(base, "r")
	if err := n.Materialise(p); err != nil {
		lib.Fatal("materialise %s: %s", n.Canon(), err)
	}
	h := fs.NewPathHasher(root, xattrs, algos[algo], algo)
	b, err := h.Hash(p, false, true, false)
	if err != nil {
		// a well-formed tree that cannot be hashed at all: recorded and reported as a violation of its own class
		kind := "other"
		switch {
		case os.IsNotExist(err):
			kind = "no-such-file(dangling-or-skipped-entry)"
		case os.IsPermission(err):
			kind = "permission"
		}
		if _, ok := hashFailures[kind]; !ok {
			hashFailures[kind] = n.Canon() + ": " + err.Error()
		}
		return "HASH-ERROR:" + n.Canon()
	}
	// Asking again (memoised) and with a second fresh hasher (reads the stored xattr when enabled) must agree.
	b2, err2 := h.Hash(filepath.Join(root, p), false, true, false)
	b3, err3 := fs.NewPathHasher(root, xattrs, algos[algo], algo).Hash(p, false, true, false)
	if err2 != nil || err3 != nil || string(b2) != string(b) || string(b3) != string(b) {
		lib.Fatal("HARNESS-NONDETERMINISM: hash of %s changed between calls: %x %x %x (%v %v)", n.Canon(), b, b2, b3, err2, err3)
	}
	os.RemoveAll(base)
	return hex.EncodeToString(b)
}

func size(n *tree.Node) int {
	s := 1 + len(n.Content) + len(n.Target)
	for k, c := range n.Children {
		s += len(k) + size(c)
	}
	return s
}

func main() {
	r := lib.Start("C09", "exploration")
	lib.Quiet()
	var err error
	if r.Replay != "" {
		r.Replay, _ = filepath.Abs(r.Replay) // the harness changes directory below
	}
	root, err = os.MkdirTemp("", "verif-c09-")
	if err != nil {
		lib.Fatal("%s", err)
	}
	root, _ = filepath.EvalSymlinks(root)
	if err := os.Chdir(root); err != nil {
		lib.Fatal("%s", err)
	}
	cleanup := func() { os.Chdir("/"); os.RemoveAll(root) }
	r.Assume = []string{
		"a tree is what lies at and below one path (its own name excluded: the callers hash the path name separately); entries are regular files, directories and relative symlinks; permissions and timestamps are not part of the statement",
		"hashes are taken with fs.PathHasher.Hash(path, recalc=false, store=true, timestamp=false) by a fresh hasher on a freshly created tree, under <root>/src (no xattrs) and under <root>/plz-out/gen with xattrs enabled; root symlinks point at an existing sibling file (Hash refuses dangling paths)",
		"the quantifier's 'random larger trees' are not generated: only the exhaustive part is decided",
	}
	if r.Replay != "" {
		var w witness
		lib.LoadReplay(r.Replay, &w)
		x := &item{n: w.A, canon: w.A.Canon(), levels: levels(w.A), hash: hashTree(w.A, w.Algo, w.Xattrs)}
		y := &item{n: w.B, canon: w.B.Canon(), levels: levels(w.B), hash: hashTree(w.B, w.Algo, w.Xattrs)}
		if x.canon != y.canon && x.hash == y.hash {
			r.Violate(classOf(x, y), w, fmt.Sprintf("%s hash %s for both %s and %s", w.Algo, x.hash, x.canon, y.canon))
		}
		cleanup()
		r.Finish(lib.Coverage{Evaluations: 1, DistinctNontrivial: 1, Rule: "replay", Samples: []any{w}, Exhaustive: true})
	}

	sp := tree.Space{Names: []string{"a", "b"}, Contents: []string{"", "x", "y", "xy"}, Targets: []string{"a", "b", "../a"}, MaxDepth: 2, MaxEntries: 4}
	runs := []struct {
		algo   string
		xattrs bool
	}{{"sha256", false}}
	if !r.Quick() {
		sp = tree.Space{Names: []string{"a", "b", "c"}, Contents: []string{"", "x", "y", "xy", "\x02"}, Targets: []string{"a", "b", "../a"}, MaxDepth: 2, MaxEntries: 4}
		runs = append(runs, struct {
			algo   string
			xattrs bool
		}{"sha1", true})
	}
	trees := sp.Dirs()
	// other root kinds, and files longer than any plausible read buffer that differ only at the very end
	big1, big2 := "@70000z1", "@70000z2"
	for _, c := range append(append([]string{}, sp.Contents...), "\x02a", big1, big2) {
		trees = append(trees, tree.File(c))
	}
	for _, t := range []string{"a", "./a"} {
		trees = append(trees, tree.Link(t))
	}
	trees = append(trees, tree.Dir(map[string]*tree.Node{"a": tree.File(big1)}), tree.Dir(map[string]*tree.Node{"a": tree.File(big2)}))

	type best struct {
		w     witness
		sz    int
		key   string
		count int
	}
	found := map[string]*best{}
	var pairs, hashed int
	var samples lib.Samples
	exhaustive := true
	for _, run := range runs {
		items := make([]*item, 0, len(trees))
		seen := map[string]bool{}
		for _, n := range trees {
			if r.OutOfTime() {
				exhaustive = false
				break
			}
			it := &item{n: n, canon: n.Canon(), levels: levels(n), size: size(n), idx: fmt.Sprintf("%08d", len(items))}
			if seen[it.canon] {
				lib.Fatal("generator produced %s twice", it.canon)
			}
			seen[it.canon] = true
			it.hash = hashTree(n, run.algo, run.xattrs)
			hashed++
			items = append(items, it)
		}
		n := len(items)
		pairs += n * (n - 1) / 2 // every pair is a pair of different trees (the generator never repeats a tree)
		for i := 1; i < n; i += 1 + n/5 {
			x, y := items[i/2], items[i]
			samples.Add(func() any { return witness{run.algo, run.xattrs, x.n, y.n} })
		}
		// pairs with different hashes hold; only pairs inside a group of equal hashes are examined one by one
		buckets := map[string][]*item{}
		for _, it := range items {
			buckets[it.hash] = append(buckets[it.hash], it)
		}
		for _, bk := range buckets {
			for i := 1; i < len(bk); i++ {
				for j := 0; j < i; j++ {
					x, y := bk[j], bk[i]
					class := classOf(x, y)
					b := found[class]
					if b == nil {
						b = &best{sz: 1 << 30}
						found[class] = b
					}
					b.count++
					sz := x.size + y.size
					if x.levels[5] == "" {
						sz += 1000 // prefer a witness whose trees hold some bytes over one made of empty directories/files only
					}
					if sz < b.sz || (sz == b.sz && y.idx+x.idx < b.key) {
						b.sz, b.key, b.w = sz, y.idx+x.idx, witness{run.algo, run.xattrs, x.n, y.n}
					}
				}
			}
		}
	}
	for class, b := range found {
		h1, h2 := hashTree(b.w.A, b.w.Algo, b.w.Xattrs), hashTree(b.w.B, b.w.Algo, b.w.Xattrs)
		if h1 != h2 {
			lib.Fatal("HARNESS-NONDETERMINISM %s: %s vs %s on re-run", class, h1, h2)
		}
		r.Violate(class, b.w, fmt.Sprintf("%s hash %s for both %s and %s", b.w.Algo, h1, b.w.A.Canon(), b.w.B.Canon()))
		for i := 1; i < b.count; i++ {
			r.Violate(class, nil, "")
		}
	}
	cleanup()
	for kind, first := range hashFailures {
		r.Violate("pathhash:hash-fails:"+kind, map[string]any{"tree_and_error": first}, "PathHasher.Hash returns an error for a well-formed tree (no hash is recorded, so the tree cannot be told apart from anything): "+first)
	}
	r.Finish(lib.Coverage{
		Evaluations:        pairs,
		DistinctNontrivial: pairs,
		Rule:               "a case is an unordered pair of different trees, each created on disk and hashed by the real PathHasher (values grouped by hash; pairs inside a group examined individually); every pair is non-trivial because the generator emits each tree once (checked)",
		Samples:            samples.List(),
		Exhaustive:         exhaustive,
		Extra: map[string]any{"trees": len(trees), "trees_hashed": hashed, "space": fmt.Sprintf("names %q contents %q targets %q depth<=%d entries<=%d + root files/symlinks + 70 KB files differing in the last byte", sp.Names, sp.Contents, sp.Targets, sp.MaxDepth, sp.MaxEntries),
			"hashers": fmt.Sprint(runs)},
	})
}

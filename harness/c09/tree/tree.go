// Package tree enumerates small file trees (files, directories, relative symlinks), writes them to disk and reads
// them back. Shared by the C09 (path hashes) and C34 (copy / link) checks.
package tree

import (
	"encoding/json"
	"fmt"
	"os"
	"path/filepath"
	"sort"
	"strings"
)

// A Node is a file ("f"), a relative symlink ("l") or a directory ("d").
type Node struct {
	Kind     string           `json:"k"`
	Content  string           `json:"c,omitempty"` // file content token (see Expand)
	Target   string           `json:"t,omitempty"` // symlink target
	Children map[string]*Node `json:"ch,omitempty"`
}

// File, Link and Dir are constructors.
func File(c string) *Node { return &Node{Kind: "f", Content: c} }
func Link(t string) *Node { return &Node{Kind: "l", Target: t} }
func Dir(ch map[string]*Node) *Node {
	if ch == nil {
		ch = map[string]*Node{}
	}
	return &Node{Kind: "d", Children: ch}
}

// Expand turns a content token into bytes: "@N<c>" is N bytes of c followed by the rest ("@1500z1" = 1500 z's then "1").
func Expand(c string) []byte {
	if strings.HasPrefix(c, "@") {
		var n int
		var ch byte
		var rest string
		if k, _ := fmt.Sscanf(c, "@%d%c%s", &n, &ch, &rest); k >= 2 {
			return append([]byte(strings.Repeat(string(ch), n)), rest...)
		}
	}
	return []byte(c)
}

// Names returns the child names in lexical (= walk) order.
func (n *Node) Names() []string {
	ns := make([]string, 0, len(n.Children))
	for k := range n.Children {
		ns = append(ns, k)
	}
	sort.Strings(ns)
	return ns
}

// Entries counts the nodes strictly below n.
func (n *Node) Entries() int {
	c := 0
	for _, ch := range n.Children {
		c += 1 + ch.Entries()
	}
	return c
}

// Canon is the canonical (JSON, sorted keys) form: two trees are the same tree iff their Canon is equal.
func (n *Node) Canon() string {
	b, _ := json.Marshal(n)
	return string(b)
}

// Materialise creates the tree at path (which must not exist).
func (n *Node) Materialise(path string) error {
	switch n.Kind {
	case "f":
		return os.WriteFile(path, Expand(n.Content), 0o644)
	case "l":
		return os.Symlink(n.Target, path)
	case "d":
		if err := os.Mkdir(path, 0o755); err != nil {
			return err
		}
		for _, name := range n.Names() {
			if err := n.Children[name].Materialise(filepath.Join(path, name)); err != nil {
				return err
			}
		}
		return nil
	}
	return fmt.Errorf("bad kind %q", n.Kind)
}

// Read reads the tree at path back from disk (never following symlinks). File contents are returned literally.
func Read(path string) (*Node, error) {
	info, err := os.Lstat(path)
	if err != nil {
		return nil, err
	}
	switch {
	case info.Mode()&os.ModeSymlink != 0:
		t, err := os.Readlink(path)
		if err != nil {
			return nil, err
		}
		return Link(t), nil
	case info.IsDir():
		es, err := os.ReadDir(path)
		if err != nil {
			return nil, err
		}
		d := Dir(nil)
		for _, e := range es {
			c, err := Read(filepath.Join(path, e.Name()))
			if err != nil {
				return nil, err
			}
			d.Children[e.Name()] = c
		}
		return d, nil
	case info.Mode().IsRegular():
		b, err := os.ReadFile(path)
		if err != nil {
			return nil, err
		}
		return File(string(b)), nil
	}
	return nil, fmt.Errorf("%s: unexpected file type %s", path, info.Mode())
}

// Literal returns a copy of the tree with content tokens expanded (comparable with what Read returns).
func (n *Node) Literal() *Node {
	switch n.Kind {
	case "f":
		return File(string(Expand(n.Content)))
	case "l":
		return Link(n.Target)
	}
	d := Dir(nil)
	for k, c := range n.Children {
		d.Children[k] = c.Literal()
	}
	return d
}

// Space bounds an enumeration.
type Space struct {
	Names      []string
	Contents   []string
	Targets    []string
	MaxDepth   int // 1 = root directory with leaves only
	MaxEntries int
}

// Dirs returns every root directory of the space, ordered by number of entries, then in generation order.
func (s Space) Dirs() []*Node {
	all := s.dirs(1, s.MaxEntries)
	sort.SliceStable(all, func(i, j int) bool { return all[i].Entries() < all[j].Entries() })
	return all
}

func (s Space) dirs(depth, budget int) []*Node {
	// children maps built name by name
	type partial struct {
		ch   map[string]*Node
		used int
	}
	ps := []partial{{map[string]*Node{}, 0}}
	for _, name := range s.Names {
		var next []partial
		for _, p := range ps {
			next = append(next, p) // name absent
			left := budget - p.used
			if left < 1 {
				continue
			}
			var opts []*Node
			for _, c := range s.Contents {
				opts = append(opts, File(c))
			}
			for _, t := range s.Targets {
				opts = append(opts, Link(t))
			}
			if depth < s.MaxDepth {
				opts = append(opts, s.dirs(depth+1, left-1)...)
			} else {
				opts = append(opts, Dir(nil)) // an empty directory at the deepest level
			}
			for _, o := range opts {
				ch := make(map[string]*Node, len(p.ch)+1)
				for k, v := range p.ch {
					ch[k] = v
				}
				ch[name] = o
				next = append(next, partial{ch, p.used + 1 + o.Entries()})
			}
		}
		ps = next
	}
	out := make([]*Node, len(ps))
	for i, p := range ps {
		out[i] = Dir(p.ch)
	}
	return out
}

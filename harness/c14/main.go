// C14: cleaning of the directory cache evicts only whole, unused entries and meets its bound.
//
// Part 1 (states): every cache content of <=N entries x sizes x access times (inside / outside the 10-minute grace
// period) x {unmarked, marked as stored, marked as retrieved} x (high, low) water marks at / around the total and around
// every subset sum, compressed and not, with and without stray non-entry files, is created on disk; the real
// dirCache.clean(high, low) runs once; the directory is read back.
//
// Part 2 (interleavings): the real clean() and a real Store / Retrieve of the same dirCache run as two threads of which one
// runs at a time, switching before mutating file-system operations (seam verifshim/vos): clean paused before its op j /
// whole Store or Retrieve / rest of clean, and Store paused before op k / whole clean / rest of Store.
package main

import (
	"fmt"
	"os"
	"path/filepath"
	"regexp"
	"runtime"
	"runtime/pprof"
	"sort"
	"strings"
	"sync"
	"sync/atomic"
	"time"

	"github.com/thought-machine/please/src/cache"
	"github.com/thought-machine/please/src/core"
	"github.com/thought-machine/please/verifharness/c09/tree"
	"github.com/thought-machine/please/verifharness/lib"
	"github.com/thought-machine/please/verifshim/vos"
)

// An Entry is one cache entry of a generated state.
type Entry struct {
	KiB   int    `json:"kib"`   // payload size
	Atime int    `json:"atime"` // minutes after the base time (base = 24 h ago)
	Mark  string `json:"mark"`  // "" unmarked | S (marked with its size, as Store does) | R (marked with size 0, as Retrieve does)
}

// A Case is one executable scenario (and the replay witness).
type Case struct {
	Mode      string  `json:"mode"` // state | conc
	Compress  bool    `json:"compress"`
	Entries   []Entry `json:"entries"`
	Strays    bool    `json:"strays,omitempty"`
	MissAfter bool    `json:"failed_retrieve_of_marked_entries_before_clean,omitempty"` // every entry this process retrieved is retrieved once more, unsuccessfully (an output it lacks / an unreadable archive): protection must survive a miss
	ViaLink   bool    `json:"cache_dir_through_symlink,omitempty"`                      // [cache] dir is spelt through a symlinked parent directory (~/.cache on another disk)
	High      int64   `json:"high"`                                                     // water marks relative to the sizes measured on this file system: see HighSpec/LowSpec
	Low       int64   `json:"low"`
	HighSpec  string  `json:"high_spec,omitempty"` // "total+d" : resolved against the measured total at run time
	LowSpec   string  `json:"low_spec,omitempty"`  // "sum:<bitmask>+d" : measured size of that subset of entries plus d
	// conc
	Pattern string `json:"pattern,omitempty"` // CXC: clean to op J, whole X, rest of clean; XCX: X to op K, whole clean, rest of X
	X       string `json:"x,omitempty"`       // store-new | store-existing | retrieve-existing
	K       int    `json:"k,omitempty"`
	J       int    `json:"j,omitempty"`
	After   any    `json:"after,omitempty"` // informational
}

var root string
var baseConfig *core.Configuration
var baseTime = time.Now().Add(-24 * time.Hour).Truncate(time.Second)

const (
	mPass = iota
	mSched
	mFree // after an infeasible switch point: no more control
)

var blockedRuns int64

type worker struct {
	id                  int
	gen, bin, cacheRoot string
	tA, tB, tBin        *core.BuildTarget
	cfg                 [4]*core.Configuration
	// hook state
	mode   int
	cur    int
	budget int
	gates  [2]chan struct{}
	yield  chan int
	trace  []string
	early  int
	// the state on disk, reused while only access times, marks and water marks change
	stKey    string
	stPS     []placed
	stStrays map[string]string
	stAll    map[string]bool
}

var workers []*worker
var wre = regexp.MustCompile(`/w(\d+)(/| |$)`)

func hook(n int64, op, path string) error {
	m := wre.FindStringSubmatch(path)
	if m == nil {
		lib.Fatal("operation on a path outside every worker: %q", path)
	}
	var i int
	fmt.Sscan(m[1], &i)
	w := workers[i]
	if w.mode == mSched {
		if w.budget == 0 {
			t := w.cur
			w.yield <- 0
			<-w.gates[t]
		}
		if w.budget > 0 {
			w.budget--
		}
		w.trace = append(w.trace, fmt.Sprintf("%s:%s %s", []string{"clean", "x"}[w.cur], op, strings.ReplaceAll(path, root, "")))
	}
	return nil
}

func must(err error) {
	if err != nil {
		lib.Fatal("%s", err)
	}
}

func newWorker(i int) *worker {
	pkg := fmt.Sprintf("w%d", i)
	w := &worker{id: i,
		gen:       filepath.Join(root, "plz-out/gen", pkg),
		bin:       filepath.Join(root, "plz-out/bin", pkg),
		cacheRoot: filepath.Join(root, "cache", pkg),
	}
	w.tA = core.NewBuildTarget(core.NewBuildLabel(pkg, "ta"))
	w.tB = core.NewBuildTarget(core.NewBuildLabel(pkg, "tb"))
	w.tBin = core.NewBuildTarget(core.NewBuildLabel(pkg, "ta"))
	w.tBin.IsBinary = true
	for ci := 0; ci < 4; ci++ {
		cfg := *baseConfig
		cfg.Cache.Dir = w.cacheRoot
		if ci >= 2 {
			cfg.Cache.Dir = filepath.Join(root, "cachelink", pkg) // the same directory, spelt through the symlink root/cachelink -> cache
		}
		cfg.Cache.DirClean = false
		cfg.Cache.DirCompress = ci%2 == 1
		w.cfg[ci] = &cfg
	}
	must(os.MkdirAll(w.gen, 0o755))
	must(os.MkdirAll(w.bin, 0o755))
	return w
}

func (w *worker) newCache(compress bool, viaLink ...bool) *cache.VerifDirCacheC12 {
	ci := 0
	if compress {
		ci = 1
	}
	if len(viaLink) > 0 && viaLink[0] {
		ci += 2
	}
	must(os.MkdirAll(w.cacheRoot, 0o755))
	return cache.VerifNewDirCacheC12(w.cfg[ci])
}

// keys: two of sha1 length, two of sha256 length
var keys = [][]byte{
	[]byte("0aaaaaaaaaaaaaaaaaaa"), []byte("1bbbbbbbbbbbbbbbbbbb"),
	[]byte("2ccccccccccccccccccccccccccccccc"), []byte("3ddddddddddddddddddddddddddddddd"),
	[]byte("4eeeeeeeeeeeeeeeeeee"),
}

func (w *worker) targetOf(i int) *core.BuildTarget {
	if i%2 == 0 {
		return w.tA
	}
	return w.tB
}

// sizeOf measures a path the way the cleaner does (sum of the sizes of every file and directory below and including it).
func sizeOf(p string) int64 {
	var total int64
	filepath.Walk(p, func(_ string, info os.FileInfo, err error) error {
		if err == nil {
			total += info.Size()
		}
		return nil
	})
	return total
}

func snapshot(p string) string {
	n, err := tree.Read(p)
	if err != nil {
		return ""
	}
	return n.Canon()
}

type placed struct {
	path   string
	size   int64
	before string
}

var payloads = map[[2]int][]byte{}
var payMu sync.Mutex

func payload(i, kib int) []byte {
	payMu.Lock()
	defer payMu.Unlock()
	k := [2]int{i, kib}
	if payloads[k] == nil {
		payloads[k] = []byte(strings.Repeat(string(rune('a'+i)), kib*1024))
	}
	return payloads[k]
}

// look is a cheap fingerprint of an entry or stray: "" if absent, else its kind, child names and sizes.
func look(p string) string {
	fi, err := os.Lstat(p)
	if err != nil {
		return ""
	}
	if !fi.IsDir() {
		return fmt.Sprintf("f%d", fi.Size())
	}
	es, _ := os.ReadDir(p)
	out := "d"
	for _, e := range es {
		out += " " + e.Name() + ":" + look(filepath.Join(p, e.Name()))
	}
	return out
}

func (w *worker) place(c Case, i int, final string) {
	if c.Compress {
		must(os.MkdirAll(filepath.Dir(final), 0o755))
		must(os.WriteFile(final, payload(i, c.Entries[i].KiB), 0o644))
	} else {
		must(os.MkdirAll(final, 0o755))
		must(os.WriteFile(filepath.Join(final, "out"), payload(i, c.Entries[i].KiB), 0o644))
	}
}

// build creates the generated state (or repairs the previous one when only access times, marks and water marks differ)
// and returns the cache under test (with its marks), the entries and the stray files.
func (w *worker) build(c Case) (*cache.VerifDirCacheC12, []placed, map[string]string) {
	key := fmt.Sprint(c.Compress, c.Strays, c.ViaLink, c.MissAfter)
	for _, e := range c.Entries {
		key += fmt.Sprint(" ", e.KiB)
	}
	var dc *cache.VerifDirCacheC12
	if key == w.stKey {
		dc = w.newCache(c.Compress, c.ViaLink)
		for i := range c.Entries {
			if look(w.stPS[i].path) == "" {
				w.place(c, i, w.stPS[i].path)
			}
		}
	} else {
		w.stKey = ""
		must(os.RemoveAll(w.cacheRoot))
		dc = w.newCache(c.Compress, c.ViaLink)
		ps := make([]placed, len(c.Entries))
		for i := range c.Entries {
			final, _ := cache.VerifPathC14(dc, w.targetOf(i), keys[i])
			w.place(c, i, final)
			ps[i] = placed{path: final}
		}
		strays := map[string]string{}
		if c.Strays {
			sub := filepath.Join(w.cacheRoot, fmt.Sprintf("w%d", w.id), "ta")
			must(os.MkdirAll(sub, 0o755))
			k28 := "c3RyYXlzdHJheXN0cmF5c3RyYXk=" // looks like a key
			list := []string{filepath.Join(w.cacheRoot, "README"), filepath.Join(sub, "notakey", "f"), filepath.Join(sub, "short=")}
			if c.Compress {
				list = append(list, filepath.Join(sub, k28+".tar.gz", "f"), filepath.Join(sub, k28), filepath.Join(sub, k28+".tar"))
			} else {
				list = append(list, filepath.Join(sub, k28), filepath.Join(sub, k28+".tar.gz"))
			}
			for _, s := range list {
				must(os.MkdirAll(filepath.Dir(s), 0o755))
				must(os.WriteFile(s, []byte(strings.Repeat("s", 3000)), 0o644))
			}
			for _, s := range list {
				strays[s] = look(s)
			}
		}
		for i := range ps {
			ps[i].size = sizeOf(ps[i].path)
			ps[i].before = look(ps[i].path)
		}
		w.stPS, w.stStrays, w.stAll = ps, strays, map[string]bool{}
		for _, p := range listAll(w.cacheRoot) {
			w.stAll[p] = true
		}
		w.stKey = key
	}
	for i, e := range c.Entries {
		switch e.Mark {
		case "S":
			cache.VerifMarkC14(dc, w.stPS[i].path, uint64(w.stPS[i].size))
		case "R":
			cache.VerifMarkC14(dc, w.stPS[i].path, 0)
		}
	}
	if c.MissAfter {
		for i, e := range c.Entries {
			if e.Mark == "R" {
				if dc.Retrieve(w.targetOf(i), keys[i], []string{"an-output-the-entry-does-not-have"}) {
					lib.Fatal("a Retrieve of an output the entry lacks reported a hit")
				}
			}
		}
	}
	// access times last (creating children touches directories)
	for i, e := range c.Entries {
		at := baseTime.Add(time.Duration(e.Atime) * time.Minute)
		must(os.Chtimes(w.stPS[i].path, at, at))
	}
	return dc, w.stPS, w.stStrays
}

// resolve turns the symbolic water marks into bytes using the measured sizes.
func resolve(c *Case, ps []placed) {
	view := int64(0) // the total as the cleaner sees it: marked entries count with their recorded size
	for i, e := range c.Entries {
		if e.Mark != "R" {
			view += ps[i].size
		}
	}
	if c.HighSpec != "" {
		var d int64
		fmt.Sscanf(c.HighSpec, "total%d", &d)
		c.High = view + d
		if c.HighSpec == "one" {
			c.High = 1
		}
	}
	if c.LowSpec != "" {
		var mask int
		var d int64
		fmt.Sscanf(c.LowSpec, "sum:%d%d", &mask, &d)
		c.Low = d
		for i := range c.Entries {
			if mask&(1<<i) != 0 {
				c.Low += ps[i].size
			}
		}
	}
	if c.Low < 0 {
		c.Low = 0
	}
	if c.High < 0 {
		c.High = 0
	}
}

func compName(b bool) string {
	if b {
		return "compressed"
	}
	return "uncompressed"
}

// leftovers lists paths under dir whose name carries the in-flight marker '=' after a key, or anything else that was not there.
func listAll(dir string) []string {
	var out []string
	filepath.Walk(dir, func(p string, info os.FileInfo, err error) error {
		if err == nil {
			out = append(out, p)
		}
		return nil
	})
	return out
}

func (w *worker) runState(c Case) (class, detail string, after any) {
	dc, ps, strays := w.build(c)
	resolve(&c, ps)
	allBefore := w.stAll
	defer func() {
		if class != "" {
			w.stKey = "" // rebuild from scratch after anything unexpected
		}
	}()
	var view, unprotBefore int64
	for i, e := range c.Entries {
		if e.Mark != "R" {
			view += ps[i].size
		}
		if e.Mark == "" {
			unprotBefore += ps[i].size
		}
	}
	ret := cache.VerifCleanC14(dc, uint64(c.High), uint64(c.Low))
	pfx := "clean:"
	status := make([]string, len(ps))
	var unprotAfter int64
	unprotLeft := 0
	for i, p := range ps {
		now := look(p.path)
		switch {
		case now == p.before:
			status[i] = "intact"
			if c.Entries[i].Mark == "" {
				unprotAfter += p.size
				unprotLeft++
			}
		case now == "":
			status[i] = "gone"
		default:
			status[i] = "partial"
		}
	}
	after = map[string]any{"status": status, "returned": ret, "high": c.High, "low": c.Low, "view_total_before": view}
	desc := fmt.Sprintf("entries %+v sizes %v, clean(high=%d, low=%d) with cleaner's total %d: status %v, returned %d", c.Entries, sizes(ps), c.High, c.Low, view, status, ret)
	for i := range ps {
		if status[i] == "partial" {
			return pfx + "entry-partly-removed", desc, after
		}
		if status[i] != "intact" && c.Entries[i].Mark != "" {
			return pfx + "marked-entry-removed:mark=" + c.Entries[i].Mark, desc, after
		}
	}
	for _, p := range listAll(w.cacheRoot) {
		if !allBefore[p] {
			return pfx + "leftover-after-clean", desc + "; new path " + p, after
		}
	}
	for s, before := range strays {
		if look(s) != before {
			return pfx + "non-entry-file-removed", desc + "; stray " + strings.TrimPrefix(s, w.cacheRoot), after
		}
	}
	if view < c.High {
		for i := range ps {
			if status[i] != "intact" {
				return pfx + "evicted-below-high-water-mark", desc, after
			}
		}
		return "", "", after
	}
	if !(unprotAfter < c.Low || unprotLeft == 0) {
		return pfx + "bound-not-met", desc + fmt.Sprintf("; %d unprotected bytes in %d entries remain", unprotAfter, unprotLeft), after
	}
	return "", "", after
}

func sizes(ps []placed) []int64 {
	out := make([]int64, len(ps))
	for i, p := range ps {
		out[i] = p.size
	}
	return out
}

// runConc: thread 0 = clean(1, 0) (evict everything it may), thread 1 = X on the same dirCache.
func (w *worker) runConc(c Case) (class, detail string, after any) {
	w.stKey = ""
	dc, ps, _ := w.build(c)
	w.stKey = "" // the entries are modified below
	// the outputs X stores / restores
	must(os.RemoveAll(w.gen))
	must(os.MkdirAll(w.gen, 0o755))
	must(os.WriteFile(filepath.Join(w.gen, "out"), []byte(strings.Repeat("n", 1500)), 0o644))
	must(os.RemoveAll(w.bin))
	must(os.MkdirAll(w.bin, 0o755))
	xKey, xTarget := keys[4], w.tA
	if c.X != "store-new" {
		// X uses the NEWEST old entry (the last one the cleaner would evict)
		xi := len(c.Entries) - 1
		xKey, xTarget = keys[xi], w.targetOf(xi)
		if c.Compress {
			// a hand-made compressed entry is not a tarball: replace it by a real one, stored by "another process"
			w.newCache(true).Store(xTarget, xKey, []string{"out"})
		} else {
			must(os.WriteFile(filepath.Join(ps[xi].path, "out"), []byte(strings.Repeat("n", 1500)), 0o644))
		}
		at := baseTime.Add(time.Duration(c.Entries[xi].Atime) * time.Minute)
		must(os.Chtimes(ps[xi].path, at, at))
	}
	w.tBin.Label = xTarget.Label
	final, _ := cache.VerifPathC14(dc, xTarget, xKey)
	w.mode, w.trace, w.early = mSched, nil, -1
	w.yield = make(chan int)
	w.gates[0], w.gates[1] = make(chan struct{}), make(chan struct{})
	hit := false
	finished := [2]bool{}
	go func() {
		<-w.gates[0]
		cache.VerifCleanC14(dc, 1, 0)
		w.yield <- 1
	}()
	go func() {
		<-w.gates[1]
		if c.X == "retrieve-existing" {
			hit = dc.Retrieve(w.tBin, xKey, []string{"out"})
		} else {
			dc.Store(xTarget, xKey, []string{"out"})
		}
		w.yield <- 1
	}()
	type seg struct{ t, n int }
	var segs []seg
	switch c.Pattern {
	case "CXC":
		segs = []seg{{0, c.J - 1}, {1, -1}, {0, -1}}
	case "XCX":
		segs = []seg{{1, c.K - 1}, {0, -1}, {1, -1}}
	default:
		lib.Fatal("unknown pattern %q", c.Pattern)
	}
	for i, s := range segs {
		if finished[s.t] {
			continue
		}
		w.cur, w.budget = s.t, s.n
		w.gates[s.t] <- struct{}{}
		select {
		case ev := <-w.yield:
			if ev == 1 {
				finished[s.t] = true
				if s.n >= 0 && w.early < 0 {
					w.early = i
				}
			}
		case <-time.After(3 * time.Second):
			// the running thread waits for something the paused thread holds (a lock): this switch point is not
			// feasible. Let both run freely to completion - still a legal execution - and judge the end state.
			w.mode = mFree
			atomic.AddInt64(&blockedRuns, 1)
			other := 1 - s.t
			if !finished[other] {
				w.gates[other] <- struct{}{}
			}
			for t := 0; t < 2; t++ {
				if !finished[t] {
					<-w.yield
					finished[t] = true
				}
			}
		}
	}
	w.mode = mPass
	pfx := "clean-vs-" + c.X + ":" + compName(c.Compress) + ":"
	sched := strings.Join(w.trace, "\n")
	// why an entry of this process got evicted, as far as the schedule tells
	evicted := "clean:in-flight-store-evicted:" + compName(c.Compress)
	if c.Pattern == "CXC" {
		evicted = "clean:entry-marked-after-the-scan-evicted" // the cleaner acted on its list without looking at the marks again
		for i, t := range w.trace {
			if strings.HasPrefix(t, "x:") && i+1 < len(w.trace) && strings.HasPrefix(w.trace[i+1], "clean:") {
				if strings.HasPrefix(w.trace[i+1], "clean:rename "+strings.ReplaceAll(final, root, "")+" ->") {
					evicted = "clean:entry-marked-between-check-and-rename-evicted" // isMarked() then Rename() is not atomic
				}
				break
			}
		}
	}
	exists := core.PathExists(final)
	after = map[string]any{"entry_exists": exists, "retrieve_hit": hit}
	if c.X == "retrieve-existing" {
		if !hit {
			return "", "", after // the cleaner got there first: an ordinary miss
		}
		got, err := tree.Read(w.bin)
		must(err)
		if len(got.Children) != 1 || got.Children["out"] == nil || got.Children["out"].Content != strings.Repeat("n", 1500) {
			return pfx + "hit-with-incomplete-outputs", fmt.Sprintf("pattern %s J=%d K=%d: Retrieve reported a hit but restored %s\n%s", c.Pattern, c.J, c.K, got.Canon(), sched), after
		}
		if !exists {
			return evicted, fmt.Sprintf("pattern %s J=%d K=%d: the entry this process retrieved (hit) was removed by the cleaner\n%s", c.Pattern, c.J, c.K, sched), after
		}
		return "", "", after
	}
	if !exists {
		return evicted, fmt.Sprintf("pattern %s J=%d K=%d: after Store and clean both finished the entry stored by this process does not exist\n%s", c.Pattern, c.J, c.K, sched), after
	}
	must(os.RemoveAll(w.bin))
	must(os.MkdirAll(w.bin, 0o755))
	if !w.newCache(c.Compress).Retrieve(w.tBin, xKey, []string{"out"}) {
		return pfx + "stored-entry-unusable", fmt.Sprintf("pattern %s J=%d K=%d: the stored entry exists but a Retrieve misses\n%s", c.Pattern, c.J, c.K, sched), after
	}
	if b, _ := os.ReadFile(filepath.Join(w.bin, "out")); string(b) != strings.Repeat("n", 1500) {
		return pfx + "stored-entry-incomplete", fmt.Sprintf("pattern %s J=%d K=%d: the stored entry restores %d bytes\n%s", c.Pattern, c.J, c.K, len(b), sched), after
	}
	return "", "", after
}

func (w *worker) runCase(c Case) (string, string, any) {
	if c.Mode == "conc" {
		return w.runConc(c)
	}
	return w.runState(c)
}

func main() {
	r := lib.Start("C14", "model_checking")
	lib.Quiet()
	if r.Replay != "" {
		r.Replay, _ = filepath.Abs(r.Replay)
	}
	if pf := os.Getenv("C14_PROF"); pf != "" {
		f, _ := os.Create(pf)
		pprof.StartCPUProfile(f)
		go func() { time.Sleep(20 * time.Second); pprof.StopCPUProfile(); os.Exit(3) }()
	}
	base := os.Getenv("C14_TMP")
	if st, e := os.Stat("/dev/shm"); base == "" && e == nil && st.IsDir() {
		base = "/dev/shm"
	}
	var err error
	root, err = os.MkdirTemp(base, "verif-c14-")
	must(err)
	root, _ = filepath.EvalSymlinks(root)
	must(os.Chdir(root))
	core.RepoRoot = root
	baseConfig = core.DefaultConfiguration()
	nw := runtime.NumCPU()
	if v := os.Getenv("C14_WORKERS"); v != "" {
		fmt.Sscan(v, &nw)
	}
	must(os.MkdirAll(filepath.Join(root, "cache"), 0o755))
	must(os.Symlink("cache", filepath.Join(root, "cachelink")))
	for i := 0; i < nw; i++ {
		workers = append(workers, newWorker(i))
	}
	vos.Hook = hook
	r.Assume = []string{
		"an entry = a directory (uncompressed) or file (compressed) whose name is a padded base64 key of sha1 or sha256 length (+ the cache suffix); entries marked by the current process = paths passed to markDir, with the stored size (Store) or 0 (Retrieve)",
		"the low-water bound is owed only when cleaning triggers, i.e. when the total as the cleaner measures it (unmarked entries by size on disk, marked entries by their recorded size) is >= the high-water mark (config.html: cleaning starts when the cache is over the high-water mark); below it nothing may be removed",
		"bound: afterwards the bytes of unmarked entries still present are < low, or no unmarked entry is left. Sizes are measured as the cleaner does (files and directories, Size()); eviction ORDER is not part of the statement and is not checked",
		"non-entry files in the cache directory must be left alone (the cleaner evicts only whole entries)",
		"interleavings: one thread runs at a time, switches only before mutating file-system operations; patterns CXC and XCX only (one pause); the cleaner runs with high=1, low=0 so it evicts everything it considers unprotected",
	}
	if r.Replay != "" {
		var c Case
		lib.LoadReplay(r.Replay, &c)
		class, detail, after := workers[0].runCase(c)
		c.After = after
		if class != "" {
			r.Violate(class, c, detail)
		}
		os.RemoveAll(root)
		r.Finish(lib.Coverage{Evaluations: 1, DistinctNontrivial: 1, Rule: "replay", Samples: []any{c}, Exhaustive: true})
	}

	maxN, kibs, atimes := 3, []int{1, 2}, []int{0, 5, 30}
	if !r.Quick() {
		maxN, kibs = 4, []int{1, 2, 4}
	}
	marks := []string{"", "S", "R"}
	// entry lists, smallest first
	var lists [][]Entry
	for n := 0; n <= maxN; n++ {
		var rec func(prefix []Entry)
		rec = func(prefix []Entry) {
			if len(prefix) == n {
				lists = append(lists, append([]Entry{}, prefix...))
				return
			}
			for _, k := range kibs {
				for _, a := range atimes {
					for _, m := range marks {
						if n == 4 && (k == 4 || m == "R" || a == 5 && len(prefix) >= 2) {
							continue // 4 entries: payloads 1 and 2 KiB, marks unmarked / stored only, in-grace time only in the first two
						}
						if r.Quick() && n == 3 && len(prefix) == 2 && (k != 1 || a == 5) {
							continue // quick, 3 entries: the third is 1 KiB and not inside the grace period of the base time
						}
						rec(append(prefix, Entry{k, a, m}))
					}
				}
			}
		}
		rec(nil)
	}
	type job struct {
		c   Case
		idx int
	}
	jobs := make(chan job, 1024)
	var mu sync.Mutex
	type best struct {
		c      Case
		detail string
		idx    int
		count  int
	}
	found := map[string]*best{}
	var evals, nontrivial, concRuns, transitions, stateCases int64
	var samples lib.Samples
	record := func(j job, class, detail string, after any) {
		n := atomic.AddInt64(&evals, 1)
		if n%4999 == 1 {
			c := j.c
			c.After = after
			samples.Add(func() any { return c })
		}
		if class == "" {
			return
		}
		mu.Lock()
		b := found[class]
		if b == nil {
			b = &best{idx: 1 << 60}
			found[class] = b
		}
		b.count++
		if j.idx < b.idx {
			c := j.c
			c.After = after
			b.c, b.detail, b.idx = c, detail, j.idx
		}
		mu.Unlock()
	}
	// the cases of one entry list (both compressions), in order
	casesOf := func(li int, es []Entry) []Case {
		var out []Case
		n := len(es)
		// water marks: high in {1, total-1, total, total+1}; low = every subset sum and subset sum + 1
		highs := []string{"total+0", "total+1", "one", "total-1"}
		if r.Quick() || n == 4 {
			highs = highs[:3] // total-1 behaves like total; left out in the quick tier and for 4 entries
		}
		for _, compress := range []bool{false, true} {
			for _, strays := range []bool{false, true} {
				if strays && li%5 != 0 {
					continue // stray files with every 5th content
				}
				for _, hs := range highs {
					for mask := 0; mask < 1<<n; mask++ {
						for _, d := range []int{0, 1} {
							if hs == "total+1" && (mask != 0 || d != 0) {
								continue // not triggered: one low mark is enough
							}
							if r.Quick() && n == 3 && hs == "one" && mask%3 != 0 {
								continue
							}
							out = append(out, Case{Mode: "state", Compress: compress, Entries: es, Strays: strays, HighSpec: hs, LowSpec: fmt.Sprintf("sum:%d+%d", mask, d)})
							marked := false
							for _, e := range es {
								marked = marked || e.Mark != ""
							}
							retrieved := false
							for _, e := range es {
								retrieved = retrieved || e.Mark == "R"
							}
							if retrieved && (!r.Quick() || (mask == 0 && d == 0)) {
								// the same after a failed Retrieve of the entries this process had retrieved
								out = append(out, Case{Mode: "state", Compress: compress, Entries: es, Strays: strays, MissAfter: true, HighSpec: hs, LowSpec: fmt.Sprintf("sum:%d+%d", mask, d)})
							}
							if marked && (!r.Quick() || (mask == 0 && d == 0)) {
								// the same with the cache directory spelt through a symlinked parent (protection is by path)
								out = append(out, Case{Mode: "state", Compress: compress, Entries: es, Strays: strays, ViaLink: true, HighSpec: hs, LowSpec: fmt.Sprintf("sum:%d+%d", mask, d)})
							}
						}
					}
				}
			}
		}
		return out
	}
	var wg sync.WaitGroup
	for _, w := range workers {
		wg.Add(1)
		go func() {
			defer wg.Done()
			for j := range jobs {
				if j.c.Mode == "conc" {
					// enumerate the pause point until the paused thread runs out of operations
					for p := 1; p <= 100; p++ {
						c := j.c
						if c.Pattern == "CXC" {
							c.J = p
						} else {
							c.K = p
						}
						class, detail, after := w.runCase(c)
						record(job{c, j.idx}, class, detail, after)
						atomic.AddInt64(&concRuns, 1)
						atomic.AddInt64(&transitions, int64(len(w.trace)))
						if w.early == 0 {
							break
						}
					}
					continue
				}
				// a batch: every case of one entry list
				anyUnmarked := false
				for _, e := range j.c.Entries {
					anyUnmarked = anyUnmarked || e.Mark == ""
				}
				for ci, c := range casesOf(j.c.K, j.c.Entries) {
					class, detail, after := w.runCase(c)
					record(job{c, j.idx + ci}, class, detail, after)
					atomic.AddInt64(&stateCases, 1)
					if anyUnmarked {
						atomic.AddInt64(&nontrivial, 1)
					}
				}
			}
		}()
	}
	exhaustive := true
	idx := 0
	for li, es := range lists {
		if r.OutOfTime() {
			exhaustive = false
			break
		}
		idx = li * 10000
		jobs <- job{Case{Mode: "batch", Entries: es, K: li}, idx}
	}
	idx = len(lists) * 10000
	// interleavings: old unmarked entries + X
	for _, compress := range []bool{false, true} {
		for nOld := 1; nOld <= 2; nOld++ {
			es := []Entry{{1, 0, ""}, {2, 30, ""}}[:nOld]
			for _, x := range []string{"store-new", "store-existing", "retrieve-existing"} {
				for _, pat := range []string{"CXC", "XCX"} {
					idx++
					jobs <- job{Case{Mode: "conc", Compress: compress, Entries: es, X: x, Pattern: pat}, idx}
				}
			}
		}
	}
	close(jobs)
	wg.Wait()
	classes := []string{}
	for cl := range found {
		classes = append(classes, cl)
	}
	sort.Strings(classes)
	for _, cl := range classes {
		b := found[cl]
		b.c.After = nil
		c2, _, after := workers[0].runCase(b.c)
		if c2 != cl {
			lib.Fatal("HARNESS-NONDETERMINISM %s: re-run gave %q", cl, c2)
		}
		b.c.After = after
		r.Violate(cl, b.c, b.detail)
		for i := 1; i < b.count; i++ {
			r.Violate(cl, nil, "")
		}
	}
	os.RemoveAll(root)
	r.Finish(lib.Coverage{
		Evaluations:        int(evals),
		DistinctNontrivial: int(nontrivial),
		Rule:               "an evaluation = one generated cache state + one real clean(high, low) (states), or one interleaving of clean with a Store / Retrieve; non-trivial state = at least one unmarked entry",
		Samples:            samples.List(),
		States:             int(evals),
		Transitions:        int(transitions),
		TracesValidated:    int(concRuns),
		Exhaustive:         exhaustive,
		Extra: map[string]any{"state_cases": stateCases, "interleavings": concRuns, "interleavings_with_an_infeasible_switch_point": blockedRuns, "entry_lists": len(lists),
			"space": fmt.Sprintf("<=%d entries x payload KiB %v x access time (minutes after base) %v x marks %q x high in {1,total-1,total,total+1} x low in {subset sum, subset sum+1}; compressed and not; stray files with every 5th content; interleavings: 1-2 old entries x {store-new, store-existing, retrieve-existing} x {CXC, XCX} x every pause point", maxN, kibs, atimes, marks)},
	})
}

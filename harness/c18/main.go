// C18: frozen (imported) values behave like ordinary values.
// Every value of a small alphabet x every builtin / operator application is run three ways on the real interpreter:
// with the value defined locally, imported through a real subinclude() (frozen), and taken from CONFIG (put there by
// the build_defs file, or coming from the configuration itself). Same result, or both must be rejected.
package main

import (
	"fmt"
	"os"
	"path/filepath"
	"reflect"
	"runtime"
	"sort"
	"strings"
	"sync"
	"sync/atomic"

	"github.com/thought-machine/please/rules"
	"github.com/thought-machine/please/src/core"
	"github.com/thought-machine/please/src/parse/asp"
	"github.com/thought-machine/please/verifharness/lib"
)

// ---------- alphabet ----------

type value struct {
	Name string // exported name
	Lit  string
	kind byte   // 'l' / 'd'
	elem string // "int", "str", "list", "dict", "" (empty)
	n    int    // length
	sub  string // expression reaching a nested container from the name ("" if none)
	subK byte
	subE string
	subN int
}

var values = []value{
	{Name: "L0", Lit: `[]`, kind: 'l'},
	{Name: "L1", Lit: `[1]`, kind: 'l', elem: "int", n: 1},
	{Name: "L2", Lit: `[3, 1, 2]`, kind: 'l', elem: "int", n: 3},
	{Name: "L3", Lit: `[0, 1]`, kind: 'l', elem: "int", n: 2},
	{Name: "L4", Lit: `["b", "a"]`, kind: 'l', elem: "str", n: 2},
	{Name: "L5", Lit: `["é"]`, kind: 'l', elem: "str", n: 1},
	{Name: "L6", Lit: `[[2, 1], [1]]`, kind: 'l', elem: "list", n: 2, sub: "[0]", subK: 'l', subE: "int", subN: 2},
	{Name: "L7", Lit: `[{"a": 1}]`, kind: 'l', elem: "dict", n: 1, sub: "[0]", subK: 'd', subE: "int", subN: 1},
	{Name: "D0", Lit: `{}`, kind: 'd'},
	{Name: "D1", Lit: `{"a": 1}`, kind: 'd', elem: "int", n: 1},
	{Name: "D2", Lit: `{"a": 1, "b": 2}`, kind: 'd', elem: "int", n: 2},
	{Name: "D3", Lit: `{"a": [2, 1]}`, kind: 'd', elem: "list", n: 1, sub: `["a"]`, subK: 'l', subE: "int", subN: 2},
	{Name: "D4", Lit: `{"a": {"a": 1}}`, kind: 'd', elem: "dict", n: 1, sub: `["a"]`, subK: 'd', subE: "int", subN: 1},
	{Name: "D5", Lit: `{"a": "x"}`, kind: 'd', elem: "str", n: 1},
}

// the list that really comes from the configuration (CONFIG.BUILD_FILE_NAMES)
var buildFileNames = value{Name: "BFN", Lit: `["BUILD", "BUILD.plz"]`, kind: 'l', elem: "str", n: 2}

// An op is one application; V stands for the value expression, LIT for an equal local literal.
type op struct {
	Name   string
	Code   string // uses V and LIT; must assign r (or define target t)
	listed bool   // named in the property statement's own list
	need   func(k byte, elem string, n int) bool
}

func always(byte, string, int) bool         { return true }
func nonEmpty(_ byte, _ string, n int) bool { return n > 0 }
func scalarElems(_ byte, e string, n int) bool {
	return e == "int" || e == "str" || n == 0
}
func scalarNonEmpty(_ byte, e string, n int) bool { return (e == "int" || e == "str") && n > 0 }
func strElems(_ byte, e string, n int) bool       { return e == "str" || n == 0 }
func intElems(_ byte, e string, n int) bool       { return e == "int" || n == 0 }
func two(_ byte, _ string, n int) bool            { return n == 2 }

var listOps = []op{
	{"sorted", "r = sorted(V)", true, scalarElems},
	{"sorted-reverse", "r = sorted(V, reverse = True)", true, scalarElems},
	{"sorted-key", "r = sorted(V, key = lambda x: len(str(x)))", true, always},
	{"sorted-of-lists", "r = sorted(V)", true, func(_ byte, e string, _ int) bool { return e == "list" }},
	{"reversed", "r = reversed(V)", true, always},
	{"enumerate", "r = enumerate(V)", true, always},
	{"any", "r = any(V)", true, always},
	{"all", "r = all(V)", true, always},
	{"zip-with-itself", "r = zip(V, V)", true, always},
	{"zip-with-local", "r = zip(LIT, V)", true, always},
	{"zip-local-first", "r = zip(V, LIT)", true, always},
	{"min", "r = min(V)", true, scalarNonEmpty},
	{"max", "r = max(V)", true, scalarNonEmpty},
	{"min-key", "r = min(V, key = lambda x: len(str(x)))", true, nonEmpty},
	{"map", "r = map(lambda x: [x], V)", true, always},
	{"filter", "r = filter(lambda x: x, V)", true, always},
	{"reduce", "r = reduce(lambda a, b: [a, b], V)", true, nonEmpty},
	{"reduce-init", "r = reduce(lambda a, b: [a, b], V, 0)", true, always},
	{"len", "r = len(V)", true, always},
	{"in", "r = [1 in V, \"a\" in V, 7 in V, \"é\" in V]", true, always},
	{"not-in", "r = [1 not in V, \"zz\" not in V]", true, always},
	{"add-local-right", "r = V + [9]", true, always},
	{"add-local-left", "r = [9] + V", true, always},
	{"add-longer-local-left", "r = [9, 8, 7, 6] + V", true, always},
	{"add-itself", "r = V + V", true, always},
	{"add-empty", "r = V + []", true, always},
	{"augassign", "r = V\nr += [9]", true, always},
	{"eq-local-right", "r = V == LIT", true, always},
	{"eq-local-left", "r = LIT == V", true, always},
	{"ne-local", "r = [V != LIT, LIT != V]", true, always},
	{"eq-itself", "r = V == V", true, always},
	{"eq-different", "r = [V == [\"other\"], V != [\"other\"]]", true, always},
	{"eq-inside-list", "r = [V] == [LIT]", true, always},
	{"eq-inside-dict", "r = {\"k\": V} == {\"k\": LIT}", true, always},
	{"eq-empty-literal", "r = [V == [], [] == V]", true, always},
	{"index", "r = [V[0], V[-1]]", false, nonEmpty},
	{"slice-full", "r = V[:]", false, always},
	{"slice-tail", "r = V[1:]", false, always},
	{"slice-head", "r = V[0:1]", false, always},
	{"for-loop", "r = []\nfor x in V:\n    r += [x]", false, always},
	{"comprehension", "r = [[x] for x in V if x or True]", false, always},
	{"join", "r = \",\".join(V)", false, strElems},
	{"join-optimised-shape", "r = \",\".join([x for x in V])", false, strElems},
	{"repeat-right", "r = V * 2", false, always},
	{"repeat-left", "r = 2 * V", false, always},
	{"unpack", "a, b = V\nr = [b, a]", false, two},
	{"isinstance-list", "r = [isinstance(V, list), isinstance(V, dict), isinstance(V, str)]", false, always},
	{"str", "r = str(V)", false, always},
	{"fstring", "x = V\nr = f\"<{x}>\"", false, always},
	{"format", "r = \"<{}>\".format(V)", false, always},
	{"json", "r = json(V)", false, always},
	{"truthiness", "r = [bool(V), not V, V and 1, 1 if V else 2]", false, always},
	{"or-value", "r = V or [5]", false, always},
	{"less-than", "r = [V < LIT, LIT < V, V < V]", false, scalarElems},
	{"in-list-of-lists", "r = V in [LIT]", false, always},
	{"sorted-list-containing-it", "r = sorted([V, LIT])", false, scalarElems},
	{"typed-function-argument", "def f(l:list):\n    return len(l)\nr = f(V)", false, always},
	{"typed-function-return", "def f(l) -> list:\n    return l\nr = f(V)", false, always},
	{"dict-value-roundtrip", "d = {\"k\": V}\nr = d[\"k\"]", false, always},
	{"range-add", "r = range(2) + V", false, always},
	{"build_rule-labels", "build_rule(name = \"t\", cmd = \"true\", labels = V)", false, strElems},
	{"build_rule-outs", "build_rule(name = \"t\", cmd = \"true\", outs = V)", false, func(_ byte, e string, n int) bool { return e == "str" && n > 0 }},
	{"build_rule-visibility", "build_rule(name = \"t\", cmd = \"true\", visibility = [\"//\" + x + \"/...\" for x in V])", false, strElems},
	{"build_rule-pass_env", "build_rule(name = \"t\", cmd = \"true\", pass_env = V)", false, strElems},
	{"build_rule-tools", "build_rule(name = \"t\", cmd = \"true\", tools = [\"//x:\" + x for x in V])", false, func(_ byte, e string, n int) bool { return e == "str" && n > 0 }},
	{"build_rule-licences", "build_rule(name = \"t\", cmd = \"true\", licences = V)", false, strElems},
	{"build_rule-requires", "build_rule(name = \"t\", cmd = \"true\", requires = V)", false, strElems},
	{"build_rule-output_dirs", "build_rule(name = \"t\", cmd = \"true\", output_dirs = V)", false, strElems},
	{"build_rule-hashes", "build_rule(name = \"t\", cmd = \"true\", hashes = V)", false, strElems},
	{"glob-exclude", "r = glob([\"nothing-matches-*\"], exclude = V, allow_empty = True)", false, strElems},
	{"subinclude-argument", "r = 1\nif not V:\n    subinclude(V)", false, func(_ byte, _ string, n int) bool { return n == 0 }},
}

var dictOps = []op{
	{"len", "r = len(V)", true, always},
	{"in", "r = [\"a\" in V, \"zz\" in V, 1 in V]", true, always},
	{"not-in", "r = [\"a\" not in V, \"zz\" not in V]", true, always},
	{"eq-local-right", "r = V == LIT", true, always},
	{"eq-local-left", "r = LIT == V", true, always},
	{"ne-local", "r = [V != LIT, LIT != V]", true, always},
	{"eq-itself", "r = V == V", true, always},
	{"eq-copy", "r = [V == V.copy(), V.copy() == V]", true, always},
	{"eq-different", "r = [V == {\"other\": 0}, V != {\"other\": 0}]", true, always},
	{"eq-inside-list", "r = [V] == [LIT]", true, always},
	{"eq-inside-dict", "r = {\"k\": V} == {\"k\": LIT}", true, always},
	{"eq-empty-literal", "r = [V == {}, {} == V]", true, always},
	{"sorted-keys", "r = sorted(V.keys())", true, always},
	{"reversed-keys", "r = reversed(V.keys())", true, always},
	{"enumerate-items", "r = enumerate(V.items())", true, always},
	{"zip-keys-values", "r = zip(V.keys(), V.values())", true, always},
	{"any-all-values", "r = [any(V.values()), all(V.values())]", true, always},
	{"map-filter-items", "r = [map(lambda kv: kv[0], V.items()), filter(lambda k: k != \"a\", V.keys())]", true, always},
	{"index", "r = V[\"a\"]", false, nonEmpty},
	{"property-access", "r = V.a", false, nonEmpty},
	{"get", "r = [V.get(\"a\"), V.get(\"zz\"), V.get(\"zz\", 5)]", false, always},
	{"keys-values-items", "r = [V.keys(), V.values(), V.items()]", false, always},
	{"copy", "r = V.copy()", false, always},
	{"copy-then-assign", "r = V.copy()\nr[\"n\"] = 1", false, always},
	{"union-local-right", "r = V | {\"z\": 1}", false, always},
	{"union-local-left", "r = {\"z\": 1} | V", false, always},
	{"union-itself", "r = V | V", false, always},
	{"for-items", "r = []\nfor k, v in V.items():\n    r += [[k, v]]", false, always},
	{"dict-comprehension", "r = {k + \"!\": v for k, v in V.items()}", false, always},
	{"isinstance-dict", "r = [isinstance(V, dict), isinstance(V, list)]", false, always},
	{"str", "r = str(V)", false, always},
	{"fstring", "x = V\nr = f\"<{x}>\"", false, always},
	{"format", "r = \"<{}>\".format(V)", false, always},
	{"json", "r = json(V)", false, always},
	{"truthiness", "r = [bool(V), not V, V and 1, 1 if V else 2]", false, always},
	{"typed-function-argument", "def f(d:dict):\n    return len(d)\nr = f(V)", false, always},
	{"typed-function-return", "def f(d) -> dict:\n    return d\nr = f(V)", false, always},
	{"list-element-roundtrip", "l = [V]\nr = l[0]", false, always},
	{"build_rule-env", "build_rule(name = \"t\", cmd = \"true\", env = V)", false, func(_ byte, e string, n int) bool { return e == "str" || n == 0 }},
	{"build_rule-cmd", "build_rule(name = \"t\", cmd = V)", false, func(_ byte, e string, n int) bool { return e == "str" }},
	{"build_rule-outs", "build_rule(name = \"t\", cmd = \"true\", outs = V)", false, func(_ byte, e string, n int) bool { return e == "str" }},
	{"build_rule-labels-from-keys", "build_rule(name = \"t\", cmd = \"true\", labels = V.keys())", false, always},
	{"build_rule-entry_points", "build_rule(name = \"t\", cmd = \"true\", outs = [\"x\"], entry_points = V)", false, func(_ byte, e string, n int) bool { return e == "str" }},
	{"build_rule-secrets", "build_rule(name = \"t\", cmd = \"true\", secrets = V)", false, func(_ byte, e string, n int) bool { return e == "str" }},
	{"build_rule-provides", "build_rule(name = \"t\", cmd = \"true\", provides = {k: \"//x:\" + v for k, v in V.items()})", false, func(_ byte, e string, n int) bool { return e == "str" }},
}

// groupOf maps an application to the code site it exercises (applications of one group fail for one reason).
func groupOf(name string) string {
	switch {
	case strings.HasPrefix(name, "sorted-list-containing"), name == "less-than":
		return "less-than"
	case strings.HasPrefix(name, "sorted"):
		return "sorted"
	case strings.HasPrefix(name, "zip"):
		return "zip"
	case name == "min", name == "max", name == "min-key":
		return "min-max"
	case strings.HasPrefix(name, "reduce"):
		return "reduce"
	case strings.HasPrefix(name, "eq-"), name == "ne-local":
		return "=="
	case strings.HasPrefix(name, "slice-"):
		return "slice"
	case strings.HasPrefix(name, "union-"):
		return "union"
	case strings.HasPrefix(name, "add-"), name == "augassign":
		return "+"
	case strings.HasPrefix(name, "isinstance"):
		return "isinstance"
	}
	return name
}

// ---------- programs ----------

type variant struct {
	Name  string // how the value is obtained
	Class string // prefix of violation classes
}

var (
	vLocal    = variant{"local", ""}
	vImported = variant{"imported-through-subinclude", "frozen"}
	vElement  = variant{"container-inside-an-imported-value", "element-of-frozen"}
	vConfig   = variant{"CONFIG-value-set-by-build_defs", "from-CONFIG-set-by-build_defs"}
	vPlzcfg   = variant{"CONFIG-value-from-configuration", "from-CONFIG-of-configuration"}
)

func defsText() string {
	var b strings.Builder
	for _, v := range values {
		fmt.Fprintf(&b, "%s = %s\n", v.Name, v.Lit)
		fmt.Fprintf(&b, "CONFIG.setdefault(\"C18_%s\", %s)\n", v.Name, v.Lit)
	}
	return b.String()
}

type caseT struct {
	Value                    string `json:"value"`
	Kind                     string `json:"kind"`
	Op                       string `json:"op"`
	Listed                   bool   `json:"op_named_in_statement"`
	Variant                  string `json:"variant"`
	Local                    string `json:"local_program"`
	Other                    string `json:"other_program"`
	group                    string
	parentLocal, parentOther string // "+branch" twins: the programs of the application itself (a twin speaks only where that holds)
	probe                    string // program telling whether the obtained object rejects assignment (is a frozen wrapper)
	vclass                   string
}

func kindName(k byte) string {
	if k == 'l' {
		return "list"
	}
	return "dict"
}

func instantiate(code, v, lit string) string {
	return strings.ReplaceAll(strings.ReplaceAll(code, "LIT", lit), "V", v) + "\n"
}

const sub = "subinclude(\"//defs:vals\")\n"

// branchable names the list-valued applications that get a "+branch" twin: the result is extended twice, independently
// (ra = r + [p]; rb = r + [q]); an ordinary list value never lets the second extension show through in the first.
var branchable = map[string]bool{"sorted": true, "sorted-reverse": true, "sorted-key": true, "reversed": true, "map": true, "filter": true,
	"add-local-right": true, "add-local-left": true, "add-longer-local-left": true, "add-itself": true, "add-empty": true, "augassign": true,
	"slice-full": true, "slice-tail": true, "slice-head": true, "for-loop": true, "comprehension": true, "repeat-right": true, "repeat-left": true,
	"or-value": true, "range-add": true, "dict-value-roundtrip": true, "typed-function-return": true}

func init() {
	var twins []op
	for _, o := range listOps {
		if branchable[o.Name] {
			twins = append(twins, op{o.Name + "+branch", o.Code + "\nra = r + [\"p\"]\nrb = r + [\"q\"]\nr = [r, ra, rb]", o.listed, o.need})
		}
	}
	listOps = append(listOps, twins...)
}

func cases() []caseT {
	var out []caseT
	add := func(val value, k byte, elem string, n int, lit string, vr variant, localDef, otherDef, expr string) {
		ops := listOps
		if k == 'd' {
			ops = dictOps
		}
		for _, o := range ops {
			if !o.need(k, elem, n) {
				continue
			}
			body := instantiate(o.Code, expr, lit)
			pl, po := "", ""
			if strings.HasSuffix(o.Name, "+branch") {
				pb := instantiate(strings.SplitN(o.Code, "\nra = ", 2)[0], expr, lit)
				pl, po = localDef+pb, otherDef+pb
			}
			out = append(out, caseT{parentLocal: pl, parentOther: po, Value: lit, Kind: kindName(k), Op: o.Name, Listed: o.listed, Variant: vr.Name,
				Local: localDef + body, Other: otherDef + body, group: groupOf(o.Name), vclass: vr.Class,
				probe: otherDef + map[byte]string{'l': "Y = " + expr + "\nY[0] = 0\n", 'd': "Y = " + expr + "\nY[\"zz\"] = 0\n"}[k]})
		}
	}
	for _, v := range values {
		// the value itself: local definition vs import vs CONFIG
		add(v, v.kind, v.elem, v.n, v.Lit, vImported, "X = "+v.Lit+"\n", sub+"X = "+v.Name+"\n", "X")
		add(v, v.kind, v.elem, v.n, v.Lit, vConfig, "X = "+v.Lit+"\n", sub+"X = CONFIG.C18_"+v.Name+"\n", "X")
		if v.sub != "" {
			subLit := map[string]string{"L6": "[2, 1]", "L7": `{"a": 1}`, "D3": "[2, 1]", "D4": `{"a": 1}`}[v.Name]
			add(v, v.subK, v.subE, v.subN, subLit, vElement, "X = "+subLit+"\n", sub+"X = "+v.Name+v.sub+"\n", "X")
		}
	}
	v := buildFileNames
	add(v, v.kind, v.elem, v.n, v.Lit, vPlzcfg, "X = "+v.Lit+"\n", "X = CONFIG.BUILD_FILE_NAMES\n", "X")
	return out
}

// ---------- the interpreter ----------

var builtinsSrc []byte

var sharedConfig = func() *core.Configuration {
	c := core.DefaultConfiguration()
	c.Parse.BuildFileName = []string{"BUILD", "BUILD.plz"}
	return c
}()

type base struct {
	state *core.BuildState
	seq   int
}

func newBase() *base {
	state := core.NewBuildState(sharedConfig)
	pkg := core.NewPackage("defs")
	t := core.NewBuildTarget(core.NewBuildLabel("defs", "vals"))
	t.AddOutput("vals.build_defs")
	t.Visibility = core.WholeGraph
	t.SetState(core.Built)
	pkg.AddTarget(t)
	state.Graph.AddTarget(t)
	state.Graph.AddPackage(pkg)
	return &base{state: state}
}

var basePool chan *base

type obs struct {
	Err     string
	R       any
	HasR    bool
	Targets []string
}

// run parses one BUILD program in a fresh interpreter (fresh parser + subinclude cache + CONFIG) and a fresh package.
func run(code string) obs {
	b := <-basePool
	if b.seq >= 3000 {
		b = newBase()
	}
	b.seq++
	defer func() { basePool <- b }()
	p := asp.NewParser(b.state)
	p.MustLoadBuiltins("builtins.build_defs", builtinsSrc)
	name := fmt.Sprintf("q%d", b.seq)
	pkg := core.NewPackage(name)
	var o obs
	g, err := asp.VerifEvalBuildC16(p, pkg, code)
	if err != nil {
		s := err.Error()
		if i := strings.IndexByte(s, '\n'); i >= 0 {
			s = s[:i]
		}
		o.Err = strings.ReplaceAll(s, name, "PKG")
		return o
	}
	o.R, o.HasR = g["r"]
	for _, t := range pkg.AllTargets() {
		labels := append([]string{}, t.Labels...)
		sort.Strings(labels)
		outs := t.DeclaredOutputs()
		env := fmt.Sprint(t.Env)
		o.Targets = append(o.Targets, fmt.Sprintf("%s cmd=%q cmds=%v labels=%v outs=%v env=%s vis=%v passenv=%v tools=%v lic=%v req=%v outdirs=%v hashes=%v entry=%v secrets=%v provides=%v",
			t.Label.Name, t.Command, t.Commands, labels, outs, env, t.Visibility, t.PassEnv, t.AllTools(), t.Licences, t.Requires, t.OutputDirectories, t.Hashes, t.EntryPoints, t.Secrets, t.Provides))
	}
	sort.Strings(o.Targets)
	return o
}

func compare(local, other obs) (string, string) {
	switch {
	case local.Err == "" && other.Err != "":
		return "rejected", fmt.Sprintf("accepted for the ordinary value (r=%v targets=%v) but rejected for the other: %s", local.R, local.Targets, other.Err)
	case local.Err != "":
		// the statement demands nothing where the ordinary value is rejected
		return "", ""
	}
	if local.HasR != other.HasR || !reflect.DeepEqual(local.R, other.R) {
		return "different-result", fmt.Sprintf("ordinary value gives %#v, the other gives %#v", local.R, other.R)
	}
	if !reflect.DeepEqual(local.Targets, other.Targets) {
		return "different-target", fmt.Sprintf("ordinary value gives %v, the other gives %v", local.Targets, other.Targets)
	}
	return "", ""
}

var onlyOrdinaryRejected int64

func check(c caseT) (class, detail string, bothRejected bool) {
	if c.parentLocal != "" {
		// the application itself already differs: that is its own case's report, the twin adds nothing
		if how, _ := compare(run(c.parentLocal), run(c.parentOther)); how != "" {
			return "", "", false
		}
	}
	l, o := run(c.Local), run(c.Other)
	how, why := compare(l, o)
	if how == "" {
		if l.Err != "" && o.Err == "" {
			atomic.AddInt64(&onlyOrdinaryRejected, 1)
		}
		return "", "", l.Err != ""
	}
	l2, o2 := run(c.Local), run(c.Other)
	if how2, _ := compare(l2, o2); how2 != how {
		lib.Fatal("HARNESS-NONDETERMINISM: %+v", c)
	}
	return wrapperKind(c) + ":" + c.group + ":" + how, why, false
}

var probeCache sync.Map

// wrapperKind names what kind of object the value is on the "other" side: a frozen wrapper (it rejects assignment with
// "immutable") or a plain shared object. Used for the class name only.
func wrapperKind(c caseT) string {
	if v, ok := probeCache.Load(c.probe); ok {
		return v.(string)
	}
	k := "unfrozen-" + c.Kind + "-" + c.vclass
	if o := run(c.probe); strings.Contains(o.Err, "immutable") {
		k = "frozen-" + c.Kind
		if c.vclass != "frozen" && c.vclass != "element-of-frozen" {
			// a frozen wrapper that did not come out of a subincluded file's globals: a different input than the listed findings
			k += ":" + c.vclass
		}
	}
	probeCache.Store(c.probe, k)
	return k
}

func main() {
	r := lib.Start("C18", "exploration")
	lib.Quiet()
	var err error
	if builtinsSrc, err = rules.ReadAsset("builtins.build_defs"); err != nil {
		lib.Fatal("builtins: %s", err)
	}
	dir, err := os.MkdirTemp("", "c18-")
	if err != nil {
		lib.Fatal("tmp: %s", err)
	}
	gen := filepath.Join(dir, "plz-out", "gen", "defs")
	os.MkdirAll(gen, 0o755)
	if err := os.WriteFile(filepath.Join(gen, "vals.build_defs"), []byte(defsText()), 0o644); err != nil {
		lib.Fatal("write defs: %s", err)
	}
	if err := os.Chdir(dir); err != nil {
		lib.Fatal("chdir: %s", err)
	}
	core.RepoRoot = dir
	cleanup := func() { os.Chdir("/"); os.RemoveAll(dir) }
	nw := runtime.NumCPU()
	basePool = make(chan *base, nw+2)
	for i := 0; i < nw+2; i++ {
		basePool <- newBase()
	}

	if r.Replay != "" {
		var c caseT
		lib.LoadReplay(r.Replay, &c)
		how, why := compare(run(c.Local), run(c.Other))
		if how != "" {
			r.Violate("replay", c, how+": "+why)
		}
		cleanup()
		r.Finish(lib.Coverage{Evaluations: 1, DistinctNontrivial: 1, Rule: "replay", Samples: []any{c}, Exhaustive: true})
	}

	// sanity: the defs file loads and exports what we think
	if o := run(sub + "r = [L2, D1, CONFIG.C18_L2]\n"); o.Err != "" || !reflect.DeepEqual(o.R, []any{[]any{3, 1, 2}, map[string]any{"a": 1}, []any{3, 1, 2}}) {
		lib.Fatal("HARNESS: the generated build_defs file does not load as expected: %+v", o)
	}

	cs := cases()
	type rec struct {
		count  int
		first  int
		detail string
	}
	classes := map[string]*rec{}
	var mu sync.Mutex
	var next, evals, nontrivial, bothRej int64
	var wg sync.WaitGroup
	var samples lib.Samples
	for w := 0; w < nw; w++ {
		wg.Add(1)
		go func() {
			defer wg.Done()
			for {
				i := int(atomic.AddInt64(&next, 1)) - 1
				if i >= len(cs) || r.OutOfTime() {
					return
				}
				class, detail, rej := check(cs[i])
				atomic.AddInt64(&evals, 1)
				if rej {
					atomic.AddInt64(&bothRej, 1)
				} else {
					atomic.AddInt64(&nontrivial, 1)
				}
				if i%37 == 0 {
					samples.Add(func() any { return cs[i] })
				}
				if class != "" {
					mu.Lock()
					c := classes[class]
					if c == nil {
						classes[class] = &rec{1, i, detail}
					} else {
						c.count++
						if i < c.first {
							c.first, c.detail = i, detail
						}
					}
					mu.Unlock()
				}
			}
		}()
	}
	wg.Wait()
	cleanup()
	names := make([]string, 0, len(classes))
	for c := range classes {
		names = append(names, c)
	}
	sort.Strings(names)
	for _, c := range names {
		x := classes[c]
		w := cs[x.first]
		r.Violate(c, w, fmt.Sprintf("value %s %s, op %s: %s", w.Variant, w.Value, w.Op, x.detail))
		for i := 1; i < x.count; i++ {
			r.Violate(c, nil, "")
		}
	}
	r.Assume = []string{
		"the subinclude target is placed in the graph already built; subinclude() and everything behind it (Subinclude cache, optimise, freeze) is the real code; every program runs in a fresh parser so in-place builtins cannot carry state from one case to the next",
		"operations that are supposed to fail on imported values (index assignment, setdefault) are not generated: immutability of imported values is intended",
		"a result is compared as plain data (frozen wrappers unwrapped) plus the attributes of the target a program defines; when both variants are rejected the error texts are not compared",
		"the property statement names sorted, reversed, enumerate, any, all, zip, min, max, map, filter, reduce, len, in, +, == ; applications of those are marked op_named_in_statement in the witness. The remaining applications (slicing, iteration, *, unpacking, join, |, str/format/json, isinstance, type-annotated arguments, build_rule arguments) test the title - imported values behave like ordinary ones - and are reported under their own classes",
	}
	r.Finish(lib.Coverage{
		Evaluations:        int(evals),
		DistinctNontrivial: int(nontrivial),
		Rule:               "a case is (value, how it is obtained, application); it is evaluated twice - with the value defined locally and obtained the other way - each in a fresh interpreter. Distinct by construction. Non-trivial = the application is accepted for the ordinary value (so a real comparison of results happens)",
		Samples:            samples.List(),
		Exhaustive:         !r.Capped,
		Extra: map[string]any{
			"values":                    len(values) + 1,
			"list_applications":         len(listOps),
			"dict_applications":         len(dictOps),
			"ordinary_value_rejected":   int(bothRej),
			"of_which_other_accepted":   int(onlyOrdinaryRejected),
			"ways_of_obtaining_a_value": []string{vImported.Name, vElement.Name, vConfig.Name, vPlzcfg.Name},
		},
	})
}

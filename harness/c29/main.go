// C29: the CAS-backed filesystem view is faithful to its tree.
//
// Every REAPI Tree with up to N nodes (files, directories nested to depth 2 incl. empty ones, symlinks with relative,
// "..", ".", absolute, dangling, self- and mutually-referencing targets) is served by an in-memory CAS to the REAL
// remote/fs.CASFileSystem; WalkDir / Stat / Open / ReadFile / ReadDir are compared with a boring in-memory model of the
// tree, the io/fs contracts that testing/fstest.TestFS enforces are checked one by one with finite checks (TestFS itself
// is run only when they hold, because it never terminates on a directory handle without a read position), and symlink
// loops / absolute links must give an error. Trees with a symlink loop are also opened in a worker subprocess with a
// 8 MiB stack cap: the death of the worker is a recorded outcome of that tree.
package main

import (
	"bufio"
	"context"
	"encoding/json"
	"errors"
	"fmt"
	"io"
	iofs "io/fs"
	"os"
	"os/exec"
	"path"
	"path/filepath"
	"runtime"
	"runtime/debug"
	"sort"
	"strings"
	"sync"
	"sync/atomic"
	"testing/fstest"
	"time"

	"github.com/bazelbuild/remote-apis-sdks/go/pkg/client"
	"github.com/bazelbuild/remote-apis-sdks/go/pkg/digest"
	pb "github.com/bazelbuild/remote-apis/build/bazel/remote/execution/v2"

	rfs "github.com/thought-machine/please/src/remote/fs"
	"github.com/thought-machine/please/verifharness/lib"
)

// ---- tree model -------------------------------------------------------------------------------------------------

type node struct {
	Name     string `json:"name"`
	Kind     string `json:"kind"` // file | dir | symlink
	Content  string `json:"content,omitempty"`
	Target   string `json:"target,omitempty"`
	Children []node `json:"children,omitempty"`
}

type witness struct {
	Root       []node `json:"root"`
	WorkingDir string `json:"working_dir,omitempty"`
	// ViaChangeDir: the view is made with New(tree, ".").ChangeDir(working dir) (as src/remote does for output
	// directories) instead of New(tree, working dir).
	ViaChangeDir bool `json:"via_change_dir,omitempty"`
}

type cas map[digest.Digest][]byte

func (c cas) ReadBlob(_ context.Context, d digest.Digest) ([]byte, *client.MovedBytesMetadata, error) {
	b, ok := c[d]
	if !ok {
		return nil, nil, fmt.Errorf("blob %s not found", d)
	}
	return append([]byte{}, b...), &client.MovedBytesMetadata{}, nil
}

func buildTree(children []node, store cas, all *[]*pb.Directory) *pb.Directory {
	d := &pb.Directory{}
	for _, n := range children {
		switch n.Kind {
		case "file":
			dg := digest.NewFromBlob([]byte(n.Content))
			store[dg] = []byte(n.Content)
			d.Files = append(d.Files, &pb.FileNode{Name: n.Name, Digest: dg.ToProto()})
		case "symlink":
			d.Symlinks = append(d.Symlinks, &pb.SymlinkNode{Name: n.Name, Target: n.Target})
		case "dir":
			sub := buildTree(n.Children, store, all)
			*all = append(*all, sub)
			dg, err := digest.NewFromMessage(sub)
			if err != nil {
				lib.Fatal("digest: %s", err)
			}
			d.Directories = append(d.Directories, &pb.DirectoryNode{Name: n.Name, Digest: dg.ToProto()})
		}
	}
	return d
}

// model: path -> node for every node of the view ("." is the root directory).
type model struct {
	nodes map[string]*node
	root  *node
}

func newModel(w witness) *model {
	m := &model{nodes: map[string]*node{}}
	m.root = &node{Name: ".", Kind: "dir", Children: w.Root}
	var rec func(prefix string, n *node)
	rec = func(prefix string, n *node) {
		for i := range n.Children {
			c := &n.Children[i]
			p := prefix + c.Name
			m.nodes[p] = c
			if c.Kind == "dir" {
				rec(p+"/", c)
			}
		}
	}
	m.nodes["."] = m.root
	rec("", m.root)
	return m
}

const (
	stOK       = "ok"
	stMissing  = "missing"  // dangling, escapes above the root, or goes through a file
	stAbsolute = "absolute" // absolute symlink target
	stLoop     = "loop"
	stOpen     = "unconstrained" // needs a symlink in the middle of a path: statement silent
)

// walkFrom resolves target component by component starting in directory dir (a model path); returns the model path.
func (m *model) walkFrom(dir, target string) (string, string) {
	cur := []string{}
	if dir != "." {
		cur = strings.Split(dir, "/")
	}
	parts := strings.Split(target, "/")
	for i, c := range parts {
		last := i == len(parts)-1
		switch c {
		case "", ".":
			continue
		case "..":
			if len(cur) == 0 {
				return "", stMissing
			}
			cur = cur[:len(cur)-1]
			continue
		}
		cur = append(cur, c)
		n, ok := m.nodes[strings.Join(cur, "/")]
		if !ok {
			return "", stMissing
		}
		if !last {
			switch n.Kind {
			case "symlink":
				return "", stOpen
			case "file":
				return "", stMissing
			}
		}
	}
	if len(cur) == 0 {
		return ".", stOK
	}
	return strings.Join(cur, "/"), stOK
}

// resolve follows the symlink chain starting at model path p.
func (m *model) resolve(p string) (*node, string, string) {
	visited := map[string]bool{}
	for {
		n := m.nodes[p]
		if n == nil {
			return nil, "", stMissing
		}
		if n.Kind != "symlink" {
			return n, p, stOK
		}
		if visited[p] {
			return nil, "", stLoop
		}
		visited[p] = true
		if strings.HasPrefix(n.Target, "/") {
			return nil, "", stAbsolute
		}
		np, st := m.walkFrom(path.Dir(p), n.Target)
		if st != stOK {
			return nil, "", st
		}
		p = np
	}
}

// risky reports whether opening p could recurse without bound: its link chain loops, or would loop if an absolute target
// were (wrongly) joined onto the link's directory the way filepath.Join does. Such names are only opened in the worker
// subprocess, so that a missing guard kills the worker and not the harness.
func (m *model) risky(p string) bool {
	if _, _, st := m.resolve(p); st == stLoop {
		return true
	}
	visited := map[string]bool{}
	for {
		n := m.nodes[p]
		if n == nil || n.Kind != "symlink" {
			return false
		}
		if visited[p] {
			return true
		}
		visited[p] = true
		np, st := m.walkFrom(path.Dir(p), strings.TrimLeft(n.Target, "/"))
		if st != stOK {
			return false
		}
		p = np
	}
}

func (m *model) hasLoop() bool {
	for p, n := range m.nodes {
		if n.Kind == "symlink" && m.risky(p) {
			return true
		}
	}
	return false
}

func (m *model) paths() []string {
	ps := make([]string, 0, len(m.nodes))
	for p := range m.nodes {
		ps = append(ps, p)
	}
	sort.Strings(ps)
	return ps
}

// ---- the checks ---------------------------------------------------------------------------------------------------

type violation struct {
	Class  string `json:"class"`
	Detail string `json:"detail"`
}

type checker struct {
	m    *model
	fsys *rfs.CASFileSystem
	vs   []violation
	seen map[string]bool
}

func (c *checker) fail(class, format string, args ...any) {
	if c.seen[class] {
		return
	}
	c.seen[class] = true
	c.vs = append(c.vs, violation{class, fmt.Sprintf(format, args...)})
}

// guard turns a panic of the code under test into a violation.
func (c *checker) guard(op string, f func()) {
	defer func() {
		if r := recover(); r != nil {
			msg := fmt.Sprint(r)
			if i := strings.Index(msg, "0x"); i >= 0 {
				msg = msg[:i]
			}
			msg = strings.Map(func(r rune) rune {
				if r >= '0' && r <= '9' {
					return 'N' // no indexes or lengths in a class
				}
				return r
			}, msg)
			c.fail("panic:"+op+":"+strings.TrimSpace(msg), "%s panicked: %v", op, r)
		}
	}()
	f()
}

func kindOfMode(mode iofs.FileMode) string {
	switch {
	case mode&iofs.ModeDir != 0:
		return "dir"
	case mode&iofs.ModeSymlink != 0:
		return "symlink"
	}
	return "file"
}

func infoString(i iofs.FileInfo) string {
	return fmt.Sprintf("%s IsDir=%v Type=%v Size=%d", i.Name(), i.IsDir(), i.Mode().Type(), i.Size())
}

func childNames(n *node) []string {
	var out []string
	for _, c := range n.Children {
		out = append(out, c.Name+":"+c.Kind)
	}
	sort.Strings(out)
	return out
}

func entryNames(es []iofs.DirEntry) []string {
	var out []string
	for _, e := range es {
		out = append(out, e.Name()+":"+kindOfMode(e.Type()))
	}
	sort.Strings(out)
	return out
}

// run performs every check; openLoops=false skips Open on paths whose symlink chain loops (done in a subprocess instead).
func (c *checker) run(openLoops bool) {
	m, fsys := c.m, c.fsys
	// 1. listing: WalkDir reproduces exactly the tree
	c.guard("WalkDir", func() {
		got := map[string]string{}
		err := iofs.WalkDir(fsys, ".", func(p string, d iofs.DirEntry, err error) error {
			if err != nil {
				return err
			}
			got[p] = kindOfMode(d.Type())
			return nil
		})
		if err != nil {
			c.fail("WalkDir:error", "WalkDir(.) = %v", err)
			return
		}
		for p, n := range m.nodes {
			if got[p] != n.Kind {
				c.fail("WalkDir:entries-differ", "%s is a %s in the tree, WalkDir reports %q", p, n.Kind, got[p])
			}
		}
		for p := range got {
			if m.nodes[p] == nil {
				c.fail("WalkDir:entries-differ", "WalkDir reports %s which is not in the tree", p)
			}
		}
	})
	allResolve := true
	for _, p := range m.paths() {
		n := m.nodes[p]
		target, tpath, st := m.resolve(p)
		if st != stOK {
			allResolve = false
		}
		// 2. Stat
		var statInfo iofs.FileInfo
		c.guard("Stat", func() {
			info, err := fsys.Stat(p)
			if err != nil {
				if n.Kind == "symlink" && st != stOK {
					return // a Stat that follows links may fail on a link that does not resolve
				}
				c.fail("Stat:existing-"+n.Kind+":error", "Stat(%s) = %v", p, err)
				return
			}
			statInfo = info
			k := kindOfMode(info.Mode())
			okKind := k == n.Kind || (n.Kind == "symlink" && st == stOK && k == target.Kind)
			if !okKind {
				c.fail("Stat:wrong-kind:"+n.Kind, "Stat(%s): tree has a %s, Stat reports a %s", p, n.Kind, k)
			}
			if n.Kind == "file" && info.Size() != int64(len(n.Content)) {
				c.fail("Stat:wrong-size", "Stat(%s).Size() = %d, content has %d bytes", p, info.Size(), len(n.Content))
			}
			if p != "." && info.Name() != path.Base(p) && n.Kind != "symlink" {
				c.fail("Stat:wrong-name", "Stat(%s).Name() = %q", p, info.Name())
			}
		})
		// 3. Open
		if !openLoops && m.risky(p) {
			continue
		}
		c.guard("Open", func() {
			f, err := fsys.Open(p)
			switch st {
			case stLoop:
				if err == nil {
					c.fail("Open:symlink-loop:no-error", "Open(%s) follows a symlink loop and succeeds", p)
				}
				return
			case stAbsolute:
				if err == nil {
					c.fail("Open:absolute-symlink:no-error", "Open(%s): absolute target %q accepted", p, n.Target)
				}
				return
			case stMissing:
				if err == nil {
					c.fail("Open:dangling-or-escaping-symlink:no-error", "Open(%s) -> %q succeeds", p, n.Target)
				}
				return
			case stOpen:
				if f != nil {
					f.Close()
				}
				return
			}
			if err != nil {
				what := n.Kind
				if n.Kind == "symlink" {
					what = "symlink-to-" + target.Kind
				}
				c.fail("Open:existing-"+what+":error", "Open(%s) (resolves to %s) = %v", p, tpath, err)
				return
			}
			defer f.Close()
			info, err := f.Stat()
			if err != nil {
				c.fail("File.Stat:error", "Open(%s).Stat() = %v", p, err)
				return
			}
			if k := kindOfMode(info.Mode()); k != target.Kind {
				c.fail("Open:wrong-kind", "Open(%s) resolves to a %s (%s) but the handle is a %s", p, target.Kind, tpath, k)
				return
			}
			// fs.Stat(fsys, p) must agree with Open(p).Stat(), even for symlinks (io/fs, enforced by fstest.TestFS)
			if statInfo != nil && infoString(statInfo) != infoString(info) {
				cl := "Stat:differs-from-Open+Stat"
				if n.Kind == "symlink" {
					cl = "Stat:symlink-not-followed:differs-from-Open+Stat"
				}
				c.fail(cl, "%s: Stat = %s, Open+Stat = %s", p, infoString(statInfo), infoString(info))
			}
			if target.Kind == "file" {
				data, err := io.ReadAll(f)
				if err != nil || string(data) != target.Content {
					c.fail("Read:content-differs", "Open(%s)+ReadAll = %q, %v; tree has %q", p, data, err, target.Content)
				}
				if d2, err := iofs.ReadFile(fsys, p); err != nil || string(d2) != target.Content {
					c.fail("Read:content-differs", "ReadFile(%s) = %q, %v; tree has %q", p, d2, err, target.Content)
				}
				return
			}
			// directory handle
			rd, ok := f.(iofs.ReadDirFile)
			if !ok {
				c.fail("Open:dir-handle-not-ReadDirFile", "Open(%s) is a directory but %T has no ReadDir", p, f)
				return
			}
			want := childNames(target)
			all, err := rd.ReadDir(-1)
			if err != nil || strings.Join(entryNames(all), " ") != strings.Join(want, " ") {
				c.fail("ReadDir:entries-differ", "Open(%s).ReadDir(-1) = %v, %v; tree has %v", p, entryNames(all), err, want)
				return
			}
			// read position: a second ReadDir(-1) is at the end; ReadDir(1) walks through and ends with io.EOF
			again, err := rd.ReadDir(-1)
			if len(again) != 0 || err != nil {
				c.fail("dir.ReadDir:no-read-position", "Open(%s): second ReadDir(-1) = %d entries, %v; want 0, nil (handle is at the end)", p, len(again), err)
			}
			f2, err := fsys.Open(p)
			if err != nil {
				return
			}
			defer f2.Close()
			rd2 := f2.(iofs.ReadDirFile)
			var pieces []iofs.DirEntry
			eof := false
			for i := 0; i < len(want)+2; i++ {
				frag, err := rd2.ReadDir(1)
				if len(frag) > 1 {
					c.fail("dir.ReadDir:too-many-entries", "Open(%s).ReadDir(1) returned %d entries", p, len(frag))
				}
				pieces = append(pieces, frag...)
				if err == io.EOF {
					eof = true
					break
				}
				if err != nil {
					c.fail("dir.ReadDir:error", "Open(%s).ReadDir(1) = %v", p, err)
					break
				}
			}
			if !eof || strings.Join(entryNames(pieces), " ") != strings.Join(want, " ") {
				c.fail("dir.ReadDir:no-read-position", "Open(%s): %d calls of ReadDir(1) gave %v, EOF=%v; want %v then io.EOF", p, len(want)+2, entryNames(pieces), eof, want)
			}
		})
		// 4. names that are not valid io/fs paths must be rejected (fs.ValidPath; fstest.TestFS checkBadPath)
		if st == stOK {
			c.guard("Open(invalid)", func() {
				bad := []string{"/" + p, p + "/."}
				if p == "." {
					bad = append(bad, "/")
				}
				if i := strings.Index(p, "/"); i >= 0 {
					bad = append(bad, p[:i]+"//"+p[i+1:], p[:i]+"/./"+p[i+1:], p[:i]+"/../"+p)
				}
				for _, b := range bad {
					if f, err := fsys.Open(b); err == nil {
						f.Close()
						c.fail("Open:invalid-path-accepted", "Open(%q) succeeds; io/fs requires names that fail fs.ValidPath to be rejected", b)
						break
					}
				}
			})
		}
		// 5. a name below a file or a missing name does not exist
		c.guard("Open(missing)", func() {
			q := "nope"
			if p != "." {
				q = p + "/nope"
			}
			if n.Kind == "symlink" {
				return
			}
			if f, err := fsys.Open(q); err == nil {
				f.Close()
				c.fail("Open:missing-path:no-error", "Open(%s) succeeds", q)
			} else if !errors.Is(err, iofs.ErrNotExist) {
				c.fail("Open:missing-path:error-is-not-ErrNotExist", "Open(%s) = %v", q, err)
			}
			if _, err := fsys.Stat(q); err == nil {
				c.fail("Stat:missing-path:no-error", "Stat(%s) succeeds", q)
			}
			if p != "." && m.nodes[p+"x"] == nil {
				if f, err := fsys.Open(p + "x"); err == nil {
					f.Close()
					c.fail("Open:missing-path:no-error", "Open(%s) succeeds", p+"x")
				}
			}
		})
	}
	// 6. the real conformance suite, only when it can terminate and every link resolves (it opens every listed name)
	if len(c.vs) == 0 && allResolve {
		var expected []string
		// top-level names only: a name with a slash makes TestFS repeat itself on fs.Sub(fsys, dir), whose generic wrapper
		// claims fs.ReadLinkFS and then fails on any symlink unless the wrapped file system implements ReadLinkFS too -
		// that is a demand on optional interfaces, not on the io/fs contracts of this file system. The whole tree is
		// still walked and every file, directory and link in it is checked.
		for _, p := range m.paths() {
			if p != "." && !strings.Contains(p, "/") {
				expected = append(expected, p)
			}
		}
		done := make(chan error, 1)
		go func() {
			defer func() {
				if r := recover(); r != nil {
					done <- fmt.Errorf("panic: %v", r)
				}
			}()
			done <- fstest.TestFS(fsys, expected...)
		}()
		select {
		case err := <-done:
			if err != nil {
				lines := strings.Split(err.Error(), "\n")
				first := lines[0]
				if len(lines) > 1 {
					first = lines[1]
				}
				// drop the path prefix "name: " to get a stable class
				if i := strings.Index(first, ": "); i >= 0 {
					first = first[i+2:]
				}
				if len(first) > 60 {
					first = first[:60]
				}
				c.fail("fstest.TestFS:"+strings.TrimSpace(first), "%v", err)
			}
		case <-time.After(30 * time.Second):
			c.fail("fstest.TestFS:does-not-terminate", "TestFS still running after 30s")
		}
	}
}

func checkTree(w witness, openLoops bool) []violation {
	store := cas{}
	var all []*pb.Directory
	root := buildTree(w.Root, store, &all)
	tree := &pb.Tree{Root: root, Children: all}
	wd := w.WorkingDir
	if wd == "" {
		wd = "."
	}
	view := w
	if wd != "." {
		// the view is rooted at the named top-level directory
		for _, n := range w.Root {
			if n.Name == wd && n.Kind == "dir" {
				view = witness{Root: n.Children}
			}
		}
	}
	fsys := rfs.New(store, tree, wd)
	if w.ViaChangeDir {
		fsys = rfs.New(store, tree, ".").ChangeDir(wd)
	}
	c := &checker{m: newModel(view), fsys: fsys, seen: map[string]bool{}}
	c.run(openLoops)
	return c.vs
}

// changeDirClasses: a view made by ChangeDir must behave like the view made by New with the same working directory; what it
// does differently gets a class of its own (what both do is reported under the plain class, once).
func changeDirClasses(w witness, vs []violation, openLoops bool) []violation {
	if !w.ViaChangeDir {
		return vs
	}
	plain := w
	plain.ViaChangeDir = false
	has := map[string]bool{}
	for _, v := range checkTree(plain, openLoops) {
		has[v.Class] = true
	}
	var out []violation
	for _, v := range vs {
		if !has[v.Class] {
			v.Class += ":only-in-a-view-made-by-ChangeDir"
			out = append(out, v)
		}
	}
	return out
}

// leavesWD reports whether some symlink below wd points outside of it; such trees are not viewed through a working
// directory (the model of the view is the sub-tree alone).
func leavesWD(w witness, wd string) bool {
	full := newModel(w)
	for p, n := range full.nodes {
		if n.Kind != "symlink" || !strings.HasPrefix(p, wd+"/") {
			continue
		}
		depth := strings.Count(p[len(wd)+1:], "/")
		up := 0
		for _, c := range strings.Split(n.Target, "/") {
			if c == ".." {
				up++
				if up > depth {
					return true
				}
			} else if c != "" && c != "." {
				up--
			}
		}
	}
	return false
}

// ---- enumeration --------------------------------------------------------------------------------------------------

// the second name has the first as a proper prefix, so that prefix-matching lookups are told apart from exact ones
var names = []string{"a", "ab", "c", "d", "e"}

type alphabet struct {
	targets  []string
	contents []string
}

var fullAlpha = alphabet{[]string{"a", "ab", "a/a", "../a", "..", ".", "/a", "zz", "c"}, []string{"hi", ""}}
var midAlpha = alphabet{[]string{"a", "ab", "a/a", "../a", "..", "/a", "zz"}, []string{"hi"}}
var smallAlpha = alphabet{[]string{"a", "ab", "../a", "/a"}, []string{"hi"}}

// gen enumerates every children list using exactly `budget` nodes in total with directories nested at most `depth` deep.
func gen(budget, depth int, al alphabet, f func([]node)) {
	var rec func(pos, left int, acc []node)
	rec = func(pos, left int, acc []node) {
		if left == 0 {
			f(append([]node{}, acc...))
			return
		}
		if pos >= len(names) {
			return
		}
		name := names[pos]
		for _, c := range al.contents {
			rec(pos+1, left-1, append(acc, node{Name: name, Kind: "file", Content: c}))
		}
		for _, t := range al.targets {
			rec(pos+1, left-1, append(acc, node{Name: name, Kind: "symlink", Target: t}))
		}
		if depth > 0 {
			for sub := 0; sub <= left-1; sub++ {
				gen(sub, depth-1, al, func(ch []node) {
					rec(pos+1, left-1-sub, append(acc, node{Name: name, Kind: "dir", Children: ch}))
				})
			}
		}
	}
	rec(0, budget, nil)
}

// ---- worker subprocess --------------------------------------------------------------------------------------------

type workerReply struct {
	Violations []violation `json:"violations"`
}

func workerMain() {
	debug.SetMaxStack(8 << 20)
	lib.Quiet()
	in := bufio.NewReader(os.Stdin)
	out := bufio.NewWriter(os.Stdout)
	for {
		line, err := in.ReadBytes('\n')
		if len(line) > 0 {
			var w witness
			if jerr := json.Unmarshal(line, &w); jerr != nil {
				fmt.Fprintf(os.Stderr, "worker: %v\n", jerr)
				os.Exit(3)
			}
			b, _ := json.Marshal(workerReply{checkTree(w, true)})
			out.Write(append(b, '\n'))
			out.Flush()
		}
		if err != nil {
			return
		}
	}
}

type worker struct {
	cmd    *exec.Cmd
	in     io.WriteCloser
	out    *bufio.Reader
	stderr *strings.Builder
}

func startWorker() *worker {
	cmd := exec.Command(os.Args[0], "--c29-worker")
	in, _ := cmd.StdinPipe()
	out, _ := cmd.StdoutPipe()
	sb := &strings.Builder{}
	cmd.Stderr = &capWriter{sb: sb}
	if err := cmd.Start(); err != nil {
		lib.Fatal("cannot start worker: %s", err)
	}
	return &worker{cmd, in, bufio.NewReader(out), sb}
}

type capWriter struct {
	mu sync.Mutex
	sb *strings.Builder
}

func (c *capWriter) Write(p []byte) (int, error) {
	c.mu.Lock()
	defer c.mu.Unlock()
	if c.sb.Len() < 4096 {
		n := 4096 - c.sb.Len()
		if n > len(p) {
			n = len(p)
		}
		c.sb.Write(p[:n])
	}
	return len(p), nil
}

// ask returns the worker's verdict, or died=true with the head of its stderr.
func (w *worker) ask(t witness) (vs []violation, died bool, why string) {
	b, _ := json.Marshal(t)
	if _, err := w.in.Write(append(b, '\n')); err != nil {
		w.cmd.Wait()
		return nil, true, "write: " + err.Error()
	}
	type res struct {
		line []byte
		err  error
	}
	ch := make(chan res, 1)
	go func() {
		l, err := w.out.ReadBytes('\n')
		ch <- res{l, err}
	}()
	select {
	case r := <-ch:
		if r.err != nil {
			w.cmd.Wait()
			return nil, true, w.stderr.String()
		}
		var rep workerReply
		if err := json.Unmarshal(r.line, &rep); err != nil {
			lib.Fatal("worker reply: %s", err)
		}
		return rep.Violations, false, ""
	case <-time.After(60 * time.Second):
		w.cmd.Process.Kill()
		w.cmd.Wait()
		return nil, true, "timeout"
	}
}

func (w *worker) stop() {
	w.in.Close()
	w.cmd.Wait()
}

func crashClass(why string) (string, string) {
	head := why
	if i := strings.Index(head, "\n\n"); i > 0 {
		head = head[:i]
	}
	if len(head) > 300 {
		head = head[:300]
	}
	switch {
	case strings.Contains(why, "stack overflow") || strings.Contains(why, "goroutine stack exceeds"):
		return "Open:symlink-loop:unbounded-recursion:process-dies-with-stack-overflow", head
	case why == "timeout":
		return "Open:symlink-loop:does-not-return", "no answer in 60s"
	}
	return "Open:symlink-loop:process-dies", head
}

// ---- driver -------------------------------------------------------------------------------------------------------

type found struct {
	mu sync.Mutex
	m  map[string]*hit
}
type hit struct {
	idx    int64
	w      witness
	detail string
	count  int
}

func (f *found) add(class string, idx int64, w witness, detail string) {
	f.mu.Lock()
	defer f.mu.Unlock()
	if f.m == nil {
		f.m = map[string]*hit{}
	}
	h := f.m[class]
	if h == nil {
		f.m[class] = &hit{idx, w, detail, 1}
		return
	}
	h.count++
	if idx < h.idx {
		h.idx, h.w, h.detail = idx, w, detail
	}
}

func (f *found) flush(r *lib.Run) {
	var classes []string
	for c := range f.m {
		classes = append(classes, c)
	}
	sort.Strings(classes)
	for _, c := range classes {
		h := f.m[c]
		n := h.count
		if !r.HasViolation(c) {
			r.Violate(c, h.w, h.detail)
			n--
		}
		for i := 0; i < n; i++ {
			r.Violate(c, nil, "")
		}
	}
	f.m = nil
}

// replayClass reads the class recorded in a violation artefact ("" if absent).
func replayClass(path string) string {
	var a struct {
		Class string `json:"class"`
	}
	if b, err := os.ReadFile(path); err == nil {
		json.Unmarshal(b, &a)
	}
	return a.Class
}

func classesOf(vs []violation) string {
	var cs []string
	for _, v := range vs {
		cs = append(cs, v.Class)
	}
	sort.Strings(cs)
	return strings.Join(cs, "|")
}

type concViolation struct {
	Class   string          `json:"class"`
	Body    json.RawMessage `json:"body"`
	Choices []int           `json:"choices"`
	Detail  string          `json:"detail"`
}

type concOut struct {
	Bodies      int             `json:"bodies"`
	Executions  int             `json:"executions"`
	Pruned      int             `json:"pruned"`
	States      int             `json:"states"`
	Transitions int             `json:"transitions"`
	Incomplete  int             `json:"incomplete"`
	Outcomes    map[string]int  `json:"distinct_schedules_of_file_operations_per_body"`
	Violations  []concViolation `json:"violations"`
}

// runConcurrent runs the concurrent-readers tier (harness/c29s, built by the driver against the rewritten cache client).
func runConcurrent(args ...string) *concOut {
	bin := os.Getenv("VERIF_AUX_C29S")
	if bin == "" {
		lib.Fatal("VERIF_AUX_C29S not set (the driver builds the concurrent-readers tier)")
	}
	cmd := exec.Command(bin, args...)
	cmd.Env = append(os.Environ(), "GOMAXPROCS=1", "GOGC=off", "GOMEMLIMIT=2GiB")
	cmd.Stderr = os.Stderr
	b, err := cmd.Output()
	var co concOut
	if err != nil || json.Unmarshal(b, &co) != nil {
		lib.Fatal("concurrent-readers tier failed: %v\n%s", err, b)
	}
	return &co
}

func main() {
	if len(os.Args) > 1 && os.Args[1] == "--c29-worker" {
		workerMain()
		return
	}
	r := lib.Start("C29", "exploration")
	lib.Quiet()
	if r.Replay != "" {
		var w witness
		lib.LoadReplay(r.Replay, &w)
		want := replayClass(r.Replay)
		if strings.HasPrefix(want, "concurrent-readers:") {
			var v concViolation
			lib.LoadReplay(r.Replay, &v)
			tmp := filepath.Join(os.TempDir(), fmt.Sprintf("c29-replay-%d.json", os.Getpid()))
			b, _ := json.Marshal(v)
			os.WriteFile(tmp, b, 0644)
			co := runConcurrent("--replay", tmp)
			os.Remove(tmp)
			for _, cv := range co.Violations {
				r.Violate(cv.Class, cv, "[concurrent-readers tier] "+cv.Detail)
			}
			r.Finish(lib.Coverage{Evaluations: 1, DistinctNontrivial: 1, Rule: "replay", Samples: []any{v}, Exhaustive: true})
		}
		report := func(class, detail string) {
			if want == "" || class == want { // only the class this artefact was written for (others have their own artefacts)
				r.Violate(class, w, detail)
			}
		}
		m := newModel(w)
		if m.hasLoop() {
			wk := startWorker()
			vs, died, why := wk.ask(w)
			if died {
				c, d := crashClass(why)
				report(c, d)
				vs = checkTree(w, false)
			} else {
				wk.stop()
			}
			for _, v := range vs {
				report(v.Class, v.Detail)
			}
		} else {
			for _, v := range changeDirClasses(w, checkTree(w, true), true) {
				report(v.Class, v.Detail)
			}
		}
		r.Finish(lib.Coverage{Evaluations: 1, DistinctNontrivial: 1, Rule: "replay", Samples: []any{w}, Exhaustive: true})
	}

	// Concurrent-readers tier: the view over the real blob cache client under every interleaving of 2-3 readers.
	cargs := []string{"--budget", "2m"}
	if !r.Quick() {
		cargs = []string{"--budget", "10m", "--thorough"}
	}
	conc := runConcurrent(cargs...)
	for _, cv := range conc.Violations {
		r.Violate(cv.Class, cv, "[concurrent-readers tier] "+cv.Detail)
	}
	if conc.Incomplete > 0 {
		r.Capped = true
	}

	type space struct {
		budget int
		al     alphabet
		wd     bool
	}
	spaces := []space{{0, fullAlpha, false}, {1, fullAlpha, false}, {2, fullAlpha, false}, {3, fullAlpha, false}, {4, smallAlpha, false}}
	crashBudget := 4
	if !r.Quick() {
		spaces = append(spaces, space{4, fullAlpha, false}, space{3, fullAlpha, true}, space{4, smallAlpha, true}, space{5, smallAlpha, false}, space{5, midAlpha, false})
		crashBudget = 60
	}
	var evals, nontrivial, loopTrees, loopProbed, loopSkipped, crashes int64
	var samples lib.Samples
	var fnd found
	ncpu := runtime.NumCPU()
	var idxBase int64

	for _, sp := range spaces {
		if r.Capped {
			break
		}
		var trees []witness
		gen(sp.budget, 2, sp.al, func(ch []node) {
			w := witness{Root: ch}
			if sp.wd {
				if len(ch) == 0 || ch[0].Kind != "dir" || leavesWD(w, ch[0].Name) {
					return
				}
				w.WorkingDir = ch[0].Name
			}
			trees = append(trees, w)
		})
		var loops []int
		var next int64
		var lmu sync.Mutex
		var wg sync.WaitGroup
		for wk := 0; wk < ncpu; wk++ {
			wg.Add(1)
			go func() {
				defer wg.Done()
				for {
					i := atomic.AddInt64(&next, 1) - 1
					if i >= int64(len(trees)) || r.OutOfTime() {
						return
					}
					w := trees[i]
					atomic.AddInt64(&evals, 1)
					m := newModel(w)
					for _, n := range m.nodes {
						if n.Kind == "symlink" || (n.Kind == "dir" && n != m.root) {
							atomic.AddInt64(&nontrivial, 1)
							break
						}
					}
					if i%4999 == 0 {
						samples.Add(func() any { return w })
					}
					loop := m.hasLoop()
					if loop {
						atomic.AddInt64(&loopTrees, 1)
						lmu.Lock()
						loops = append(loops, int(i))
						lmu.Unlock()
					}
					variants := []witness{w}
					if sp.budget <= 2 || sp.wd {
						w2 := w
						w2.ViaChangeDir = true
						variants = append(variants, w2)
					}
					for _, w := range variants {
						vs := checkTree(w, !loop)
						if len(vs) > 0 {
							if again := checkTree(w, !loop); classesOf(again) != classesOf(vs) {
								lib.Fatal("HARNESS-NONDETERMINISM %+v: %s then %s", w, classesOf(vs), classesOf(again))
							}
							for _, v := range changeDirClasses(w, vs, !loop) {
								fnd.add(v.Class, idxBase+i, w, v.Detail)
							}
						}
					}
				}
			}()
		}
		wg.Wait()
		// trees with a symlink loop: Open on the looping names in a subprocess (a stack overflow cannot be recovered)
		sort.Ints(loops)
		var wk *worker
		for _, i := range loops {
			if r.OutOfTime() {
				break
			}
			if int(crashes) >= crashBudget {
				loopSkipped++
				continue
			}
			if wk == nil {
				wk = startWorker()
			}
			loopProbed++
			vs, died, why := wk.ask(trees[i])
			if died {
				crashes++
				wk = nil
				c, d := crashClass(why)
				fnd.add(c, idxBase+int64(i), trees[i], d)
				continue
			}
			for _, v := range vs {
				fnd.add(v.Class, idxBase+int64(i), trees[i], v.Detail)
			}
		}
		if wk != nil {
			wk.stop()
		}
		fnd.flush(r)
		idxBase += int64(len(trees))
	}

	r.Assume = []string{
		"resolution model: a symlink as the LAST element of a name is followed relative to its own directory, component by component, '..' above the tree root does not exist; a name that needs a symlink in the MIDDLE of a path (l/x with l -> dir) is left open (the statement is silent, the implementation answers 'not exist')",
		"Stat may describe the link itself or its target (both accepted), but fs.Stat(fsys,name) must agree with Open(name).Stat() as io/fs demands (fstest.TestFS: 'Stat should be the same as Open+Stat, even for symlinks')",
		"'io/fs contracts' = what testing/fstest.TestFS enforces; its individual rules (read position of directory handles, rejection of names failing fs.ValidPath, Stat==Open+Stat) are checked by finite checks of our own because TestFS never terminates on a directory handle without a read position; TestFS itself runs on every tree on which those hold and whose links all resolve",
		"permission bits and mtimes (NodeProperties) are not part of the generated trees; the executable bit is not compared",
		fmt.Sprintf("Open on names whose symlink chain loops is executed in a worker subprocess (8 MiB stack cap) for the first %d dying trees of the run; once that many workers have died the remaining looping names are not opened (everything else about those trees is still checked in-process)", crashBudget),
	}
	r.Finish(lib.Coverage{
		Evaluations:        int(evals),
		DistinctNontrivial: int(nontrivial),
		Rule:               "every Tree with exactly n nodes for n=0..3 (thorough 0..4) over files (2 contents), symlinks (9 targets: sibling names, a/a, ../a, .., ., /a, dangling zz) and directories nested to depth 2 (empty ones included), names assigned a,ab,c,d,e by position; plus n=4 (thorough also n=5) over the reduced alphabet (1 content, targets a, ab, ../a, /a); thorough also n=5 over 1 content x 7 targets, and views rooted at a working directory; non-trivial = the tree has a symlink or a subdirectory",
		Samples:            samples.List(),
		Exhaustive:         !r.Capped,
		States:             conc.States,
		Transitions:        conc.Transitions,
		Extra: map[string]any{"concurrent_readers_tier": map[string]any{"bodies": conc.Bodies, "executions": conc.Executions, "pruned_by_state_key": conc.Pruned,
			"states": conc.States, "transitions": conc.Transitions, "explorations_cut_by_budget": conc.Incomplete, "preemption_bound": "none (all interleavings)",
			"distinct_file_operation_orders_per_body": conc.Outcomes}, "trees_with_symlink_loop": loopTrees, "loop_trees_opened_in_subprocess": loopProbed,
			"loop_trees_open_skipped_after_crash_budget": loopSkipped, "worker_deaths": crashes},
	})
}

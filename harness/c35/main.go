// c35 decides property C35 (declared output hashes are enforced exactly) with engine E3: breadth-first search over
// histories of {edit the declared hashes, change the content, noop, rm -rf plz-out, poison the cache entry}, every
// transition one real `plz build`.
package main

import (
	"crypto/sha1"
	"crypto/sha256"
	"encoding/hex"
	"fmt"
	"os"
	"path/filepath"
	"strings"
	"sync"

	"github.com/thought-machine/please/verifharness/hist"
	"github.com/thought-machine/please/verifharness/lib"
)

type witness struct {
	Shape   string   `json:"shape"`
	Cache   bool     `json:"cache"`
	History []string `json:"history"`
}

type memory struct {
	Wrong bool // the predecessor already showed a wrong outcome (violations are attributed to the transition that introduces them)
}

const noCache = "[cache]\ndir =\n"
const dirCache = "[cache]\ndir = ../cache\ndirclean = false\n"

func plzPath() string {
	if p := os.Getenv("VERIF_PLZ"); p != "" {
		return p
	}
	return filepath.Join(lib.VerifRoot, ".work", "bin", "plz")
}

type run struct {
	fam   *hist.HashFam
	depth int
}

func (rn run) config() string {
	if rn.fam.Cache {
		return dirCache
	}
	return noCache
}

// probe fills the family's table of true hashes from plz's own mismatch message.
func probe(e *hist.Engine, fam *hist.HashFam) {
	for _, content := range []string{"x", "y"} {
		var got map[string]string
		for try := 0; ; try++ {
			again := false
			e.RunFresh(hist.Src{"c": content, "h": "probe"}, noCache, func(dir string, o *hist.Obs) {
				got = hist.ParseButWas(o.Output)
				if o.Exit == 0 {
					lib.Fatal("probe build (bogus declared hash) of shape %s content %s succeeds:\n%s", fam.Shape, content, o.Output)
				}
				if got["sha1"] == "" || got["sha256"] == "" || got["blake3"] == "" {
					// plz can drop the error text of a failed target at shutdown (known C04/C05 finding): ask again
					if try >= 5 {
						lib.Fatal("probe build of shape %s content %s: exit=%d, cannot read the true hashes from:\n%s", fam.Shape, content, o.Exit, o.Output)
					}
					again = true
				}
			})
			if !again {
				break
			}
		}
		if fam.Shape == "file" {
			// independent cross-check for the single-file shape: the hash of a single output file is the plain digest of its bytes
			b := []byte(content + "\n")
			s1, s256 := sha1.Sum(b), sha256.Sum256(b)
			if got["sha1"] != hex.EncodeToString(s1[:]) || got["sha256"] != hex.EncodeToString(s256[:]) {
				lib.Fatal("probed hashes of a single file output are not the plain digests of its bytes: %v", got)
			}
		}
		fam.SetTrue(content, got)
	}
	if fmt.Sprint(fam.True("x")) == fmt.Sprint(fam.True("y")) {
		lib.Fatal("outputs for the two contents hash identically (vacuous family): %v", fam.True("x"))
	}
}

func main() {
	r := lib.Start("C35", "model_checking")
	root := filepath.Join(lib.VerifRoot, ".work", "hist", "C35")
	if r.Replay != "" {
		root += "-replay"
	}
	os.RemoveAll(root)
	defer os.RemoveAll(root)
	plz := hist.PrivatePlz(plzPath(), filepath.Join(root, "bin"))

	quickV := []string{"none", "sha1", "pfx", "near", "short", "mixed-ok", "mixed-bad"}
	var runs []run
	if r.Quick() {
		runs = []run{
			{hist.NewHashFam("file", true, quickV), 2},
			{hist.NewHashFam("two", true, []string{"near", "mixed-ok"}), 2},
			{hist.NewHashFam("dir", false, []string{"sha1", "near", "short"}), 1},
		}
	} else {
		runs = []run{
			{hist.NewHashFam("file", true, hist.AllHashVariants), 2},
			{hist.NewHashFam("file", false, quickV), 2},
			{hist.NewHashFam("two", true, quickV), 2},
			{hist.NewHashFam("dir", true, quickV), 2},
			{hist.NewHashFam("file", true, []string{"none", "near", "mixed-ok"}), 4},
		}
	}
	if r.Replay != "" {
		var w witness
		lib.LoadReplay(r.Replay, &w)
		replay(r, plz, root, w)
		return
	}
	total := hist.Stats{EditKindsHit: map[string]int{}}
	complete := true
	var samples []any
	fresh := 0
	outcomes := map[string]int{}
	for i, rn := range runs {
		e := hist.NewEngine(plz, filepath.Join(root, fmt.Sprintf("%s-%d", rn.fam.Name(), i)), rn.fam)
		e.CacheOn = rn.fam.Cache
		probe(e, rn.fam)
		st := e.BFS(rn.depth, rn.config(), makeVisit(r, e, rn, outcomes), r.OutOfTime)
		total.States += st.States
		total.Transitions += st.Transitions
		fresh += int(e.Clean)
		if !st.Complete {
			complete = false
		}
		for k, v := range st.EditKindsHit {
			total.EditKindsHit[k] += v
		}
		for _, s := range st.Samples {
			samples = append(samples, witness{Shape: rn.fam.Shape, Cache: rn.fam.Cache, History: s})
		}
		fmt.Fprintf(os.Stderr, "C35 %s cache=%v depth=%d: states=%d transitions=%d probe+reference-builds=%d complete=%v\n", rn.fam.Name(), rn.fam.Cache, st.DepthDone, st.States, st.Transitions, e.Clean, st.Complete)
		os.RemoveAll(e.Root)
	}
	os.RemoveAll(root) // r.Finish exits the process: deferred clean-up would not run
	r.Assume = []string{
		"plz is run hermetically as the real binary built from the working tree; hash verification is on (no --nohash_verification); default [build] hashcheckers (sha1, sha256, blake3)",
		"the true hashes of the outputs are read from plz's own mismatch message of a probe build with a bogus declared value (for the single-file shape they are cross-checked against crypto/sha1 and crypto/sha256 of the bytes); the declared variants are derived from them",
		"reference: the build must succeed iff no list is declared or one declared value (text after the last ':' trimmed) equals a true hash of the CURRENT outputs; on success with a declared list the output bytes equal those of a fresh build without hashes",
		"'nothing verified-looking remains after a failed verification' is decided dynamically: the noop / rm -rf plz-out / poison successors of every failing state are part of the search (so it is decided for failures up to depth-1)",
		"a poisoned cache entry restored for a target WITHOUT declared hashes is not C35's business and is not reported",
	}
	r.Finish(lib.Coverage{
		Evaluations:        total.Transitions,
		DistinctNontrivial: total.States,
		Rule:               "BFS over all histories of {set declared-hashes variant, flip source content, noop, rm -rf plz-out, poison cache entry + rm -rf plz-out} up to the stated depth per (output shape, cache on/off); one transition = one real `plz build //p:x`; distinct_nontrivial = distinct (tree, on-disk state incl. cache)",
		Samples:            samples,
		States:             total.States,
		Transitions:        total.Transitions,
		TracesValidated:    total.Transitions,
		Exhaustive:         complete,
		Extra:              map[string]any{"probe_and_reference_builds": fresh, "edit_kinds_that_changed_state": total.EditKindsHit, "runs": len(runs), "outcomes": outcomes, "confirmation_reruns": hist.Reruns, "cache_files_poisoned": hist.PoisonedFiles},
	})
}

func makeVisit(r *lib.Run, e *hist.Engine, rn run, outcomes map[string]int) hist.Visit {
	return e.Confirmed(makeJudge(e, rn, outcomes), rn.config(), r.HasViolation,
		func(f hist.Finding, history []string) {
			r.Violate(f.Class, witness{Shape: rn.fam.Shape, Cache: rn.fam.Cache, History: history}, f.Detail)
		},
		func(msg string) { lib.Fatal("HARNESS-NONDETERMINISM: %s", msg) })
}

var outcomesMu sync.Mutex

func makeJudge(e *hist.Engine, rn run, outcomes map[string]int) hist.Judge {
	fam := rn.fam
	return func(from *hist.State, ed hist.Edit, obs *hist.Obs, dir string) (any, string, []hist.Finding) {
		var fs []hist.Finding
		violate := func(class, detail string) { fs = append(fs, hist.Finding{Class: class, Detail: detail}) }
		prevWrong := false
		if from != nil && from.Extra != nil {
			prevWrong = from.Extra.(memory).Wrong
		}
		mem := memory{}
		key := func() string { return fmt.Sprint(mem.Wrong) }
		if obs.Exit == -9 {
			fmt.Fprintf(os.Stderr, "NOTE: horizon (120s) hit after %s - no verdict for this transition\n", ed.Name)
			return mem, key(), fs
		}
		expectOK := fam.ExpectOK(ed.Src)
		if from == nil && (!expectOK || obs.Exit != 0) {
			lib.Fatal("the initial tree (correct sha256 declared) of %s does not build:\n%s", fam.Name(), obs.Output)
		}
		ok := obs.Exit == 0
		via := "fresh-execution"
		if len(obs.Actions) == 0 {
			via = "reuse-of-plz-out"
			if ed.Pre != nil {
				via = "cache-restore"
			}
		}
		content := "content=as-declared"
		if ed.Src["c"] != "x" {
			content = "content=changed"
		}
		tag := fmt.Sprintf("shape=%s:declared=%s:%s:via=%s", fam.Shape, ed.Src["h"], content, via)
		detail := fmt.Sprintf("dir cache configured: %v; edit %s; declared %q; true hashes of the current outputs %v; exit=%d; commands run: %v\nplz output:\n%s",
			fam.Cache, ed.Name, fam.Declared(ed.Src["h"]), fam.True(ed.Src["c"]), obs.Exit, obs.Actions, obs.Output)
		oc := fmt.Sprintf("expect-ok=%v:%s", expectOK, via)
		switch {
		case ok && !expectOK:
			mem.Wrong = true
			if !prevWrong {
				if via == "fresh-execution" {
					violate("accepted-without-matching-declared-hash:"+tag, detail)
				} else {
					// nothing was executed or verified in this build: the cause is what an earlier failed verification left behind, not the variant
					violate(fmt.Sprintf("accepted-without-matching-declared-hash:leftover-of-failed-verification-trusted:shape=%s:via=%s", fam.Shape, via), detail)
				}
			}
		case !ok && expectOK:
			// (the verdict is the exit status only: plz may drop the error text of a failed target at shutdown - a known C04/C05 finding)
			mem.Wrong = true
			if !prevWrong {
				violate("rejected-although-a-declared-hash-matches:"+tag, detail)
			}
		case ok && ed.Src["h"] != "none":
			ref := e.CleanObs(hist.Src{"c": ed.Src["c"], "h": "none"}, noCache)
			if ref.Exit != 0 {
				lib.Fatal("reference build without hashes fails:\n%s", ref.Output)
			}
			if obs.Outs["//p:x"] != ref.Outs["//p:x"] {
				mem.Wrong = true
				if !prevWrong {
					violate(fmt.Sprintf("success-with-wrong-bytes:shape=%s:via=%s", fam.Shape, via), detail+"\noutputs:\n"+obs.Outs["//p:x"]+"reference (fresh build without hashes):\n"+ref.Outs["//p:x"])
				}
			}
		}
		outcomesMu.Lock()
		outcomes[oc]++
		if strings.Contains(obs.Output, "Error retrieving cached artifacts") {
			outcomes["cache-restore-rejected-by-hash-verification"]++
		}
		outcomesMu.Unlock()
		return mem, key(), fs
	}
}

func replay(r *lib.Run, plz, root string, w witness) {
	rn := run{fam: hist.NewHashFam(w.Shape, w.Cache, hist.AllHashVariants)}
	e := hist.NewEngine(plz, filepath.Join(root, "replay"), rn.fam)
	e.CacheOn = w.Cache
	probe(e, rn.fam)
	visit := makeVisit(r, e, rn, map[string]int{})
	var st *hist.State
	src := rn.fam.Initial()
	for i, name := range w.History {
		var ed hist.Edit
		if i == 0 {
			ed = hist.Edit{Name: "init", Src: src, Kind: "init"}
		} else {
			found := false
			for _, c := range rn.fam.Edits(src) {
				if c.Name == name {
					ed, found = c, true
				}
			}
			if !found {
				lib.Fatal("edit %s not applicable", name)
			}
		}
		dir, obs := e.Step(st, ed, rn.config())
		fmt.Printf("== %s: exit=%d actions=%v\n%s", name, obs.Exit, obs.Actions, obs.Output)
		extra, _ := visit(st, ed, obs, dir)
		ns := &hist.State{Src: ed.Src, Snap: dir, Extra: extra, Depth: i}
		if st != nil {
			ns.Hist = append(append([]string{}, st.Hist...), name)
		} else {
			ns.Hist = []string{"init"}
		}
		st, src = ns, ed.Src
	}
	os.RemoveAll(root)
	r.Finish(lib.Coverage{Evaluations: len(w.History), DistinctNontrivial: len(w.History), States: len(w.History), Transitions: len(w.History), TracesValidated: len(w.History), Samples: []any{w}, Exhaustive: true})
}

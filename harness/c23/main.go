// C23: `plz query somepath / deps / revdeps` agree with graph reachability.
//
// Every labelled DAG on n targets (n<=4 quick incl. require/provide variants, n=5 too), under a family of naming
// schemes that make up to two nodes hidden sub-targets `_x#t` of a visible rule, is built with the real
// BuildGraph/BuildTarget/Package API; every root (pair), every level limit and both --hidden settings are put through
// the real query.Deps / query.FindRevdeps (what ReverseDeps prints) / query.SomePath (stdout captured) and compared
// with a reference shortest-path computation in which an edge between two members of one rule family costs nothing.
package main

import (
	"bytes"
	"fmt"
	"os"
	"runtime"
	"runtime/debug"
	"runtime/pprof"
	"sort"
	"strings"
	"sync"
	"sync/atomic"
	"time"

	"github.com/thought-machine/please/src/core"
	"github.com/thought-machine/please/src/query"
	"github.com/thought-machine/please/verifharness/lib"
)

// ---------------------------------------------------------------------------------------------------------------
// witness

type prov struct {
	J int   `json:"provider"`  // node that has provides = {"l": [names[K]]}
	K int   `json:"provided"`  // the provided target
	M []int `json:"also_provided,omitempty"` // further provided targets: provides = {"l": [names[K], names[M]...]}
	R []int `json:"requirers"` // nodes with requires = ["l"]
}

type witness struct {
	Names  []string `json:"names"` // labels, e.g. //p:a, //p:_a#t
	Edges  [][2]int `json:"edges"` // declared dependencies i -> j
	Prov   *prov    `json:"provide,omitempty"`
	Query  string   `json:"query"` // deps | revdeps | somepath
	Root   int      `json:"root"`
	To     int      `json:"to,omitempty"` // somepath only
	Level  int      `json:"level"`        // deps / revdeps only; -1 = unlimited
	Hidden bool     `json:"hidden_flag"`
}

func (w witness) clone() witness {
	c := w
	c.Names = append([]string{}, w.Names...)
	c.Edges = append([][2]int{}, w.Edges...)
	if w.Prov != nil {
		p := *w.Prov
		p.R = append([]int{}, w.Prov.R...)
		p.M = append([]int(nil), w.Prov.M...)
		c.Prov = &p
	}
	return c
}

// ---------------------------------------------------------------------------------------------------------------
// reference model

type model struct {
	n     int
	names []string
	vis   []bool  // not a hidden sub-target
	fam   []int   // index of the visible parent for a hidden sub-target (-1 if the parent is not in the graph), self otherwise
	adj   [][]int // resolved dependencies (require/provide applied)
	radj  [][]int
}

// parentName is the reference reading of the `_name#tag` convention.
func parentName(label string) (string, bool) {
	i := strings.LastIndex(label, ":")
	pkg, name := label[:i], label[i+1:]
	h := strings.Index(name, "#")
	if h == -1 || !strings.HasPrefix(name, "_") {
		return label, false
	}
	return pkg + ":" + strings.TrimLeft(name[:h], "_"), true
}

func newModel(names []string, edges [][2]int, p *prov) *model {
	n := len(names)
	m := &model{n: n, names: names, vis: make([]bool, n), fam: make([]int, n), adj: make([][]int, n), radj: make([][]int, n)}
	idx := map[string]int{}
	for i, s := range names {
		idx[s] = i
	}
	for i, s := range names {
		if pn, hidden := parentName(s); hidden {
			m.fam[i] = -1
			if j, ok := idx[pn]; ok {
				m.fam[i] = j
			}
		} else {
			m.vis[i] = true
			m.fam[i] = i
		}
	}
	seen := map[[2]int]bool{}
	for _, e := range edges {
		tos := []int{e[1]}
		if p != nil && e[1] == p.J {
			for _, r := range p.R {
				if r == e[0] {
					tos = append([]int{p.K}, p.M...)
				}
			}
		}
		for _, to := range tos {
			if !seen[[2]int{e[0], to}] {
				seen[[2]int{e[0], to}] = true
				m.adj[e[0]] = append(m.adj[e[0]], to)
				m.radj[to] = append(m.radj[to], e[0])
			}
		}
	}
	return m
}

func (m *model) sameFamily(u, v int) bool { return m.fam[u] >= 0 && m.fam[u] == m.fam[v] }

func (m *model) cost(u, v int, hiddenFlag bool) int {
	if !hiddenFlag && m.sameFamily(u, v) {
		return 0
	}
	return 1
}

const inf = 1 << 20

// distFrom: cheapest cost of a path with >=1 edge from any node of `start` (forward=true: along dependencies).
func (m *model) dist(start []int, forward, hiddenFlag bool) []int {
	d := make([]int, m.n)
	for i := range d {
		d[i] = inf
	}
	base := make([]int, m.n)
	for i := range base {
		base[i] = inf
	}
	for _, s := range start {
		base[s] = 0
	}
	// Bellman-Ford style relaxation; graphs are tiny.
	for it := 0; it <= m.n+1; it++ {
		for u := 0; u < m.n; u++ {
			du := base[u]
			if d[u] < du {
				du = d[u]
			}
			if du >= inf {
				continue
			}
			next := m.adj[u]
			if !forward {
				next = m.radj[u]
			}
			for _, v := range next {
				c := 0
				if forward {
					c = m.cost(u, v, hiddenFlag)
				} else {
					c = m.cost(v, u, hiddenFlag)
				}
				if du+c < d[v] {
					d[v] = du + c
				}
			}
		}
	}
	return d
}

func within(d, level int) bool { return d < inf && (level == -1 || d <= level) }

func (m *model) cyclic() bool {
	col := make([]int, m.n)
	var dfs func(int) bool
	dfs = func(u int) bool {
		col[u] = 1
		for _, v := range m.adj[u] {
			if v == u || col[v] == 1 || (col[v] == 0 && dfs(v)) {
				return true
			}
		}
		col[u] = 2
		return false
	}
	for i := 0; i < m.n; i++ {
		if col[i] == 0 && dfs(i) {
			return true
		}
	}
	return false
}

// accept(b): b itself and, per the documented somepath rule, any hidden sub-target of b.
func (m *model) accept(b int) map[int]bool {
	a := map[int]bool{b: true}
	for i := 0; i < m.n; i++ {
		if !m.vis[i] && m.fam[i] == b {
			a[i] = true
		}
	}
	return a
}

// paths enumerates all simple dependency chains from a that end in acc (a path stops at the first accepted node or continues).
func (m *model) chains(a int, acc map[int]bool, visit func([]int)) {
	var cur []int
	var rec func(int)
	rec = func(u int) {
		cur = append(cur, u)
		if acc[u] {
			visit(cur)
		}
		for _, v := range m.adj[u] {
			rec(v)
		}
		cur = cur[:len(cur)-1]
	}
	rec(a)
}

func (m *model) reaches(a int, acc map[int]bool) bool {
	found := false
	m.chains(a, acc, func([]int) { found = true })
	return found
}

// ---------------------------------------------------------------------------------------------------------------
// real graph

type realGraph struct {
	state  *core.BuildState
	labels []core.BuildLabel
}

func buildReal(state *core.BuildState, w *witness) *realGraph {
	g := core.NewGraph()
	state.Graph = g
	rg := &realGraph{state: state, labels: make([]core.BuildLabel, len(w.Names))}
	ts := make([]*core.BuildTarget, len(w.Names))
	pkgs := map[string]*core.Package{}
	for i, s := range w.Names {
		l := core.ParseBuildLabel(s, "")
		rg.labels[i] = l
		ts[i] = core.NewBuildTarget(l)
		g.AddTarget(ts[i])
		p := pkgs[l.PackageName]
		if p == nil {
			p = core.NewPackage(l.PackageName)
			pkgs[l.PackageName] = p
			g.AddPackage(p)
		}
		p.AddTarget(ts[i])
	}
	for _, e := range w.Edges {
		ts[e[0]].AddDependency(rg.labels[e[1]])
	}
	if w.Prov != nil {
		provided := []core.BuildLabel{rg.labels[w.Prov.K]}
		for _, k := range w.Prov.M {
			provided = append(provided, rg.labels[k])
		}
		ts[w.Prov.J].AddProvide("l", provided)
		for _, r := range w.Prov.R {
			ts[r].AddRequire("l")
		}
	}
	return rg
}

// stdout capture for query.SomePath, which prints with fmt.Println.
var (
	capMu      sync.Mutex
	capR, capW *os.File
	realStdout *os.File
)

func initCapture() {
	realStdout = os.Stdout
	var err error
	capR, capW, err = os.Pipe()
	if err != nil {
		lib.Fatal("pipe: %s", err)
	}
}

func realSomePath(rg *realGraph, a, b int, hidden bool) (string, error) {
	// the caller holds capMu (runGraph takes it once per graph for all somepath queries; replay is single-threaded)
	os.Stdout = capW
	err := query.SomePath(rg.state.Graph, []core.BuildLabel{rg.labels[a]}, []core.BuildLabel{rg.labels[b]}, nil, hidden)
	os.Stdout = realStdout
	capW.Write([]byte{0})
	var out []byte
	buf := make([]byte, 4096)
	for {
		n, rerr := capR.Read(buf)
		if rerr != nil {
			lib.Fatal("capture read: %s", rerr)
		}
		out = append(out, buf[:n]...)
		if out[len(out)-1] == 0 {
			break
		}
	}
	return string(out[:len(out)-1]), err
}

// ---------------------------------------------------------------------------------------------------------------
// one evaluation: returns symptom ("" = holds), detail, and whether the case is non-trivial

func setStr(m *model, s map[int]bool) string {
	var xs []string
	for i := range s {
		xs = append(xs, m.names[i])
	}
	sort.Strings(xs)
	return "[" + strings.Join(xs, " ") + "]"
}

func evalOn(rg *realGraph, m *model, w *witness) (symptom, detail string, nontrivial bool) {
	idx := map[string]int{}
	for i, l := range rg.labels {
		idx[l.String()] = i
	}
	switch w.Query {
	case "deps":
		d := m.dist([]int{w.Root}, true, w.Hidden)
		exp := map[int]bool{}
		for v := 0; v < m.n; v++ {
			if v != w.Root && within(d[v], w.Level) && (w.Hidden || m.vis[v]) {
				exp[v] = true
			}
		}
		var buf bytes.Buffer
		query.Deps(&buf, rg.state, []core.BuildLabel{rg.labels[w.Root]}, w.Hidden, w.Level, false)
		got := map[int]bool{}
		for _, line := range strings.Split(buf.String(), "\n") {
			line = strings.TrimSpace(line)
			if line == "" {
				continue
			}
			i, ok := idx[line]
			if !ok {
				return "bad-output", "deps printed an unknown label " + line, len(exp) > 0
			}
			got[i] = true
		}
		for v := range exp {
			if !got[v] {
				return "missing", fmt.Sprintf("deps %s level=%d hidden=%v: %s is within the limit (cost %d) but was not printed; printed %s, expected %s", m.names[w.Root], w.Level, w.Hidden, m.names[v], d[v], setStr(m, got), setStr(m, exp)), true
			}
		}
		for v := range got {
			if !exp[v] {
				return "extra", fmt.Sprintf("deps %s level=%d hidden=%v: printed %s which is not within the limit (cost %d); printed %s, expected %s", m.names[w.Root], w.Level, w.Hidden, m.names[v], d[v], setStr(m, got), setStr(m, exp)), len(exp) > 0
			}
		}
		return "", "", len(exp) > 0
	case "revdeps":
		start := []int{w.Root}
		inFam := map[int]bool{w.Root: true}
		if !w.Hidden {
			// rule-level reading used by the implementation and by the somepath documentation: a visible rule
			// stands for itself and its hidden sub-targets.
			if m.vis[w.Root] {
				for i := 0; i < m.n; i++ {
					if !m.vis[i] && m.fam[i] == w.Root {
						start = append(start, i)
					}
				}
			}
			for i := 0; i < m.n; i++ {
				if m.sameFamily(i, w.Root) {
					inFam[i] = true
				}
			}
		}
		d := m.dist(start, false, w.Hidden)
		req, allowed := map[int]bool{}, map[int]bool{}
		for v := 0; v < m.n; v++ {
			if inFam[v] {
				if !w.Hidden {
					allowed[v] = true // own family: don't care
				}
				continue
			}
			if !within(d[v], w.Level) || d[v] < 1 {
				continue
			}
			if w.Hidden || m.vis[v] {
				req[v], allowed[v] = true, true
			} else if m.fam[v] >= 0 {
				allowed[m.fam[v]] = true // reporting the rule that owns a hidden reverse dependency is tolerated
			}
		}
		ts := query.FindRevdeps(rg.state, core.BuildLabels{rg.labels[w.Root]}, w.Hidden, true, true, w.Level)
		got := map[int]bool{}
		for t := range ts {
			got[idx[t.Label.String()]] = true
		}
		for v := range req {
			if !got[v] {
				return "missing", fmt.Sprintf("revdeps %s level=%d hidden=%v: %s is within the limit (cost %d) but was not reported; reported %s, required %s", m.names[w.Root], w.Level, w.Hidden, m.names[v], d[v], setStr(m, got), setStr(m, req)), true
			}
		}
		for v := range got {
			if !allowed[v] {
				return "extra", fmt.Sprintf("revdeps %s level=%d hidden=%v: reported %s which is not within the limit (cost %d); reported %s, allowed %s", m.names[w.Root], w.Level, w.Hidden, m.names[v], d[v], setStr(m, got), setStr(m, allowed)), len(req) > 0
			}
		}
		return "", "", len(req) > 0
	case "somepath":
		a, b := w.Root, w.To
		exists := m.reaches(a, m.accept(b)) || m.reaches(b, m.accept(a))
		out, err := realSomePath(rg, a, b, w.Hidden)
		if err != nil {
			if out != "" {
				return "bad-output", "somepath returned an error but printed: " + out, exists
			}
			if exists {
				return "path-not-found", fmt.Sprintf("somepath %s %s: a dependency chain exists but the query says: %s", m.names[a], m.names[b], err), true
			}
			return "", "", false
		}
		lines := strings.Split(strings.TrimRight(out, "\n"), "\n")
		if len(lines) < 2 || lines[0] != "Found path:" {
			return "bad-output", "somepath printed: " + out, exists
		}
		var printed []string
		for _, l := range lines[1:] {
			printed = append(printed, strings.TrimSpace(l))
		}
		if !exists {
			return "path-invented", fmt.Sprintf("somepath %s %s: no dependency chain exists in either direction but the query printed %v", m.names[a], m.names[b], printed), false
		}
		// the printed path must be a real chain (hidden=true), or the rule-level image of a real chain (hidden=false)
		ok := false
		checkDir := func(s, t int) {
			m.chains(s, m.accept(t), func(p []int) {
				var img []string
				for _, u := range p {
					nm := m.names[u]
					if !w.Hidden {
						nm, _ = parentName(nm)
					}
					if len(img) == 0 || img[len(img)-1] != nm {
						img = append(img, nm)
					}
				}
				if strings.Join(img, " ") == strings.Join(printed, " ") {
					ok = true
				}
			})
		}
		checkDir(a, b)
		checkDir(b, a)
		if !ok {
			return "not-a-chain", fmt.Sprintf("somepath %s %s hidden=%v printed %v, which is not (the image of) any dependency chain between the two", m.names[a], m.names[b], w.Hidden, printed), true
		}
		return "", "", true
	}
	lib.Fatal("unknown query %q", w.Query)
	return
}

func eval(state *core.BuildState, w *witness) (string, string) {
	m := newModel(w.Names, w.Edges, w.Prov)
	rg := buildReal(state, w)
	s, d, _ := evalOn(rg, m, w)
	return s, d
}

// ---------------------------------------------------------------------------------------------------------------
// shrinking and classification

func hiddenCount(names []string) int {
	c := 0
	for _, s := range names {
		if _, h := parentName(s); h {
			c++
		}
	}
	return c
}

func removeNode(w witness, v int) (witness, bool) {
	if v == w.Root || (w.Query == "somepath" && v == w.To) {
		return w, false
	}
	if w.Prov != nil && (w.Prov.J == v || w.Prov.K == v) {
		return w, false
	}
	if w.Prov != nil {
		for _, k := range w.Prov.M {
			if k == v {
				return w, false
			}
		}
	}
	// do not orphan hidden sub-targets
	for _, s := range w.Names {
		if pn, h := parentName(s); h && pn == w.Names[v] {
			return w, false
		}
	}
	c := w.clone()
	re := func(i int) int {
		if i > v {
			return i - 1
		}
		return i
	}
	c.Names = append(c.Names[:v:v], c.Names[v+1:]...)
	c.Edges = c.Edges[:0]
	for _, e := range w.Edges {
		if e[0] != v && e[1] != v {
			c.Edges = append(c.Edges, [2]int{re(e[0]), re(e[1])})
		}
	}
	c.Root, c.To = re(w.Root), re(w.To)
	if c.Prov != nil {
		c.Prov.J, c.Prov.K = re(c.Prov.J), re(c.Prov.K)
		for i, k := range c.Prov.M {
			c.Prov.M[i] = re(k)
		}
		var rr []int
		for _, r := range c.Prov.R {
			if r != v {
				rr = append(rr, re(r))
			}
		}
		if len(rr) == 0 {
			c.Prov = nil
		} else {
			c.Prov.R = rr
		}
	}
	return c, true
}

// childToParent: some resolved edge goes from a hidden sub-target to its own parent rule.
func (m *model) childToParent() bool {
	for u := 0; u < m.n; u++ {
		for _, v := range m.adj[u] {
			if !m.vis[u] && m.fam[u] == v {
				return true
			}
		}
	}
	return false
}

func valid(w witness) bool {
	m := newModel(w.Names, w.Edges, w.Prov)
	if m.cyclic() || m.childToParent() {
		return false
	}
	plain := newModel(w.Names, w.Edges, nil)
	return !plain.cyclic()
}

// shrink keeps the same (query, symptom) while making the witness smaller: fewer special features first, then nodes, then edges.
func shrink(state *core.BuildState, w witness, symptom string) witness {
	still := func(c witness) bool {
		if !valid(c) {
			return false
		}
		s, _ := eval(state, &c)
		return s == symptom
	}
	for changed := true; changed; {
		changed = false
		if w.Prov != nil {
			c := w.clone()
			c.Prov = nil
			if still(c) {
				w, changed = c, true
				continue
			}
			if len(w.Prov.M) > 0 {
				c := w.clone()
				c.Prov.M = nil
				if still(c) {
					w, changed = c, true
					continue
				}
			}
			for i := range w.Prov.R {
				if len(w.Prov.R) == 1 {
					break
				}
				c := w.clone()
				c.Prov.R = append(c.Prov.R[:i:i], c.Prov.R[i+1:]...)
				if still(c) {
					w, changed = c, true
					break
				}
			}
			if changed {
				continue
			}
		}
		// un-hide a hidden sub-target (give it an ordinary name sorting before or after everything else)
		for i, s := range w.Names {
			if _, h := parentName(s); !h {
				continue
			}
			pkg := s[:strings.LastIndex(s, ":")]
			for _, nn := range []string{"z", "Z"} {
				c := w.clone()
				c.Names[i] = fmt.Sprintf("%s:%s%d", pkg, nn, i)
				if still(c) {
					w, changed = c, true
					break
				}
			}
			if changed {
				break
			}
		}
		if changed {
			continue
		}
		for v := range w.Names {
			if c, ok := removeNode(w, v); ok && still(c) {
				w, changed = c, true
				break
			}
		}
		if changed {
			continue
		}
		for i := range w.Edges {
			c := w.clone()
			c.Edges = append(c.Edges[:i:i], c.Edges[i+1:]...)
			if still(c) {
				w, changed = c, true
				break
			}
		}
		if changed {
			continue
		}
		if hiddenCount(w.Names) == 0 && w.Hidden {
			c := w.clone()
			c.Hidden = false
			if still(c) {
				w, changed = c, true
			}
		}
	}
	return w
}

// unequalCosts: in the reference cost model some node is reachable from the query root (the rule's start set for
// revdeps) by two chains of different cost. This is the precondition of "level fixed at first visit" defects.
func unequalCosts(w witness) bool {
	if w.Query == "somepath" {
		return false
	}
	m := newModel(w.Names, w.Edges, w.Prov)
	start := []int{w.Root}
	forward := w.Query == "deps"
	if !forward && !w.Hidden && m.vis[w.Root] {
		for i := 0; i < m.n; i++ {
			if !m.vis[i] && m.fam[i] == w.Root {
				start = append(start, i)
			}
		}
	}
	costs := make([]map[int]bool, m.n)
	for i := range costs {
		costs[i] = map[int]bool{}
	}
	var rec func(u, c int)
	rec = func(u, c int) {
		next := m.adj[u]
		if !forward {
			next = m.radj[u]
		}
		for _, v := range next {
			cc := c
			if forward {
				cc += m.cost(u, v, w.Hidden)
			} else {
				cc += m.cost(v, u, w.Hidden)
			}
			costs[v][cc] = true
			rec(v, cc)
		}
	}
	for _, s := range start {
		rec(s, 0)
	}
	for _, c := range costs {
		if len(c) > 1 {
			return true
		}
	}
	return false
}

func classOf(w witness, symptom string) string {
	cl := w.Query + ":" + symptom
	if w.Query != "somepath" {
		if w.Level == -1 {
			cl += ":unlimited"
		} else {
			cl += ":level-limited"
		}
		if symptom == "missing" && w.Level != -1 && unequalCosts(w) {
			// root cause identified by shape: a target reachable by a dearer and a cheaper chain
			return cl + ":unequal-cost-paths"
		}
	}
	feat := "plain-graph"
	hc := hiddenCount(w.Names)
	switch {
	case hc > 0 && w.Prov != nil:
		feat = "hidden-subtargets+provide"
	case hc > 0:
		feat = "hidden-subtargets"
	case w.Prov != nil:
		feat = "provide"
	}
	cl += ":" + feat
	if hc > 0 {
		cl += fmt.Sprintf(":hidden-flag=%v", w.Hidden)
	}
	return cl
}

// renamed counts nodes the shrinker un-hid (their new names carry a digit).
func renamed(names []string) int {
	c := 0
	for _, s := range names {
		if strings.ContainsAny(s, "0123456789") {
			c++
		}
	}
	return c
}

func lvlKey(l int) int {
	if l == -1 {
		return 99
	}
	return l
}

// less is the canonical order used to pick the reported witness of a class.
func less(a, b witness) bool {
	ka := []int{len(a.Names), len(a.Edges), hiddenCount(a.Names), lvlKey(a.Level), renamed(a.Names)}
	kb := []int{len(b.Names), len(b.Edges), hiddenCount(b.Names), lvlKey(b.Level), renamed(b.Names)}
	for i := range ka {
		if ka[i] != kb[i] {
			return ka[i] < kb[i]
		}
	}
	return fmt.Sprint(a) < fmt.Sprint(b)
}

type found struct {
	w      witness
	detail string
	count  int
}

var (
	foundMu sync.Mutex
	founds  = map[string]*found{}
)

// Shrinking costs ~50 evaluations. To bound the run time on trees where a defect hits hundreds of thousands of cases,
// at most shrinkCap violations per bucket (query, symptom, level kind, hidden flag, graph features, n) are shrunk and
// classified individually; the rest of a bucket is only counted, and attributed to the bucket's most frequent class.
const shrinkCap = 600

type bucketInfo struct {
	shrunk, overflow int
	classes          map[string]int
}

var buckets = map[string]*bucketInfo{}

func bucketOf(w *witness, symptom string) string {
	lv := "limited"
	if w.Level == -1 {
		lv = "unlimited"
	}
	return fmt.Sprintf("%s|%s|%s|%v|hid=%v|prov=%v|n=%d", w.Query, symptom, lv, w.Hidden, hiddenCount(w.Names) > 0, w.Prov != nil, len(w.Names))
}

func record(state *core.BuildState, w witness, symptom string) {
	// determinism: the same case must fail the same way again
	for i := 0; i < 2; i++ {
		if s, _ := eval(state, &w); s != symptom {
			lib.Fatal("HARNESS-NONDETERMINISM: %+v gave %q then %q", w, symptom, s)
		}
	}
	bk := bucketOf(&w, symptom)
	foundMu.Lock()
	bi := buckets[bk]
	if bi == nil {
		bi = &bucketInfo{classes: map[string]int{}}
		buckets[bk] = bi
	}
	if bi.shrunk >= shrinkCap {
		bi.overflow++
		foundMu.Unlock()
		return
	}
	bi.shrunk++
	foundMu.Unlock()
	sw := shrink(state, w, symptom)
	cl := classOf(sw, symptom)
	_, d := eval(state, &sw)
	foundMu.Lock()
	defer foundMu.Unlock()
	bi.classes[cl]++
	f := founds[cl]
	if f == nil {
		founds[cl] = &found{w: sw, detail: d, count: 1}
		return
	}
	f.count++
	if less(sw, f.w) {
		f.w, f.detail = sw, d
	}
}

// settleOverflow attributes the merely counted violations of each bucket to that bucket's most frequent class.
func settleOverflow() int {
	total := 0
	for _, bi := range buckets {
		if bi.overflow == 0 {
			continue
		}
		best, bestN := "", -1
		for cl, n := range bi.classes {
			if n > bestN || (n == bestN && cl < best) {
				best, bestN = cl, n
			}
		}
		if f := founds[best]; f != nil {
			f.count += bi.overflow
		}
		total += bi.overflow
	}
	return total
}

// ---------------------------------------------------------------------------------------------------------------
// enumeration

// schemes returns the naming schemes for n nodes: which nodes are hidden sub-targets of which, and how hidden names sort
// relative to visible ones (lower-case names sort after `_x#t`, upper-case ones before).
func schemes(n int, quick bool) [][]string {
	var out [][]string
	add := func(names ...string) {
		if len(names) >= n {
			s := make([]string, n)
			for i := range s {
				s[i] = names[i]
			}
			out = append(out, s)
		}
	}
	// all visible
	add("//p:a", "//p:b", "//p:c", "//p:d", "//p:e")
	if n >= 2 {
		// one hidden child of the first node; `up` = how many of the other visible nodes sort before the hidden one
		for _, par := range []string{"a", "A"} {
			others := n - 2
			for up := 0; up <= others; up++ {
				if quick && up != 0 && up != others {
					continue
				}
				names := []string{"//p:" + par, "//p:_" + par + "#t"}
				for k := 0; k < others; k++ {
					c := string(rune('b' + k))
					if k < up {
						c = strings.ToUpper(c)
					}
					names = append(names, "//p:"+c)
				}
				add(names...)
			}
		}
	}
	if n >= 3 {
		for _, par := range []string{"a", "A"} {
			others := n - 3
			for up := 0; up <= others; up++ {
				if quick && up != 0 && up != others {
					continue
				}
				names := []string{"//p:" + par, "//p:_" + par + "#t", "//p:_" + par + "#u"}
				for k := 0; k < others; k++ {
					c := string(rune('b' + k))
					if k < up {
						c = strings.ToUpper(c)
					}
					names = append(names, "//p:"+c)
				}
				add(names...)
			}
		}
	}
	if n >= 4 {
		for _, pa := range []string{"a", "A"} {
			for _, pb := range []string{"b", "B"} {
				names := []string{"//p:" + pa, "//p:_" + pa + "#t", "//p:" + pb, "//p:_" + pb + "#t"}
				add(append(names, "//p:c")...)
				if n == 5 && !quick {
					add(append(names, "//p:C")...)
				}
			}
		}
		// two packages: the family lives in q (sorts after p), the rest in p
		add("//q:a", "//q:_a#t", "//p:b", "//p:c", "//p:d")
		if !quick {
			add("//p:a", "//p:_a#t", "//q:b", "//q:_b#t", "//q:c")
		}
	}
	return out
}

type pair struct{ i, j int }

func pairsFor(names []string) []pair {
	var ps []pair
	for i := range names {
		for j := range names {
			if i == j {
				continue
			}
			// a hidden sub-target never depends on its own parent rule (it is an internal of that rule)
			if pn, h := parentName(names[i]); h && pn == names[j] {
				continue
			}
			ps = append(ps, pair{i, j})
		}
	}
	return ps
}

type counters struct{ evals, nontrivial, graphs, skipped int64 }

var cnt counters

// relevance: the set of nodes that can influence a query's answer (an over-approximation: closure over declared and
// resolved edges in the query's direction, the queried rule's own sub-targets, and the parent rule of every hidden node
// in the set). A query whose relevant set is not the whole graph behaves exactly like the same query on the smaller
// graph without the other nodes, which is enumerated (order-isomorphically) at a smaller n.
func relevantAll(m *model, base *witness, starts []int, forward bool) bool {
	n := m.n
	in := make([]bool, n)
	var stack []int
	push := func(v int) {
		if !in[v] {
			in[v] = true
			stack = append(stack, v)
		}
	}
	for _, s := range starts {
		push(s)
		if m.vis[s] {
			for i := 0; i < n; i++ {
				if !m.vis[i] && m.fam[i] == s {
					push(i)
				}
			}
		}
	}
	for len(stack) > 0 {
		u := stack[len(stack)-1]
		stack = stack[:len(stack)-1]
		if !m.vis[u] && m.fam[u] >= 0 {
			push(m.fam[u])
		}
		if forward {
			for _, v := range m.adj[u] {
				push(v)
			}
			for _, e := range base.Edges {
				if e[0] == u {
					push(e[1])
				}
			}
		} else {
			for _, v := range m.radj[u] {
				push(v)
			}
			for _, e := range base.Edges {
				if e[1] == u {
					push(e[0])
				}
			}
			// the provider sits between a requirer and the provided target
			if base.Prov != nil && base.Prov.K == u {
				push(base.Prov.J)
			}
			if base.Prov != nil {
				for _, k := range base.Prov.M {
					if k == u {
						push(base.Prov.J)
					}
				}
			}
		}
	}
	for _, x := range in {
		if !x {
			return false
		}
	}
	return true
}

func runGraph(r *lib.Run, state *core.BuildState, base witness, samples *lib.Samples, doSomepath, reduce bool) {
	m := newModel(base.Names, base.Edges, base.Prov)
	n := len(base.Names)
	levels := []int{0}
	for l := 1; l < n; l++ {
		levels = append(levels, l)
	}
	levels = append(levels, -1)
	var rg *realGraph
	one := func(w witness) {
		if rg == nil {
			rg = buildReal(state, &base)
			atomic.AddInt64(&cnt.graphs, 1)
		}
		s, _, nt := evalOn(rg, m, &w)
		ev := atomic.AddInt64(&cnt.evals, 1)
		if nt {
			atomic.AddInt64(&cnt.nontrivial, 1)
		}
		if ev%7919 == 1 {
			samples.Add(func() any { return w.clone() })
		}
		if s != "" {
			record(state, w.clone(), s)
			// record() rebuilt other graphs in this worker's state; restore ours
			rg = buildReal(state, &base)
		}
	}
	hiddenFlags := []bool{false, true} // kept for graphs without hidden nodes too: the flag selects different code paths
	for _, q := range []string{"deps", "revdeps"} {
		for root := 0; root < n; root++ {
			if reduce && !relevantAll(m, &base, []int{root}, q == "deps") {
				atomic.AddInt64(&cnt.skipped, int64(len(levels)*len(hiddenFlags)))
				continue
			}
			for _, lv := range levels {
				for _, h := range hiddenFlags {
					w := base
					w.Query, w.Root, w.Level, w.Hidden = q, root, lv, h
					one(w)
				}
			}
		}
	}
	if doSomepath {
		capMu.Lock()
		defer capMu.Unlock()
		for a := 0; a < n; a++ {
			for b := 0; b < n; b++ {
				if a == b {
					continue
				}
				if reduce && !relevantAll(m, &base, []int{a, b}, true) {
					atomic.AddInt64(&cnt.skipped, int64(len(hiddenFlags)))
					continue
				}
				for _, h := range hiddenFlags {
					w := base
					w.Query, w.Root, w.To, w.Level, w.Hidden = "somepath", a, b, 0, h
					one(w)
				}
			}
		}
	}
}

func edgesOfMask(ps []pair, mask uint64) [][2]int {
	var es [][2]int
	for b, p := range ps {
		if mask&(1<<uint(b)) != 0 {
			es = append(es, [2]int{p.i, p.j})
		}
	}
	return es
}

// provVariants lists the require/provide decorations of a graph: provider j, provided k != j, requirers = a non-empty
// subset of the declared dependents of j (all subsets when full, only "all dependents" otherwise).
func provVariants(n int, es [][2]int, full bool) []*prov {
	out := []*prov{nil}
	for j := 0; j < n; j++ {
		var preds []int
		for _, e := range es {
			if e[1] == j {
				preds = append(preds, e[0])
			}
		}
		if len(preds) == 0 {
			continue
		}
		for k := 0; k < n; k++ {
			if k == j {
				continue
			}
			lo := 1
			if !full {
				lo = (1 << len(preds)) - 1
			}
			for sub := lo; sub < 1<<len(preds); sub++ {
				var rs []int
				bad := false
				for b, p := range preds {
					if sub&(1<<b) != 0 {
						rs = append(rs, p)
						if p == k {
							bad = true // would make p depend on itself
						}
					}
				}
				if !bad {
					out = append(out, &prov{J: j, K: k, R: rs})
					// a list-valued entry: provides = {"l": [k, k2]}
					for k2 := k + 1; k2 < n; k2++ {
						ok := k2 != j
						for _, p := range rs {
							if p == k2 {
								ok = false
							}
						}
						if ok {
							out = append(out, &prov{J: j, K: k, M: []int{k2}, R: rs})
						}
					}
				}
			}
		}
	}
	return out
}

var started = time.Now()

// overBudget keeps the thorough tier under its 20-minute contract on a loaded machine (the run then reports exhaustive=false).
func overBudget(r *lib.Run) bool {
	if !r.Quick() && time.Since(started) > 16*time.Minute {
		r.Capped = true
		return true
	}
	return false
}

// gcTuning: tiny live heap, very high allocation rate (every BuildGraph is 512 maps, every FindRevdeps a 1000-slot map):
// collect by footprint instead of by growth (measured: about 40% less CPU than the default or a ballast).
func gcTuning() {
	if os.Getenv("VERIF_NO_GC_TUNING") != "" {
		return
	}
	debug.SetGCPercent(-1)
	debug.SetMemoryLimit(512 << 20)
}

func main() {
	r := lib.Start("C23", "exploration")
	lib.Quiet()
	initCapture()
	// Tiny live heap, huge allocation rate (every FindRevdeps allocates a 1000-slot map): collect by footprint, not by growth.
	gcTuning()
	if pf := os.Getenv("VERIF_CPUPROFILE"); pf != "" {
		f, _ := os.Create(pf)
		pprof.StartCPUProfile(f)
		defer pprof.StopCPUProfile()
		time.AfterFunc(40*time.Second, func() { pprof.StopCPUProfile(); f.Close(); os.Exit(3) })
	}
	if r.Replay != "" {
		var w witness
		lib.LoadReplay(r.Replay, &w)
		state := &core.BuildState{} // Deps/FindRevdeps only read state.Graph and the (empty) include/exclude filters
		if s, d := eval(state, &w); s != "" {
			r.Violate(classOf(w, s), w, d)
		}
		r.Finish(lib.Coverage{Evaluations: 1, DistinctNontrivial: 1, Rule: "replay", Samples: []any{w}, Exhaustive: true})
	}
	maxN := 5
	type space struct {
		n        int
		prov     string // "none" | "all-dependents" | "full" | "list-valued"
		somepath bool
	}
	var spaces []space
	if r.Quick() {
		spaces = []space{{1, "full", true}, {2, "full", true}, {3, "full", true}, {4, "none", true}, {4, "list-valued", true}, {5, "none", true}}
	} else {
		spaces = []space{{1, "full", true}, {2, "full", true}, {3, "full", true}, {4, "full", true}, {5, "none", true}, {5, "all-dependents", false}}
	}
	var samples lib.Samples
	exhaustive := true
	var spaceDesc []string
	for _, sp := range spaces {
		ev0, g0 := atomic.LoadInt64(&cnt.evals), atomic.LoadInt64(&cnt.graphs)
		schs := schemes(sp.n, r.Quick())
		if sp.n == 5 && sp.prov != "none" {
			schs = schs[:3] // all-visible and one hidden child in both sort orders
			if !r.Quick() {
				schs = schs[:1] // thorough: 5-node graphs with provide decorations only in the all-visible scheme
			}
		} else if sp.n == 5 && r.Quick() {
			schs = schs[1:3] // one hidden child, in both sort orders (the all-visible 5-node graphs are left to the thorough tier)
		}
		for _, names := range schs {
			ps := pairsFor(names)
			total := uint64(1) << uint(len(ps))
			var next uint64
			var wg sync.WaitGroup
			const chunk = 1024
			for wk := 0; wk < runtime.NumCPU(); wk++ {
				wg.Add(1)
				go func() {
					defer wg.Done()
					state := &core.BuildState{} // Deps/FindRevdeps only read state.Graph and the (empty) include/exclude filters
					for {
						lo := atomic.AddUint64(&next, chunk) - chunk
						if lo >= total || r.OutOfTime() || overBudget(r) {
							return
						}
						for mask := lo; mask < lo+chunk && mask < total; mask++ {
							es := edgesOfMask(ps, mask)
							if newModel(names, es, nil).cyclic() {
								continue
							}
							var pvs []*prov
							switch sp.prov {
							case "none":
								pvs = []*prov{nil}
							case "all-dependents":
								pvs = provVariants(sp.n, es, false)
							case "list-valued": // only the variants whose provides entry lists two targets
								for _, pv := range provVariants(sp.n, es, true) {
									if pv != nil && len(pv.M) > 0 {
										pvs = append(pvs, pv)
									}
								}
							default:
								pvs = provVariants(sp.n, es, true)
							}
							if sp.n == 5 && sp.prov != "none" {
								pvs = pvs[1:] // the undecorated graph was done in the "none" space
							}
							for _, pv := range pvs {
								base := witness{Names: names, Edges: es, Prov: pv}
								if pv != nil {
									if pm := newModel(names, es, pv); pm.cyclic() || pm.childToParent() {
										continue
									}
								}
								runGraph(r, state, base, &samples, sp.somepath, sp.n >= 5)
							}
						}
					}
				}()
			}
			wg.Wait()
			if r.Capped {
				exhaustive = false
				break
			}
		}
		spaceDesc = append(spaceDesc, fmt.Sprintf("n=%d schemes=%d provide=%s somepath=%v graphs=%d evaluations=%d", sp.n, len(schs), sp.prov, sp.somepath, atomic.LoadInt64(&cnt.graphs)-g0, atomic.LoadInt64(&cnt.evals)-ev0))
		if r.Capped {
			break
		}
	}
	os.Stdout = realStdout
	notShrunk := settleOverflow()
	// report classes deterministically
	var classes []string
	for cl := range founds {
		classes = append(classes, cl)
	}
	sort.Strings(classes)
	for _, cl := range classes {
		f := founds[cl]
		r.Violate(cl, f.w, f.detail)
		for i := 1; i < f.count; i++ {
			r.Violate(cl, nil, "")
		}
	}
	r.Assume = []string{
		"graphs are acyclic both as declared and after require/provide resolution; a hidden sub-target `_x#t` always has its parent rule x in the graph and never depends directly on x",
		"deps/revdeps without --hidden: an edge between two members of one rule family (x, _x#t, _x#u) costs 0, every other edge 1; with --hidden every edge costs 1 (this is what the flag descriptions and deps_test/reverse_deps_test pin)",
		"deps without --hidden must print exactly the visible targets within the limit; revdeps without --hidden must report every visible target within the limit of the rule (= the target and its hidden sub-targets, as FindRevdeps and the somepath comment document) and may in addition report the parent rule of a hidden reverse dependency within the limit and members of the queried rule itself",
		"somepath: a chain that reaches a hidden sub-target of the destination counts as reaching it (documented in somepath.go); without --hidden the printed path must be the rule-level image (Parent(), adjacent duplicates merged) of a real chain",
		"--except, multiple roots, :all expansion, subrepo pseudo-edges and subincludes are not exercised",
		fmt.Sprintf("max nodes %d", maxN),
	}
	r.Finish(lib.Coverage{
		Evaluations:        int(cnt.evals),
		DistinctNontrivial: int(cnt.nontrivial),
		Rule:               "one evaluation = one (labelled DAG, naming scheme, provide decoration, query, root[,to], level, hidden flag); all distinct by construction; non-trivial = the reference result set is non-empty (deps/revdeps) or a chain exists (somepath)",
		Samples:            samples.List(),
		Exhaustive:         exhaustive,
		Extra:              map[string]any{"graphs": cnt.graphs, "spaces": spaceDesc, "queries_skipped_as_equivalent_to_a_smaller_graph": cnt.skipped, "violations_counted_without_individual_shrinking": notShrunk},
	})
}

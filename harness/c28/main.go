// C28: remote action digests are canonical.
//
// Level 1 (dirBuilder): every set (and every multiset with one duplicated declaration) of up to n input entries -
// files, symlinks and already-digested directory nodes at nested paths - is inserted into the REAL dirBuilder in every
// distinct order, exactly the way uploadInputDir inserts target outputs. One root digest per set is demanded, and every
// Directory message produced (returned root and every message sent for upload) must be canonical: files, directories
// and symlinks sorted by name, no duplicates, no name used twice in one directory.
//
// Level 2 (Client.uploadInputs / buildAction): the same kinds of entries are registered as the outputs of dependency
// targets of a real BuildTarget in a real BuildGraph; which label owns which output (the discovery order, since
// dependencies are visited in label order and sources in declaration order) is permuted; the input root digest - and for
// targets without srcs also the action digest - must not change.
//
// Level 3 (buildEnv): the environment list is sorted by name and is exactly the map's content, for every map of a
// family (this makes the result independent of map iteration order by construction of the oracle).
package main

import (
	"fmt"
	"os"
	"path/filepath"
	"runtime"
	"sort"
	"strings"
	"sync"
	"sync/atomic"

	pb "github.com/bazelbuild/remote-apis/build/bazel/remote/execution/v2"
	"google.golang.org/protobuf/proto"

	"github.com/thought-machine/please/src/core"
	"github.com/thought-machine/please/src/remote"
	"github.com/thought-machine/please/verifharness/lib"
)

// ---- entries --------------------------------------------------------------------------------------------------

type entry struct {
	Kind   string `json:"kind"`             // file | symlink | dirnode
	Path   string `json:"path"`             // relative to the input root (level 1) or to the package (level 2)
	Target string `json:"target,omitempty"` // symlink target
	Exec   bool   `json:"exec,omitempty"`
	Digest string `json:"digest,omitempty"` // dirnode: D1 | D2 ; file: c1
}

func (e entry) String() string {
	switch e.Kind {
	case "symlink":
		return fmt.Sprintf("symlink %s->%s", e.Path, e.Target)
	case "dirnode":
		return fmt.Sprintf("dirnode %s=%s", e.Path, e.Digest)
	}
	return "file " + e.Path
}

type witness struct {
	Level   int      `json:"level"`
	Entries []entry  `json:"entries,omitempty"`
	Mode    string   `json:"mode,omitempty"` // level 2: deps | srcs | srcs+deps | filegroup
	Env     []string `json:"env,omitempty"`  // level 3: NAME=VALUE
	Sandbox bool     `json:"sandbox,omitempty"`
	Binary  bool     `json:"binary,omitempty"`
}

var fileDigest = &pb.Digest{Hash: strings.Repeat("c1", 32), SizeBytes: 2}

// the two already-built directories an output directory node can point at
var dirD1 = &pb.Directory{Files: []*pb.FileNode{{Name: "x", Digest: fileDigest}}}
var dirD2 = &pb.Directory{Files: []*pb.FileNode{{Name: "y", Digest: fileDigest}}}

func digestOf(m proto.Message) *pb.Digest {
	return cl0.VerifDigestC28(m)
}

var cl0 *remote.Client

func dirnodeDigest(name string) *pb.Digest {
	if name == "D2" {
		return digestOf(dirD2)
	}
	return digestOf(dirD1)
}

// insert mimics uploadInputDir's three loops for one output entry (same calls, same order of operations).
func insert(b *remote.VerifDirBuilderC28, e entry) {
	switch e.Kind {
	case "file":
		d := b.Dir(filepath.Dir(e.Path))
		d.Files = append(d.Files, &pb.FileNode{Name: filepath.Base(e.Path), Digest: fileDigest, IsExecutable: e.Exec})
	case "dirnode":
		d := b.Dir(filepath.Dir(e.Path))
		d.Directories = append(d.Directories, &pb.DirectoryNode{Name: filepath.Base(e.Path), Digest: dirnodeDigest(e.Digest)})
	case "symlink":
		d := b.Dir(filepath.Dir(e.Path))
		d.Symlinks = append(d.Symlinks, &pb.SymlinkNode{Name: filepath.Base(e.Path), Target: e.Target})
	}
}

// canonical checks one Directory message; returns "" or (classSuffix, detail).
func canonical(d *pb.Directory) (string, string) {
	names := map[string]string{}
	check := func(list string, ns []string) (string, string) {
		for i, n := range ns {
			if i > 0 && ns[i-1] > n {
				return "not-sorted:" + list, fmt.Sprintf("%s %q before %q", list, ns[i-1], n)
			}
			if i > 0 && ns[i-1] == n {
				return "duplicate:" + list, fmt.Sprintf("%s %q twice", list, n)
			}
			if other, ok := names[n]; ok {
				return "name-in-two-lists", fmt.Sprintf("%q is in %s and %s", n, other, list)
			}
			names[n] = list
		}
		return "", ""
	}
	var fs, ds, ss []string
	for _, f := range d.Files {
		fs = append(fs, f.Name)
	}
	for _, x := range d.Directories {
		ds = append(ds, x.Name)
		if x.Digest == nil {
			return "directory-node-without-digest", x.Name
		}
	}
	for _, s := range d.Symlinks {
		ss = append(ss, s.Name)
	}
	if c, dd := check("files", fs); c != "" {
		return c, dd
	}
	if c, dd := check("directories", ds); c != "" {
		return c, dd
	}
	return check("symlinks", ss)
}

func checkMessages(root *pb.Directory, msgs [][]byte) (string, string) {
	if c, d := canonical(root); c != "" {
		return c, "root: " + d
	}
	for _, m := range msgs {
		var d pb.Directory
		if err := proto.Unmarshal(m, &d); err != nil {
			return "unreadable-message", err.Error()
		}
		if c, dd := canonical(&d); c != "" {
			return c, dd
		}
	}
	return "", ""
}

// flatten expands a produced tree to "path kind detail" lines, looking directories up by digest.
func flatten(root *pb.Directory, msgs [][]byte) (map[string]bool, string) {
	byDigest := map[string]*pb.Directory{digestOf(dirD1).Hash: dirD1, digestOf(dirD2).Hash: dirD2}
	for _, m := range msgs {
		d := &pb.Directory{}
		if err := proto.Unmarshal(m, d); err == nil {
			byDigest[digestOf(d).Hash] = d
		}
	}
	out := map[string]bool{}
	bad := ""
	var rec func(prefix string, d *pb.Directory, depth int)
	rec = func(prefix string, d *pb.Directory, depth int) {
		if depth > 8 {
			bad = "tree deeper than 8"
			return
		}
		for _, f := range d.Files {
			out[fmt.Sprintf("%s%s file exec=%v", prefix, f.Name, f.IsExecutable)] = true
		}
		for _, l := range d.Symlinks {
			out[fmt.Sprintf("%s%s symlink->%s", prefix, l.Name, l.Target)] = true
		}
		for _, x := range d.Directories {
			if x.Digest == nil {
				bad = "directory node " + prefix + x.Name + " without digest"
				continue
			}
			sub, ok := byDigest[x.Digest.Hash]
			if !ok {
				bad = "directory " + prefix + x.Name + " was never produced"
				continue
			}
			rec(prefix+x.Name+"/", sub, depth+1)
		}
	}
	rec("", root, 0)
	return out, bad
}

// expected is the reference: the inputs themselves, digested directory nodes expanded to their known content.
func expected(es []entry, prefix string) map[string]bool {
	out := map[string]bool{}
	for _, e := range es {
		switch e.Kind {
		case "file":
			out[fmt.Sprintf("%s%s file exec=%v", prefix, e.Path, e.Exec)] = true
		case "symlink":
			out[fmt.Sprintf("%s%s symlink->%s", prefix, e.Path, e.Target)] = true
		case "dirnode":
			name := "x"
			if e.Digest == "D2" {
				name = "y"
			}
			out[fmt.Sprintf("%s%s/%s file exec=false", prefix, e.Path, name)] = true
		}
	}
	return out
}

func diffSets(want, got map[string]bool) string {
	var d []string
	for k := range want {
		if !got[k] {
			d = append(d, "missing "+k)
		}
	}
	for k := range got {
		if !want[k] {
			d = append(d, "extra "+k)
		}
	}
	sort.Strings(d)
	return strings.Join(d, "; ")
}

// overlap reports whether an already-digested directory node covers the path of another entry (or of another node).
func overlap(es []entry) bool {
	for _, d := range es {
		if d.Kind != "dirnode" {
			continue
		}
		for _, e := range es {
			if strings.HasPrefix(e.Path, d.Path+"/") {
				return true
			}
		}
	}
	return false
}

// conflicting reports sets that are not a coherent layout: one path as two different things, or a file/symlink used as a directory.
func conflicting(es []entry) bool {
	for i, a := range es {
		for j, b := range es {
			if i == j {
				continue
			}
			if a.Path == b.Path && a != b {
				return true
			}
			if a.Kind != "dirnode" && strings.HasPrefix(b.Path, a.Path+"/") {
				return true
			}
		}
	}
	return false
}

func permutations(n int, key []int, f func([]int) bool) {
	idx := make([]int, 0, n)
	used := make([]bool, n)
	stop := false
	var rec func()
	rec = func() {
		if stop {
			return
		}
		if len(idx) == n {
			if !f(idx) {
				stop = true
			}
			return
		}
		seen := map[int]bool{}
		for i := 0; i < n; i++ {
			if used[i] || seen[key[i]] {
				continue
			}
			seen[key[i]] = true
			used[i] = true
			idx = append(idx, i)
			rec()
			idx = idx[:len(idx)-1]
			used[i] = false
		}
	}
	rec()
}

func keysOf(es []entry) []int {
	ids := map[entry]int{}
	key := make([]int, len(es))
	for i, e := range es {
		if _, ok := ids[e]; !ok {
			ids[e] = len(ids)
		}
		key[i] = ids[e]
	}
	return key
}

// one cause, seen at level 1 and (through the real uploadInputDir) at level 2
const overlapClass = "dirBuilder:digested-directory-node-overlaps-other-entries:root-digest-depends-on-order"

type result struct {
	class, detail string
	orders        int
}

func orderString(es []entry, order []int) string {
	var s []string
	for _, i := range order {
		s = append(s, es[i].String())
	}
	return "[" + strings.Join(s, "; ") + "]"
}

// checkLevel1 inserts the entries in every distinct order.
func checkLevel1(es []entry) result {
	var res result
	first, firstOrder := "", ""
	suffix := ""
	if overlap(es) {
		suffix = ":digested-directory-node-overlaps-other-entries"
	}
	permutations(len(es), keysOf(es), func(order []int) bool {
		res.orders++
		b := remote.VerifNewDirBuilderC28()
		for _, i := range order {
			insert(b, es[i])
		}
		root, msgs := b.Build()
		if c, d := checkMessages(root, msgs); c != "" && res.class == "" {
			res.class, res.detail = "dirBuilder:"+c+suffix, fmt.Sprintf("insertion order %s: %s", orderString(es, order), d)
		}
		if suffix == "" && res.class == "" {
			got, bad := flatten(root, msgs)
			if d := diffSets(expected(es, ""), got); d != "" || bad != "" {
				res.class, res.detail = "dirBuilder:input-root-is-not-the-inputs", fmt.Sprintf("insertion order %s: %s %s", orderString(es, order), bad, d)
			}
		}
		dg := digestOf(root).Hash[:12] + " " + describe(root)
		if first == "" {
			first, firstOrder = dg, orderString(es, order)
		} else if dg != first && res.class == "" {
			res.class = "dirBuilder:root-digest-depends-on-insertion-order"
			if suffix != "" {
				res.class = overlapClass
			}
			res.detail = fmt.Sprintf("order %s gives root %s; order %s gives root %s", firstOrder, first, orderString(es, order), dg)
		}
		return true
	})
	return res
}

func describe(d *pb.Directory) string {
	var parts []string
	for _, f := range d.Files {
		parts = append(parts, f.Name)
	}
	for _, x := range d.Directories {
		h := "nil"
		if x.Digest != nil {
			h = x.Digest.Hash[:6]
		}
		parts = append(parts, x.Name+"/="+h)
	}
	for _, s := range d.Symlinks {
		parts = append(parts, s.Name+"->"+s.Target)
	}
	return "{" + strings.Join(parts, " ") + "}"
}

// ---- level 2 --------------------------------------------------------------------------------------------------

type l2env struct {
	state *core.BuildState
	c     *remote.Client
}

func newL2() *l2env {
	cfg := core.DefaultConfiguration()
	cfg.Build.Path = []string{"/usr/local/bin", "/usr/bin", "/bin"}
	cfg.Build.HashFunction = "sha256"
	st := core.NewBuildState(cfg)
	c := remote.VerifNewClientC28(st)
	c.VerifStoreDirectoryC28(dirD1)
	c.VerifStoreDirectoryC28(dirD2)
	return &l2env{state: st, c: c}
}

// build constructs target //p:t whose i-th dependency //p:d<i> owns entry es[assign[i]] and returns root digest, action digest.
func (e *l2env) build(es []entry, assign []int, mode string) (root *pb.Directory, msgs [][]byte, action string, err error) {
	e.state.Graph = core.NewGraph()
	e.c.VerifResetC28(e.state)
	t := core.NewBuildTarget(core.NewBuildLabel("p", "t"))
	t.Command = "true"
	t.AddOutput("out")
	t.BuildTimeout = 600e9
	if mode == "filegroup" {
		t.IsFilegroup = true
	}
	for i, a := range assign {
		d := core.NewBuildTarget(core.NewBuildLabel("p", fmt.Sprintf("d%d", i+1)))
		en := es[a]
		out := &pb.Directory{}
		switch en.Kind {
		case "file":
			out.Files = append(out.Files, &pb.FileNode{Name: en.Path, Digest: fileDigest, IsExecutable: en.Exec})
		case "dirnode":
			out.Directories = append(out.Directories, &pb.DirectoryNode{Name: en.Path, Digest: dirnodeDigest(en.Digest)})
		case "symlink":
			out.Symlinks = append(out.Symlinks, &pb.SymlinkNode{Name: en.Path, Target: en.Target})
		}
		d.AddOutput(en.Path)
		e.state.Graph.AddTarget(d)
		e.c.VerifSetOutputsC28(d.Label, out)
		switch mode {
		case "deps":
			t.AddDependency(d.Label)
		case "srcs", "filegroup":
			t.AddSource(d.Label)
		case "srcs+deps":
			t.AddSource(d.Label)
			t.AddDependency(d.Label)
		}
	}
	e.state.Graph.AddTarget(t)
	if err = t.ResolveDependencies(e.state.Graph); err != nil {
		return
	}
	root, msgs, err = e.c.VerifUploadInputsC28(t, false)
	if err != nil {
		return
	}
	if mode == "deps" {
		var dg *pb.Digest
		if _, dg, err = e.c.VerifBuildActionC28(t); err != nil {
			return
		}
		action = dg.Hash
	}
	return
}

func (e *l2env) checkLevel2(es []entry, mode string) result {
	var res result
	first, firstOrder, firstAction := "", "", ""
	suffix := ""
	if overlap(es) {
		suffix = ":digested-directory-node-overlaps-other-entries"
	}
	permutations(len(es), keysOf(es), func(order []int) bool {
		res.orders++
		root, msgs, action, err := e.build(es, order, mode)
		if err != nil {
			lib.Fatal("level 2 build failed for %v mode %s: %s", es, mode, err)
		}
		if c, d := checkMessages(root, msgs); c != "" && res.class == "" {
			res.class, res.detail = "uploadInputs:"+c+suffix, fmt.Sprintf("mode %s, discovery order %s: %s", mode, orderString(es, order), d)
		}
		if suffix == "" && res.class == "" {
			got, bad := flatten(root, msgs)
			if d := diffSets(expected(es, "p/"), got); d != "" || bad != "" {
				res.class, res.detail = "uploadInputs:input-root-is-not-the-inputs", fmt.Sprintf("mode %s, discovery order %s: %s %s", mode, orderString(es, order), bad, d)
			}
		}
		dg := digestOf(root).Hash[:12] + " " + describe(root)
		if first == "" {
			first, firstOrder, firstAction = dg, orderString(es, order), action
		} else if dg != first && res.class == "" {
			res.class = "uploadInputs:input-root-digest-depends-on-discovery-order"
			if suffix != "" {
				res.class = overlapClass // same cause as at level 1, reached through the real uploadInputDir
			}
			res.detail = fmt.Sprintf("mode %s: order %s gives input root %s; order %s gives %s", mode, firstOrder, first, orderString(es, order), dg)
		} else if action != firstAction && res.class == "" {
			res.class = "buildAction:action-digest-depends-on-discovery-order" + suffix
			res.detail = fmt.Sprintf("mode %s: same input root %s but action digests %s vs %s", mode, dg, firstAction, action)
		}
		return true
	})
	return res
}

// unstable repeats one identical build 40 times and reports differing digests.
func (e *l2env) unstable(es []entry, mode string) string {
	order := make([]int, len(es))
	for i := range order {
		order[i] = i
	}
	first := ""
	for i := 0; i < 40; i++ {
		root, _, action, err := e.build(es, order, mode)
		if err != nil {
			lib.Fatal("level 2 build failed for %v mode %s: %s", es, mode, err)
		}
		dg := digestOf(root).Hash[:12] + "/" + action
		if first == "" {
			first = dg
		} else if dg != first {
			return fmt.Sprintf("mode %s, same target built twice: input-root/action digests %s then %s", mode, first, dg)
		}
	}
	return ""
}

// ---- level 3 --------------------------------------------------------------------------------------------------

func (e *l2env) checkEnv(kv []string, sandbox, binary bool) result {
	var res result
	for rep := 0; rep < 3; rep++ { // Go randomises map iteration per range statement; the oracle does not depend on it
		env := core.BuildEnv{}
		for _, s := range kv {
			k, v, _ := strings.Cut(s, "=")
			env[k] = v
		}
		want := map[string]string{}
		for k, v := range env {
			want[k] = v
		}
		var t *core.BuildTarget
		if binary {
			t = core.NewBuildTarget(core.NewBuildLabel("p", "b"))
			t.IsBinary = true
			want["_BINARY"] = "true"
		}
		if sandbox {
			want["SANDBOX"] = "true"
		}
		vars := e.c.VerifBuildEnvC28(t, env, sandbox)
		res.orders++
		got := map[string]string{}
		for i, v := range vars {
			if i > 0 && vars[i-1].Name >= v.Name {
				res.class = "buildEnv:not-strictly-sorted-by-name"
				res.detail = fmt.Sprintf("%q before %q", vars[i-1].Name, v.Name)
				return res
			}
			got[v.Name] = v.Value
		}
		for k, v := range want {
			gv, ok := got[k]
			if !ok || (k != "PATH" && gv != v) {
				res.class = "buildEnv:variable-lost-or-changed"
				res.detail = fmt.Sprintf("%s=%q expected, got %q (present %v)", k, v, gv, ok)
				return res
			}
		}
		if len(got) != len(want) {
			res.class = "buildEnv:extra-variable"
			res.detail = fmt.Sprintf("got %v want %v", got, want)
			return res
		}
	}
	return res
}

// ---- enumeration ----------------------------------------------------------------------------------------------

func universe1() []entry {
	var u []entry
	for _, p := range []string{"x", "y", "a/x", "a/y", "a/b/x", "b/x"} {
		u = append(u, entry{Kind: "file", Path: p, Digest: "c1"})
	}
	u = append(u,
		entry{Kind: "symlink", Path: "l", Target: "x"},
		entry{Kind: "symlink", Path: "a/l", Target: "../x"},
		entry{Kind: "symlink", Path: "a/b/l", Target: "x"},
		entry{Kind: "symlink", Path: "k", Target: "y"},
		entry{Kind: "symlink", Path: "a/k", Target: "y"},
		entry{Kind: "dirnode", Path: "g", Digest: "D1"},
		entry{Kind: "dirnode", Path: "c", Digest: "D2"},
		entry{Kind: "dirnode", Path: "a", Digest: "D1"},
		entry{Kind: "dirnode", Path: "a/b", Digest: "D2"},
		entry{Kind: "dirnode", Path: "a/g", Digest: "D2"},
		entry{Kind: "file", Path: "z", Digest: "c1", Exec: true},
	)
	return u
}

func universe2() []entry {
	return []entry{
		{Kind: "file", Path: "x", Digest: "c1"},
		{Kind: "file", Path: "a/x", Digest: "c1"},
		{Kind: "file", Path: "a/b/y", Digest: "c1"},
		{Kind: "symlink", Path: "l", Target: "x"},
		{Kind: "symlink", Path: "a/l", Target: "../x"},
		{Kind: "symlink", Path: "k", Target: "y"},
		{Kind: "file", Path: "y", Digest: "c1"},
		{Kind: "dirnode", Path: "c", Digest: "D2"},
		{Kind: "dirnode", Path: "g", Digest: "D1"},
		{Kind: "dirnode", Path: "a", Digest: "D1"},
		{Kind: "dirnode", Path: "a/b", Digest: "D2"},
	}
}

// subsets enumerates index subsets of size k, lexicographic (simplest universe members first).
func subsets(n, k int, f func([]int)) {
	idx := make([]int, k)
	var rec func(pos, from int)
	rec = func(pos, from int) {
		if pos == k {
			f(idx)
			return
		}
		for i := from; i < n; i++ {
			idx[pos] = i
			rec(pos+1, i+1)
		}
	}
	rec(0, 0)
}

// cases returns every set of size k and every multiset of size k with exactly one duplicated member.
func cases(u []entry, k int) [][]entry {
	var out [][]entry
	subsets(len(u), k, func(idx []int) {
		es := make([]entry, k)
		for i, x := range idx {
			es[i] = u[x]
		}
		if !conflicting(es) {
			out = append(out, es)
		}
	})
	if k >= 2 {
		subsets(len(u), k-1, func(idx []int) {
			base := make([]entry, 0, k)
			for _, x := range idx {
				base = append(base, u[x])
			}
			if conflicting(base) {
				return
			}
			for d := range base {
				es := append(append([]entry{}, base...), base[d])
				out = append(out, es)
			}
		})
	}
	return out
}

type found struct {
	mu sync.Mutex
	m  map[string]*hit
}
type hit struct {
	idx    int64
	w      witness
	detail string
	count  int
}

func (f *found) add(class string, idx int64, w witness, detail string) {
	f.mu.Lock()
	defer f.mu.Unlock()
	if f.m == nil {
		f.m = map[string]*hit{}
	}
	h := f.m[class]
	if h == nil {
		f.m[class] = &hit{idx, w, detail, 1}
		return
	}
	h.count++
	if idx < h.idx {
		h.idx, h.w, h.detail = idx, w, detail
	}
}

func (f *found) flush(r *lib.Run) {
	var classes []string
	for c := range f.m {
		classes = append(classes, c)
	}
	sort.Strings(classes)
	for _, c := range classes {
		h := f.m[c]
		if r.HasViolation(c) {
			for i := 0; i < h.count; i++ {
				r.Violate(c, nil, "")
			}
			continue
		}
		r.Violate(c, h.w, h.detail)
		for i := 1; i < h.count; i++ {
			r.Violate(c, nil, "")
		}
	}
	f.m = nil
}

// ---- level 2b: sources on disk ---------------------------------------------------------------------------------------
// A target's plain sources (files, directories, symlinks of its package) are walked on disk by uploadInput. Declarations
// may overlap (a directory and a file below it): every set of declarations, in every order, must give the input root of
// the set's union - one digest per set, and the same digest as the set without the redundant (covered) declarations.

var replayDiskOrder []string

func checkDiskSources(r *lib.Run) (int, int) {
	base := "/dev/shm"
	if fi, err := os.Stat(base); err != nil || !fi.IsDir() {
		base = ""
	}
	root, err := os.MkdirTemp(base, "verif-c28-")
	if err != nil {
		lib.Fatal("%s", err)
	}
	defer os.RemoveAll(root)
	root, _ = filepath.EvalSymlinks(root)
	for p, c := range map[string]string{"p/res/a.txt": "a", "p/res/sub/b.txt": "b", "p/res/sub/deep/c.txt": "c", "p/top.txt": "t"} {
		os.MkdirAll(filepath.Join(root, filepath.Dir(p)), 0o755)
		os.WriteFile(filepath.Join(root, p), []byte(c), 0o644)
	}
	os.Symlink("a.txt", filepath.Join(root, "p/res/link"))
	old, _ := os.Getwd()
	os.Chdir(root)
	defer os.Chdir(old)
	oldRoot := core.RepoRoot
	core.RepoRoot = root
	defer func() { core.RepoRoot = oldRoot }()

	decls := []string{"res", "res/sub", "res/a.txt", "res/link", "res/sub/b.txt", "res/sub/deep", "top.txt"}
	covered := func(set []string, x string) bool { // x is below another declared directory
		for _, y := range set {
			if y != x && strings.HasPrefix(x, y+"/") {
				return true
			}
		}
		return false
	}
	digestOf := func(order []string) (string, error) {
		cfg := core.DefaultConfiguration()
		cfg.Build.Path = []string{"/usr/local/bin", "/usr/bin", "/bin"}
		cfg.Build.HashFunction = "sha256"
		st := core.NewBuildState(cfg)
		c := remote.VerifNewClientC28(st)
		c.VerifResetC28(st)
		t := core.NewBuildTarget(core.NewBuildLabel("p", "t"))
		t.Command = "true"
		t.AddOutput("out")
		t.BuildTimeout = 600e9
		for _, d := range order {
			t.AddSource(core.FileLabel{File: d, Package: "p"})
		}
		st.Graph.AddTarget(t)
		rootDir, _, err := c.VerifUploadInputsC28(t, false)
		if err != nil {
			return "", err
		}
		return c.VerifDigestC28(rootDir).Hash, nil
	}
	maxK := 3
	if !r.Quick() {
		maxK = 4
	}
	sets, orders := 0, 0
	if replayDiskOrder != nil {
		var minimal []string
		for _, x := range replayDiskOrder {
			if !covered(replayDiskOrder, x) {
				minimal = append(minimal, x)
			}
		}
		ref, _ := digestOf(minimal)
		if got, err := digestOf(replayDiskOrder); err != nil || got != ref {
			r.Violate("uploadInputs:disk-sources:input-root-depends-on-declaration-order-or-overlap", map[string]any{"sources_in_order": replayDiskOrder, "equivalent_declarations": minimal},
				fmt.Sprintf("sources %v give input root %s (err %v); the same inputs declared as %v give %s", replayDiskOrder, got, err, minimal, ref))
		}
		return 1, 1
	}
	var rec func(start int, cur []string)
	rec = func(start int, cur []string) {
		if len(cur) > 0 {
			sets++
			var minimal []string
			for _, x := range cur {
				if !covered(cur, x) {
					minimal = append(minimal, x)
				}
			}
			ref, err := digestOf(minimal)
			if err != nil {
				r.Violate("uploadInputs:disk-sources:error", map[string]any{"sources": minimal}, err.Error())
				return
			}
			perm := append([]string{}, cur...)
			var permute func(k int)
			permute = func(k int) {
				if k == len(perm) {
					orders++
					got, err := digestOf(perm)
					if err != nil || got != ref {
						cls := "uploadInputs:disk-sources:input-root-depends-on-declaration-order-or-overlap"
						if !r.HasViolation(cls) {
							r.Violate(cls, map[string]any{"sources_in_order": append([]string{}, perm...), "equivalent_declarations": minimal},
								fmt.Sprintf("sources %v give input root %s (err %v); the same inputs declared as %v give %s", perm, got, err, minimal, ref))
						} else {
							r.Violate(cls, nil, "")
						}
					}
					return
				}
				for i := k; i < len(perm); i++ {
					perm[k], perm[i] = perm[i], perm[k]
					permute(k + 1)
					perm[k], perm[i] = perm[i], perm[k]
				}
			}
			permute(0)
		}
		if len(cur) == maxK {
			return
		}
		for i := start; i < len(decls); i++ {
			rec(i+1, append(append([]string{}, cur...), decls[i]))
		}
	}
	rec(0, nil)
	return sets, orders
}

func main() {
	r := lib.Start("C28", "exploration")
	lib.Quiet()
	cl0 = newL2().c
	if r.Replay != "" {
		var dw struct {
			Order []string `json:"sources_in_order"`
		}
		lib.LoadReplay(r.Replay, &dw)
		if len(dw.Order) > 0 {
			replayDiskOrder = dw.Order
			checkDiskSources(r)
			r.Finish(lib.Coverage{Evaluations: 1, DistinctNontrivial: 1, Rule: "replay", Samples: []any{dw}, Exhaustive: true})
		}
		var w witness
		lib.LoadReplay(r.Replay, &w)
		var res result
		switch w.Level {
		case 1:
			res = checkLevel1(w.Entries)
		case 2:
			l2 := newL2()
			res = l2.checkLevel2(w.Entries, w.Mode)
			if d := l2.unstable(w.Entries, w.Mode); d != "" {
				res.class, res.detail = "buildAction:digest-differs-between-identical-calls", d
			}
		default:
			res = newL2().checkEnv(w.Env, w.Sandbox, w.Binary)
		}
		if res.class != "" {
			r.Violate(res.class, w, res.detail)
		}
		r.Finish(lib.Coverage{Evaluations: 1, DistinctNontrivial: 1, Rule: "replay", Samples: []any{w}, Exhaustive: true})
	}

	// level 2b first (it needs the working directory): plain source files and directories on disk
	diskSets, diskOrders := checkDiskSources(r)

	var evals, nontrivial, orders int64
	var samples lib.Samples
	var fnd found
	ncpu := runtime.NumCPU()

	parallel := func(n int, body func(w int, i int64)) {
		var next int64
		var wg sync.WaitGroup
		for w := 0; w < ncpu; w++ {
			wg.Add(1)
			go func(w int) {
				defer wg.Done()
				for {
					i := atomic.AddInt64(&next, 1) - 1
					if i >= int64(n) || r.OutOfTime() {
						return
					}
					body(w, i)
				}
			}(w)
		}
		wg.Wait()
		fnd.flush(r)
	}

	// level 1
	max1 := 4
	if !r.Quick() {
		max1 = 5
	}
	u1 := universe1()
	for k := 1; k <= max1 && !r.Capped; k++ {
		cs := cases(u1, k)
		parallel(len(cs), func(_ int, i int64) {
			es := cs[i]
			atomic.AddInt64(&evals, 1)
			if k > 1 {
				atomic.AddInt64(&nontrivial, 1)
			}
			if i%2003 == 0 {
				samples.Add(func() any { return witness{Level: 1, Entries: es} })
			}
			res := checkLevel1(es)
			atomic.AddInt64(&orders, int64(res.orders))
			if res.class != "" {
				if again := checkLevel1(es); again.class != res.class {
					lib.Fatal("HARNESS-NONDETERMINISM level 1 %v: %s then %s", es, res.class, again.class)
				}
				fnd.add(res.class, i, witness{Level: 1, Entries: es}, res.detail)
			}
		})
	}

	// level 2
	max2 := 3
	if !r.Quick() {
		max2 = 4
	}
	u2 := universe2()
	envs := make([]*l2env, ncpu)
	for i := range envs {
		envs[i] = newL2()
	}
	// level 3: every subset of a family of variables
	vars := []string{"A=1", "B=2", "a=3", "Z_1=4", "HOME=/h", "PATH=/usr/bin:/home/verif/bin:/bin", "SANDBOX=user", "_B=5"}
	nenv := 1 << len(vars)
	parallel(nenv*4, func(w int, i int64) {
		mask := int(i) / 4
		sandbox, binary := i%2 == 1, (i/2)%2 == 1
		var kv []string
		for b := range vars {
			if mask&(1<<b) != 0 {
				kv = append(kv, vars[b])
			}
		}
		atomic.AddInt64(&evals, 1)
		if len(kv) > 1 {
			atomic.AddInt64(&nontrivial, 1)
		}
		res := envs[w].checkEnv(kv, sandbox, binary)
		atomic.AddInt64(&orders, int64(res.orders))
		if res.class != "" {
			fnd.add(res.class, i, witness{Level: 3, Env: kv, Sandbox: sandbox, Binary: binary}, res.detail)
		}
	})

	for k := 1; k <= max2 && !r.Capped; k++ {
		cs := cases(u2, k)
		modes := []string{"deps", "srcs", "srcs+deps", "filegroup"}
		parallel(len(cs)*len(modes), func(w int, i int64) {
			es, mode := cs[int(i)/len(modes)], modes[int(i)%len(modes)]
			atomic.AddInt64(&evals, 1)
			if k > 1 {
				atomic.AddInt64(&nontrivial, 1)
			}
			if i%499 == 0 {
				samples.Add(func() any { return witness{Level: 2, Entries: es, Mode: mode} })
			}
			res := envs[w].checkLevel2(es, mode)
			atomic.AddInt64(&orders, int64(res.orders))
			if res.class != "" {
				if again := envs[w].checkLevel2(es, mode); again.class != res.class {
					// the verdict did not reproduce: either the harness or the code under test is not deterministic. Decide which:
					// identical calls must give identical digests.
					if d := envs[w].unstable(es, mode); d != "" {
						fnd.add("buildAction:digest-differs-between-identical-calls", i, witness{Level: 2, Entries: es, Mode: mode}, d)
						return
					}
					lib.Fatal("HARNESS-NONDETERMINISM level 2 %v: %s then %s", es, res.class, again.class)
				}
				fnd.add(res.class, i, witness{Level: 2, Entries: es, Mode: mode}, res.detail)
			}
		})
	}

	r.Assume = []string{
		"inputs form a coherent layout: one path is never two different things and a file or symlink is never used as a directory (such targets fail locally too); a digested output-directory node that covers other inputs IS a coherent layout (two rules writing below one directory, as go_get-style rules do) and is reported under its own class",
		"the input root is also compared with the inputs themselves (flattened by digest, known output directories expanded) for sets without such an overlap: a digest that is order-independent because it ignores inputs is not a digest of 'the content and layout of the inputs'",
		"level 1 inserts entries exactly as uploadInputDir does (b.Dir(dir) then append to Files/Directories/Symlinks); level 2 runs the real uploadInputs/buildAction on a never-connected Client whose dependency outputs are registered directly",
		"the action digest is compared across discovery orders only for targets without srcs (with srcs the SRCS variable legitimately follows declaration order and is part of the command)",
		"buildEnv: sortedness plus equality with the map's content makes the result a function of the map alone, so the (uncontrollable) Go map iteration order need not be enumerated",
	}
	r.Finish(lib.Coverage{
		Evaluations:        int(evals),
		DistinctNontrivial: int(nontrivial),
		Rule:               fmt.Sprintf("level 1: every coherent set of <=%d entries, and every such multiset with one duplicated declaration, from a universe of 17 (7 files at depth<=3, 5 symlinks, 5 digested directory nodes; at least two of each kind per directory), each in every distinct insertion order; level 2: the same for <=%d entries from a universe of 11, one entry per dependency target, x 4 declaration modes (deps / srcs / srcs+deps / filegroup srcs), every assignment of entries to labels; level 3: all 2^8 environment maps x sandbox x binary; non-trivial = at least two entries/variables", max1, max2),
		Samples:            samples.List(),
		Exhaustive:         !r.Capped,
		Extra:              map[string]any{"orders_executed": orders, "disk_source_declaration_sets": diskSets, "disk_source_declaration_orders": diskOrders},
	})
}

// C08: any change to a build-relevant attribute changes the rule hash.
//
// For every attribute named by the statement, every value of a small adversarial value space is put into a real
// BUILD definition (`build_rule(...)` text), parsed by the real asp parser and hashed by the real build.RuleHash.
// All unordered pairs of values of ONE attribute (every other attribute held at one of three base definitions)
// are compared: semantically different values must give different rule hashes.
package main

import (
	"encoding/hex"
	"encoding/json"
	"fmt"
	"os"
	"path/filepath"
	"sort"
	"strings"

	"github.com/thought-machine/please/src/build"
	"github.com/thought-machine/please/src/core"
	"github.com/thought-machine/please/src/parse"
	"github.com/thought-machine/please/verifharness/hist"
	"github.com/thought-machine/please/verifharness/lib"
)

// ---------------------------------------------------------------------------------------------------------------
// values

// A val is one value of one build_rule argument, in a JSON-friendly form.
type val struct {
	Kind string              `json:"kind"` // str | bool | list | dict | ndict
	S    string              `json:"s,omitempty"`
	B    bool                `json:"b,omitempty"`
	L    []string            `json:"l,omitempty"`
	M    map[string]string   `json:"m,omitempty"`
	N    map[string][]string `json:"n,omitempty"`
	Env  map[string]string   `json:"env,omitempty"` // process environment (pass_env only)

	// derived, not serialised
	canon  string   // semantic identity
	models []string // candidate explanations: serialisations under which two values are indistinguishable
	size   int
	hash   string
	key    string
}

func q(s string) string {
	for _, c := range s {
		if c == '"' || c == '\\' || c == '\n' {
			lib.Fatal("alphabet string %q needs quoting the harness does not do", s)
		}
	}
	return `"` + s + `"`
}

func qlist(l []string) string {
	qs := make([]string, len(l))
	for i, s := range l {
		qs[i] = q(s)
	}
	return "[" + strings.Join(qs, ", ") + "]"
}

func sortedKeys[V any](m map[string]V) []string {
	ks := make([]string, 0, len(m))
	for k := range m {
		ks = append(ks, k)
	}
	sort.Strings(ks)
	return ks
}

// render gives the asp expression for the value.
func (v *val) render() string {
	switch v.Kind {
	case "str":
		return q(v.S)
	case "bool":
		if v.B {
			return "True"
		}
		return "False"
	case "list":
		return qlist(v.L)
	case "dict":
		var parts []string
		for _, k := range sortedKeys(v.M) {
			parts = append(parts, q(k)+": "+q(v.M[k]))
		}
		return "{" + strings.Join(parts, ", ") + "}"
	case "ndict":
		var parts []string
		for _, k := range sortedKeys(v.N) {
			parts = append(parts, q(k)+": "+qlist(v.N[k]))
		}
		return "{" + strings.Join(parts, ", ") + "}"
	}
	lib.Fatal("bad kind %q", v.Kind)
	return ""
}

func (v *val) strings() []string {
	var out []string
	out = append(out, v.L...)
	for _, k := range sortedKeys(v.M) {
		out = append(out, k, v.M[k])
	}
	for _, k := range sortedKeys(v.N) {
		out = append(out, k)
		out = append(out, v.N[k]...)
	}
	for _, k := range sortedKeys(v.Env) {
		out = append(out, v.Env[k])
	}
	if v.Kind == "str" {
		out = append(out, v.S)
	}
	return out
}

func js(x any) string {
	b, _ := json.Marshal(x)
	return string(b)
}

func sorted(l []string) []string {
	c := append([]string{}, l...)
	sort.Strings(c)
	return c
}

// ---------------------------------------------------------------------------------------------------------------
// enumeration helpers (by size, then lexicographic in alphabet order; no element repeated inside a list)

func seqs(alpha []string, maxLen int) [][]string {
	out := [][]string{{}}
	level := [][]string{{}}
	for n := 1; n <= maxLen; n++ {
		var next [][]string
		for _, p := range level {
			for _, a := range alpha {
				dup := false
				for _, x := range p {
					if x == a {
						dup = true
					}
				}
				if !dup {
					next = append(next, append(append([]string{}, p...), a))
				}
			}
		}
		out = append(out, next...)
		level = next
	}
	return out
}

// subsets returns the sorted subsets of alpha with at most maxLen elements.
func subsets(alpha []string, maxLen int) [][]string {
	var out [][]string
	for _, s := range seqs(alpha, maxLen) {
		if sort.StringsAreSorted(s) {
			out = append(out, s)
		}
	}
	return out
}

func dicts(keys, vals []string, maxEntries int) []map[string]string {
	var out []map[string]string
	for _, ks := range subsets(keys, maxEntries) {
		// all value tuples
		n := 1
		for range ks {
			n *= len(vals)
		}
		for i := 0; i < n; i++ {
			m := map[string]string{}
			x := i
			for _, k := range ks {
				m[k] = vals[x%len(vals)]
				x /= len(vals)
			}
			out = append(out, m)
		}
	}
	return out
}

func ndicts(keys []string, lists [][]string, maxEntries int) []map[string][]string {
	var nonEmpty [][]string
	for _, l := range lists {
		if len(l) > 0 { // an empty group never reaches the target (the parser adds element by element)
			nonEmpty = append(nonEmpty, l)
		}
	}
	var out []map[string][]string
	for _, ks := range subsets(keys, maxEntries) {
		n := 1
		for range ks {
			n *= len(nonEmpty)
		}
		for i := 0; i < n; i++ {
			m := map[string][]string{}
			x := i
			for _, k := range ks {
				m[k] = nonEmpty[x%len(nonEmpty)]
				x /= len(nonEmpty)
			}
			out = append(out, m)
		}
	}
	return out
}

// ---------------------------------------------------------------------------------------------------------------
// attributes

type attr struct {
	name   string   // name in the statement
	arg    string   // build_rule argument
	causes []string // names of the explanation models, parallel to val.models
	pairOK func(x, y *val) bool // optional: restricts which pairs differ in "one thing"
	gen            func(quick bool) []*val
	refine         func(cause string, x, y *val) string // optional: split a cause further by the shape of the pair
	bases          []string // bases the attribute applies to (nil = min, rich)
}

var (
	strA   = []string{"a", "b", "ab", "a=b", "=", "b=c"}
	strA2  = []string{"a", "b", "ab", "ba", "a=b", "=", "b=c", "c"}
	fileA  = []string{"a", "b", "ab", "ba", "a=b", "//q:a", "//q:ab"}
	fileA2 = []string{"a", "b", "ab", "ba", "a=b", "=", "//q:a", "//q:ab"}
	lblA   = []string{"//q:a", "//q:b", "//q:ab", "//qa:b", "//q/a:b", "///s//q:a"}
	lblA2  = []string{"//q:a", "//q:b", "//q:ab", "//q:ba", "//qa:b", "//q/a:b", "//q:q", "///s//q:a", "///s//q:b"}
	secA   = []string{"/a", "/b", "/a/b", "/ab", "~/a"}
	secA2  = []string{"/a", "/b", "/a/b", "/ab", "/b/a", "~/a", "~/a/b"}
	toolA  = []string{"a", "b", "ab", "//q:a", "//q:b"}
	keyA   = []string{"a", "b", "ab", "a=b"}
	grpA   = []string{"a", "b", "ab"}
	valA   = []string{"", "a", "b", "=", "b=", "a=b", "b=c"}
	valA2  = []string{"", "a", "b", "c", "=", "b=", "a=b", "b=c", "ab"}
)

func pick[T any](quick bool, a, b T) T {
	if quick {
		return a
	}
	return b
}

func isLabel(s string) bool { return strings.HasPrefix(s, "//") || strings.HasPrefix(s, ":") }

func labelsOf(l []string) []string {
	out := []string{}
	for _, s := range l {
		if isLabel(s) {
			out = append(out, s)
		}
	}
	out = sorted(out)
	dedup := out[:0]
	for i, s := range out {
		if i == 0 || s != out[i-1] {
			dedup = append(dedup, s)
		}
	}
	return dedup
}

func flat(n map[string][]string) []string {
	out := []string{}
	for _, k := range sortedKeys(n) {
		out = append(out, n[k]...)
	}
	return out
}

func mapSerial(m map[string]string) string {
	var sb strings.Builder
	for _, k := range sortedKeys(m) {
		sb.WriteString(k + "=" + m[k])
	}
	return sb.String()
}

// listAttr: ordered = order is part of the meaning; otherwise the value is a set.
func listAttr(name, arg string, ordered, allOrders bool, alphaQ, alphaT []string, lenQ, lenT int) *attr {
	return &attr{name: name, arg: arg, causes: []string{"boundary-ambiguity"}, gen: func(quick bool) []*val {
		var ls [][]string
		if allOrders {
			ls = seqs(pick(quick, alphaQ, alphaT), pick(quick, lenQ, lenT))
		} else {
			ls = subsets(pick(quick, alphaQ, alphaT), pick(quick, lenQ, lenT))
		}
		var out []*val
		for _, l := range ls {
			v := &val{Kind: "list", L: l}
			if ordered {
				v.canon = js(l)
				v.models = []string{strings.Join(l, "")}
			} else {
				v.canon = js(sorted(l))
				v.models = []string{strings.Join(l, "")}
			}
			out = append(out, v)
		}
		return out
	}}
}

func dictAttr(name, arg string) *attr {
	return &attr{name: name, arg: arg, causes: []string{"entry-boundary-ambiguity"}, gen: func(quick bool) []*val {
		var out []*val
		for _, m := range dicts(keyA, pick(quick, valA, valA2), pick(quick, 2, 3)) {
			out = append(out, &val{Kind: "dict", M: m, canon: js(m), models: []string{mapSerial(m)}})
		}
		return out
	}, refine: func(c string, x, y *val) string {
		// the serialisation is "key=value" per entry: a key holding '=' is a different (less realistic) root cause
		for _, v := range []*val{x, y} {
			for k := range v.M {
				if strings.Contains(k, "=") {
					return "key-contains-equals-ambiguity"
				}
			}
		}
		return c
	}}
}

func ndictAttr(name, arg string, ordered bool, causes []string, models func(n map[string][]string) []string, alphaQ, alphaT []string) *attr {
	return &attr{name: name, arg: arg, causes: causes, gen: func(quick bool) []*val {
		lists := seqs(pick(quick, alphaQ, alphaT), 2)
		if !ordered {
			lists = subsets(pick(quick, alphaQ, alphaT), 2)
		}
		var out []*val
		for _, n := range ndicts(grpA, lists, pick(quick, 2, 3)) {
			v := &val{Kind: "ndict", N: n, canon: js(n), models: models(n)}
			out = append(out, v)
		}
		return out
	}}
}

func attrs() []*attr {
	var as []*attr
	// command: strings and per-config dicts; meaning = the command that runs under the (default) config "opt",
	// fallback "opt", else the entry with the highest config name (core.BuildTarget.getCommand's documented fallback).
	as = append(as, &attr{name: "command", arg: "cmd", causes: []string{}, gen: func(quick bool) []*val {
		var out []*val
		cmds := pick(quick, []string{"", "a", "b", "ab", "a=b"}, []string{"", "a", "b", "ab", "ba", "a=b", "=", "b=c", "a b"})
		for _, c := range cmds {
			out = append(out, &val{Kind: "str", S: c, canon: js(c)})
		}
		for _, m := range dicts([]string{"opt", "dbg", "cover"}, cmds, 2) {
			if len(m) == 0 {
				continue // an empty dict is not a command
			}
			eff, ok := m["opt"]
			if !ok {
				eff = m[sortedKeys(m)[len(m)-1]]
			}
			out = append(out, &val{Kind: "dict", M: m, canon: js(eff)})
		}
		return out
	}, bases: []string{"min", "rich"}})
	// label srcs are also written (sorted) in the dependency field, which precedes the srcs field: second model
	srcs := listAttr("srcs", "srcs", true, true, fileA, fileA2, 3, 4)
	srcs.causes = append(srcs.causes, "cross-field-boundary-ambiguity-deps-srcs")
	srcsGen := srcs.gen
	srcs.gen = func(quick bool) []*val {
		vs := srcsGen(quick)
		for _, v := range vs {
			v.models = append(v.models, strings.Join(labelsOf(v.L), "")+strings.Join(v.L, ""))
		}
		return vs
	}
	as = append(as, srcs)
	as = append(as, ndictAttr("named_srcs", "srcs", true, []string{"group-names-not-hashed", "boundary-ambiguity", "cross-field-boundary-ambiguity-deps-srcs"}, func(n map[string][]string) []string {
		return []string{js(flat(n)), strings.Join(flat(n), ""), strings.Join(labelsOf(flat(n)), "") + strings.Join(flat(n), "")}
	}, []string{"a", "b", "ab", "//q:a"}, []string{"a", "b", "ab", "ba", "//q:a"}))
	as = append(as, listAttr("outs", "outs", false, false, strA, strA2, 3, 4))
	as = append(as, ndictAttr("named_outs", "outs", false, []string{"boundary-ambiguity"}, func(n map[string][]string) []string {
		var sb strings.Builder
		for _, k := range sortedKeys(n) {
			sb.WriteString(k + strings.Join(sorted(n[k]), ""))
		}
		return []string{sb.String()}
	}, []string{"a", "b", "ab", "c"}, []string{"a", "b", "ab", "ba", "c"}))
	as = append(as, listAttr("optional_outs", "optional_outs", false, false, strA, strA2, 3, 4))
	as = append(as, listAttr("deps", "deps", false, false, lblA, lblA2, 3, 4))
	// tools are never written to the rule hash themselves; label tools show up only through the (sorted, de-duplicated)
	// declared dependencies. One model: the set of labels.
	as = append(as, &attr{name: "tools", arg: "tools", causes: []string{"only-dependency-labels-hashed"}, gen: func(quick bool) []*val {
		var out []*val
		for _, l := range seqs(toolA, pick(quick, 3, 4)) {
			out = append(out, &val{Kind: "list", L: l, canon: js(l), models: []string{js(labelsOf(l))}})
		}
		return out
	}})
	as = append(as, ndictAttr("named_tools", "tools", true, []string{"only-dependency-labels-hashed"}, func(n map[string][]string) []string {
		return []string{js(labelsOf(flat(n)))}
	}, []string{"a", "b", "//q:a", "//q:b"}, toolA))
	as = append(as, dictAttr("env", "env"))
	// pass_env: one thing changes at a time - either the list (under one environment) or the environment (same list).
	as = append(as, &attr{name: "pass_env", arg: "pass_env", causes: []string{"value-boundary-ambiguity"}, pairOK: func(x, y *val) bool {
		if js(sorted(x.L)) == js(sorted(y.L)) {
			return true
		}
		for k, v := range x.Env {
			if w, ok := y.Env[k]; ok && w != v {
				return false
			}
		}
		return true
	}, gen: func(quick bool) []*val {
		names := []string{"VA", "VB", "VAB"}
		vals := pick(quick, []string{"", "1", "VB=", "1VB=2", "2"}, []string{"", "1", "2", "VB=", "VB=2", "1VB=2", "=", "VAB="})
		var out []*val
		for _, l := range seqs(names, 2) {
			n := 1
			for range l {
				n *= len(vals)
			}
			for i := 0; i < n; i++ {
				env := map[string]string{}
				x := i
				var pairs []string
				var sb strings.Builder
				for _, k := range l {
					env[k] = vals[x%len(vals)]
					x /= len(vals)
					pairs = append(pairs, k+"="+env[k]) // names hold no '=', so this is unambiguous
					sb.WriteString(k + "=" + env[k])
				}
				out = append(out, &val{Kind: "list", L: l, Env: env, canon: js(sorted(pairs)), models: []string{sb.String()}})
			}
		}
		return out
	}, bases: []string{"min", "rich", "envpass"}})
	as = append(as, listAttr("labels", "labels", false, true, strA, strA2, 3, 4))
	as = append(as, listAttr("secrets", "secrets", true, true, secA, secA2, 3, 4))
	// named secrets have no serialisation in ruleHash at all, so there is no model to be ambiguous in
	as = append(as, ndictAttr("named_secrets", "secrets", true, nil, func(n map[string][]string) []string { return nil }, []string{"/a", "/b", "/ab"}, secA))
	boolGen := func(bool) []*val {
		return []*val{{Kind: "bool", B: false, canon: "false"}, {Kind: "bool", B: true, canon: "true"}}
	}
	as = append(as, &attr{name: "binary", arg: "binary", gen: boolGen, bases: []string{"min", "rich", "text"}})
	as = append(as, &attr{name: "sandbox", arg: "sandbox", gen: boolGen, bases: []string{"min", "rich", "text"}})
	// output directories have their own syntax: a trailing /** declares every file below instead of the top-level entries
	as = append(as, listAttr("output_dirs", "output_dirs", false, true, []string{"a", "a/**", "b", "b/**", "ab", "a/b"}, []string{"a", "a/**", "b", "b/**", "ab", "ab/**", "a/b", "a/b/**"}, 3, 4))
	as = append(as, dictAttr("entry_points", "entry_points"))
	as = append(as, &attr{name: "content", arg: "_file_content", gen: func(quick bool) []*val {
		var out []*val
		for _, c := range pick(quick, valA, valA2) {
			out = append(out, &val{Kind: "str", S: c, canon: js(c)})
		}
		return out
	}, bases: []string{"text"}})
	as = append(as, listAttr("requires", "requires", false, true, strA, strA2, 3, 4))
	as = append(as, &attr{name: "provides", arg: "provides", causes: []string{"boundary-ambiguity"}, gen: func(quick bool) []*val {
		lists := seqs(pick(quick, []string{"//q:a", "//q:b", "//q:ab"}, []string{"//q:a", "//q:b", "//q:ab", "//q:ba", "//qa:b"}), 2)
		var out []*val
		for _, n := range ndicts(grpA, lists, pick(quick, 2, 3)) {
			c := map[string][]string{}
			var sb strings.Builder
			for _, k := range sortedKeys(n) {
				c[k] = sorted(n[k])
				sb.WriteString(k + strings.Join(n[k], ""))
			}
			out = append(out, &val{Kind: "ndict", N: n, canon: js(c), models: []string{sb.String()}})
		}
		return out
	}})
	return as
}

// ---------------------------------------------------------------------------------------------------------------
// base definitions: build_rule argument -> asp expression

var bases = map[string][][2]string{
	"min": {{"cmd", `"c0"`}},
	"rich": {
		{"cmd", `"c1 $SRCS"`}, {"srcs", `["s1", "//q:s2"]`}, {"tools", `["t1", "//q:t2"]`}, {"outs", `["o1"]`},
		{"optional_outs", `["oo1"]`}, {"deps", `["//q:d1"]`}, {"labels", `["l1"]`}, {"requires", `["r1"]`},
		{"entry_points", `{"e1": "o1"}`}, {"env", `{"E1": "v1"}`}, {"secrets", `["/sec1"]`},
		{"provides", `{"p1": "//q:pv1"}`}, {"binary", `True`}, {"sandbox", `True`}, {"output_dirs", `["od1"]`},
		{"pass_env", `["VBASE"]`},
	},
	// a base whose labels already contain every string of the value alphabet: requires/labels interplay (AddRequire also adds a label)
	"labelled": {{"cmd", `"c2"`}, {"labels", `["a", "b", "ab", "ba", "a=b", "=", "b=c", "c"]`}},
	// a base whose env dict names the variables pass_env lets through (env values are expanded against the passed
	// environment, core.withUserProvidedEnv, so the passed value still reaches the command)
	"envpass": {{"cmd", `"c3"`}, {"env", `{"VA": "$VA:x", "VB": "$VB", "VAB": "lit"}`}},
	"text": {{"cmd", `"text_file"`}, {"_file_content", `"fc"`}, {"outs", `["o1"]`}, {"labels", `["l1"]`}},
}

func renderDef(base string, a *attr, v *val) string {
	var sb strings.Builder
	for _, k := range sortedKeys(v.Env) {
		sb.WriteString("# process environment: " + k + "=" + q(v.Env[k]) + "\n")
	}
	sb.WriteString("build_rule(\n    name = \"t\",\n")
	done := false
	for _, kv := range bases[base] {
		if kv[0] == a.arg {
			sb.WriteString("    " + a.arg + " = " + v.render() + ",\n")
			done = true
		} else {
			sb.WriteString("    " + kv[0] + " = " + kv[1] + ",\n")
		}
	}
	if !done {
		sb.WriteString("    " + a.arg + " = " + v.render() + ",\n")
	}
	sb.WriteString(")\n")
	return sb.String()
}

// ---------------------------------------------------------------------------------------------------------------
// the real code

var state *core.BuildState

func initState() {
	os.Setenv("VBASE", "vbase")
	for _, k := range []string{"VA", "VB", "VAB"} {
		os.Unsetenv(k)
	}
	state = core.NewDefaultBuildState()
	parse.InitParser(state)
}

// ruleHash parses the definition with the real parser into a fresh package/graph and returns the real rule hash.
func ruleHash(def string, env map[string]string) (h string, err error) {
	defer func() {
		if r := recover(); r != nil {
			err = fmt.Errorf("panic: %v", r)
		}
	}()
	state.Graph = core.NewGraph()
	pkg := core.NewPackage("p")
	pkg.Filename = "p/BUILD"
	if err := state.Parser.ParseReader(pkg, strings.NewReader(def), nil, nil, core.ParseModeNormal); err != nil {
		return "", err
	}
	t := pkg.Target("t")
	if t == nil {
		return "", fmt.Errorf("no target produced")
	}
	for k, v := range env {
		os.Setenv(k, v)
	}
	defer func() {
		for k := range env {
			os.Unsetenv(k)
		}
	}()
	return hex.EncodeToString(build.RuleHash(state, t, false, false)), nil
}

type witness struct {
	Attr string `json:"attr"`
	Base string `json:"base"`
	A    *val   `json:"a"`
	B    *val   `json:"b"`
}

func emptyVal(a *attr, quick bool) *val {
	for _, v := range a.gen(quick) {
		if len(v.strings()) == 0 && v.Kind != "bool" && v.Kind != "str" {
			return v
		}
	}
	return nil
}

func cause(a *attr, x, y *val, emptyHash string) string {
	for i := range a.causes {
		if i < len(x.models) && i < len(y.models) && x.models[i] == y.models[i] {
			if a.refine != nil {
				return a.refine(a.causes[i], x, y)
			}
			return a.causes[i]
		}
	}
	if x.Kind == "bool" || (emptyHash != "" && x.hash == emptyHash) {
		return "not-hashed" // indistinguishable from the attribute being absent
	}
	return "unexplained-collision"
}

func size(v *val) int {
	n := 0
	for _, s := range v.strings() {
		n += 1 + len(s)
	}
	return n
}

func mustHash(a *attr, base string, v *val) string {
	def := renderDef(base, a, v)
	h, err := ruleHash(def, v.Env)
	if err != nil {
		lib.Fatal("definition rejected by the parser (the value space must only hold valid definitions): %s\n%s", err, def)
	}
	return h
}

func main() {
	r := lib.Start("C08", "exploration")
	lib.Quiet()
	initState()
	all := attrs()
	byName := map[string]*attr{}
	for _, a := range all {
		byName[a.name] = a
	}
	r.Assume = []string{
		"target definitions are build_rule(...) calls parsed by the real asp parser in package //p (target //p:t); rule hash = build.RuleHash(state, t, false, false) under the default configuration (build config opt)",
		"meaning of a value: srcs/tools/secrets are ordered lists; outs, optional_outs, deps, labels, requires, output_dirs, provides entries and pass_env are sets; command is the command selected for the active config; pass_env's value is the set of NAME=value pairs seen in the process environment",
		"exactly one build_rule argument differs between the two definitions of a pair; derived effects of that one argument (requires also adds labels, binary adds label bin, label srcs/tools add dependencies) are part of the definition",
		"the source hash and secret hash (separate components of the stored target hash) are not consulted: the statement is about rule hashes",
	}
	if r.Replay != "" {
		var hw struct {
			Family string `json:"family"`
		}
		lib.LoadReplay(r.Replay, &hw)
		if hw.Family == "prebuild" {
			n, t, _ := historyTier(r) // (small: the whole tier is re-run)
			r.Finish(lib.Coverage{Evaluations: t, DistinctNontrivial: n, Rule: "replay of the history tier", Exhaustive: true})
		}
		var w witness
		lib.LoadReplay(r.Replay, &w)
		a := byName[w.Attr]
		if a == nil {
			lib.Fatal("replay: unknown attribute %q", w.Attr)
		}
		// recover derived fields from the generator
		find := func(v *val) *val {
			for _, g := range a.gen(false) {
				if js(g) == js(v) {
					return g
				}
			}
			for _, g := range a.gen(true) {
				if js(g) == js(v) {
					return g
				}
			}
			lib.Fatal("replay: value %s is not in the value space of %s", js(v), a.name)
			return nil
		}
		x, y := find(w.A), find(w.B)
		x.hash, y.hash = mustHash(a, w.Base, x), mustHash(a, w.Base, y)
		eh := ""
		if e := emptyVal(a, true); e != nil {
			eh = mustHash(a, w.Base, e)
		}
		if x.canon != y.canon && x.hash == y.hash && (a.pairOK == nil || a.pairOK(x, y)) {
			r.Violate("rulehash:field="+a.name+":"+cause(a, x, y, eh), w, fmt.Sprintf("same rule hash %s for\n%s\nand\n%s", x.hash, renderDef(w.Base, a, x), renderDef(w.Base, a, y)))
		}
		r.Finish(lib.Coverage{Evaluations: 1, DistinctNontrivial: 1, Rule: "replay", Samples: []any{w}, Exhaustive: true})
	}

	var pairs, nontrivial, values int
	var samples lib.Samples
	perAttr := map[string]any{}
	exhaustive := true
	type best struct {
		w     witness
		sz    int
		key   string
		count int
		x, y  *val
	}
	found := map[string]*best{}
	for _, a := range all {
		bs := a.bases
		if bs == nil {
			bs = []string{"min", "rich"}
		}
		if a.name == "requires" {
			bs = append(append([]string{}, bs...), "labelled")
		}
		nvals := 0
		for _, base := range bs {
			if r.OutOfTime() {
				exhaustive = false
				break
			}
			vs := a.gen(r.Quick())
			nvals = len(vs)
			for _, v := range vs {
				v.hash = mustHash(a, base, v)
				v.size = size(v)
				values++
			}
			eh := ""
			if e := emptyVal(a, r.Quick()); e != nil {
				eh = mustHash(a, base, e)
			}
			// All n(n-1)/2 unordered pairs are decided. Pairs with different hashes hold trivially, so the values are
			// grouped by hash and only pairs inside a group are looked at one by one (same verdicts as a full pairwise loop).
			n := len(vs)
			pairs += n * (n - 1) / 2
			if a.pairOK == nil {
				byCanon := map[string]int{}
				for _, v := range vs {
					byCanon[v.canon]++
				}
				nontrivial += n * (n - 1) / 2
				for _, k := range byCanon {
					nontrivial -= k * (k - 1) / 2
				}
			} else {
				for i := 0; i < n; i++ {
					for j := 0; j < i; j++ {
						if vs[i].canon != vs[j].canon && a.pairOK(vs[j], vs[i]) {
							nontrivial++
						}
					}
				}
			}
			for i := 1; i < n; i += 1 + n/7 {
				x, y := vs[i/2], vs[i]
				samples.Add(func() any { return witness{a.name, base, x, y} })
			}
			buckets := map[string][]*val{}
			for _, v := range vs {
				v.key = js(v)
				buckets[v.hash] = append(buckets[v.hash], v)
			}
			for _, bk := range buckets {
				for i := 1; i < len(bk); i++ {
					for j := 0; j < i; j++ {
						x, y := bk[j], bk[i]
						if x.canon == y.canon || (a.pairOK != nil && !a.pairOK(x, y)) {
							continue // same meaning written differently (or more than one thing changed): nothing is demanded
						}
						class := "rulehash:field=" + a.name + ":" + cause(a, x, y, eh)
						b := found[class]
						if b == nil {
							b = &best{sz: 1 << 30}
							found[class] = b
						}
						b.count++
						if sz := x.size + y.size; sz < b.sz || (sz == b.sz && base+x.key+y.key < b.key) {
							b.sz, b.key, b.w, b.x, b.y = sz, base+x.key+y.key, witness{a.name, base, x, y}, x, y
						}
					}
				}
			}
		}
		perAttr[a.name] = map[string]any{"values": nvals, "bases": bs}
	}
	for class, b := range found {
		a := byName[b.w.Attr]
		// determinism: the witness must reproduce on fresh parses
		h1, h2 := mustHash(a, b.w.Base, b.x), mustHash(a, b.w.Base, b.y)
		if h1 != b.x.hash || h2 != b.y.hash || h1 != h2 {
			lib.Fatal("HARNESS-NONDETERMINISM %s: %s / %s then %s / %s", class, b.x.hash, b.y.hash, h1, h2)
		}
		r.Violate(class, b.w, fmt.Sprintf("same rule hash %s for\n%s\nand\n%s", h1, renderDef(b.w.Base, a, b.x), renderDef(b.w.Base, a, b.y)))
		for i := 1; i < b.count; i++ {
			r.Violate(class, nil, "")
		}
	}
	hstates, htrans, hcomplete := historyTier(r)
	if !hcomplete {
		exhaustive = false
	}
	r.Assume = append(r.Assume, "history tier: a target whose command is set by its pre-build function from a label of its dependency; with the real binary, after every history of edits of that label the target's output must be what a clean build produces - the hash that decides about rebuilding has to be the one taken after the pre-build function ran")
	r.Finish(lib.Coverage{
		Evaluations:        pairs + htrans,
		DistinctNontrivial: nontrivial + hstates,
		Rule:               "a case is an unordered pair of definitions that differ in exactly one build_rule argument (one of the statement's attributes), both parsed by the real parser and hashed by the real RuleHash; every pair of values of the attribute's value space is compared for every applicable base definition; non-trivial = the two values differ in meaning (canonical forms differ)",
		Samples:            samples.List(),
		Exhaustive:         exhaustive,
		Extra:              map[string]any{"definitions_hashed": values, "attributes": perAttr, "history_tier_states": hstates, "history_tier_transitions": htrans},
	})
}

// historyTier: a definition that changes only through a pre-build function (engine E3, real binary). "Please never treats a
// changed definition as unchanged" also when the change reaches the target through set_command() in its pre-build function.
func historyTier(r *lib.Run) (int, int, bool) {
	plz := os.Getenv("VERIF_PLZ")
	if plz == "" {
		lib.Fatal("VERIF_PLZ not set (the driver builds plz for the history tier)")
	}
	root := filepath.Join(lib.VerifRoot, ".work", "hist", "C08")
	os.RemoveAll(root)
	defer os.RemoveAll(root)
	plz = hist.PrivatePlz(plz, filepath.Join(root, "bin"))
	fam := hist.PreFam{WithNoop: true, WithRm: !r.Quick()}
	depth := 2
	if !r.Quick() {
		depth = 3
	}
	e := hist.NewEngine(plz, filepath.Join(root, "pre"), fam)
	noCache := "[cache]\ndir =\n"
	visit := func(from *hist.State, ed hist.Edit, obs *hist.Obs, dir string) (any, string) {
		var history []string
		if from != nil {
			history = append(append(history, from.Hist...), ed.Name)
		} else {
			history = []string{"init"}
			if obs.Exit != 0 {
				lib.Fatal("the initial tree of the pre-build family does not build (vacuous scenario):\n%s", obs.Output)
			}
		}
		if obs.Exit == -9 {
			return nil, ""
		}
		clean := e.CleanObs(ed.Src, noCache)
		if d := hist.DiffOuts(obs, clean); d != "" {
			r.Violate("history:definition-changed-through-pre-build-function:treated-as-unchanged:"+ed.Kind, map[string]any{"family": "prebuild", "history": history},
				"after this history the target's output is not what its current effective definition produces (clean build):\n"+d+"commands executed: "+fmt.Sprint(obs.Actions))
		}
		return nil, ""
	}
	st := e.BFS(depth, noCache, visit, r.OutOfTime)
	return st.States, st.Transitions, st.Complete
}

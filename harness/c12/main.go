// C12: the directory cache stores and retrieves faithfully and atomically.
//
// The real dirCache (src/cache/dir_cache.go, with src/fs) is built with every mutating os.* call routed through the
// file-system seam verifshim/vos. For every small output tree (files, nested directories, relative symlinks, empty
// directories), declared either as top-level outputs or as one output per leaf path, compressed and not:
//
//	(a) faithful:  Store, empty the output directory, Retrieve with a NEW dirCache: hit, and the tree is identical;
//	               a key that was never stored misses.
//	(b) crash:     for EVERY operation index k of Store the disk is frozen from op k on (a process death before op k),
//	               plus the torn variant (the file being written is cut to half) and, where op k is the RemoveAll of a
//	               populated entry, every prefix of that removal in two orders (RemoveAll is a sequence of unlinks);
//	               a new dirCache must then miss or restore one complete tree; a following complete Store + Retrieve
//	               must restore the complete tree.
//	(c) concurrent: Store and Retrieve of the same key run as two threads of which exactly one runs at a time; context
//	               switches happen before file-system operations. Patterns: Store paused before op k / whole Retrieve /
//	               rest of Store; Retrieve paused before op j / whole Store / rest of Retrieve; and the two three-switch
//	               patterns. The Retrieve must miss or restore one complete stored tree.
//
// Store reads plz-out/gen/<pkg>, Retrieve in (b) and (c) restores into plz-out/bin/<pkg> (the same label marked binary:
// same cache path, other output directory) - the situation of two working copies sharing one cache directory.
package main

import (
	"fmt"
	"os"
	"path/filepath"
	"regexp"
	"runtime"
	"runtime/pprof"
	"sort"
	"strings"
	"sync"
	"sync/atomic"
	"syscall"
	"time"

	"github.com/thought-machine/please/src/cache"
	"github.com/thought-machine/please/src/core"
	"github.com/thought-machine/please/verifharness/c09/tree"
	"github.com/thought-machine/please/verifharness/lib"
	"github.com/thought-machine/please/verifshim/vos"
)

// A Case is one executable scenario (and the replay witness).
type Case struct {
	Mode     string     `json:"mode"` // faithful | never-stored | crash | conc
	Tree     *tree.Node `json:"tree"` // contents of the target's output directory
	Decl     string     `json:"decl"` // top: the root entries are the outputs; leaf: every leaf path is an output
	Compress bool       `json:"compress"`
	Pre      string     `json:"pre,omitempty"`     // none | same | different: entry already present under the key
	K        int        `json:"k,omitempty"`       // crash: frozen from op K on; conc: Store pauses before op K
	J        int        `json:"j,omitempty"`       // conc: Retrieve pauses before op J
	Variant  string     `json:"variant,omitempty"` // crash: "" | torn | rm-lex:<n> | rm-rev:<n>; conc: pattern SRS | RSR | SRSR | RSRS
	Op       string     `json:"op,omitempty"`      // informational: the operation at K
	Got      *tree.Node `json:"got,omitempty"`     // informational: what the retrieve restored
}

var key = []byte("12345678901234567890")
var key2 = []byte("abcdefghijabcdefghij")

var root string
var baseConfig *core.Configuration

type worker struct {
	id                  int
	gen, bin, cacheRoot string
	tGen, tBin          *core.BuildTarget
	cfg                 [2]*core.Configuration
	c                   ctl
	prepKey, tmpl       string // the prepared cache state kept as a template
	early               int    // conc: index of the pausing segment in which a thread ran to completion instead (-1 none)
}

// ctl is the per-worker plan consulted by vos.Hook.
type ctl struct {
	mode   int // 0 pass, 1 trace, 2 freeze, 3 sched
	n, k   int
	trace  []string
	lastCr string // last file created (for the torn variant)
	// sched
	cur    int
	budget int
	gates  [2]chan struct{}
	yield  chan int // 0 = paused, 1 = finished
}

const (
	mPass = iota
	mTrace
	mFreeze
	mSched
	mFree // after an infeasible switch point: no more control
)

var blockedRuns int64

var workers []*worker
var profStop = func() {}
var wre = regexp.MustCompile(`/w(\d+)(/| |$)`)

func workerOf(path string) *worker {
	m := wre.FindStringSubmatch(path)
	if m == nil {
		lib.Fatal("operation on a path outside every worker: %q", path)
	}
	var i int
	fmt.Sscan(m[1], &i)
	return workers[i]
}

func hook(n int64, op, path string) error {
	w := workerOf(path)
	c := &w.c
	switch c.mode {
	case mPass:
		return nil
	case mTrace:
		c.n++
		c.trace = append(c.trace, op+" "+path)
		if op == "create" || op == "openfile" || op == "writefile" {
			c.lastCr = path
		}
		return nil
	case mFreeze:
		c.n++
		if c.n >= c.k {
			return syscall.EIO
		}
		c.trace = append(c.trace, op+" "+path)
		if op == "create" || op == "openfile" || op == "writefile" {
			c.lastCr = path
		}
		return nil
	case mSched:
		if c.budget == 0 {
			t := c.cur
			c.yield <- 0
			<-c.gates[t]
		}
		if c.budget > 0 {
			c.budget--
		}
		c.trace = append(c.trace, fmt.Sprintf("%d:%s %s", c.cur, op, path))
		return nil
	}
	return nil
}

func must(err error) {
	if err != nil {
		lib.Fatal("%s", err)
	}
}

func newWorker(i int) *worker {
	pkg := fmt.Sprintf("w%d", i)
	w := &worker{id: i,
		gen:       filepath.Join(root, "plz-out/gen", pkg),
		bin:       filepath.Join(root, "plz-out/bin", pkg),
		cacheRoot: filepath.Join(root, "cache", pkg),
		tmpl:      filepath.Join(root, "tmpl", pkg),
	}
	must(os.MkdirAll(filepath.Join(root, "tmpl"), 0o755))
	w.tGen = core.NewBuildTarget(core.NewBuildLabel(pkg, "t"))
	w.tBin = core.NewBuildTarget(core.NewBuildLabel(pkg, "t"))
	w.tBin.IsBinary = true
	for ci := 0; ci < 2; ci++ {
		cfg := *baseConfig
		cfg.Cache.Dir = w.cacheRoot
		cfg.Cache.DirClean = false
		cfg.Cache.DirCompress = ci == 1
		w.cfg[ci] = &cfg
	}
	must(os.MkdirAll(w.gen, 0o755))
	must(os.MkdirAll(w.bin, 0o755))
	must(os.MkdirAll(w.cacheRoot, 0o755))
	return w
}

func (w *worker) newCache(compress bool) *cache.VerifDirCacheC12 {
	ci := 0
	if compress {
		ci = 1
	}
	must(os.MkdirAll(w.cacheRoot, 0o755)) // so that construction is not a counted operation
	return cache.VerifNewDirCacheC12(w.cfg[ci])
}

func emptyDir(p string) {
	es, err := os.ReadDir(p)
	must(err)
	for _, e := range es {
		must(os.RemoveAll(filepath.Join(p, e.Name())))
	}
}

func (w *worker) setSource(n *tree.Node) {
	emptyDir(w.gen)
	for _, name := range n.Names() {
		must(n.Children[name].Materialise(filepath.Join(w.gen, name)))
	}
}

// outsOf lists the declared outputs.
func outsOf(n *tree.Node, decl string) []string {
	if decl == "top" {
		return n.Names()
	}
	var out []string
	var rec func(prefix string, d *tree.Node)
	rec = func(prefix string, d *tree.Node) {
		for _, name := range d.Names() {
			c := d.Children[name]
			if c.Kind == "d" && len(c.Children) > 0 {
				rec(prefix+name+"/", c)
			} else {
				out = append(out, prefix+name)
			}
		}
	}
	rec("", n)
	return out
}

// alt is the same shape with different bytes in every file ("" if the tree has no file).
func alt(n *tree.Node) *tree.Node {
	switch n.Kind {
	case "f":
		return tree.File(n.Content + "Z")
	case "l":
		return tree.Link(n.Target)
	}
	d := tree.Dir(nil)
	for k, c := range n.Children {
		d.Children[k] = alt(c)
	}
	return d
}

func hasFile(n *tree.Node) bool {
	if n.Kind == "f" {
		return true
	}
	for _, c := range n.Children {
		if hasFile(c) {
			return true
		}
	}
	return false
}

// coarse compares a restored tree with the expected one: "" | missing | extra | content | kind.
func coarse(want, got *tree.Node) string {
	if got == nil {
		return "missing"
	}
	if want.Kind != got.Kind {
		return "kind"
	}
	switch want.Kind {
	case "f":
		if want.Content != got.Content {
			return "content"
		}
	case "l":
		if want.Target != got.Target {
			return "content"
		}
	case "d":
		for _, k := range want.Names() {
			if d := coarse(want.Children[k], got.Children[k]); d != "" {
				return d
			}
		}
		for _, k := range got.Names() {
			if want.Children[k] == nil {
				return "extra"
			}
		}
	}
	return ""
}

// mixed reports whether every node of got agrees with a or with b (a tree assembled from two generations).
func mixed(a, b, got *tree.Node) bool {
	if a == nil || b == nil || got == nil || a.Kind != got.Kind {
		return false
	}
	switch got.Kind {
	case "f":
		return got.Content == a.Content || got.Content == b.Content
	case "l":
		return got.Target == a.Target
	}
	if len(got.Children) != len(a.Children) {
		return false
	}
	for k, c := range got.Children {
		if !mixed(a.Children[k], b.Children[k], c) {
			return false
		}
	}
	return true
}

var diffName = map[string]string{"missing": "partial-tree", "extra": "extra-entries", "content": "wrong-bytes", "kind": "wrong-kind"}

// judge classifies a retrieve result: "" = miss or a complete tree.
func judge(hit bool, got *tree.Node, wants ...*tree.Node) string {
	if !hit {
		return ""
	}
	ds := map[string]bool{}
	for _, w := range wants {
		d := coarse(w, got)
		if d == "" {
			return ""
		}
		ds[d] = true
	}
	if len(wants) == 2 && mixed(wants[0], wants[1], got) {
		return "hit-with-mixed-generations"
	}
	for _, d := range []string{"missing", "extra", "kind", "content"} { // compared with the generation it is closest to
		if ds[d] {
			return "hit-with-" + diffName[d]
		}
	}
	return "hit-with-unknown-difference"
}

// retrieve runs a Retrieve with a new dirCache into dest (emptied first) and reads the result.
func (w *worker) retrieve(c Case, t *core.BuildTarget, dest string, k []byte) (bool, *tree.Node) {
	emptyDir(dest)
	hit := w.newCache(c.Compress).Retrieve(t, k, outsOf(c.Tree, c.Decl))
	got, err := tree.Read(dest)
	must(err)
	return hit, got
}

// cloneTree reproduces the tree at from under to: directories and symlinks are recreated, files hard-linked (nothing in
// the code under test writes a cache file in place, and the entry of pre=same shares its inodes with the sources anyway).
func cloneTree(from, to string) {
	fi, err := os.Lstat(from)
	must(err)
	switch {
	case fi.Mode()&os.ModeSymlink != 0:
		t, err := os.Readlink(from)
		must(err)
		must(os.Symlink(t, to))
	case fi.IsDir():
		must(os.Mkdir(to, 0o755))
		es, err := os.ReadDir(from)
		must(err)
		for _, e := range es {
			cloneTree(filepath.Join(from, e.Name()), filepath.Join(to, e.Name()))
		}
	default:
		must(os.Link(from, to))
	}
}

// prepare brings the cache directory into the state before the Store under test and the source tree into place.
// The state is built once per (tree, declaration, compression, pre) with real Stores and then cloned for every run.
func (w *worker) prepare(c Case) {
	w.c.mode = mPass
	must(os.RemoveAll(w.cacheRoot))
	pk := fmt.Sprintf("%p|%s|%v|%s", c.Tree, c.Decl, c.Compress, c.Pre)
	if w.prepKey == pk {
		cloneTree(w.tmpl, w.cacheRoot)
		return
	}
	defer func() {
		must(os.RemoveAll(w.tmpl))
		must(os.MkdirAll(w.cacheRoot, 0o755))
		cloneTree(w.cacheRoot, w.tmpl)
		w.prepKey = pk
	}()
	if c.Pre == "same" || c.Pre == "different" {
		src := c.Tree
		if c.Pre == "different" {
			src = alt(c.Tree)
		}
		w.setSource(src)
		w.newCache(c.Compress).Store(w.tGen, key, outsOf(c.Tree, c.Decl))
		if c.Pre == "different" {
			// hard links: the old generation must not share inodes with the files about to be rewritten
			w.setSource(c.Tree)
		}
	} else {
		w.setSource(c.Tree)
	}
}

func (w *worker) wants(c Case) []*tree.Node {
	ws := []*tree.Node{c.Tree.Literal()}
	if c.Pre == "different" {
		ws = append(ws, alt(c.Tree).Literal())
	}
	return ws
}

func compName(b bool) string {
	if b {
		return "compressed"
	}
	return "uncompressed"
}

// dryRun traces one complete Store from the prepared state and returns the operation list.
func (w *worker) dryRun(c Case) []string {
	w.prepare(c)
	w.c = ctl{mode: mTrace}
	w.newCache(c.Compress).Store(w.tGen, key, outsOf(c.Tree, c.Decl))
	w.c.mode = mPass
	return w.c.trace
}

// entriesPost lists the paths below dir in post-order (children before their directory), lexical or reverse order.
func entriesPost(dir string, rev bool) []string {
	var out []string
	var rec func(p string)
	rec = func(p string) {
		es, _ := os.ReadDir(p)
		names := []string{}
		for _, e := range es {
			names = append(names, e.Name())
		}
		sort.Strings(names)
		if rev {
			for i, j := 0, len(names)-1; i < j; i, j = i+1, j-1 {
				names[i], names[j] = names[j], names[i]
			}
		}
		for _, n := range names {
			q := filepath.Join(p, n)
			if fi, err := os.Lstat(q); err == nil && fi.IsDir() {
				rec(q)
			}
			out = append(out, q)
		}
	}
	rec(dir)
	return out
}

// runCase executes one case and returns the violation class ("" = holds), a detail and what was restored.
func (w *worker) runCase(c Case, dry []string) (class, detail string, got *tree.Node) {
	outs := outsOf(c.Tree, c.Decl)
	pfx := "dircache:" + c.Mode + ":" + compName(c.Compress) + ":"
	switch c.Mode {
	case "faithful":
		w.prepKey = ""
		w.prepare(c)
		w.prepKey = ""
		w.newCache(c.Compress).Store(w.tGen, key, outs)
		hit, got := w.retrieve(c, w.tGen, w.gen, key) // into the emptied directory the outputs came from
		if !hit {
			return pfx + "miss-after-store", "Store then Retrieve of the same key with a new dirCache: miss", got
		}
		if d := judge(hit, got, c.Tree.Literal()); d != "" {
			return pfx + d, fmt.Sprintf("stored %s, restored %s", c.Tree.Literal().Canon(), got.Canon()), got
		}
		// and into the other working copy
		hit, got = w.retrieve(c, w.tBin, w.bin, key)
		if d := judge(hit, got, c.Tree.Literal()); d != "" || !hit {
			return pfx + "other-outdir:" + d, fmt.Sprintf("hit=%v stored %s, restored %s", hit, c.Tree.Literal().Canon(), got.Canon()), got
		}
		return "", "", got
	case "never-stored":
		w.prepare(c)
		w.newCache(c.Compress).Store(w.tGen, key, outs)
		hit, got := w.retrieve(c, w.tBin, w.bin, key2)
		if hit {
			return pfx + "hit-for-never-stored-key", "Retrieve of a key that was never stored reported a hit", got
		}
		if len(got.Children) != 0 {
			return pfx + "miss-wrote-outputs", "Retrieve of a never-stored key missed but created " + got.Canon(), got
		}
		return "", "", got
	case "crash":
		if dry == nil {
			dry = w.dryRun(c)
		}
		if c.K < 1 || c.K > len(dry) {
			lib.Fatal("crash point %d outside 1..%d", c.K, len(dry))
		}
		w.prepare(c)
		w.c = ctl{mode: mFreeze, k: c.K}
		w.newCache(c.Compress).Store(w.tGen, key, outs)
		w.c.mode = mPass
		if len(w.c.trace) != c.K-1 || strings.Join(w.c.trace, "\n") != strings.Join(dry[:c.K-1], "\n") {
			lib.Fatal("HARNESS-NONDETERMINISM: crash run at op %d is not a prefix of the dry run:\n%s\nvs\n%s", c.K, strings.Join(w.c.trace, "\n"), strings.Join(dry, "\n"))
		}
		opk := dry[c.K-1]
		vkind := "freeze"
		switch {
		case c.Variant == "torn":
			vkind = "torn-write"
			fi, err := os.Lstat(w.c.lastCr)
			if w.c.lastCr == "" || err != nil || !fi.Mode().IsRegular() || fi.Size() < 2 {
				return "", "n/a", nil
			}
			must(os.Truncate(w.c.lastCr, fi.Size()/2))
		case strings.HasPrefix(c.Variant, "rm-"):
			vkind = "partial-removeall"
			var n int
			fmt.Sscan(c.Variant[7:], &n)
			if !strings.HasPrefix(opk, "removeall ") {
				return "", "n/a", nil
			}
			es := entriesPost(strings.TrimPrefix(opk, "removeall "), strings.HasPrefix(c.Variant, "rm-rev:"))
			if n < 1 || n > len(es) {
				return "", "n/a", nil
			}
			for _, p := range es[:n] {
				must(os.Remove(p))
			}
		}
		hit, got := w.retrieve(c, w.tBin, w.bin, key)
		if d := judge(hit, got, w.wants(c)...); d != "" {
			return pfx + "pre=" + c.Pre + ":" + vkind + ":" + d, fmt.Sprintf("disk frozen before op %d (%s) of Store%s; then Retrieve: hit with %s, stored tree %s", c.K, opk, map[bool]string{true: " [" + c.Variant + "]"}[c.Variant != ""], got.Canon(), c.Tree.Literal().Canon()), got
		}
		// recovery: a complete Store after the crash must give a complete entry
		w.newCache(c.Compress).Store(w.tGen, key, outs)
		hit2, got2 := w.retrieve(c, w.tBin, w.bin, key)
		if d := judge(hit2, got2, c.Tree.Literal()); d != "" || !hit2 {
			if !hit2 {
				d = "miss"
			}
			return pfx + "pre=" + c.Pre + ":" + vkind + ":store-after-crash:" + d, fmt.Sprintf("disk frozen before op %d (%s) of Store; a later complete Store + Retrieve gave hit=%v %s, want %s", c.K, opk, hit2, got2.Canon(), c.Tree.Literal().Canon()), got2
		}
		return "", "", got
	case "conc":
		return w.runConc(c)
	}
	lib.Fatal("unknown mode %q", c.Mode)
	return
}

// runConc runs Store and Retrieve as two threads, one at a time, switching as the pattern says.
// MSRS: Retrieve (own dirCache) until it has seen the entry and stops at its markDir, Store of ANOTHER dirCache on the same directory
// up to op K, rest of the Retrieve, rest of the Store.
// SRS: Store up to (not including) op K, whole Retrieve, rest of Store. RSR: Retrieve up to op J, whole Store, rest.
// SRSR: Store to K, Retrieve to J, rest of Store, rest of Retrieve. RSRS: Retrieve to J, Store to K, rest of Retrieve, rest of Store.
func (w *worker) runConc(c Case) (class, detail string, got *tree.Node) {
	outs := outsOf(c.Tree, c.Decl)
	w.prepare(c)
	emptyDir(w.bin)
	dc := w.newCache(c.Compress)
	dcS := dc
	if c.Variant == "MSRS" {
		dcS = w.newCache(c.Compress) // the Store comes from another process sharing the cache directory
	}
	w.c = ctl{mode: mSched, yield: make(chan int)}
	w.c.gates[0], w.c.gates[1] = make(chan struct{}), make(chan struct{})
	var hit bool
	finished := [2]bool{}
	go func() {
		<-w.c.gates[0]
		dcS.Store(w.tGen, key, outs)
		w.c.yield <- 1
	}()
	go func() {
		<-w.c.gates[1]
		hit = dc.Retrieve(w.tBin, key, outs)
		w.c.yield <- 1
	}()
	type seg struct{ t, n int }
	var segs []seg
	switch c.Variant {
	case "SRS":
		segs = []seg{{0, c.K - 1}, {1, -1}, {0, -1}}
	case "RSR":
		segs = []seg{{1, c.J - 1}, {0, -1}, {1, -1}}
	case "SRSR":
		segs = []seg{{0, c.K - 1}, {1, c.J - 1}, {0, -1}, {1, -1}}
	case "RSRS":
		segs = []seg{{1, c.J - 1}, {0, c.K - 1}, {1, -1}, {0, -1}}
	case "MSRS":
		segs = []seg{{0, c.K - 1}, {0, -1}} // around them: Retrieve up to its markDir, then (after the first segment) its rest
	default:
		lib.Fatal("unknown pattern %q", c.Variant)
	}
	w.early = -1 // a thread finished before reaching its pause point: K/J beyond its length
	if c.Variant == "MSRS" {
		// the Retrieve runs until it blocks inside markDir: it has seen the entry and has not opened it yet
		cache.VerifLockC12(dc)
		w.c.cur, w.c.budget = 1, -1
		w.c.gates[1] <- struct{}{}
		deadline := time.Now().Add(5 * time.Second)
		for !finished[1] && !cache.VerifWaitersC12(dc) {
			select {
			case <-w.c.yield:
				finished[1] = true // no entry: an immediate miss
			default:
				if time.Now().After(deadline) {
					lib.Fatal("the Retrieve neither finished nor reached markDir")
				}
				time.Sleep(20 * time.Microsecond)
			}
		}
	}
	for i, s := range segs {
		if finished[s.t] {
			continue
		}
		w.c.cur, w.c.budget = s.t, s.n
		w.c.gates[s.t] <- struct{}{}
		select {
		case ev := <-w.c.yield:
			if ev == 1 {
				finished[s.t] = true
				if s.n >= 0 && w.early < 0 {
					w.early = i
				}
			}
		case <-time.After(10 * time.Second):
			// the running thread waits for something the paused thread holds (a lock): this switch point is not
			// feasible. Let both run freely to completion - still a legal execution - and judge the end state.
			w.c.mode = mFree
			atomic.AddInt64(&blockedRuns, 1)
			if c.Variant == "MSRS" {
				lib.Fatal("a Store of another dirCache blocked while the Retrieve was held")
			}
			other := 1 - s.t
			if !finished[other] {
				w.c.gates[other] <- struct{}{}
			}
			for t := 0; t < 2; t++ {
				if !finished[t] {
					<-w.c.yield
					finished[t] = true
				}
			}
		}
		if c.Variant == "MSRS" && i == 0 {
			w.c.cur, w.c.budget = 1, -1
			cache.VerifUnlockC12(dc)
			if !finished[1] {
				<-w.c.yield
				finished[1] = true
			}
		}
	}
	if !finished[0] || !finished[1] {
		lib.Fatal("scheduler: a thread did not finish")
	}
	w.c.mode = mPass
	got, err := tree.Read(w.bin)
	must(err)
	pfx := "dircache:concurrent:" + compName(c.Compress) + ":pre=" + c.Pre + ":" + c.Variant + ":"
	if d := judge(hit, got, w.wants(c)...); d != "" {
		return pfx + d, fmt.Sprintf("pattern %s K=%d J=%d: the Retrieve reported a hit with %s; stored tree %s\nschedule:\n%s", c.Variant, c.K, c.J, got.Canon(), c.Tree.Literal().Canon(), strings.Join(w.c.trace, "\n")), got
	}
	// afterwards the complete new entry must be there
	hit2, got2 := w.retrieve(c, w.tBin, w.bin, key)
	if d := judge(hit2, got2, c.Tree.Literal()); d != "" || !hit2 {
		if !hit2 {
			d = "miss"
		}
		return pfx + "final-state:" + d, fmt.Sprintf("pattern %s K=%d J=%d: after both finished a new Retrieve gave hit=%v %s, want %s", c.Variant, c.K, c.J, hit2, got2.Canon(), c.Tree.Literal().Canon()), got2
	}
	return "", detail, got
}

type result struct {
	c      Case
	class  string
	detail string
	idx    int
}

func main() {
	r := lib.Start("C12", "model_checking")
	lib.Quiet()
	if r.Replay != "" {
		r.Replay, _ = filepath.Abs(r.Replay)
	}
	if pf := os.Getenv("C12_PROF"); pf != "" {
		f, _ := os.Create(pf)
		pprof.StartCPUProfile(f)
		defer pprof.StopCPUProfile()
		profStop = pprof.StopCPUProfile
	}
	base := os.Getenv("C12_TMP")
	if st, e := os.Stat("/dev/shm"); base == "" && e == nil && st.IsDir() {
		base = "/dev/shm"
	}
	var err error
	root, err = os.MkdirTemp(base, "verif-c12-")
	must(err)
	root, _ = filepath.EvalSymlinks(root)
	defer os.RemoveAll(root)
	must(os.Chdir(root))
	core.RepoRoot = root
	baseConfig = core.DefaultConfiguration()
	nw := runtime.NumCPU()
	if v := os.Getenv("C12_WORKERS"); v != "" {
		fmt.Sscan(v, &nw)
	}
	for i := 0; i < nw; i++ {
		workers = append(workers, newWorker(i))
	}
	vos.Hook = hook
	r.Assume = []string{
		"crash model = process death: the operations of Store that reached the file system before the crash point persist, nothing after it does (the disk is frozen from operation k on, so deferred cleanups do not run either); no reordering of completed operations; file contents are complete at the next operation and half-written in the torn variant",
		"os.RemoveAll is a single seam operation but a sequence of unlinks in reality: where the crash point is the RemoveAll of a populated entry, every prefix of the post-order removal sequence in lexical and in reverse lexical order is explored as an additional crash state (the real readdir order is file-system dependent)",
		"a retrieve that reports a miss may leave anything in the output directory (the caller rebuilds); only a hit is required to be complete. Complete = same entries, kinds, file bytes and symlink target strings as the stored tree (permissions and timestamps are not compared)",
		"the empty output set is not explored (Store of no files creates no entry by design)",
		"under one key the cache normally holds the same bytes; scenarios whose pre-existing entry holds DIFFERENT bytes are classified separately (pre=different), there a hit must restore one generation completely",
		"concurrency: context switches only before mutating file-system operations; reads are atomic with the following operation of the same thread; exactly the patterns SRS, RSR (quick) and SRSR, RSRS (thorough) are enumerated, not all interleavings",
		"Store reads plz-out/gen/<pkg>; the Retrieve of the crash and concurrent scenarios restores into plz-out/bin/<pkg> (same label, binary): two working copies sharing one cache directory",
	}
	if r.Replay != "" {
		var c Case
		lib.LoadReplay(r.Replay, &c)
		class, detail, got := workers[0].runCase(c, nil)
		c.Got = got
		if class != "" {
			r.Violate(class, c, detail)
		}
		os.RemoveAll(root)
		r.Finish(lib.Coverage{Evaluations: 1, DistinctNontrivial: 1, Rule: "replay", Samples: []any{c}, Exhaustive: true})
	}

	sp := tree.Space{Names: []string{"a", "b"}, Contents: []string{"", "x"}, Targets: []string{"a", "../a"}, MaxDepth: 2, MaxEntries: 3}
	if !r.Quick() {
		sp = tree.Space{Names: []string{"a", "b", "c"}, Contents: []string{"", "x"}, Targets: []string{"a", "b", "../a"}, MaxDepth: 3, MaxEntries: 3}
	}
	sp2 := tree.Space{Names: []string{"a", "b"}, Contents: []string{"x"}, Targets: []string{"a"}, MaxDepth: 2, MaxEntries: 5} // thorough: the 4- and 5-entry trees of a narrower alphabet
	if v := os.Getenv("C12_ENTRIES"); v != "" {
		fmt.Sscan(v, &sp.MaxEntries)
	}
	var trees []*tree.Node
	for _, t := range sp.Dirs() {
		if t.Entries() > 0 {
			trees = append(trees, t)
		}
	}
	if !r.Quick() {
		for _, t := range sp2.Dirs() {
			if t.Entries() >= 4 {
				trees = append(trees, t)
			}
		}
	}
	// larger than every buffer involved (bufio 4 KiB, tar 512 B blocks, gzip window), and a deep chain
	trees = append(trees,
		tree.Dir(map[string]*tree.Node{"a": tree.File("@70000z1")}),
		tree.Dir(map[string]*tree.Node{"a": tree.File("@9000z1"), "b": tree.Dir(map[string]*tree.Node{"a": tree.Dir(map[string]*tree.Node{"a": tree.Dir(nil), "b": tree.Link("../../a")}), "c": tree.File("@5000q")})}),
	)
	nBig := 2

	// the unit of parallel work is one (tree, decl, compress) group
	type group struct {
		t        *tree.Node
		decl     string
		compress bool
		idx      int
	}
	var groups []group
	order := append(append([]int{}, len(trees)-2, len(trees)-1), make([]int, len(trees)-2)...) // the two large trees first (they take longest)
	for i := 0; i < len(trees)-2; i++ {
		order[i+2] = i
	}
	for _, i := range order {
		t := trees[i]
		for _, decl := range []string{"top", "leaf"} {
			if decl == "leaf" && fmt.Sprint(outsOf(t, "leaf")) == fmt.Sprint(outsOf(t, "top")) {
				continue // identical declaration
			}
			for _, comp := range []bool{false, true} {
				groups = append(groups, group{t, decl, comp, i})
			}
		}
	}
	var mu sync.Mutex
	found := map[string]*result{}
	counts := map[string]int{}
	var next, evals, states, transitions, nontrivial, crashRuns, concRuns, faithRuns, skipped int64
	var samples lib.Samples
	record := func(c Case, idx int, class, detail string, got *tree.Node) {
		atomic.AddInt64(&evals, 1)
		if class == "" {
			return
		}
		c.Got = got
		mu.Lock()
		counts[class]++
		if b := found[class]; b == nil || idx < b.idx {
			found[class] = &result{c, class, detail, idx}
		}
		mu.Unlock()
	}
	// (the two-pause patterns run on every tree in the thorough tier, on every 6th tree with the same bytes under the key in the quick tier)
	concPatterns := []string{"SRS", "RSR", "MSRS", "SRSR", "RSRS"}
	var wg sync.WaitGroup
	for _, w := range workers {
		wg.Add(1)
		go func() {
			defer wg.Done()
			for {
				gi := int(atomic.AddInt64(&next, 1) - 1)
				if gi >= len(groups) || r.OutOfTime() {
					return
				}
				g := groups[gi]
				// (a)
				unfaithful := false
				for _, mode := range []string{"faithful", "never-stored"} {
					c := Case{Mode: mode, Tree: g.t, Decl: g.decl, Compress: g.compress, Pre: "none"}
					class, detail, got := w.runCase(c, nil)
					record(c, g.idx, class, detail, got)
					atomic.AddInt64(&faithRuns, 1)
					unfaithful = unfaithful || class != ""
				}
				if unfaithful {
					atomic.AddInt64(&skipped, 1)
					continue // a tree that does not even round-trip cannot be judged under crashes / interleavings
				}
				if g.t.Entries() > 1 {
					atomic.AddInt64(&nontrivial, 1)
				}
				pres := []string{"none", "same"}
				if r.Quick() && g.compress && g.t.Entries() > 2 && g.idx < len(trees)-nBig {
					// a compressed Store is "create one tarball, rename it" whatever the tree: the quick tier explores its
					// crash states and interleavings on the trees of <=2 entries and the two large ones only
					pres = nil
				} else if hasFile(g.t) {
					pres = append(pres, "different")
				}
				for _, pre := range pres {
					c := Case{Mode: "crash", Tree: g.t, Decl: g.decl, Compress: g.compress, Pre: pre}
					dry := w.dryRun(c)
					atomic.AddInt64(&transitions, int64(len(dry)))
					if gi%97 == 0 && pre == "same" {
						samples.Add(func() any {
							return map[string]any{"case": c, "store_ops": dry}
						})
					}
					// (b)
					for k := 1; k <= len(dry); k++ {
						c.K, c.Op = k, dry[k-1]
						vars := []string{"", "torn"}
						if strings.HasPrefix(dry[k-1], "removeall ") {
							// populated directory being removed: enumerate its partial removals
							for n := 1; n <= 8; n++ {
								vars = append(vars, fmt.Sprintf("rm-lex:%d", n), fmt.Sprintf("rm-rev:%d", n))
							}
						}
						for _, v := range vars {
							c.Variant = v
							class, detail, got := w.runCase(c, dry)
							if detail == "n/a" {
								continue
							}
							record(c, g.idx, class, detail, got)
							atomic.AddInt64(&states, 1)
							atomic.AddInt64(&crashRuns, 1)
						}
					}
					// (c)
					for _, pat := range concPatterns {
						two := pat == "SRSR" || pat == "RSRS"
						if pat == "MSRS" && pre == "none" {
							continue // without an entry the Retrieve never gets as far as its markDir
						}
						if two && g.idx >= len(trees)-nBig {
							continue // the two-pause patterns are not run on the two large trees
						}
						if two && r.Quick() && (g.idx%6 != 0 || pre != "same") {
							continue
						}
						for a := 1; a <= 200; a++ {
							stopOuter := false
							for b := 1; b <= 200; b++ {
								cc := Case{Mode: "conc", Tree: g.t, Decl: g.decl, Compress: g.compress, Pre: pre, Variant: pat}
								switch pat {
								case "SRS", "MSRS":
									cc.K = a
								case "RSR":
									cc.J = a
								case "SRSR":
									cc.K, cc.J = a, b
								case "RSRS":
									cc.J, cc.K = a, b
								}
								class, detail, got := w.runCase(cc, nil)
								record(cc, g.idx, class, detail, got)
								atomic.AddInt64(&states, 1)
								atomic.AddInt64(&concRuns, 1)
								atomic.AddInt64(&transitions, int64(len(w.c.trace)))
								if w.early == 0 {
									stopOuter = true // the first thread has no operation a: this was the sequential execution
									break
								}
								if w.early == 1 || !two {
									break
								}
							}
							if stopOuter {
								break
							}
						}
					}
				}
			}
		}()
	}
	wg.Wait()
	classes := []string{}
	for cl := range found {
		classes = append(classes, cl)
	}
	sort.Strings(classes)
	for _, cl := range classes {
		b := found[cl]
		c2, _, _ := workers[0].runCase(b.c, nil)
		if c2 != cl {
			lib.Fatal("HARNESS-NONDETERMINISM %s: re-run gave %q", cl, c2)
		}
		r.Violate(cl, b.c, b.detail)
		for i := 1; i < counts[cl]; i++ {
			r.Violate(cl, nil, "")
		}
	}
	os.RemoveAll(root)
	profStop()
	r.Finish(lib.Coverage{
		Evaluations:        int(evals),
		DistinctNontrivial: int(nontrivial),
		Rule:               "an evaluation = one executed scenario (faithful round trip, never-stored key, one crash state, one interleaving) on real directories with the real dirCache; non-trivial groups = (tree, declaration, compression) with at least two entries in the tree",
		Samples:            samples.List(),
		States:             int(states),
		Transitions:        int(transitions),
		TracesValidated:    int(crashRuns + concRuns),
		Exhaustive:         int(next) > len(groups),
		Extra: map[string]any{"trees": len(trees), "groups": len(groups), "faithful_runs": faithRuns, "crash_states": crashRuns, "groups_skipped_because_the_plain_round_trip_failed": skipped, "interleavings": concRuns, "interleavings_with_an_infeasible_switch_point": blockedRuns,
			"space": fmt.Sprintf("names %q contents %q symlink targets %q depth<=%d entries<=%d (thorough: + the 4..5-entry trees over names {a,b} content x target a depth 2) + a 70 KB file + a 3-deep tree with a 9 KB and a 5 KB file (large trees: one-pause patterns only); declarations top|leaf; compressed and not; pre-existing entry none|same|different; patterns %q",
				sp.Names, sp.Contents, sp.Targets, sp.MaxDepth, sp.MaxEntries, concPatterns)},
	})
}

// C39: configuration layering follows the documented precedence.
//
// Bounded-exhaustive: every assignment of a state {absent, sets a value named after the file, blank reset, ...} to each
// of the five default config files and their profile siblings, x profile active / not active x -o override / none,
// through the real core.ReadDefaultConfigFiles (which uses the real defaultConfigFiles order) + ApplyOverrides on an
// in-memory io/fs.FS; compared with a reference that folds the sources in the documented order.
package main

import (
	"bytes"
	"fmt"
	"io"
	iofs "io/fs"
	"os"
	"reflect"
	"runtime"
	"sort"
	"strings"
	"sync"
	"sync/atomic"
	"time"

	"github.com/thought-machine/please/src/core"
	"github.com/thought-machine/please/verifharness/lib"
)

// File states.
const (
	absent     = 0 // the file does not exist
	setsValue  = 1 // every tracked option is set (single) / appended to (repeated) with a value named after the file
	blankOnly  = 2 // the file exists; repeated options carry a blank reset; single-valued options are not mentioned
	blankValue = 3 // repeated: blank reset, then a value; single: value
	valueBlank = 4 // repeated: a value, then a blank reset; single: not mentioned
)

var stateNames = []string{"absent", "value", "blank", "blank+value", "value+blank"}

const (
	home     = "/h"
	repoRoot = "/r"
)

type baseFile struct{ path, tag string }

// The documented order, lowest priority first (docs/config.html; the property statement).
var baseFiles = []baseFile{
	{"/etc/please/plzconfig", "etc"},
	{home + "/.config/please/plzconfig", "user"},
	{repoRoot + "/.plzconfig", "repo"},
	{repoRoot + "/.plzconfig_" + runtime.GOOS + "_" + runtime.GOARCH, "arch"},
	{repoRoot + "/.plzconfig.local", "local"},
}

type witness struct {
	Profiles []string       `json:"profiles"`          // active --profile values, in order
	OnDisk   []string       `json:"profile_files_for"` // profile names for which sibling files are generated
	Files    map[string]int `json:"files"`             // path -> state (absent ones omitted)
	Legend   []string       `json:"state_legend,omitempty"`
	Override string         `json:"override"` // "none" | "all" | "comma"
	Option   string         `json:"option,omitempty"`
}

// memFS is an io/fs.FS keyed by the exact (absolute) names the config reader asks for.
type memFS map[string]string

type memFile struct {
	name string
	r    *bytes.Reader
	size int64
}

func (f *memFile) Read(p []byte) (int, error) { return f.r.Read(p) }
func (f *memFile) Close() error               { return nil }
func (f *memFile) Stat() (iofs.FileInfo, error) {
	return memInfo{f.name, f.size}, nil
}

type memInfo struct {
	name string
	size int64
}

func (i memInfo) Name() string        { return i.name }
func (i memInfo) Size() int64         { return i.size }
func (i memInfo) Mode() iofs.FileMode { return 0o644 }
func (i memInfo) ModTime() time.Time  { return time.Time{} }
func (i memInfo) IsDir() bool         { return false }
func (i memInfo) Sys() any            { return nil }

func (m memFS) Open(name string) (iofs.File, error) {
	if c, ok := m[name]; ok {
		return &memFile{name: name, r: bytes.NewReader([]byte(c)), size: int64(len(c))}, nil
	}
	return nil, &iofs.PathError{Op: "open", Path: name, Err: iofs.ErrNotExist}
}

var _ io.Reader = (*memFile)(nil)

func content(state int, tag string) string {
	var b strings.Builder
	single := state == setsValue || state == blankValue
	if single {
		fmt.Fprintf(&b, "[build]\nnonce = %s\n[please]\ndefaultrepo = %s\n", tag, tag)
	}
	b.WriteString("[parse]\n")
	for _, opt := range []string{"buildfilename", "blacklistdirs"} {
		switch state {
		case setsValue:
			fmt.Fprintf(&b, "%s = %s\n", opt, tag)
		case blankOnly:
			fmt.Fprintf(&b, "%s\n", opt)
		case blankValue:
			fmt.Fprintf(&b, "%s\n%s = %s\n", opt, opt, tag)
		case valueBlank:
			fmt.Fprintf(&b, "%s = %s\n%s\n", opt, tag, opt)
		}
	}
	return b.String()
}

// observed values of the tracked options.
type values struct {
	Nonce, DefaultRepo           string
	BuildFileName, BlacklistDirs []string
	BuildFileNameEitherEmpty     bool `json:"-"` // reference only: an empty list is acceptable as well
}

type source struct {
	path, tag string
}

// allFiles lists, in the documented order, every file that may exist for the given on-disk profile names.
func allFiles(onDisk []string) []source {
	var out []source
	for _, bf := range baseFiles {
		out = append(out, source{bf.path, bf.tag})
		for _, p := range onDisk {
			out = append(out, source{bf.path + "." + p, bf.tag + "-" + p})
		}
	}
	return out
}

func overridesFor(kind string) map[string]string {
	switch kind {
	case "all":
		return map[string]string{"build.nonce": "ov", "please.defaultrepo": "ov", "parse.buildfilename": "ov", "parse.blacklistdirs": "ov"}
	case "comma":
		return map[string]string{"parse.buildfilename": "ov1,ov2", "parse.blacklistdirs": "ov1,ov2"}
	}
	return nil
}

// reference folds the sources in the documented order.
func reference(w *witness) values {
	type rep struct {
		list    []string
		touched bool // some source gave the option a value
		blanked bool // some source carried a blank reset
	}
	nonce, nonceSet := "", false
	repo, repoSet := "", false
	var bfn, bld rep
	apply := func(path, tag string) {
		st, ok := w.Files[path]
		if !ok {
			return
		}
		if st == setsValue || st == blankValue {
			nonce, nonceSet, repo, repoSet = tag, true, tag, true
		}
		for _, r := range []*rep{&bfn, &bld} {
			switch st {
			case setsValue:
				r.list, r.touched = append(r.list, tag), true
			case blankOnly:
				r.list, r.blanked = nil, true
			case valueBlank:
				r.list, r.touched, r.blanked = nil, true, true
			case blankValue:
				r.list, r.touched, r.blanked = []string{tag}, true, true
			}
		}
	}
	for _, bf := range baseFiles {
		apply(bf.path, bf.tag)
		for _, p := range w.Profiles { // each profile file right after the file it belongs to, in --profile order
			apply(bf.path+"."+p, bf.tag+"-"+p)
		}
	}
	for k, v := range overridesFor(w.Override) {
		switch k {
		case "build.nonce":
			nonce, nonceSet = v, true
		case "please.defaultrepo":
			repo, repoSet = v, true
		case "parse.buildfilename":
			bfn.list, bfn.touched = strings.Split(v, ","), true
		case "parse.blacklistdirs":
			bld.list, bld.touched = strings.Split(v, ","), true
		}
	}
	// documented defaults apply only to options that no source sets
	if !nonceSet {
		nonce = "1402"
	}
	_ = repoSet
	v := values{Nonce: nonce, DefaultRepo: repo, BuildFileName: bfn.list, BlacklistDirs: bld.list}
	if !bfn.touched {
		v.BuildFileName = []string{"BUILD", "BUILD.plz"}
		// Only blank resets and no value anywhere: the statement does not say whether a bare reset "sets" the option;
		// both the default and the empty list are accepted.
		v.BuildFileNameEitherEmpty = bfn.blanked
	}
	return v
}

func realRun(w *witness) (values, string) {
	m := memFS{}
	for _, s := range allFiles(w.OnDisk) {
		if st, ok := w.Files[s.path]; ok && st != absent {
			m[s.path] = content(st, s.tag)
		}
	}
	profs := make([]core.ConfigProfile, len(w.Profiles))
	for i, p := range w.Profiles {
		profs[i] = core.ConfigProfile(p)
	}
	cfg, err := core.ReadDefaultConfigFiles(m, profs)
	if err != nil {
		return values{}, "ReadDefaultConfigFiles: " + err.Error()
	}
	if err := cfg.ApplyOverrides(overridesFor(w.Override)); err != nil {
		return values{}, "ApplyOverrides: " + err.Error()
	}
	return values{Nonce: cfg.Build.Nonce, DefaultRepo: cfg.Please.DefaultRepo, BuildFileName: cfg.Parse.BuildFileName, BlacklistDirs: cfg.Parse.BlacklistDirs}, ""
}

func eqList(a, b []string) bool {
	if len(a) == 0 && len(b) == 0 {
		return true
	}
	return reflect.DeepEqual(a, b)
}

// diff returns the option that differs and a class for it.
func diff(w *witness, want, got values, errStr string) (option, class, detail string) {
	if errStr != "" {
		return "error", "config:error-reading-valid-files", errStr
	}
	ov := "files"
	if w.Override != "none" {
		ov = "override"
	}
	switch {
	case want.Nonce != got.Nonce:
		return "build.nonce", "config:single-valued-with-default(build.nonce):wrong-" + ov + "-precedence", fmt.Sprintf("build.nonce = %q, expected %q", got.Nonce, want.Nonce)
	case want.DefaultRepo != got.DefaultRepo:
		return "please.defaultrepo", "config:single-valued(please.defaultrepo):wrong-" + ov + "-precedence", fmt.Sprintf("please.defaultrepo = %q, expected %q", got.DefaultRepo, want.DefaultRepo)
	case !eqList(want.BlacklistDirs, got.BlacklistDirs):
		return "parse.blacklistdirs", "config:repeated(parse.blacklistdirs):wrong-" + ov + "-accumulation", fmt.Sprintf("parse.blacklistdirs = %q, expected %q", got.BlacklistDirs, want.BlacklistDirs)
	case !eqList(want.BuildFileName, got.BuildFileName) && !(want.BuildFileNameEitherEmpty && len(got.BuildFileName) == 0):
		d := fmt.Sprintf("parse.buildfilename = %q, expected %q", got.BuildFileName, want.BuildFileName)
		if len(want.BuildFileName) == 0 && eqList(got.BuildFileName, []string{"BUILD", "BUILD.plz"}) {
			return "parse.buildfilename", "config:repeated-with-default(parse.buildfilename):default-reapplied-after-value-then-blank-reset(setDefault-on-empty-slice)", d
		}
		return "parse.buildfilename", "config:repeated-with-default(parse.buildfilename):wrong-" + ov + "-accumulation", d
	}
	return "", "", ""
}

type foundT struct {
	count  int
	key    string
	w      witness
	detail string
}

var (
	foundMu sync.Mutex
	found   = map[string]*foundT{}
)

func sizeKey(w *witness) string {
	paths := make([]string, 0, len(w.Files))
	sum := 0
	for p, s := range w.Files {
		paths = append(paths, fmt.Sprintf("%s=%d", p, s))
		sum += s
	}
	sort.Strings(paths)
	ov := map[string]int{"none": 0, "all": 1, "comma": 2}[w.Override]
	maxState := 0
	for _, s := range w.Files {
		if s > maxState {
			maxState = s
		}
	}
	return fmt.Sprintf("%d|%02d|%d|%d|%02d|%d|%s", maxState, len(w.Files), len(w.Profiles), len(w.OnDisk), sum, ov, strings.Join(paths, ","))
}

// improves says whether w would become the recorded (smallest) witness of class; only those are re-run for determinism.
func improves(class string, w *witness) bool {
	k := sizeKey(w)
	foundMu.Lock()
	defer foundMu.Unlock()
	f := found[class]
	return f == nil || k < f.key
}

func record(class string, w witness, detail string) {
	k := sizeKey(&w)
	foundMu.Lock()
	defer foundMu.Unlock()
	f := found[class]
	if f == nil {
		found[class] = &foundT{count: 1, key: k, w: w, detail: detail}
		return
	}
	f.count++
	if k < f.key {
		f.key, f.w, f.detail = k, w, detail
	}
}

func flush(r *lib.Run) {
	for class, f := range found {
		f.w.Legend = stateNames
		r.Violate(class, f.w, f.detail)
		for i := 1; i < f.count; i++ {
			r.Violate(class, nil, "")
		}
	}
}

func checkCase(w witness) bool {
	want := reference(&w)
	got, errStr := realRun(&w)
	opt, class, detail := diff(&w, want, got, errStr)
	if class == "" {
		return true
	}
	if !improves(class, &w) {
		record(class, w, detail) // counts only
		return false
	}
	got2, err2 := realRun(&w)
	if err2 != errStr || !reflect.DeepEqual(got, got2) {
		lib.Fatal("HARNESS-NONDETERMINISM C39 %+v: %+v / %+v", w, got, got2)
	}
	w.Option = opt
	// copy the map: the caller reuses it
	files := make(map[string]int, len(w.Files))
	for k, v := range w.Files {
		files[k] = v
	}
	w.Files = files
	record(class, w, detail)
	return false
}

type space struct {
	name     string
	onDisk   []string
	profiles []string
	states   []int
	override []string
	maxFiles int // only assignments with at most this many existing files (0 = no bound)
}

func pow(b, e int) int64 {
	r := int64(1)
	for i := 0; i < e; i++ {
		r *= int64(b)
	}
	return r
}

func main() {
	r := lib.Start("C39", "exploration")
	lib.Quiet()
	// Pin the process environment the file list depends on.
	os.Setenv("HOME", home)
	os.Unsetenv("XDG_CONFIG_DIRS")
	os.Unsetenv("XDG_CONFIG_HOME")
	core.RepoRoot = repoRoot
	r.Assume = []string{
		"XDG_CONFIG_DIRS / XDG_CONFIG_HOME are unset (the statement names five files); HOME=/h, RepoRoot=/r, files live in an in-memory io/fs.FS handed to the real ReadDefaultConfigFiles",
		"tracked options: build.nonce (single, documented default 1402), please.defaultrepo (single, no default), parse.buildfilename (repeated, documented default BUILD, BUILD.plz), parse.blacklistdirs (repeated, no default)",
		"a blank value is gcfg's 'variable name without = and value'; once some source has given a repeated option a value the option counts as set, so after a later blank reset the effective list is empty and the documented default must not come back; if the only mentions are bare blank resets both the default and the empty list are accepted (statement silent)",
		"profile files of a profile that is not passed with --profile must be ignored; several profiles apply in --profile order right after the file they belong to",
		"-o overrides are applied with Configuration.ApplyOverrides after reading, as src/please.go:readConfig does",
	}

	if r.Replay != "" {
		var w witness
		lib.LoadReplay(r.Replay, &w)
		w.Option, w.Legend = "", nil
		checkCase(w)
		flush(r)
		r.Finish(lib.Coverage{Evaluations: 1, DistinctNontrivial: 1, Rule: "replay", Samples: []any{w}, Exhaustive: true})
	}

	two := []int{absent, setsValue}
	three := []int{absent, setsValue, blankOnly}
	five := []int{absent, setsValue, blankOnly, blankValue, valueBlank}
	p1, p2 := []string{"p"}, []string{"p", "q"}
	var spaces []space
	if r.Quick() {
		spaces = []space{
			{"no-profile-files:5-states", nil, nil, five, []string{"none", "all", "comma"}, 0},
			{"profile-active:2-states", p1, p1, two, []string{"none", "all"}, 0},
			{"profile-active:3-states:<=4-files", p1, p1, three, []string{"none"}, 4},
			{"profile-files-present-but-inactive:2-states", p1, nil, two, []string{"none"}, 0},
		}
	} else {
		spaces = []space{
			{"no-profile-files:5-states", nil, nil, five, []string{"none", "all", "comma"}, 0},
			{"profile-active:3-states", p1, p1, three, []string{"none", "all", "comma"}, 0},
			{"profile-files-present-but-inactive:3-states", p1, nil, three, []string{"none"}, 0},
			{"profile-active:5-states:<=4-files", p1, p1, five, []string{"none"}, 4},
			{"two-profiles-active:2-states", p2, p2, two, []string{"none"}, 0},
			{"two-profiles-active:3-states:<=4-files", p2, p2, three, []string{"none"}, 4},
			{"two-profiles-reverse-order:2-states", p2, []string{"q", "p"}, two, []string{"none", "all"}, 0},
			{"two-profiles-one-active:2-states", p2, []string{"q"}, two, []string{"none"}, 0},
		}
	}

	var evals, nontrivial int64
	var samples lib.Samples
	exhaustive := true
	perSpace := map[string]int64{}
	for _, sp := range spaces {
		files := allFiles(sp.onDisk)
		n := len(files)
		total := pow(len(sp.states), n)
		var next int64
		const chunk = 512
		var wg sync.WaitGroup
		var spEvals int64
		for wk := 0; wk < runtime.NumCPU(); wk++ {
			wg.Add(1)
			go func() {
				defer wg.Done()
				fm := map[string]int{}
				for {
					lo := atomic.AddInt64(&next, chunk) - chunk
					if lo >= total || r.OutOfTime() {
						return
					}
					for c := lo; c < lo+chunk && c < total; c++ {
						for k := range fm {
							delete(fm, k)
						}
						x := c
						nonAbsent := 0
						for i := 0; i < n; i++ {
							st := sp.states[x%int64(len(sp.states))]
							x /= int64(len(sp.states))
							if st != absent {
								fm[files[i].path] = st
								nonAbsent++
							}
						}
						if sp.maxFiles > 0 && nonAbsent > sp.maxFiles {
							continue
						}
						for _, ov := range sp.override {
							w := witness{Profiles: sp.profiles, OnDisk: sp.onDisk, Files: fm, Override: ov}
							e := atomic.AddInt64(&evals, 1)
							atomic.AddInt64(&spEvals, 1)
							if nonAbsent >= 2 {
								atomic.AddInt64(&nontrivial, 1)
							}
							if e%50021 == 1 {
								cp := map[string]int{}
								for k, v := range fm {
									cp[k] = v
								}
								samples.Add(func() any {
									return witness{Profiles: sp.profiles, OnDisk: sp.onDisk, Files: cp, Override: ov, Legend: stateNames}
								})
							}
							checkCase(w)
						}
					}
				}
			}()
		}
		wg.Wait()
		perSpace[sp.name] = spEvals
		if r.Capped {
			exhaustive = false
			break
		}
	}
	flush(r)
	r.Finish(lib.Coverage{
		Evaluations:        int(evals),
		DistinctNontrivial: int(nontrivial),
		Rule:               "every assignment of a state to every config file of the space (distinct by construction) x override kind; non-trivial = at least two files exist, so that layering matters",
		Samples:            samples.List(),
		Exhaustive:         exhaustive,
		Extra:              map[string]any{"evaluations_per_space": perSpace, "state_legend": stateNames},
	})
}

// C27: coverage aggregation does not depend on test completion order.
//
// Part 1 (MergeCoverageLines): every multiset of k coverage vectors over the four line states up to a bounded
// length is folded with the real core.MergeCoverageLines in every order; all orders must agree with each other and
// with the pointwise maximum (length-extended) reference; merging an already merged vector again changes nothing.
//
// Part 2 (TestCoverage.Aggregate): every multiset of k "finished test runs" (label x per-file vectors) is reported
// through the real completion path core.BuildState.LogTestResult (which calls state.Coverage.Aggregate under the
// progress mutex) in every completion order; the aggregated Files and the per-test Tests sections must be the same
// for every order, Files must be the pointwise best state, and re-reporting a run must change nothing.
package main

import (
	"fmt"
	"runtime"
	"sort"
	"strings"
	"sync"
	"sync/atomic"

	"github.com/thought-machine/please/src/core"
	"github.com/thought-machine/please/verifharness/lib"
)

const states = "NXUC" // NotExecutable, Unreachable, Uncovered, Covered (enum order)

type run struct {
	Label string            `json:"label"`
	Files map[string]string `json:"files"` // file -> vector over NXUC
}

type witness struct {
	Kind string   `json:"kind"` // "merge" or "aggregate"
	Vecs []string `json:"vecs,omitempty"`
	Runs []run    `json:"runs,omitempty"`
}

func toLines(s string) []core.LineCoverage {
	if s == "" {
		return nil
	}
	out := make([]core.LineCoverage, len(s))
	for i := range s {
		out[i] = core.LineCoverage(strings.IndexByte(states, s[i]))
	}
	return out
}

func fromLines(l []core.LineCoverage) string {
	b := make([]byte, len(l))
	for i, x := range l {
		if int(x) >= len(states) {
			b[i] = '?'
		} else {
			b[i] = states[x]
		}
	}
	return string(b)
}

// refMax is the reference: pointwise maximum in enum order, the shorter vector extended by the longer one's tail.
func refMax(vs ...string) string {
	n := 0
	for _, v := range vs {
		if len(v) > n {
			n = len(v)
		}
	}
	out := make([]byte, n)
	for i := range out {
		best := -1
		for _, v := range vs {
			if i < len(v) {
				if k := strings.IndexByte(states, v[i]); k > best {
					best = k
				}
			}
		}
		out[i] = states[best]
	}
	return string(out)
}

func vectors(maxLen int) []string {
	out := []string{""}
	prev := []string{""}
	for l := 1; l <= maxLen; l++ {
		var cur []string
		for _, p := range prev {
			for i := 0; i < len(states); i++ {
				cur = append(cur, p+string(states[i]))
			}
		}
		out = append(out, cur...)
		prev = cur
	}
	return out
}

// permutations calls f with every distinct ordering of 0..n-1 given equality classes key[i].
func permutations(n int, key []int, f func([]int)) {
	idx := make([]int, 0, n)
	used := make([]bool, n)
	var rec func()
	rec = func() {
		if len(idx) == n {
			f(idx)
			return
		}
		seen := map[int]bool{}
		for i := 0; i < n; i++ {
			if used[i] || seen[key[i]] {
				continue
			}
			seen[key[i]] = true
			used[i] = true
			idx = append(idx, i)
			rec()
			idx = idx[:len(idx)-1]
			used[i] = false
		}
	}
	rec()
}

// checkMerge returns (class, detail) or "".
func checkMerge(vecs []string) (string, string, int) {
	want := refMax(vecs...)
	key := make([]int, len(vecs))
	ids := map[string]int{}
	for i, v := range vecs {
		if _, ok := ids[v]; !ok {
			ids[v] = len(ids)
		}
		key[i] = ids[v]
	}
	class, detail := "", ""
	orders := 0
	fail := func(c, d string) {
		if class == "" {
			class, detail = c, d
		}
	}
	first := ""
	haveFirst := false
	permutations(len(vecs), key, func(order []int) {
		orders++
		var acc []core.LineCoverage
		for _, i := range order {
			in := toLines(vecs[i])
			before := fromLines(acc)
			res := core.MergeCoverageLines(acc, in)
			if fromLines(in) != vecs[i] || fromLines(acc) != before {
				fail("MergeCoverageLines:mutates-argument", fmt.Sprintf("merge(%q,%q) changed an argument", before, vecs[i]))
			}
			acc = res
		}
		got := fromLines(acc)
		if !haveFirst {
			first, haveFirst = got, true
		} else if got != first {
			fail("MergeCoverageLines:order-dependent", fmt.Sprintf("vectors %q: order %v gives %q, first order gave %q", vecs, order, got, first))
		}
		if got != want {
			fail("MergeCoverageLines:not-best-state", fmt.Sprintf("vectors %q in order %v merge to %q, pointwise best state is %q", vecs, order, got, want))
		}
		// merging any of the runs again changes nothing
		for _, v := range vecs {
			if again := fromLines(core.MergeCoverageLines(acc, toLines(v))); again != got {
				fail("MergeCoverageLines:not-idempotent", fmt.Sprintf("merged %q; merging %q again gives %q", got, v, again))
			}
		}
	})
	if len(vecs) == 2 { // the direct two-argument form as well (no nil accumulator)
		ab := fromLines(core.MergeCoverageLines(toLines(vecs[0]), toLines(vecs[1])))
		ba := fromLines(core.MergeCoverageLines(toLines(vecs[1]), toLines(vecs[0])))
		if ab != ba {
			fail("MergeCoverageLines:order-dependent", fmt.Sprintf("merge(%q,%q)=%q but merge(%q,%q)=%q", vecs[0], vecs[1], ab, vecs[1], vecs[0], ba))
		}
	}
	return class, detail, orders
}

// ---- part 2 ---------------------------------------------------------------------------------------------------

type aggEnv struct {
	state   *core.BuildState
	targets map[string]*core.BuildTarget
}

func newAggEnv() *aggEnv {
	e := &aggEnv{state: core.NewDefaultBuildState(), targets: map[string]*core.BuildTarget{}}
	for _, l := range []string{"t1", "t2"} {
		e.targets[l] = core.NewBuildTarget(core.NewBuildLabel("pkg", l))
	}
	return e
}

func (e *aggEnv) report(r run) {
	t := e.targets[r.Label]
	cov := core.NewTestCoverage()
	for f, v := range r.Files {
		cov.Files[f] = toLines(v)
	}
	cov.Tests[t.Label] = cov.Files // exactly what every coverage parser in src/test does
	e.state.LogTestResult(t, 1, core.TargetTested, &core.TestSuite{}, cov, nil, "ok")
}

func (e *aggEnv) reset() {
	e.state.Coverage = core.TestCoverage{Files: map[string][]core.LineCoverage{}} // as in NewBuildState
}

func snapFiles(m map[string][]core.LineCoverage) string {
	keys := make([]string, 0, len(m))
	for k := range m {
		keys = append(keys, k)
	}
	sort.Strings(keys)
	var b strings.Builder
	for _, k := range keys {
		fmt.Fprintf(&b, "%s=%s;", k, fromLines(m[k]))
	}
	return b.String()
}

func (e *aggEnv) snap() (files, tests string) {
	files = snapFiles(e.state.Coverage.Files)
	labels := make([]string, 0)
	byName := map[string]map[string][]core.LineCoverage{}
	for l, m := range e.state.Coverage.Tests {
		labels = append(labels, l.Name)
		byName[l.Name] = m
	}
	sort.Strings(labels)
	var b strings.Builder
	for _, l := range labels {
		fmt.Fprintf(&b, "%s{%s}", l, snapFiles(byName[l]))
	}
	return files, b.String()
}

func runKey(r run) string {
	fs := make([]string, 0, len(r.Files))
	for f, v := range r.Files {
		fs = append(fs, f+"="+v)
	}
	sort.Strings(fs)
	return r.Label + "|" + strings.Join(fs, ";")
}

func sameLabelTwice(runs []run) bool {
	seen := map[string]string{}
	for _, r := range runs {
		k := runKey(r)
		if prev, ok := seen[r.Label]; ok && prev != k {
			return true
		}
		seen[r.Label] = k
	}
	return false
}

func (e *aggEnv) checkAggregate(runs []run) (class, detail string, orders, calls int) {
	fail := func(c, d string) {
		if class == "" {
			class, detail = c, d
		} else if c == class && strings.HasPrefix(d, "completion order") && !strings.HasPrefix(detail, "completion order") {
			detail = d // the order-dependence message is the more telling one for the same cause
		}
	}
	key := make([]int, len(runs))
	ids := map[string]int{}
	for i, r := range runs {
		k := runKey(r)
		if _, ok := ids[k]; !ok {
			ids[k] = len(ids)
		}
		key[i] = ids[k]
	}
	// reference for Files
	perFile := map[string][]string{}
	for _, r := range runs {
		for f, v := range r.Files {
			perFile[f] = append(perFile[f], v)
		}
	}
	wantM := map[string][]core.LineCoverage{}
	for f, vs := range perFile {
		wantM[f] = toLines(refMax(vs...))
	}
	wantFiles := snapFiles(wantM)
	dupLabel := sameLabelTwice(runs)
	testsClass := "Aggregate:Tests:order-dependent"
	if dupLabel {
		testsClass = "Aggregate:Tests[label]:overwrite:same-label-reports-twice:last-finisher-wins"
	}
	var firstFiles, firstTests string
	have := false
	permutations(len(runs), key, func(order []int) {
		orders++
		e.reset()
		for _, i := range order {
			e.report(runs[i])
			calls++
		}
		files, tests := e.snap()
		if !have {
			firstFiles, firstTests, have = files, tests, true
		} else {
			if files != firstFiles {
				fail("Aggregate:Files:order-dependent", fmt.Sprintf("completion order %v gives files %s, first order gave %s", order, files, firstFiles))
			}
			if tests != firstTests {
				fail(testsClass, fmt.Sprintf("completion order %v gives per-test coverage %s, first order gave %s", order, tests, firstTests))
			}
		}
		if files != wantFiles {
			fail("Aggregate:Files:not-best-state", fmt.Sprintf("completion order %v gives files %s, best state per line is %s", order, files, wantFiles))
		}
		// idempotence: the same run reported once more changes nothing
		for _, i := range order {
			e.report(runs[i])
			calls++
			f2, t2 := e.snap()
			if f2 != files {
				fail("Aggregate:Files:not-idempotent", fmt.Sprintf("after order %v, reporting run %d again changes files %s -> %s", order, i, files, f2))
			}
			if t2 != tests {
				c := "Aggregate:Tests:not-idempotent"
				if dupLabel {
					c = testsClass
				}
				fail(c, fmt.Sprintf("after order %v, reporting run %d again changes per-test coverage %s -> %s", order, i, tests, t2))
			}
			files, tests = f2, t2
		}
	})
	return
}

func runAlphabet(vecs []string) []run {
	var out []run
	opts := append([]string{"-"}, vecs...) // "-" = file absent from this run
	for _, l := range []string{"t1", "t2"} {
		for _, f := range opts {
			for _, g := range opts {
				if f == "-" && g == "-" {
					continue
				}
				r := run{Label: l, Files: map[string]string{}}
				if f != "-" {
					r.Files["f.go"] = f
				}
				if g != "-" {
					r.Files["g.go"] = g
				}
				out = append(out, r)
			}
		}
	}
	// simplest first: fewer files, shorter vectors
	sort.SliceStable(out, func(i, j int) bool {
		size := func(r run) int {
			n := 0
			for _, v := range r.Files {
				if v == "" {
					n += 4 // a zero-line file is the odd case: after the one- and two-line vectors
				} else {
					n += 1 + len(v)
				}
			}
			return n
		}
		return size(out[i]) < size(out[j])
	})
	return out
}

// multisets enumerates index multisets i0<=i1<=...<=ik-1 over n items.
func multisets(n, k int, f func([]int)) {
	idx := make([]int, k)
	var rec func(pos, from int)
	rec = func(pos, from int) {
		if pos == k {
			f(idx)
			return
		}
		for i := from; i < n; i++ {
			idx[pos] = i
			rec(pos+1, i)
		}
	}
	rec(0, 0)
}

// minViol keeps, per class, the violation with the smallest enumeration index of a space (deterministic minimal witness
// although the space is explored by parallel workers).
type minViol struct {
	mu sync.Mutex
	m  map[string]*mv
}
type mv struct {
	idx    int
	w      witness
	detail string
	count  int
}

func (m *minViol) add(class string, idx int, w witness, detail string) {
	m.mu.Lock()
	defer m.mu.Unlock()
	if m.m == nil {
		m.m = map[string]*mv{}
	}
	v := m.m[class]
	if v == nil {
		m.m[class] = &mv{idx, w, detail, 1}
		return
	}
	v.count++
	if idx < v.idx {
		v.idx, v.w, v.detail = idx, w, detail
	}
}

func (m *minViol) flush(r *lib.Run) {
	classes := make([]string, 0, len(m.m))
	for c := range m.m {
		classes = append(classes, c)
	}
	sort.Strings(classes)
	for _, c := range classes {
		v := m.m[c]
		r.Violate(c, v.w, v.detail)
		for i := 1; i < v.count; i++ {
			r.Violate(c, nil, "")
		}
	}
	m.m = nil
}

func main() {
	r := lib.Start("C27", "model_checking")
	lib.Quiet()
	if r.Replay != "" {
		var w witness
		lib.LoadReplay(r.Replay, &w)
		if w.Kind == "merge" {
			if c, d, _ := checkMerge(w.Vecs); c != "" {
				r.Violate(c, w, d)
			}
		} else {
			if c, d, _, _ := newAggEnv().checkAggregate(w.Runs); c != "" {
				r.Violate(c, w, d)
			}
		}
		r.Finish(lib.Coverage{Evaluations: 1, DistinctNontrivial: 1, Rule: "replay", Samples: []any{w}, Exhaustive: true})
	}

	var evals, nontrivial, orders, calls, subsets int64
	var samples lib.Samples
	exhaustive := true
	ncpu := runtime.NumCPU()
	var found minViol

	// ---- part 1
	type mspace struct{ maxLen, k int }
	mspaces := []mspace{{2, 1}, {2, 2}, {2, 3}}
	if !r.Quick() {
		mspaces = append(mspaces, mspace{3, 2}, mspace{3, 3}, mspace{2, 4})
	}
	for _, sp := range mspaces {
		vs := vectors(sp.maxLen)
		var work [][]int
		multisets(len(vs), sp.k, func(idx []int) { work = append(work, append([]int{}, idx...)) })
		var next int64
		var wg sync.WaitGroup
		for w := 0; w < ncpu; w++ {
			wg.Add(1)
			go func() {
				defer wg.Done()
				for {
					i := int(atomic.AddInt64(&next, 1) - 1)
					if i >= len(work) || r.OutOfTime() {
						return
					}
					vecs := make([]string, sp.k)
					distinct := map[string]bool{}
					for j, x := range work[i] {
						vecs[j] = vs[x]
						distinct[vs[x]] = true
					}
					atomic.AddInt64(&evals, 1)
					if len(distinct) > 1 {
						atomic.AddInt64(&nontrivial, 1)
					}
					if i%997 == 0 {
						samples.Add(func() any { return witness{Kind: "merge", Vecs: vecs} })
					}
					c, d, o := checkMerge(vecs)
					atomic.AddInt64(&orders, int64(o))
					atomic.AddInt64(&subsets, int64(1)<<uint(sp.k))
					if c != "" {
						if c2, _, _ := checkMerge(vecs); c2 != c {
							lib.Fatal("HARNESS-NONDETERMINISM merge %q: %s then %s", vecs, c, c2)
						}
						found.add(c, i, witness{Kind: "merge", Vecs: vecs}, d)
					}
				}
			}()
		}
		wg.Wait()
		found.flush(r)
		if r.Capped {
			exhaustive = false
		}
	}

	// ---- part 2
	type aspace struct {
		maxLen, k int
		vecs      []string // instead of every vector up to maxLen
	}
	// vectors whose lengths straddle the allocator's size classes (a stored vector of length 1..8 has capacity 8, of 9..16 has 16):
	// a later, longer report may or may not fit the spare capacity of an earlier one
	lengths := []string{"C", "UC", "NUC", "CUNCU", "XXXXXXXC", "UUUUUUUUC", "NNNNNNNNNNNNNNNNC"}
	aspaces := []aspace{{1, 1, nil}, {1, 2, nil}, {1, 3, nil}, {0, 2, lengths}}
	if !r.Quick() {
		aspaces = append(aspaces, aspace{2, 2, nil}, aspace{0, 3, lengths[:5]})
	}
	for _, sp := range aspaces {
		if r.Capped {
			break
		}
		vs := sp.vecs
		if vs == nil {
			vs = vectors(sp.maxLen)
		}
		alpha := runAlphabet(vs)
		var work [][]int
		multisets(len(alpha), sp.k, func(idx []int) { work = append(work, append([]int{}, idx...)) })
		// simplest first: smallest index sum
		sort.SliceStable(work, func(i, j int) bool {
			si, sj := 0, 0
			for _, x := range work[i] {
				si += x
			}
			for _, x := range work[j] {
				sj += x
			}
			return si < sj
		})
		var next int64
		var wg sync.WaitGroup
		for w := 0; w < ncpu; w++ {
			wg.Add(1)
			go func() {
				defer wg.Done()
				env := newAggEnv()
				for {
					i := int(atomic.AddInt64(&next, 1) - 1)
					if i >= len(work) || r.OutOfTime() {
						return
					}
					runs := make([]run, sp.k)
					distinct := map[int]bool{}
					for j, x := range work[i] {
						runs[j] = alpha[x]
						distinct[x] = true
					}
					atomic.AddInt64(&evals, 1)
					if len(distinct) > 1 {
						atomic.AddInt64(&nontrivial, 1)
					}
					if i%4999 == 0 {
						samples.Add(func() any { return witness{Kind: "aggregate", Runs: runs} })
					}
					c, d, o, n := env.checkAggregate(runs)
					atomic.AddInt64(&orders, int64(o))
					atomic.AddInt64(&calls, int64(n))
					atomic.AddInt64(&subsets, int64(1)<<uint(sp.k))
					if c != "" {
						if !r.HasViolation(c) {
							if c2, _, _, _ := env.checkAggregate(runs); c2 != c {
								lib.Fatal("HARNESS-NONDETERMINISM aggregate %v: %s then %s", runs, c, c2)
							}
						}
						found.add(c, i, witness{Kind: "aggregate", Runs: runs}, d)
					}
				}
			}()
		}
		wg.Wait()
		found.flush(r)
		if r.Capped {
			exhaustive = false
		}
	}

	r.Assume = []string{
		"'best state' is the maximum in the enum order NotExecutable < Unreachable < Uncovered < Covered used by core.LineCoverage",
		"completion order is modelled as the order of core.BuildState.LogTestResult calls (they are serialised by progress.mutex, so every concurrent completion is equivalent to one of the enumerated orders)",
		"a finished run carries Tests[label] = Files, as every coverage parser in src/test produces; the same label may finish more than once (--num_runs > 1, flaky retries)",
		"for the per-test section only order-independence and idempotence are demanded, not a particular merged value",
	}
	r.Finish(lib.Coverage{
		Evaluations:        int(evals),
		DistinctNontrivial: int(nontrivial),
		Rule:               "part 1: every multiset of k<=3 (thorough: also k=4, and length<=3 for k<=3) vectors over {N,X,U,C} of length<=2 folded by MergeCoverageLines in every distinct order; part 2: every multiset of k<=3 finished runs (2 labels x files f.go/g.go each absent or a vector of length<=1; thorough also k=2 with length<=2) reported through LogTestResult in every distinct completion order plus a re-report of every run; non-trivial = the multiset contains at least two different members",
		Samples:            samples.List(),
		States:             int(subsets),
		Transitions:        int(calls),
		TracesValidated:    int(orders),
		Exhaustive:         exhaustive,
		Extra:              map[string]any{"orders_executed": orders, "aggregate_calls": calls},
	})
}

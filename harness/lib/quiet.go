package lib

import (
	logging "gopkg.in/op/go-logging.v1"
)

// Quiet silences the repository's logger below CRITICAL (log.Fatal still prints and exits).
func Quiet() {
	logging.SetLevel(logging.CRITICAL, "")
	logging.SetLevel(logging.CRITICAL, "plz")
}

// Package lib is the common contract of every check: flags, evidence, known findings, violations.
package lib

import (
	"crypto/sha1"
	"encoding/hex"
	"encoding/json"
	"flag"
	"fmt"
	"os"
	"path/filepath"
	"sort"
	"strconv"
	"strings"
	"sync"
	"time"
)

// VerifRoot is where the framework lives.
var VerifRoot = func() string {
	if v := os.Getenv("VERIF_ROOT"); v != "" {
		return v
	}
	return "/verif"
}()

// A Finding is one entry of known_findings.json.
type Finding struct {
	Property string `json:"property"`
	Kind     string `json:"kind"` // "known" or "fixed"
	Class    string `json:"class"`
	Witness  any    `json:"witness,omitempty"`
	Site     string `json:"site,omitempty"`
	Commit   string `json:"commit,omitempty"`
	Note     string `json:"note,omitempty"`
}

// A Violation is one failing case, classified by Class (the call site / cause and shape of the minimal witness).
type Violation struct {
	Class   string `json:"class"`
	Witness any    `json:"witness"`
	Detail  string `json:"detail"`
}

// Run is the state of one check run.
type Run struct {
	ID     string
	Tier   string
	Seed   int
	Level  string
	Replay string
	start  time.Time

	mu         sync.Mutex
	violations map[string]*Violation // first (smallest) per class
	vcount     map[string]int
	known      map[string]Finding
	Assume     []string
	deadline   time.Time
	Capped     bool
}

// Start parses the common flags.
func Start(id, level string) *Run {
	r := &Run{ID: id, Level: level, start: time.Now(), violations: map[string]*Violation{}, vcount: map[string]int{}, known: map[string]Finding{}}
	tier := flag.String("tier", os.Getenv("VERIF_TIER"), "quick|thorough")
	replay := flag.String("replay", "", "replay a violation artefact")
	budget := flag.Duration("budget", 0, "internal time budget (0 = tier default)")
	flag.Parse()
	r.Tier = *tier
	if r.Tier != "thorough" {
		r.Tier = "quick"
	}
	r.Replay = *replay
	r.Seed, _ = strconv.Atoi(os.Getenv("VERIF_SEED"))
	b := *budget
	if b == 0 {
		if r.Tier == "quick" {
			b = 4 * time.Minute
		} else {
			b = 40 * time.Minute
		}
	}
	r.deadline = r.start.Add(b)
	data, err := os.ReadFile(filepath.Join(VerifRoot, "known_findings.json"))
	if err == nil {
		var fs []Finding
		if err := json.Unmarshal(data, &fs); err != nil {
			fmt.Fprintf(os.Stderr, "known_findings.json: %s\n", err)
			os.Exit(2)
		}
		for _, f := range fs {
			if f.Property == id && f.Kind == "known" {
				r.known[f.Class] = f
			}
		}
	}
	return r
}

// Quick reports whether this is the quick tier.
func (r *Run) Quick() bool { return r.Tier == "quick" }

// OutOfTime reports whether the internal deadline has passed; callers stop enumerating and set exhaustive=false.
func (r *Run) OutOfTime() bool {
	if time.Now().After(r.deadline) {
		r.Capped = true
		return true
	}
	return false
}

// Violate records a violation of class `class` (the stable identity used for known-finding matching).
func (r *Run) Violate(class string, witness any, detail string) {
	r.mu.Lock()
	defer r.mu.Unlock()
	r.vcount[class]++
	if _, ok := r.violations[class]; !ok {
		r.violations[class] = &Violation{Class: class, Witness: witness, Detail: detail}
	}
}

// HasViolation says whether class has been seen (to let enumerators skip shrinking duplicates).
func (r *Run) HasViolation(class string) bool {
	r.mu.Lock()
	defer r.mu.Unlock()
	_, ok := r.violations[class]
	return ok
}

// KnownClasses returns the classes listed as known findings for this property (sorted): enumerators keep exploring past them.
func (r *Run) KnownClasses() []string {
	var ks []string
	for k := range r.known {
		ks = append(ks, k)
	}
	sort.Strings(ks)
	return ks
}

// NumViolations returns the number of violating classes so far.
func (r *Run) NumViolations() int {
	r.mu.Lock()
	defer r.mu.Unlock()
	return len(r.violations)
}

// Coverage is the evidence coverage block; Extra is merged in.
type Coverage struct {
	Evaluations        int
	DistinctNontrivial int
	Rule               string
	Samples            []any
	States             int
	Transitions        int
	TracesValidated    int
	Exhaustive         bool
	Extra              map[string]any
}

// Finish writes the evidence file, prints KNOWN-FINDING / VIOLATION lines and exits.
func (r *Run) Finish(c Coverage) {
	cov := map[string]any{
		"evaluations":         c.Evaluations,
		"distinct_nontrivial": c.DistinctNontrivial,
		"rule":                c.Rule,
		"samples":             c.Samples,
		"exhaustive":          c.Exhaustive && !r.Capped,
	}
	if r.Capped {
		cov["capped_by_time_budget"] = true
	}
	if c.States > 0 || r.Level == "model_checking" {
		cov["states"] = c.States
		cov["transitions"] = c.Transitions
		cov["traces_validated_against_impl"] = c.TracesValidated
	}
	for k, v := range c.Extra {
		cov[k] = v
	}
	classes := make([]string, 0, len(r.violations))
	for k := range r.violations {
		classes = append(classes, k)
	}
	sort.Strings(classes)
	unlisted := 0
	knownSeen := []string{}
	vdir := filepath.Join(VerifRoot, "out", "violations")
	for _, cl := range classes {
		v := r.violations[cl]
		if f, ok := r.known[cl]; ok {
			fmt.Printf("KNOWN-FINDING: property=%s class=%s count=%d witness=%s (%s)\n", r.ID, cl, r.vcount[cl], compact(v.Witness), f.Note)
			knownSeen = append(knownSeen, cl)
			continue
		}
		unlisted++
		os.MkdirAll(vdir, 0o755)
		sum := sha1.Sum([]byte(cl))
		p := filepath.Join(vdir, fmt.Sprintf("%s-%s.json", r.ID, hex.EncodeToString(sum[:6])))
		b, _ := json.MarshalIndent(map[string]any{"property": r.ID, "class": cl, "witness": v.Witness, "detail": v.Detail, "count": r.vcount[cl]}, "", " ")
		os.WriteFile(p, b, 0o644)
		fmt.Printf("VIOLATION property=%s replay=%s class=%s count=%d detail=%s\n", r.ID, p, cl, r.vcount[cl], oneLine(v.Detail))
	}
	// A known finding that no longer shows is worth a note (not an alarm).
	for cl := range r.known {
		if _, ok := r.violations[cl]; !ok {
			fmt.Printf("NOTE: listed known finding not observed in this run: property=%s class=%s\n", r.ID, cl)
		}
	}
	cov["known_findings_observed"] = knownSeen
	ev := map[string]any{
		"property_id": r.ID,
		"tier":        r.Tier,
		"seed":        r.Seed,
		"level":       r.Level,
		"coverage":    cov,
		"assumptions": r.Assume,
		"wall_s":      time.Since(r.start).Seconds(),
		"violations":  unlisted,
	}
	if r.Assume == nil {
		ev["assumptions"] = []string{}
	}
	b, err := json.MarshalIndent(ev, "", " ")
	if err != nil {
		fmt.Fprintf(os.Stderr, "evidence marshal: %s\n", err)
		os.Exit(2)
	}
	edir := filepath.Join(VerifRoot, "evidence")
	os.MkdirAll(edir, 0o755)
	evName := r.ID + ".json"
	if r.Replay != "" {
		evName = r.ID + ".replay.json" // a replay must not clobber the evidence of the last real run
	}
	if err := os.WriteFile(filepath.Join(edir, evName), append(b, '\n'), 0o644); err != nil {
		fmt.Fprintf(os.Stderr, "evidence write: %s\n", err)
		os.Exit(2)
	}
	fmt.Printf("%s %s: evaluations=%d distinct_nontrivial=%d states=%d transitions=%d exhaustive=%v violations=%d known=%d wall=%.1fs\n",
		r.ID, r.Tier, c.Evaluations, c.DistinctNontrivial, c.States, c.Transitions, cov["exhaustive"], unlisted, len(knownSeen), time.Since(r.start).Seconds())
	if unlisted > 0 {
		os.Exit(1)
	}
	os.Exit(0)
}

func compact(v any) string {
	b, _ := json.Marshal(v)
	s := string(b)
	if len(s) > 300 {
		s = s[:300] + "..."
	}
	return s
}

func oneLine(s string) string {
	s = strings.ReplaceAll(s, "\n", " | ")
	if len(s) > 400 {
		s = s[:400] + "..."
	}
	return s
}

// Samples keeps the first, a middle and the last of a stream of cases.
type Samples struct {
	mu    sync.Mutex
	n     int
	first any
	mid   any
	last  any
	every int
}

// Add offers a case.
func (s *Samples) Add(v func() any) {
	s.mu.Lock()
	defer s.mu.Unlock()
	s.n++
	if s.n == 1 {
		s.first = v()
		return
	}
	// keep a case at power-of-two positions as "mid", always the latest as last (lazily: only every 1024th)
	if s.n&(s.n-1) == 0 {
		s.mid = v()
	}
	if s.n%1024 == 0 || s.n < 1024 {
		s.last = v()
	}
}

// List returns the samples kept.
func (s *Samples) List() []any {
	out := []any{}
	for _, v := range []any{s.first, s.mid, s.last} {
		if v != nil {
			out = append(out, v)
		}
	}
	return out
}

// Fatal ends the run as a harness failure (exit 2), never as a violation.
func Fatal(format string, args ...any) {
	fmt.Fprintf(os.Stderr, "HARNESS-ERROR: "+format+"\n", args...)
	os.Exit(2)
}

// LoadReplay reads a violation artefact.
func LoadReplay(path string, into any) {
	b, err := os.ReadFile(path)
	if err != nil {
		Fatal("replay: %s", err)
	}
	var w struct {
		Witness json.RawMessage `json:"witness"`
	}
	if err := json.Unmarshal(b, &w); err != nil {
		Fatal("replay: %s", err)
	}
	if err := json.Unmarshal(w.Witness, into); err != nil {
		Fatal("replay witness: %s", err)
	}
}

// c11 decides property C11 (test results are reused only when the test's runtime inputs are unchanged) with engine E3:
// breadth-first search over edit histories, every transition one real `plz test`.
package main

import (
	"crypto/sha256"
	"encoding/hex"
	"fmt"
	"os"
	"path/filepath"
	"sort"
	"strings"

	"github.com/thought-machine/please/verifharness/hist"
	"github.com/thought-machine/please/verifharness/lib"
)

type witness struct {
	Family   string   `json:"family"`
	WithDir  bool     `json:"with_dir"`
	WithArgs bool     `json:"with_args,omitempty"`
	Cache    bool     `json:"cache"`
	History  []string `json:"history"`
}

// memory is the oracle bookkeeping of a lineage.
type memory struct {
	Passed map[string]bool // runtime signatures for which an EXECUTED run passed in this lineage
	Wrong  bool            // the predecessor already showed a wrong verdict (violations are attributed to the transition that introduces them)
	Reused bool            // the predecessor already showed a reuse without evidence
}

const noCache = "[cache]\ndir =\n"
const dirCache = "[cache]\ndir = ../cache\ndirclean = false\n"

func plzPath() string {
	if p := os.Getenv("VERIF_PLZ"); p != "" {
		return p
	}
	return filepath.Join(lib.VerifRoot, ".work", "bin", "plz")
}

type run struct {
	fam   hist.TestFam
	depth int
	cache bool
}

func (rn run) config() string {
	if rn.cache {
		return dirCache
	}
	return noCache
}

func main() {
	r := lib.Start("C11", "model_checking")
	root := filepath.Join(lib.VerifRoot, ".work", "hist", "C11")
	if r.Replay != "" {
		root += "-replay"
	}
	os.RemoveAll(root)
	defer os.RemoveAll(root)
	plz := hist.PrivatePlz(plzPath(), filepath.Join(root, "bin"))

	var runs []run
	if r.Quick() {
		runs = []run{
			{hist.TestFam{WithDir: true, WithBin: true, WithNoop: true, WithRm: true}, 2, false},
			{hist.TestFam{WithDir: true, WithBin: true, WithNoop: true, WithRm: true}, 2, true},
			{hist.TestFam{WithArgs: true, WithNoop: true}, 2, false},
		}
	} else {
		runs = []run{
			{hist.TestFam{WithDir: true, WithBin: true, WithNoop: true, WithRm: true}, 4, false},
			{hist.TestFam{WithDir: true, WithBin: true, WithNoop: true, WithRm: true}, 4, true},
			{hist.TestFam{WithArgs: true, WithNoop: true, WithRm: true}, 4, false},
			{hist.TestFam{WithArgs: true, WithNoop: true, WithRm: true}, 3, true},
		}
	}
	if r.Replay != "" {
		var w witness
		lib.LoadReplay(r.Replay, &w)
		replay(r, plz, root, w)
		return
	}
	total := hist.Stats{EditKindsHit: map[string]int{}}
	complete := true
	var samples []any
	cleans := 0
	var first *hist.Engine
	for i, rn := range runs {
		e := hist.NewEngine(plz, filepath.Join(root, fmt.Sprintf("%s-%d", rn.fam.Name(), i)), rn.fam)
		e.CacheOn = rn.cache
		if first != nil {
			e.ShareOracle(first)
		} else {
			first = e
		}
		st := e.BFS(rn.depth, rn.config(), makeVisit(r, e, rn), r.OutOfTime)
		total.States += st.States
		total.Transitions += st.Transitions
		cleans += int(e.Clean)
		if !st.Complete {
			complete = false
		}
		for k, v := range st.EditKindsHit {
			total.EditKindsHit[k] += v
		}
		for _, s := range st.Samples {
			samples = append(samples, witness{Family: rn.fam.Name(), WithDir: rn.fam.WithDir, WithArgs: rn.fam.WithArgs, Cache: rn.cache, History: s})
		}
		fmt.Fprintf(os.Stderr, "C11 %s cache=%v depth=%d: states=%d transitions=%d clean-runs=%d complete=%v\n", rn.fam.Name(), rn.cache, st.DepthDone, st.States, st.Transitions, e.Clean, st.Complete)
		os.RemoveAll(e.Root)
	}
	os.RemoveAll(root) // r.Finish exits the process: deferred clean-up would not run
	r.Assume = []string{
		"plz is run hermetically as the real binary built from the working tree; one transition = one edit + `plz test --plain_output -n 1 //p:all`",
		"a test 'executed' iff its test_cmd appended its label to the action log outside the repository; plz's '[cached]' marker is cross-checked against it",
		"runtime inputs of the test = test_cmd text, test binary (built from t.txt), data file bytes, names inside the data directory, the library's output (data dependency); the test is a deterministic function of them (the fresh-run verdict is additionally compared with the boring model data==ok && lib==ok && bin==ok && cmd!=failing && x.txt exists)",
		"oracle 1: exit status == exit status of `plz test` on the same tree from an empty plz-out without cache (memoised, first trees run twice); oracle 2: a test that did not execute must have an EXECUTED passing run with the same runtime signature earlier in the same lineage",
		"over-execution (re-running a test whose inputs did not change) is not demanded by the statement and is not reported",
	}
	r.Finish(lib.Coverage{
		Evaluations:        total.Transitions,
		DistinctNontrivial: total.States,
		Rule:               "BFS over all edit histories (flip data file, flip dependency source, flip test binary source, three test_cmd texts, rename a file inside the data directory, noop, rm -rf plz-out) up to the stated depth, without and with a directory cache; distinct_nontrivial = distinct (tree, on-disk state, lineage memory)",
		Samples:            samples,
		States:             total.States,
		Transitions:        total.Transitions,
		TracesValidated:    total.Transitions,
		Exhaustive:         complete,
		Extra:              map[string]any{"fresh_runs_for_oracle": cleans, "edit_kinds_that_changed_state": total.EditKindsHit, "runs": len(runs), "confirmation_reruns": hist.Reruns},
	})
}

func hashMem(m memory) string {
	h := sha256.New()
	ks := make([]string, 0, len(m.Passed))
	for k := range m.Passed {
		ks = append(ks, k)
	}
	sort.Strings(ks)
	fmt.Fprintf(h, "%v|%v|%s", m.Wrong, m.Reused, strings.Join(ks, "\n"))
	return hex.EncodeToString(h.Sum(nil)[:8])
}

func makeVisit(r *lib.Run, e *hist.Engine, rn run) hist.Visit {
	return e.Confirmed(makeJudge(e, rn), rn.config(), r.HasViolation,
		func(f hist.Finding, history []string) {
			r.Violate(f.Class, witness{Family: rn.fam.Name(), WithDir: rn.fam.WithDir, WithArgs: rn.fam.WithArgs, Cache: rn.cache, History: history}, f.Detail)
		},
		func(msg string) { lib.Fatal("HARNESS-NONDETERMINISM: %s", msg) })
}

func makeJudge(e *hist.Engine, rn run) hist.Judge {
	fam := rn.fam
	return func(from *hist.State, ed hist.Edit, obs *hist.Obs, dir string) (any, string, []hist.Finding) {
		var fs []hist.Finding
		violate := func(class, detail string) { fs = append(fs, hist.Finding{Class: class, Detail: detail}) }
		mem := memory{Passed: map[string]bool{}}
		if from != nil && from.Extra != nil {
			pm := from.Extra.(memory)
			for k := range pm.Passed {
				mem.Passed[k] = true
			}
			mem.Wrong, mem.Reused = pm.Wrong, pm.Reused
		}
		clean := e.CleanObs(ed.Src, noCache)
		if clean.Exit == -9 || obs.Exit == -9 {
			fmt.Fprintf(os.Stderr, "NOTE: horizon (120s) hit after %s - no verdict for this transition\n", ed.Name)
			return mem, hashMem(mem), fs
		}
		// the fresh run must agree with the boring model, otherwise the family is broken (never a verdict)
		if (clean.Exit != 0 && clean.Exit != 7) || (clean.Exit == 0) != fam.Passes(ed.Src) {
			lib.Fatal("fresh `plz test` of %s exits %d but the model says passes=%v:\n%s", ed.Src.Key(), clean.Exit, fam.Passes(ed.Src), clean.Output)
		}
		executed := 0
		for _, a := range obs.Actions {
			if a == "//p:t" {
				executed++
			}
		}
		sig := fam.RuntimeSig(ed.Src)
		cachedReported := strings.Contains(obs.Output, "[cached]")
		how := "executed"
		if executed == 0 {
			how = "not-executed"
		}
		detail := fmt.Sprintf("dir cache configured: %v; edit %s; incremental exit=%d (%s, plz says cached=%v), fresh run of the same tree exits %d\nactions: %v\nplz output:\n%s", rn.cache, ed.Name, obs.Exit, how, cachedReported, clean.Exit, obs.Actions, obs.Output)
		if executed > 1 {
			violate("test-executed-twice:edit="+ed.Kind, detail)
		}
		if executed > 0 && cachedReported {
			violate("reported-cached-but-executed:edit="+ed.Kind, detail)
		}
		wrong, reused := false, false
		switch {
		case obs.Exit != 0 && obs.Exit != 7:
			wrong = true
			if !mem.Wrong {
				violate(fmt.Sprintf("plz-test-fails-otherwise:edit=%s:exit=%d", ed.Kind, obs.Exit), detail)
			}
		case (obs.Exit == 0) != (clean.Exit == 0):
			wrong = true
			if !mem.Wrong {
				verdict := "pass"
				if obs.Exit != 0 {
					verdict = "fail"
				}
				if verdict == "pass" && executed == 0 {
					// a stale pass: name the runtime inputs in which the tree differs from the nearest executed passing run of the lineage
					// (the root cause is an input the reuse decision did not look at, whichever edit exposed it)
					violate("stale-pass-reused:not-executed:fresh-run-fails:inputs-differing-from-nearest-executed-passing-run="+hist.NearestDiff(sig, mem.Passed), detail)
				} else {
					violate(fmt.Sprintf("verdict-differs-from-fresh-run:edit=%s:incremental=%s:%s", ed.Kind, verdict, how), detail)
				}
			}
		case executed == 0 && !mem.Passed[sig] && !mem.Passed[strings.Replace(sig, "|test-arguments=skip", "|test-arguments=", 1)]:
			// (an invocation restricted by test arguments may reuse a passing run of the whole test; the converse is not allowed)
			reused = true
			if !mem.Reused {
				violate("result-reused-without-passing-run-for-current-inputs:verdict-agrees:inputs-differing-from-nearest-executed-passing-run="+hist.NearestDiff(sig, mem.Passed), detail+"\nno executed passing run with runtime signature "+sig+" exists in this lineage")
			}
		}
		mem.Wrong, mem.Reused = wrong, reused
		if executed > 0 && obs.Exit == 0 {
			mem.Passed[sig] = true
		}
		return mem, hashMem(mem), fs
	}
}

func replay(r *lib.Run, plz, root string, w witness) {
	rn := run{fam: hist.TestFam{WithDir: w.WithDir, WithBin: true, WithNoop: true, WithRm: true}, cache: w.Cache}
	if w.WithArgs {
		rn.fam = hist.TestFam{WithArgs: true, WithNoop: true, WithRm: true}
	}
	e := hist.NewEngine(plz, filepath.Join(root, "replay"), rn.fam)
	e.CacheOn = w.Cache
	visit := makeVisit(r, e, rn)
	var st *hist.State
	src := rn.fam.Initial()
	for i, name := range w.History {
		var ed hist.Edit
		if i == 0 {
			ed = hist.Edit{Name: "init", Src: src, Kind: "init"}
		} else {
			found := false
			for _, c := range rn.fam.Edits(src) {
				if c.Name == name {
					ed, found = c, true
				}
			}
			if !found {
				lib.Fatal("edit %s not applicable", name)
			}
		}
		dir, obs := e.Step(st, ed, rn.config())
		fmt.Printf("== %s: exit=%d actions=%v\n%s", name, obs.Exit, obs.Actions, obs.Output)
		extra, _ := visit(st, ed, obs, dir)
		ns := &hist.State{Src: ed.Src, Snap: dir, Extra: extra, Depth: i}
		if st != nil {
			ns.Hist = append(append([]string{}, st.Hist...), name)
		} else {
			ns.Hist = []string{"init"}
		}
		st, src = ns, ed.Src
	}
	os.RemoveAll(root)
	r.Finish(lib.Coverage{Evaluations: len(w.History), DistinctNontrivial: len(w.History), States: len(w.History), Transitions: len(w.History), TracesValidated: len(w.History), Samples: []any{w}, Exhaustive: true})
}

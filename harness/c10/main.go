// c10 decides property C10 (build actions see a hermetic, fully hashed environment) with engine E3:
// breadth-first search over histories of CALLER-environment changes, every transition one real `plz build`.
package main

import (
	"crypto/sha256"
	"encoding/hex"
	"flag"
	"fmt"
	"os"
	"path/filepath"
	"sort"
	"strings"

	"github.com/thought-machine/please/verifharness/hist"
	"github.com/thought-machine/please/verifharness/lib"
)

type witness struct {
	Family   string   `json:"family"`
	Cfg      string   `json:"cfg"`
	Boundary bool     `json:"boundary,omitempty"`
	History  []string `json:"history"`
}

// lastRun is what the reference remembers per target: the hashed signature and the unsafe values at its last execution.
type lastRun struct {
	Sig    string
	Unsafe map[string]string
	Stale  bool // a missing re-execution was already reported for this target and it has not executed since
}

const noCache = "[cache]\ndir =\n"

func plzPath() string {
	if p := os.Getenv("VERIF_PLZ"); p != "" {
		return p
	}
	return filepath.Join(lib.VerifRoot, ".work", "bin", "plz")
}

func main() {
	onlyFam := flag.String("family", "", "run only the family with this name (e.g. env-none-boundary)")
	r := lib.Start("C10", "model_checking")
	root := filepath.Join(lib.VerifRoot, ".work", "hist", "C10")
	if r.Replay != "" {
		root += "-replay"
	}
	os.RemoveAll(root)
	defer os.RemoveAll(root)
	plz := hist.PrivatePlz(plzPath(), filepath.Join(root, "bin"))
	// stand-in for the external sandbox tool (please_sandbox): runs the command it is given with the environment it received
	hist.FakeSandboxTool = filepath.Join(root, "bin", "fake_sandbox")
	os.WriteFile(hist.FakeSandboxTool, []byte("#!/bin/sh\nexec \"$@\"\n"), 0o755)

	type run struct {
		fam   hist.EnvFam
		depth int
	}
	var runs []run
	if r.Quick() {
		runs = []run{
			{hist.EnvFam{Cfg: "both", Vals: []string{"2", "-", "e"}, WithNoop: true, Sandbox: true}, 2},
			{hist.EnvFam{Cfg: "none", Vals: []string{"2"}, WithRm: true, Sandbox: true}, 2},
			{hist.EnvFam{Cfg: "path", Vals: []string{"2"}, WithPath: true}, 2},
		}
	} else {
		runs = []run{
			{hist.EnvFam{Cfg: "both", Vals: []string{"2", "-"}, WithNoop: true, WithRm: true, Sandbox: true}, 3},
			{hist.EnvFam{Cfg: "unsafe", Vals: []string{"2", "-", "e"}, WithPath: true, WithNoop: true, Sandbox: true}, 2},
			{hist.EnvFam{Cfg: "none", Vals: []string{"2", "-", "e"}, WithPath: true, WithRm: true, Sandbox: true}, 2},
			{hist.EnvFam{Cfg: "none", Boundary: true, WithNoop: true}, 2},
			{hist.EnvFam{Cfg: "path", Vals: []string{"2", "-"}, WithPath: true, WithNoop: true, Sandbox: true}, 2},
		}
	}
	if r.Replay != "" {
		var w witness
		lib.LoadReplay(r.Replay, &w)
		replay(r, plz, root, w)
		return
	}
	total := hist.Stats{EditKindsHit: map[string]int{}}
	complete := true
	var samples []any
	refs := 0
	for _, rn := range runs {
		if *onlyFam != "" && rn.fam.Name() != *onlyFam {
			continue
		}
		e := hist.NewEngine(plz, filepath.Join(root, rn.fam.Name()), rn.fam)
		memo := hist.NewMemo()
		visit := makeVisit(r, e, rn.fam, memo)
		st := e.BFS(rn.depth, noCache+rn.fam.ExtraConfig(), visit, r.OutOfTime)
		total.States += st.States
		total.Transitions += st.Transitions
		refs += int(e.Clean)
		if !st.Complete {
			complete = false
		}
		for k, v := range st.EditKindsHit {
			total.EditKindsHit[k] += v
		}
		for _, s := range st.Samples {
			samples = append(samples, witness{Family: rn.fam.Name(), Cfg: rn.fam.Cfg, Boundary: rn.fam.Boundary, History: s})
		}
		fmt.Fprintf(os.Stderr, "C10 %s depth=%d: states=%d transitions=%d reference-builds=%d complete=%v\n", rn.fam.Name(), st.DepthDone, st.States, st.Transitions, e.Clean, st.Complete)
		os.RemoveAll(e.Root)
	}
	os.RemoveAll(root) // r.Finish exits the process: deferred clean-up would not run
	r.Assume = []string{
		"plz is run hermetically as the real binary built from the working tree; the caller environment is exactly PATH, HOME, LANG, GOMAXPROCS, GOGC (fixed by the engine) + VERIF_MARKER=1 + the FOO/BAR/BAZ/QUX values of the state",
		"pass_unsafe_env is not an argument of build_rule on this tree, so the unsafe variable is configured with [build] passunsafeenv; [build] passenv is exercised as the configuration-level hashed variable",
		"target-level pass_env reads os.Getenv, so an unset and an empty FOO are the same value for //p:f (the command sees FOO= in both cases): no rebuild is demanded between them",
		"entitled environment of a target = what a fresh build prints when the caller sets ONLY the variables passed to that target (differential reference, scratch paths normalised); an unsafe variable shows its value at the target's last execution",
		"no cache directory is configured ([cache] dir blank)",
		"//p:s is a sandboxed target run through an external sandbox tool ([sandbox] tool = a stand-in that executes its arguments with the environment it was given): what the real please_sandbox does to the environment afterwards is outside plz",
	}
	r.Finish(lib.Coverage{
		Evaluations:        total.Transitions,
		DistinctNontrivial: total.States,
		Rule:               "BFS over all histories of caller-environment edits (set/change/unset one of FOO BAR BAZ QUX [PATH], noop, rm -rf plz-out) up to the stated depth; one transition = one real `plz build //p:all`; distinct_nontrivial = distinct (caller env, on-disk state, reference memory)",
		Samples:            samples,
		States:             total.States,
		Transitions:        total.Transitions,
		TracesValidated:    total.Transitions,
		Exhaustive:         complete,
		Extra:              map[string]any{"reference_builds": refs, "edit_kinds_that_changed_state": total.EditKindsHit, "runs": len(runs)},
	})
}

func hashLast(m map[string]lastRun) string {
	h := sha256.New()
	ks := make([]string, 0, len(m))
	for k := range m {
		ks = append(ks, k)
	}
	sort.Strings(ks)
	for _, k := range ks {
		fmt.Fprintf(h, "%s:%s:%v:", k, m[k].Sig, m[k].Stale)
		for _, u := range hist.SortedKeys(m[k].Unsafe) {
			fmt.Fprintf(h, "%s=%s,", u, m[k].Unsafe[u])
		}
	}
	return hex.EncodeToString(h.Sum(nil)[:8])
}

// callerEnv is the complete environment of the plz process for s, with HOME normalised to "@".
func callerEnv(fam hist.EnvFam, s hist.Src) map[string][]string {
	m := map[string][]string{
		"PATH": {"/usr/local/bin:/usr/bin:/bin"}, "HOME": {"@"}, "LANG": {"C"}, "GOMAXPROCS": {"2"}, "GOGC": {"off"},
	}
	for _, kv := range fam.CallerEnv(s) {
		i := strings.IndexByte(kv, '=')
		m[kv[:i]] = []string{kv[i+1:]}
	}
	return m
}

// plzDefines are variables plz sets itself for every command; for these only the caller's VALUE is forbidden.
var plzDefines = map[string]bool{"PATH": true, "HOME": true, "LANG": true}

func makeVisit(r *lib.Run, e *hist.Engine, fam hist.EnvFam, memo *hist.Memo) hist.Visit {
	return e.Confirmed(makeJudge(e, fam, memo), noCache+fam.ExtraConfig(), r.HasViolation,
		func(f hist.Finding, history []string) {
			r.Violate(f.Class, witness{Family: fam.Name(), Cfg: fam.Cfg, Boundary: fam.Boundary, History: history}, f.Detail)
		},
		func(msg string) { lib.Fatal("HARNESS-NONDETERMINISM: %s", msg) })
}

func makeJudge(e *hist.Engine, fam hist.EnvFam, memo *hist.Memo) hist.Judge {
	cfg := noCache + fam.ExtraConfig()
	reference := func(label, out string, ref hist.Src) string {
		return memo.Get(ref.Key(), func() string {
			var got [2]string
			reps := 1
			if memo.Count() < 6 {
				reps = 2
			}
			for i := 0; i < reps; i++ {
				e.RunFresh(ref, cfg, func(dir string, o *hist.Obs) {
					if o.Exit != 0 {
						lib.Fatal("reference build of %s under %s fails:\n%s", label, ref.Key(), o.Output)
					}
					got[i] = hist.ReadNormalised(dir, "repo/"+out)
				})
			}
			if reps == 2 && got[0] != got[1] {
				lib.Fatal("HARNESS-NONDETERMINISM: two reference builds of %s under %s differ:\n%s\n---\n%s", label, ref.Key(), got[0], got[1])
			}
			return got[0]
		})
	}
	return func(from *hist.State, ed hist.Edit, obs *hist.Obs, dir string) (any, string, []hist.Finding) {
		var fs []hist.Finding
		violate := func(class string, _ witness, detail string) {
			fs = append(fs, hist.Finding{Class: class, Detail: detail})
		}
		var histry []string
		if from != nil {
			histry = append(append(histry, from.Hist...), ed.Name)
		} else {
			histry = []string{"init"}
		}
		w := witness{Family: fam.Name(), Cfg: fam.Cfg, History: histry}
		last := map[string]lastRun{}
		if from != nil && from.Extra != nil {
			for k, v := range from.Extra.(map[string]lastRun) {
				last[k] = v
			}
		}
		if obs.Exit == -9 {
			fmt.Fprintf(os.Stderr, "NOTE: horizon (120s) hit on %v - no verdict for this transition\n", histry)
			return last, hashLast(last), fs
		}
		if obs.Exit != 0 {
			if from == nil {
				lib.Fatal("the initial tree of family %s does not build (vacuous scenario):\n%s", fam.Name(), obs.Output)
			}
			violate("build-fails:"+ed.Kind, w, "a build of an unchanged repository fails after a caller-environment change:\n"+obs.Output)
			return last, hashLast(last), fs
		}
		ran := map[string]int{}
		for _, a := range obs.Actions {
			ran[a]++
		}
		removed := ed.Pre != nil
		for _, t := range fam.Targets(ed.Src) {
			sig := fam.HashedSig(t.Label, ed.Src)
			prev, had := last[t.Label]
			if ran[t.Label] > 1 {
				violate("ran-twice:"+t.Label, w, fmt.Sprintf("actions: %v", obs.Actions))
			}
			if ran[t.Label] > 0 {
				if had && prev.Sig == sig && !removed {
					violate(fmt.Sprintf("re-executed-without-hashed-change:cfg=%s:target=%s:edit=%s", fam.Cfg, t.Label, ed.Kind), w,
						fmt.Sprintf("%s was re-executed although neither the repository, the configuration nor any variable listed in pass_env / [build] passenv changed (hashed variables: %q)\nactions: %v", t.Label, sig, obs.Actions))
				}
				uv := map[string]string{}
				for _, v := range fam.Unsafe(t.Label) {
					uv[v] = ed.Src[v]
				}
				last[t.Label] = lastRun{Sig: sig, Unsafe: uv}
			} else if !had || prev.Sig != sig || removed {
				last[t.Label] = lastRun{Sig: sig, Unsafe: prev.Unsafe, Stale: true} // attributed to the transition that introduces it
				violate(fmt.Sprintf("not-re-executed-after-hashed-change:cfg=%s:target=%s:edit=%s", fam.Cfg, t.Label, ed.Kind), w,
					fmt.Sprintf("%s was not executed although a variable it lists in pass_env / [build] passenv changed (%q -> %q) or its output was removed\nactions: %v\n%s", t.Label, prev.Sig, sig, obs.Actions, obs.Output))
			}
			content := hist.ReadNormalised(dir, "repo/"+t.Outs[0])
			lines := hist.EnvLines(content)
			// (1) direct: nothing of the caller that is not passed may be visible
			visible := map[string]bool{}
			for _, v := range append(fam.Hashed(t.Label), fam.Unsafe(t.Label)...) {
				visible[v] = true
			}
			ce := callerEnv(fam, ed.Src)
			ce["PATH"] = append(ce["PATH"], "/usr/local/bin:/usr/bin:/bin:/nonexistent-verif")
			for _, name := range []string{"BAZ", "VERIF_MARKER", "GOMAXPROCS", "GOGC", "FOO", "BAR", "QUX", "GOO", "PATH", "HOME", "LANG"} {
				if visible[name] {
					continue
				}
				val, present := lines[name]
				leak := false
				if plzDefines[name] {
					for _, cv := range ce[name] {
						leak = leak || (present && val == cv)
					}
				} else {
					leak = present
				}
				if leak {
					violate("leak:caller-variable-visible-without-being-passed:var="+name, w,
						fmt.Sprintf("the command of %s sees %s=%q, which is neither listed in pass_env nor in the configuration\noutput:\n%s", t.Label, name, val, content))
				}
			}
			// (2) differential: the printed environment equals what a fresh build prints when the caller sets only the passed variables
			lr, ok := last[t.Label]
			if !ok || (lr.Stale && ran[t.Label] == 0) {
				continue
			}
			want := reference(t.Label, t.Outs[0], fam.RefSrc(t.Label, ed.Src, lr.Unsafe))
			if content != want {
				wl := hist.EnvLines(want)
				names := map[string]bool{}
				for k, v := range lines {
					if wv, ok := wl[k]; !ok || wv != v {
						names[k] = true
					}
				}
				for k := range wl {
					if _, ok := lines[k]; !ok {
						names[k] = true
					}
				}
				how := "executed"
				if ran[t.Label] == 0 {
					how = "not-executed"
				}
				violate(fmt.Sprintf("env-differs-from-entitled:cfg=%s:target=%s:%s:vars=%s", fam.Cfg, t.Label, how, strings.Join(hist.SortedNames(names), ",")), w,
					fmt.Sprintf("after %s the output of %s is not the environment the target is entitled to (fresh build with only the passed variables set)\n--- got\n%s--- want\n%s", ed.Name, t.Label, content, want))
			}
		}
		return last, hashLast(last), fs
	}
}

func replay(r *lib.Run, plz, root string, w witness) {
	fam := hist.EnvFam{Cfg: w.Cfg, Boundary: w.Boundary, Vals: []string{"2", "-", "e"}, WithPath: true, WithNoop: true, WithRm: true, Sandbox: !w.Boundary}
	e := hist.NewEngine(plz, filepath.Join(root, "replay"), fam)
	visit := makeVisit(r, e, fam, hist.NewMemo())
	var st *hist.State
	src := fam.Initial()
	for i, name := range w.History {
		var ed hist.Edit
		if i == 0 {
			ed = hist.Edit{Name: "init", Src: src, Kind: "init"}
		} else {
			found := false
			for _, c := range fam.Edits(src) {
				if c.Name == name {
					ed, found = c, true
				}
			}
			if !found {
				lib.Fatal("edit %s not applicable", name)
			}
		}
		dir, obs := e.Step(st, ed, noCache+fam.ExtraConfig())
		fmt.Printf("== %s: exit=%d actions=%v\n%s", name, obs.Exit, obs.Actions, obs.Output)
		extra, _ := visit(st, ed, obs, dir)
		ns := &hist.State{Src: ed.Src, Snap: dir, Extra: extra, Depth: i}
		if st != nil {
			ns.Hist = append(append([]string{}, st.Hist...), name)
		} else {
			ns.Hist = []string{"init"}
		}
		st, src = ns, ed.Src
	}
	os.RemoveAll(root)
	r.Finish(lib.Coverage{Evaluations: len(w.History), DistinctNontrivial: len(w.History), States: len(w.History), Transitions: len(w.History), TracesValidated: len(w.History), Samples: []any{w}, Exhaustive: true})
}

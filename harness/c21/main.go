// C21: glob() returns exactly the files its documented semantics select.
//
// Bounded-exhaustive: every tree that is a subset (up to a size bound) of a fixed universe of file paths
// (names with regex metacharacters, hidden files, a hidden directory, a nested package, plz-out) x every
// include pattern of <= N segments over a segment alphabet x {no exclude, one exclude} x hidden in {false,true}
// x package in {root package ".", package "pkg"}; the real fs.Globber is run on every case and compared, entry by
// entry, with an independent segment-wise reference matcher.
//
// Phase A uses an in-memory io/fs (testing/fstest.MapFS) so that millions of cases can be run; phase B materialises
// trees as real directories and runs the real Globber over fs.HostFS and the asp glob() builtin (through a parsed
// BUILD file) on them.
package main

import (
	"fmt"
	iofs "io/fs"
	"os"
	"path"
	"path/filepath"
	"runtime"
	"sort"
	"strings"
	"sync"
	"sync/atomic"
	"testing/fstest"

	"github.com/thought-machine/please/src/core"
	"github.com/thought-machine/please/src/fs"
	"github.com/thought-machine/please/src/parse"
	"github.com/thought-machine/please/verifharness/lib"
)

type witness struct {
	Root    string   `json:"root"`    // "." (root package) or "pkg"
	Files   []string `json:"files"`   // regular files, relative to the package directory
	Include string   `json:"include"` // one include pattern
	Exclude string   `json:"exclude"` // one exclude pattern, "" = none
	Hidden  bool     `json:"hidden"`
	Via     string   `json:"via"` // "mapfs" | "hostfs" | "asp"
	// Earlier glob() calls (include patterns, no exclude) made on the same Globber before this one, as the glob() calls
	// of one BUILD file are.
	Earlier []string `json:"earlier_includes_on_the_same_globber,omitempty"`
	Entry   string   `json:"entry,omitempty"`
	Problem string   `json:"problem,omitempty"`
}

// The universe of file paths trees are drawn from (all regular files; directories are implied).
var universe = []string{
	"a.go",
	"ab.go",
	"a(b).go",
	"a+b",
	"x[1]",
	"x1",
	".h",
	"axb",
	"a/b",
	"sub/a.go",
	"sub/BUILD",
	"sub/d/a.go",
	".hid/a.go",
	"plz-out/a.go",
	"b.go",
}

// Pattern segment alphabet, simplest first.
var segments = []string{"*", "a.go", "**", "*.go", "?", "sub", "a?b", "[ab]*", "a(b).go", "a+b", "x[1]", ".hid", ".*", "a", "d"}

// Exclude alphabet.
var excludes = []string{"*.go", "a.go", "sub", "sub/*", "**/a.go", "sub/**", "**/a(b).go"}

// Excludes that are also used as the include of an earlier call on the same Globber.
var primedExcludes = []string{"**", "**/a.go"}

const buildFileName = "BUILD"

// ---------------------------------------------------------------------------------------------------------------
// Reference model.

// refMatch: segment-wise path.Match; a "**" segment matches zero or more whole segments. If trailingZero is false a
// *trailing* "**" must consume at least one segment (used to detect the one case the documentation leaves open).
func refMatch(pattern, name string, trailingZero bool) bool {
	return refMatchSegs(strings.Split(pattern, "/"), strings.Split(name, "/"), trailingZero)
}

func refMatchSegs(ps, ns []string, trailingZero bool) bool {
	if len(ps) == 0 {
		return len(ns) == 0
	}
	if ps[0] == "**" {
		min := 0
		if len(ps) == 1 && !trailingZero {
			min = 1
		}
		for k := min; k <= len(ns); k++ {
			if refMatchSegs(ps[1:], ns[k:], trailingZero) {
				return true
			}
		}
		return false
	}
	if len(ns) == 0 {
		return false
	}
	ok, err := path.Match(ps[0], ns[0])
	if err != nil || !ok {
		return false
	}
	return refMatchSegs(ps[1:], ns[1:], trailingZero)
}

// refExcluded implements the documented exclude rule: a pattern without a separator is matched against the file name
// of the match only, otherwise against the path from the package directory. In addition (pinned by the repository's own
// TestGlobExcludes "entire directory via base path exclusion") an exclude that literally names the entry or one of its
// ancestor directories excludes it.
func refExcluded(excl, name string, trailingZero bool) bool {
	if name == excl || strings.HasPrefix(name, excl+"/") {
		return true
	}
	if !strings.Contains(excl, "/") {
		return refMatch(excl, path.Base(name), trailingZero)
	}
	return refMatch(excl, name, trailingZero)
}

func hiddenPath(name string) bool {
	for _, seg := range strings.Split(name, "/") {
		if strings.HasPrefix(seg, ".") {
			return true
		}
	}
	return false
}

type tree struct {
	files   []string
	entries []string        // files and implied directories, sorted
	isDir   map[string]bool // entry -> is a directory
	subpkgs []string        // directories (other than the package directory) that contain a BUILD file
}

func newTree(files []string) *tree {
	t := &tree{files: files, isDir: map[string]bool{}}
	seen := map[string]bool{}
	for _, f := range files {
		if !seen[f] {
			seen[f] = true
			t.entries = append(t.entries, f)
		}
		for d := path.Dir(f); d != "."; d = path.Dir(d) {
			if !seen[d] {
				seen[d] = true
				t.isDir[d] = true
				t.entries = append(t.entries, d)
			}
		}
		if path.Base(f) == buildFileName && path.Dir(f) != "." {
			t.subpkgs = append(t.subpkgs, path.Dir(f))
		}
	}
	sort.Strings(t.entries)
	return t
}

func under(name, dir string) bool { return name == dir || strings.HasPrefix(name, dir+"/") }

func (t *tree) inSubpackage(name string) bool {
	for _, d := range t.subpkgs {
		if under(name, d) {
			return true
		}
	}
	return false
}

// expect says whether entry must be returned; dontcare is set where the documentation is silent (a trailing "**"
// matching zero segments, i.e. "sub/**" versus the entry "sub" itself).
func expect(t *tree, w *witness, entry string) (want, dontcare bool) {
	if t.inSubpackage(entry) {
		return false, false
	}
	if w.Root == "." && under(entry, "plz-out") {
		return false, false
	}
	if !w.Hidden && hiddenPath(entry) {
		return false, false
	}
	m0, m1 := refMatch(w.Include, entry, true), refMatch(w.Include, entry, false)
	if m0 != m1 {
		return false, true
	}
	if !m0 {
		return false, false
	}
	if w.Exclude != "" {
		x0, x1 := refExcluded(w.Exclude, entry, true), refExcluded(w.Exclude, entry, false)
		if x0 != x1 {
			return false, true
		}
		if x0 {
			return false, false
		}
	}
	return true, false
}

// ---------------------------------------------------------------------------------------------------------------
// Real code.

func mapFS(root string, files []string) fstest.MapFS {
	m := fstest.MapFS{}
	for _, f := range files {
		p := f
		if root != "." {
			p = root + "/" + f
		}
		m[p] = &fstest.MapFile{Data: []byte("x")}
	}
	if root != "." {
		m[root] = &fstest.MapFile{Mode: iofs.ModeDir | 0o755}
	}
	return m
}

// runGlob calls the real Globber; a panic (the way Globber.Glob reports errors) is returned as a string.
func runGlob(g *fs.Globber, root, include, exclude string, hidden bool) (res []string, panicked string) {
	defer func() {
		if r := recover(); r != nil {
			panicked = fmt.Sprint(r)
		}
	}()
	var ex []string
	if exclude != "" {
		ex = strings.Split(exclude, ";") // "e1;e2" = the exclude list [e1, e2] (no pattern of the alphabets contains ';')
	}
	return g.Glob(root, []string{include}, ex, hidden, true), ""
}

// ---------------------------------------------------------------------------------------------------------------
// Comparison and classification.

type globFn func(include, exclude string, hidden bool) ([]string, string)

// compare returns the first discrepancy (entry order), or "" if the result is as the reference demands.
func compare(t *tree, w *witness, got []string) (entry, problem string) {
	set := map[string]bool{}
	for _, g := range got {
		set[g] = true
	}
	known := map[string]bool{}
	for _, e := range t.entries {
		known[e] = true
	}
	gs := append([]string{}, got...)
	sort.Strings(gs)
	for _, g := range gs {
		if !known[g] {
			return g, "returned-unknown"
		}
	}
	for _, e := range t.entries {
		want, dc := expect(t, w, e)
		if dc {
			continue
		}
		if want && !set[e] {
			return e, "missing"
		}
		if !want && set[e] {
			return e, "extra"
		}
	}
	return "", ""
}

const regexMeta = "()|{}^$"

// mergedVariants returns name with one separator replaced by a non-separator character: used to recognise a "?"
// (or any single-character wildcard) that was allowed to match "/".
func questionMatchesSeparator(pat, name string) bool {
	if !strings.Contains(pat, "?") {
		return false
	}
	for i := 0; i < len(name); i++ {
		if name[i] == '/' {
			v := name[:i] + "x" + name[i+1:]
			if refMatch(pat, v, true) {
				return true
			}
		}
	}
	return false
}

// classify names the root cause of a discrepancy from the shape of the case.
func classify(t *tree, w *witness, entry, problem string, glob globFn) string {
	if problem == "returned-unknown" {
		if entry == "." {
			return "glob:returns-package-directory-itself('.')"
		}
		return "glob:returns-nonexistent-entry"
	}
	if problem == "panic" {
		return "glob:panic"
	}
	if problem == "extra" {
		switch {
		case t.inSubpackage(entry):
			return "glob:subpackage-entry-returned"
		case w.Root == "." && under(entry, "plz-out"):
			return "glob:plz-out-entry-returned"
		case !w.Hidden && hiddenPath(entry):
			if strings.HasPrefix(path.Base(entry), ".") {
				return "glob:hidden:hidden-file-returned"
			}
			return "glob:hidden:entry-inside-hidden-directory-returned(isHidden-looks-at-base-name-only)"
		}
	}
	// Is the include pattern or the exclude pattern responsible?
	side, pat := "include", w.Include
	incWrongWay := problem // how the *pattern* erred: "missing" = failed to match, "extra" = matched too much
	if w.Exclude != "" {
		w2 := *w
		w2.Exclude = ""
		gotInc, _ := glob(w.Include, "", w.Hidden)
		in := false
		for _, g := range gotInc {
			if g == entry {
				in = true
			}
		}
		wantInc, dc := expect(t, &w2, entry)
		if dc || in == wantInc {
			side, pat = "exclude", w.Exclude
			if problem == "missing" {
				incWrongWay = "extra" // the exclude matched too much
			} else {
				incWrongWay = "missing"
			}
		}
	}
	cause := "builtin-match:other"
	if strings.Contains(pat, "**") {
		subject := entry
		if side == "exclude" && !strings.Contains(pat, "/") {
			subject = path.Base(entry)
		}
		switch {
		case strings.ContainsAny(pat, regexMeta) || (strings.ContainsAny(subject, regexMeta) && incWrongWay == "missing"):
			cause = "doublestar-regex:unescaped-regex-metacharacter"
		case incWrongWay == "extra" && questionMatchesSeparator(pat, subject):
			cause = "doublestar-regex:question-mark-matches-separator"
		case incWrongWay == "missing" && w.Root == "." && strings.HasPrefix(pat, "**/") && !strings.HasPrefix(pat[3:], "**") && refMatch(pat[3:], subject, true) &&
			(side == "include" || strings.Contains(pat, "/")):
			// the leading "**" has to match zero segments, which the regex "^.*/..." cannot do when there is no "<pkg>/" prefix
			cause = "doublestar-regex:leading-doublestar-needs-a-slash-in-root-package"
		case incWrongWay == "missing" && strings.Contains(pat, "**/**"):
			cause = "doublestar-regex:consecutive-doublestar-needs-a-directory"
		default:
			cause = "doublestar-regex:other-" + incWrongWay
		}
	} else {
		cause = "builtin-match:other-" + incWrongWay
	}
	return "glob:" + side + ":" + cause
}

// found collects, per class, the count and the smallest witness (so the reported witness does not depend on worker timing).
type foundT struct {
	count  int
	key    string
	w      witness
	detail string
}

var (
	foundMu sync.Mutex
	found   = map[string]*foundT{}
)

func sizeKey(w *witness) string {
	ex, h, root := 0, 0, 0
	if w.Exclude != "" {
		ex = 1
	}
	if w.Hidden {
		h = 1
	}
	if w.Root == "." {
		root = 1
	}
	via := map[string]int{"mapfs": 0, "hostfs": 1, "asp": 2}[w.Via]
	return fmt.Sprintf("%d|%02d|%d|%d|%d|%d|%03d|%s|%s|%s", via, len(w.Files), strings.Count(w.Include, "/"), ex, h, root, len(w.Include)+len(w.Exclude), w.Include, w.Exclude, strings.Join(w.Files, ","))
}

func record(class string, w witness, detail string) {
	k := sizeKey(&w)
	foundMu.Lock()
	defer foundMu.Unlock()
	f := found[class]
	if f == nil {
		found[class] = &foundT{count: 1, key: k, w: w, detail: detail}
		return
	}
	f.count++
	if k < f.key {
		f.key, f.w, f.detail = k, w, detail
	}
}

func flush(r *lib.Run) {
	for class, f := range found {
		r.Violate(class, f.w, f.detail)
		for i := 1; i < f.count; i++ {
			r.Violate(class, nil, "")
		}
	}
}

// checkCase runs one case through glob and reports a violation (with a re-run for determinism).
func checkCase(r *lib.Run, t *tree, w witness, glob globFn) bool {
	got, pan := glob(w.Include, w.Exclude, w.Hidden)
	entry, problem := "", ""
	if pan != "" {
		entry, problem = "", "panic"
	} else {
		entry, problem = compare(t, &w, got)
	}
	if problem == "" {
		return true
	}
	got2, pan2 := glob(w.Include, w.Exclude, w.Hidden)
	if pan2 != pan || strings.Join(got2, "\x00") != strings.Join(got, "\x00") {
		lib.Fatal("HARNESS-NONDETERMINISM C21 %+v: %v / %v", w, got, got2)
	}
	class := classify(t, &w, entry, problem, glob)
	w.Entry, w.Problem = entry, problem
	detail := fmt.Sprintf("%s entry %q: glob(include=[%q], exclude=[%q], hidden=%v) in package %q over files %v returned %v",
		problem, entry, w.Include, w.Exclude, w.Hidden, w.Root, w.Files, got)
	if pan != "" {
		detail = "panic: " + pan
	}
	record(class, w, detail)
	return false
}

// checkList: excludes act independently of each other and of their order, so glob(inc, [e1, e2]) must be exactly the
// entries that both glob(inc, [e1]) and glob(inc, [e2]) return (computed by the real code itself, so the known
// single-pattern findings cannot show up here). Each call gets a fresh Globber.
func checkList(w witness, m fstest.MapFS) bool {
	es := strings.Split(w.Exclude, ";")
	one := func(ex string) ([]string, string) {
		return runGlob(fs.NewGlobber(m, []string{buildFileName}), w.Root, w.Include, ex, w.Hidden)
	}
	both, p := one(w.Exclude)
	g1, p1 := one(es[0])
	g2, p2 := one(es[1])
	if p1 != "" || p2 != "" {
		return true // a single exclude already fails: the single-exclude cases report that
	}
	in2 := map[string]bool{}
	for _, x := range g2 {
		in2[x] = true
	}
	var want []string
	for _, x := range g1 {
		if in2[x] {
			want = append(want, x)
		}
	}
	sort.Strings(want)
	got := append([]string{}, both...)
	sort.Strings(got)
	if p == "" && strings.Join(got, "\x00") == strings.Join(want, "\x00") {
		return true
	}
	kind := "returns-an-entry-one-of-them-excludes"
	if p != "" {
		kind = "panic"
	} else if len(got) < len(want) {
		kind = "drops-an-entry-neither-excludes"
	}
	w.Problem = kind
	record("glob:exclude-list:"+kind, w, fmt.Sprintf("glob(include=[%q], exclude=%q, hidden=%v) in package %q over files %v returned %v %s; with exclude=[%q] alone it returns %v, with [%q] alone %v",
		w.Include, es, w.Hidden, w.Root, w.Files, both, p, es[0], g1, es[1], g2))
	return false
}

// ---------------------------------------------------------------------------------------------------------------
// Enumeration.

func subsets(n, maxSize int, f func(idx []int)) {
	var rec func(start int, cur []int, size int)
	for size := 0; size <= maxSize && size <= n; size++ {
		rec = func(start int, cur []int, left int) {
			if left == 0 {
				f(cur)
				return
			}
			for i := start; i <= n-left; i++ {
				rec(i+1, append(cur, i), left-1)
			}
		}
		rec(0, nil, size)
	}
}

func patterns(maxSegs int) []string {
	var out []string
	var rec func(prefix []string, left int)
	for n := 1; n <= maxSegs; n++ {
		rec = func(prefix []string, left int) {
			if left == 0 {
				out = append(out, strings.Join(prefix, "/"))
				return
			}
			for _, s := range segments {
				rec(append(prefix, s), left-1)
			}
		}
		rec(nil, n)
	}
	return out
}

func pick(idx []int) []string {
	fs := make([]string, len(idx))
	for i, j := range idx {
		fs[i] = universe[j]
	}
	return fs
}

type job struct {
	files []string
	pats  []string
	excl  []string // "" = none
}

// ---------------------------------------------------------------------------------------------------------------
// Phase B: real directories, HostFS and the asp builtin.

var aspCounter int64

type realEnv struct {
	state *core.BuildState
	base  string
}

func newRealEnv() *realEnv {
	base, err := os.MkdirTemp(filepath.Join(lib.VerifRoot, ".work"), "c21-")
	if err != nil {
		lib.Fatal("mkdtemp: %s", err)
	}
	state := core.NewDefaultBuildState()
	state.Config.Parse.BuildFileName = []string{buildFileName}
	parse.InitParser(state)
	return &realEnv{state: state, base: base}
}

func (e *realEnv) close() { os.RemoveAll(e.base) }

// materialise writes the tree under a fresh repo root and chdirs there.
func (e *realEnv) materialise(root string, files []string, n int) {
	repo := filepath.Join(e.base, fmt.Sprintf("r%d", n))
	for _, f := range files {
		p := filepath.Join(repo, root, f)
		if err := os.MkdirAll(filepath.Dir(p), 0o755); err != nil {
			lib.Fatal("mkdir: %s", err)
		}
		if err := os.WriteFile(p, []byte("x"), 0o644); err != nil {
			lib.Fatal("write: %s", err)
		}
	}
	if err := os.MkdirAll(filepath.Join(repo, root), 0o755); err != nil {
		lib.Fatal("mkdir: %s", err)
	}
	if err := os.Chdir(repo); err != nil {
		lib.Fatal("chdir: %s", err)
	}
}

func pyStr(s string) string { return "\"" + s + "\"" }

// aspGlob evaluates glob() through a parsed BUILD file of the package; the result is carried out in a target's labels.
func (e *realEnv) aspGlob(root, include, exclude string, hidden bool) (res []string, panicked string) {
	defer func() {
		if r := recover(); r != nil {
			panicked = fmt.Sprint(r)
		}
	}()
	n := atomic.AddInt64(&aspCounter, 1)
	name := fmt.Sprintf("g%d", n)
	pkgName := root
	if root == "." {
		pkgName = ""
	}
	ex := "[]"
	if exclude != "" {
		ex = "[" + pyStr(exclude) + "]"
	}
	h := "False"
	if hidden {
		h = "True"
	}
	src := fmt.Sprintf("filegroup(name = %s, labels = glob(include = [%s], exclude = %s, hidden = %s, allow_empty = True))\n", pyStr(name), pyStr(include), ex, h)
	pkg := core.NewPackage(pkgName)
	pkg.Filename = filepath.Join(pkgName, buildFileName)
	if err := e.state.Parser.ParseReader(pkg, strings.NewReader(src), nil, nil, core.ParseModeNormal); err != nil {
		return nil, "asp error: " + err.Error()
	}
	t := pkg.Target(name)
	if t == nil {
		return nil, "asp: target not created"
	}
	return append([]string{}, t.Labels...), ""
}

func main() {
	r := lib.Start("C21", "exploration")
	lib.Quiet()
	r.Assume = []string{
		"'**' is only used as a whole path segment (the statement's wording); patterns such as '**.txt' are outside the space",
		"directories are matchable entries like files (the repository's own TestCanGlobDirectories pins this); the package directory itself is not an entry",
		"a trailing '**' matching zero segments ('sub/**' against the entry 'sub') is left open by the documentation and not compared",
		"exclude semantics as documented in docs/lexicon.html#glob: no separator => matched against the file name only, otherwise against the path from the package directory; plus 'an exclude that literally names a directory excludes everything below it' (pinned by TestGlobExcludes)",
		"plz-out is special only in the root package; a subpackage is a directory other than the package directory that directly contains a BUILD file",
		"hidden = some path component starts with '.' (the '#...#' editor-file rule of isHidden is not exercised)",
		"phase A runs the real Globber over an in-memory io/fs.FS (fstest.MapFS); symlinks are not generated",
	}

	if r.Replay != "" {
		var w witness
		lib.LoadReplay(r.Replay, &w)
		t := newTree(w.Files)
		var glob globFn
		var env *realEnv
		switch w.Via {
		case "hostfs", "asp":
			env = newRealEnv()
			defer env.close()
			env.materialise(w.Root, w.Files, 0)
			if w.Via == "hostfs" {
				glob = func(i, e string, h bool) ([]string, string) {
					return runGlob(fs.NewGlobber(fs.HostFS, []string{buildFileName}), w.Root, i, e, h)
				}
			} else {
				glob = func(i, e string, h bool) ([]string, string) { return env.aspGlob(w.Root, i, e, h) }
			}
		default:
			m := mapFS(w.Root, w.Files)
			glob = func(i, e string, h bool) ([]string, string) {
				g := fs.NewGlobber(m, []string{buildFileName})
				for _, earlier := range w.Earlier {
					runGlob(g, w.Root, earlier, "", h)
				}
				return runGlob(g, w.Root, i, e, h)
			}
		}
		w.Entry, w.Problem = "", ""
		if strings.Contains(w.Exclude, ";") {
			checkList(w, mapFS(w.Root, w.Files))
		} else {
			checkCase(r, t, w, glob)
		}
		if env != nil {
			os.Chdir(lib.VerifRoot)
			env.close()
		}
		flush(r)
		r.Finish(lib.Coverage{Evaluations: 1, DistinctNontrivial: 1, Rule: "replay", Samples: []any{w}, Exhaustive: true})
	}

	// Bounds.
	treeMax, patSegs, exclTreeMax, exclPatSegs, bigTreeMax, bigPatSegs := 2, 2, 2, 2, 3, 2
	realTreeMax, realPatSegs := 1, 2
	if !r.Quick() {
		treeMax, patSegs = 4, 3         // no exclude
		exclTreeMax, exclPatSegs = 4, 2 // with each exclude
		bigTreeMax, bigPatSegs = 5, 2   // larger trees, shorter patterns, no exclude
		realTreeMax, realPatSegs = 2, 2
	}
	patCache := map[int][]string{}
	pats := func(n int) []string {
		if _, ok := patCache[n]; !ok {
			patCache[n] = patterns(n)
		}
		return patCache[n]
	}

	var jobs []job
	addTrees := func(max int, skipUpTo int, p []string, ex []string) {
		subsets(len(universe), max, func(idx []int) {
			if len(idx) <= skipUpTo {
				return
			}
			jobs = append(jobs, job{files: pick(idx), pats: p, excl: ex})
		})
	}
	withNone := append([]string{""}, excludes...)
	// Simplest first: small trees with short patterns and excludes, then longer patterns, then larger trees.
	addTrees(exclTreeMax, -1, pats(exclPatSegs), withNone)
	if patSegs > exclPatSegs {
		var longer []string
		for _, p := range pats(patSegs) {
			if strings.Count(p, "/")+1 > exclPatSegs {
				longer = append(longer, p)
			}
		}
		addTrees(treeMax, -1, longer, []string{""})
	}
	if bigTreeMax > 0 {
		addTrees(bigTreeMax, exclTreeMax, pats(bigPatSegs), []string{""})
	}
	// The full universe as one tree, with the longest patterns and every exclude.
	jobs = append(jobs, job{files: append([]string{}, universe...), pats: pats(patSegs), excl: withNone})

	var evals, nontrivial int64
	var samples lib.Samples
	var next int64
	var wg sync.WaitGroup
	for wk := 0; wk < runtime.NumCPU(); wk++ {
		wg.Add(1)
		go func() {
			defer wg.Done()
			for {
				i := int(atomic.AddInt64(&next, 1) - 1)
				if i >= len(jobs) || r.OutOfTime() {
					return
				}
				jb := jobs[i]
				t := newTree(jb.files)
				for _, root := range []string{"pkg", "."} {
					m := mapFS(root, jb.files)
					g := fs.NewGlobber(m, []string{buildFileName})
					glob := func(inc, ex string, h bool) ([]string, string) { return runGlob(g, root, inc, ex, h) }
					for _, hidden := range []bool{false, true} {
						for _, ex := range jb.excl {
							for _, p := range jb.pats {
								w := witness{Root: root, Files: jb.files, Include: p, Exclude: ex, Hidden: hidden, Via: "mapfs"}
								n := atomic.AddInt64(&evals, 1)
								// non-trivial: the reference selects at least one entry and rejects at least one
								sel, rej := false, false
								for _, e := range t.entries {
									if want, dc := expect(t, &w, e); !dc {
										if want {
											sel = true
										} else {
											rej = true
										}
									}
								}
								if sel && rej {
									atomic.AddInt64(&nontrivial, 1)
								}
								if n%200003 == 1 {
									samples.Add(func() any { return w })
								}
								checkCase(r, t, w, glob)
							}
						}
					}
					// Exclude lists of two patterns, in both orders (the full universe and the small trees only).
					if len(jb.files) == len(universe) || len(jb.files) <= 1 {
						for _, e1 := range excludes {
							for _, e2 := range excludes {
								if e1 == e2 {
									continue
								}
								for _, hidden := range []bool{false, true} {
									for _, p := range jb.pats {
										atomic.AddInt64(&evals, 1)
										checkList(witness{Root: root, Files: jb.files, Include: p, Exclude: e1 + ";" + e2, Hidden: hidden, Via: "mapfs"}, m)
									}
								}
							}
						}
					}
					// One BUILD file, two glob() calls: an exclude pattern that an earlier call of the same Globber used
					// as its include (only patterns that are compiled, i.e. contain "**", can be remembered by a Globber).
					for _, ex := range primedExcludes {
						if len(jb.excl) <= 1 {
							break // jobs without excludes (larger trees, longer patterns) are include-only
						}
						primed := func(inc, e string, h bool) ([]string, string) {
							g2 := fs.NewGlobber(m, []string{buildFileName})
							runGlob(g2, root, ex, "", h)
							return runGlob(g2, root, inc, e, h)
						}
						for _, hidden := range []bool{false, true} {
							for _, p := range jb.pats {
								atomic.AddInt64(&evals, 1)
								checkCase(r, t, witness{Root: root, Files: jb.files, Include: p, Exclude: ex, Hidden: hidden, Via: "mapfs", Earlier: []string{ex}}, primed)
							}
						}
					}
				}
			}
		}()
	}
	wg.Wait()
	exhaustive := !r.Capped
	phaseA := evals
	fmt.Fprintf(os.Stderr, "phase A done: %d evaluations\n", phaseA)

	// Phase B: real directories (sequential: needs chdir), HostFS Globber and asp builtin.
	var realEvals, aspEvals int64
	if exhaustive {
		env := newRealEnv()
		var realTrees [][]string
		subsets(len(universe), realTreeMax, func(idx []int) { realTrees = append(realTrees, pick(idx)) })
		realTrees = append(realTrees, append([]string{}, universe...))
		n := 0
	outer:
		for _, files := range realTrees {
			t := newTree(files)
			for _, root := range []string{"pkg", "."} {
				n++
				env.materialise(root, files, n)
				g := fs.NewGlobber(fs.HostFS, []string{buildFileName})
				host := func(inc, ex string, h bool) ([]string, string) { return runGlob(g, root, inc, ex, h) }
				asp := func(inc, ex string, h bool) ([]string, string) { return env.aspGlob(root, inc, ex, h) }
				full := len(files) == len(universe)
				exs := []string{""}
				if full {
					exs = withNone
				}
				for _, hidden := range []bool{false, true} {
					for _, ex := range exs {
						for _, p := range pats(realPatSegs) {
							if r.OutOfTime() {
								exhaustive = false
								break outer
							}
							w := witness{Root: root, Files: files, Include: p, Exclude: ex, Hidden: hidden, Via: "hostfs"}
							realEvals++
							okHost := checkCase(r, t, w, host)
							// The asp builtin must agree with the Globber on the same directory (differential), and with the reference.
							w.Via = "asp"
							aspEvals++
							okAsp := checkCase(r, t, w, asp)
							if okHost != okAsp {
								a, _ := asp(p, ex, hidden)
								h, _ := host(p, ex, hidden)
								sort.Strings(a)
								sort.Strings(h)
								if strings.Join(a, "\x00") != strings.Join(h, "\x00") {
									record("glob:asp-builtin-differs-from-globber", w, fmt.Sprintf("asp glob() returned %v, fs.Globber returned %v", a, h))
								}
							}
						}
					}
				}
			}
		}
		os.Chdir(lib.VerifRoot)
		env.close()
	}

	flush(r)
	r.Finish(lib.Coverage{
		Evaluations:        int(evals + realEvals + aspEvals),
		DistinctNontrivial: int(nontrivial),
		Rule: "phase A: every subset of the file universe up to the tree bound x every include pattern up to the segment bound x excludes x hidden x {root package, pkg} (distinct by construction); " +
			"non-trivial = the reference selects at least one entry of the tree and rejects at least one (counted for phase A only)",
		Samples:    samples.List(),
		Exhaustive: exhaustive,
		Extra: map[string]any{
			"universe": universe, "segments": segments, "excludes": excludes,
			"tree_max_files": treeMax, "pattern_max_segments": patSegs,
			"exclude_tree_max_files": exclTreeMax, "exclude_pattern_max_segments": exclPatSegs,
			"big_tree_max_files": bigTreeMax, "big_tree_pattern_max_segments": bigPatSegs,
			"phase_a_mapfs_evaluations": phaseA, "phase_b_hostfs_evaluations": realEvals, "phase_b_asp_evaluations": aspEvals,
			"real_tree_max_files": realTreeMax, "real_pattern_max_segments": realPatSegs,
		},
	})
}

// C37: command location expansions name the files the command can use.
//
// Bounded-exhaustive: dependency shape (0/1/2 outputs, named outputs, entry point, binary) x relation of the dependency
// to the target (source, plain dependency, tool, not a dependency) x each of the seven sequences x output and package
// names from an alphabet that contains shell metacharacters x reference form (absolute label, local label, |entry
// point, plain source file). The real core.ReplaceSequences expands "$(<seq> <ref>)"; the expansion is split into
// shell words by a small POSIX word-splitting model (itself cross-checked against one real bash process for every
// distinct expansion of the run) and every word must be exactly a path at which the real core.IterSources /
// BuildLabel.FullPaths / OutDir place the dependency's outputs; wrong arity and non-dependencies must be errors.
package main

import (
	"bytes"
	"fmt"
	"os"
	"os/exec"
	"path/filepath"
	"sort"
	"strings"

	"github.com/thought-machine/please/src/core"
	"github.com/thought-machine/please/src/parse"
	"github.com/thought-machine/please/verifharness/lib"
)

type witness struct {
	Seq      string   `json:"sequence"`  // location, locations, out_location, out_locations, dir, out_dir, exe
	Shape    string   `json:"dep_shape"` // see shapes
	Relation string   `json:"relation"`  // src | dep | tool | none | file
	DepPkg   string   `json:"dep_package"`
	TPkg     string   `json:"target_package"`
	Outs     []string `json:"dep_outputs"`
	Ref      string   `json:"reference"` // the text after the sequence name
	Command  string   `json:"command"`
	Expanded string   `json:"expanded,omitempty"`
	// Locality: "" = no remote execution configured. Otherwise remote execution is configured and the value says which
	// of the command's target and the dependency is marked local = True: "none-local", "target-local", "dep-local", "both-local".
	Locality string `json:"locality,omitempty"`
	// The dependency lives in subrepo DepSubrepo ("" = none) and is called DepName ("" = "d"; "t" = the same package and
	// name as the command's own target, which differs from it by the subrepo only).
	DepSubrepo string `json:"dep_subrepo,omitempty"`
	DepName    string `json:"dep_name,omitempty"`
}

// runsRemotely: the command of the target is executed on a remote worker (core.BuildState.WillRunRemotely(target)).
func (w *witness) runsRemotely() bool { return w.Locality == "none-local" || w.Locality == "dep-local" }

type stubRemote struct{ core.RemoteClient } // command expansion reaches none of its methods

func remoteState() *core.BuildState {
	s := core.NewDefaultBuildState()
	s.Config.Remote.URL = "grpc://127.0.0.1:1"
	s.Config.Remote.NumExecutors = 4
	s.RemoteClient = stubRemote{}
	return s
}

type shape struct {
	name   string
	nOuts  int
	named  bool
	ep     bool
	binary bool
}

var shapes = []shape{
	{"one-output", 1, false, false, false},
	{"two-outputs", 2, false, false, false},
	{"binary-one-output", 1, false, false, true},
	{"no-outputs", 0, false, false, false},
	{"named-outputs", 2, true, false, false},
	{"binary-two-outputs", 2, false, false, true},
	{"binary-entry-point", 2, false, true, true},
}

var seqs = []string{"location", "locations", "out_location", "out_locations", "dir", "out_dir", "exe"}

func single(seq string) bool { return seq == "location" || seq == "out_location" || seq == "exe" }

// ---------------------------------------------------------------------------------------------------------------
// A small model of POSIX shell word splitting for a simple command consisting of the expansion only.
// Variables are unset (expand to nothing), no command is on PATH. Returns the words, or ok=false for a syntax error /
// anything that makes the shell do something other than pass literal words (operators, command substitution).

func shellWords(s string) (words []string, ok bool, why string) {
	var cur strings.Builder
	have := false // current word exists (quotes make an empty word exist)
	flush := func() {
		if have {
			words = append(words, cur.String())
		}
		cur.Reset()
		have = false
	}
	skipVar := func(i int) (int, bool) { // s[i] == '$'; returns index after the expansion, and whether it was an expansion
		j := i + 1
		if j < len(s) && s[j] == '{' {
			k := strings.IndexByte(s[j:], '}')
			if k < 0 {
				return i, false
			}
			return j + k + 1, true
		}
		if j < len(s) && s[j] == '(' {
			return i, false // command substitution: not modelled, never generated
		}
		k := j
		for k < len(s) && (s[k] == '_' || (s[k] >= 'a' && s[k] <= 'z') || (s[k] >= 'A' && s[k] <= 'Z') || (k > j && s[k] >= '0' && s[k] <= '9')) {
			k++
		}
		if k == j {
			if k < len(s) && ((s[k] >= '0' && s[k] <= '9') || strings.ContainsRune("@*#?-$!", rune(s[k]))) {
				return i, false // special parameters: not modelled, never generated
			}
			return i, false // a lone '$' is literal
		}
		return k, true
	}
	for i := 0; i < len(s); {
		c := s[i]
		switch {
		case c == ' ' || c == '\t':
			flush()
			i++
		case c == '`':
			// command substitution: nothing is on PATH, so a closed one yields nothing; an unclosed one is a syntax error
			k := strings.IndexByte(s[i+1:], '`')
			if k < 0 {
				return nil, false, "unbalanced backquote"
			}
			i += k + 2
		case c == '\n' || strings.ContainsRune(";&|<>()", rune(c)):
			return nil, false, fmt.Sprintf("unquoted shell operator %q", c)
		case c == '\\':
			if i+1 >= len(s) {
				return nil, false, "trailing backslash"
			}
			cur.WriteByte(s[i+1])
			have = true
			i += 2
		case c == '\'':
			k := strings.IndexByte(s[i+1:], '\'')
			if k < 0 {
				return nil, false, "unbalanced single quote"
			}
			cur.WriteString(s[i+1 : i+1+k])
			have = true
			i += k + 2
		case c == '"':
			i++
			have = true
			closed := false
			for i < len(s) {
				d := s[i]
				if d == '"' {
					closed = true
					i++
					break
				}
				if d == '`' {
					k := strings.IndexByte(s[i+1:], '`')
					if k < 0 {
						return nil, false, "unbalanced backquote inside double quotes"
					}
					i += k + 2
					continue
				}
				if d == '\\' && i+1 < len(s) && strings.ContainsRune("$`\"\\\n", rune(s[i+1])) {
					cur.WriteByte(s[i+1])
					i += 2
					continue
				}
				if d == '$' {
					if j, isVar := skipVar(i); isVar {
						i = j
						continue
					} else if i+1 < len(s) && (s[i+1] == '(' || s[i+1] == '{') {
						return nil, false, "unmodelled $ form"
					}
				}
				cur.WriteByte(d)
				i++
			}
			if !closed {
				return nil, false, "unbalanced double quote"
			}
		case c == '$':
			if j, isVar := skipVar(i); isVar {
				i = j // unset: expands to nothing, and an unquoted empty expansion creates no word
				continue
			} else if i+1 < len(s) && (s[i+1] == '(' || s[i+1] == '{') {
				return nil, false, "unmodelled $ form"
			}
			cur.WriteByte(c)
			have = true
			i++
		default:
			cur.WriteByte(c)
			have = true
			i++
		}
	}
	flush()
	return words, true, ""
}

// bashWords asks one real bash process to split every expansion; nil if bash is not available.
func bashWords(exps []string) map[string]string {
	bash, err := exec.LookPath("bash")
	if err != nil {
		return nil
	}
	dir, err := os.MkdirTemp("", "c37-bash-")
	if err != nil {
		return nil
	}
	defer os.RemoveAll(dir)
	script := `for e in "$@"; do if eval "set -- $e" 2>/dev/null; then printf 'OK'; for w in "$@"; do printf '\037%s' "$w"; done; else printf 'ERR'; fi; printf '\036'; done`
	cmd := exec.Command(bash, append([]string{"--noprofile", "--norc", "-c", script, "_"}, exps...)...)
	cmd.Dir = dir
	cmd.Env = []string{"PATH=/nonexistent"}
	var out bytes.Buffer
	cmd.Stdout = &out
	if err := cmd.Run(); err != nil {
		lib.Fatal("bash word-splitting oracle failed: %s", err)
	}
	recs := strings.Split(out.String(), "\036")
	if len(recs) != len(exps)+1 {
		lib.Fatal("bash word-splitting oracle: %d records for %d expansions", len(recs)-1, len(exps))
	}
	res := map[string]string{}
	for i, e := range exps {
		res[e] = recs[i]
	}
	return res
}

func encodeWords(words []string, ok bool) string {
	if !ok {
		return "ERR"
	}
	var b strings.Builder
	b.WriteString("OK")
	for _, w := range words {
		b.WriteString("\037")
		b.WriteString(w)
	}
	return b.String()
}

// ---------------------------------------------------------------------------------------------------------------
// One case.

type result struct {
	expanded string
	err      string
	// oracle data from the real graph
	provided map[string]bool // tmp-dir-relative paths core.IterSources provides for the target
	fullOuts []string        // BuildLabel.FullPaths of the dependency
	outDir   string
	outputs  []string
	epOut    string
}

func quiet(f func()) (panicked string) {
	defer func() {
		if r := recover(); r != nil {
			panicked = fmt.Sprint(r)
		}
	}()
	f()
	return ""
}

func run(state *core.BuildState, w *witness, sh shape) (res result) {
	graph := core.NewGraph()
	t := core.NewBuildTarget(core.NewBuildLabel(w.TPkg, "t"))
	t.AddOutput("t_out")
	t.Local = w.Locality == "target-local" || w.Locality == "both-local"
	graph.AddTarget(t)
	var d *core.BuildTarget
	if w.Relation == "file" {
		t.AddSource(core.FileLabel{File: w.Outs[0], Package: w.TPkg})
	} else {
		dl := core.NewBuildLabel(w.DepPkg, "d")
		if w.DepName != "" {
			dl.Name = w.DepName
		}
		dl.Subrepo = w.DepSubrepo
		d = core.NewBuildTarget(dl)
		d.IsBinary = sh.binary
		d.Local = w.Locality == "dep-local" || w.Locality == "both-local"
		for i, o := range w.Outs {
			if sh.named {
				d.AddNamedOutput(fmt.Sprintf("n%d", i+1), o)
			} else {
				d.AddOutput(o)
			}
		}
		if sh.ep {
			d.AddEntryPoint("ep", w.Outs[len(w.Outs)-1])
			res.epOut = w.Outs[len(w.Outs)-1]
		}
		graph.AddTarget(d)
		switch w.Relation {
		case "src":
			t.AddSource(d.Label)
		case "dep":
			t.AddDependency(d.Label)
		case "tool":
			t.AddTool(d.Label)
		}
		res.outputs = d.Outputs()
		res.fullOuts = d.Label.FullPaths(graph)
		res.outDir = d.OutDir()
	}
	if err := t.ResolveDependencies(graph); err != nil {
		lib.Fatal("ResolveDependencies: %s", err)
	}
	res.provided = map[string]bool{}
	tmp := t.TmpDir()
	for _, tmpPath := range core.IterSources(state, graph, t, false) {
		rel, err := filepath.Rel(tmp, tmpPath)
		if err != nil {
			lib.Fatal("rel: %s", err)
		}
		res.provided[rel] = true
	}
	cmd, err := core.ReplaceSequences(state, t, w.Command)
	if err != nil {
		res.err = err.Error()
	}
	res.expanded = cmd
	return res
}

// expectation for a case: either an error, or the exact list of paths.
func expectation(w *witness, sh shape, res *result, cwd string) (wantErr string, paths []string, dontcare bool) {
	if w.Relation == "file" {
		return "", []string{filepath.Join(w.TPkg, w.Outs[0])}, false
	}
	if w.Relation == "none" {
		return "not-a-dependency", nil, false
	}
	ep := strings.Contains(w.Ref, "|")
	if w.Seq == "exe" && !sh.binary {
		return "not-binary", nil, false
	}
	// A tool is used in place (absolute path under plz-out) when the command runs on this machine. When the command is
	// executed remotely every input, tools included, is in the action's input root at <package dir>/<output>
	// (remote/action.go uploadInputDir; tools built with local = True are uploaded there by uploadLocalTarget).
	tool := w.Relation == "tool" && !w.runsRemotely()
	isDir := w.Seq == "dir" || w.Seq == "out_dir"
	out := strings.HasPrefix(w.Seq, "out_")
	if isDir {
		if len(res.outputs) == 0 {
			return "", nil, true // nothing to contain: statement silent
		}
		switch {
		case tool: // tools are never copied: every sequence names them by absolute path
			return "", []string{filepath.Join(cwd, res.outDir)}, false
		case out:
			return "", []string{res.outDir}, false
		default:
			return "", []string{w.DepPkg}, false
		}
	}
	outs := res.outputs
	if ep {
		outs = []string{res.epOut}
	} else if single(w.Seq) {
		if len(outs) == 0 {
			return "zero-outputs", nil, false
		}
		if len(outs) > 1 {
			return "multiple-outputs", nil, false
		}
	}
	for _, o := range outs {
		switch {
		case tool:
			paths = append(paths, filepath.Join(cwd, res.outDir, o))
		case out:
			paths = append(paths, filepath.Join(res.outDir, o))
		default:
			paths = append(paths, filepath.Join(w.DepPkg, o))
		}
	}
	return "", paths, false
}

func specialOf(s string) string {
	names := []struct{ c, n string }{{" ", "space"}, {"$", "dollar"}, {"'", "single-quote"}, {"\"", "double-quote"}, {"`", "backtick"}, {"\\", "backslash"}, {";", "semicolon"}, {"&", "ampersand"}}
	var out []string
	for _, n := range names {
		if strings.Contains(s, n.c) {
			out = append(out, n.n)
		}
	}
	return strings.Join(out, "+")
}

// verdict returns "" or (class, detail).
func verdict(w *witness, sh shape, res *result, cwd string) (class, detail string) {
	wantErr, paths, dc := expectation(w, sh, res, cwd)
	if dc {
		return "", ""
	}
	if wantErr != "" {
		if res.err == "" {
			return "not-rejected:" + wantErr + ":" + seqKind(w.Seq), fmt.Sprintf("%q expanded to %q without an error (expected an error: %s)", w.Command, res.expanded, wantErr)
		}
		return "", ""
	}
	if res.err != "" {
		return "unexpected-error:" + w.Seq + ":" + w.Shape + ":" + w.Relation, fmt.Sprintf("%q gave error %q, expected paths %q", w.Command, res.err, paths)
	}
	// The oracle's own paths must be where the real build puts the files.
	for _, p := range paths {
		switch {
		case w.Locality != "":
			// remote execution configured: IterSources / FullPaths describe this machine's build directory only
		case w.Relation == "file" || (w.Relation != "tool" && !strings.HasPrefix(w.Seq, "out_") && w.Seq != "dir"):
			if !res.provided[p] {
				return "oracle:path-not-provided-by-IterSources:" + w.Seq + ":" + w.Relation, fmt.Sprintf("expected path %q is not among the paths IterSources provides %v", p, keys(res.provided))
			}
		case w.Seq != "dir" && w.Seq != "out_dir":
			rel := p
			if w.Relation == "tool" {
				rel, _ = filepath.Rel(cwd, p)
			}
			found := false
			for _, f := range res.fullOuts {
				if f == rel {
					found = true
				}
			}
			if !found {
				return "oracle:path-not-in-FullPaths:" + w.Seq + ":" + w.Relation, fmt.Sprintf("expected path %q is not among FullPaths %v", rel, res.fullOuts)
			}
		}
	}
	words, ok, why := shellWords(res.expanded)
	if ok && equal(words, paths) {
		return "", ""
	}
	// out_ sequences on a tool: the absolute form and the repository-relative form both name the file
	if w.Relation == "tool" && strings.HasPrefix(w.Seq, "out_") && ok && len(words) == len(paths) {
		same := true
		for i := range paths {
			if rel, _ := filepath.Rel(cwd, paths[i]); rel != words[i] {
				same = false
			}
		}
		if same {
			return "", ""
		}
	}
	detail = fmt.Sprintf("%q expanded to %q; shell words %q (%s); the files are at %q", w.Command, res.expanded, words, why, paths)
	if len(paths) == 1 && paths[0] == "" && res.expanded == "" {
		return "dir:root-package-expands-to-empty-string", detail
	}
	// Walk the expansion path by path (it is the space-separated list of the paths, each possibly in double quotes) and
	// find the first path whose own fragment the shell does not read back as exactly that path.
	rest := res.expanded
	for _, p := range paths {
		ctx, frag := "", ""
		switch {
		case strings.HasPrefix(rest, "\""+p+"\""):
			ctx, frag = "double-quoted", "\""+p+"\""
		case strings.HasPrefix(rest, p):
			ctx, frag = "unquoted", p
		}
		if ctx == "" {
			break // the expansion does not contain the path at all: not a quoting problem
		}
		rest = strings.TrimPrefix(strings.TrimPrefix(rest, frag), " ")
		if fw, fok, _ := shellWords(frag); fok && len(fw) == 1 && fw[0] == p {
			continue
		}
		names := map[byte]string{' ': "space", '$': "dollar", '\'': "single-quote", '"': "double-quote", '`': "backtick", '\\': "backslash", ';': "semicolon", '&': "ampersand"}
		hazards := " $'\"`\\;&"
		if ctx == "double-quoted" {
			hazards = "$\"`\\"
		}
		if i := strings.IndexAny(p, hazards); i >= 0 {
			return "quote:" + ctx + ":" + names[p[i]], detail
		}
		break
	}
	if strings.Contains(w.Ref, "|") && w.Relation == "tool" {
		return "entry-point:tool:path-not-absolute(entry-point-branch-ignores-tool)", detail
	}
	if w.Locality != "" {
		return "expansion:wrong-path:" + w.Seq + ":" + w.Shape + ":" + w.Relation + ":remote-execution:" + w.Locality, detail
	}
	return "expansion:wrong-path:" + w.Seq + ":" + w.Shape + ":" + w.Relation, detail
}

func seqKind(seq string) string {
	if single(seq) {
		return "single-output-sequence"
	}
	return seq
}

func keys(m map[string]bool) []string {
	out := make([]string, 0, len(m))
	for k := range m {
		out = append(out, k)
	}
	sort.Strings(out)
	return out
}

func equal(a, b []string) bool {
	if len(a) != len(b) {
		return false
	}
	for i := range a {
		if a[i] != b[i] {
			return false
		}
	}
	return true
}

// feasible checks with the real parser that a genrule with such an output can be declared in such a package.
func feasible(state *core.BuildState, pkgName, out string, n int) (ok bool, why string) {
	defer func() {
		if r := recover(); r != nil {
			ok, why = false, fmt.Sprint(r)
		}
	}()
	esc := strings.NewReplacer("\\", "\\\\", "\"", "\\\"").Replace(out)
	src := fmt.Sprintf("genrule(name = \"f%d\", outs = [\"%s\"], cmd = \"true\")\n", n, esc)
	pkg := core.NewPackage(pkgName)
	pkg.Filename = filepath.Join(pkgName, "BUILD")
	if err := state.Parser.ParseReader(pkg, strings.NewReader(src), nil, nil, core.ParseModeNormal); err != nil {
		return false, err.Error()
	}
	t := pkg.Target(fmt.Sprintf("f%d", n))
	if t == nil {
		return false, "no target"
	}
	for _, o := range t.Outputs() {
		if o == out {
			return true, ""
		}
	}
	return false, fmt.Sprintf("outputs are %q", t.Outputs())
}

func sizeKey(w *witness) string {
	idx := func(list []string, v string) int {
		for i, x := range list {
			if x == v {
				return i
			}
		}
		return len(list)
	}
	seqPrio := idx([]string{"location", "exe", "locations", "dir", "out_location", "out_locations", "out_dir"}, w.Seq)
	pkgPrio := idx([]string{"pkg", ""}, w.DepPkg)
	relPrio := idx([]string{"src", "tool", "dep", "file", "none"}, w.Relation)
	return fmt.Sprintf("%d|%02d|%03d|%d|%d|%03d|%s", pkgPrio, len(w.Outs), len(strings.Join(w.Outs, "")), relPrio, seqPrio, len(w.DepPkg)+len(w.TPkg)+len(w.Command), w.Command)
}

func main() {
	r := lib.Start("C37", "exploration")
	lib.Quiet()
	cwd, _ := os.Getwd()
	r.Assume = []string{
		"build commands only (ReplaceSequences); test commands and $(worker), $(hash), $(out_exe) are outside the statement",
		"where the outputs exist: sources / dependencies at <tmp dir>/<package>/<output> as yielded by the real core.IterSources; tools at the absolute path of BuildLabel.FullPaths; out_* sequences at OutDir()/<output> relative to the repository root",
		"a reference that is not a build label (a plain file name) is only generated for declared source files: the code deliberately expands unknown plain names to <package>/<name> (TestAmpersandReplacement pins this, and it is how a rule names its own outputs)",
		"'|annotation' references are generated for real entry points only (an unknown annotation ends in log.Fatalf, which is a rejection)",
		"$(dir)/$(out_dir) of a dependency without outputs is not compared (statement silent)",
		"word splitting follows POSIX sh for a simple command with unset variables; the in-process model is checked against one real bash process on every distinct expansion of the run (skipped if bash is not installed)",
		"with remote execution configured (locality set): a command that runs remotely finds every input, tools included, at <package dir>/<output> in its input root (remote/action.go uploadInputDir); a command of a local = True target finds sources and dependencies in its build directory and tools at their absolute path; out_* sequences and entry points are not generated there",
		"names are restricted to those the real parser accepts for genrule outs / package names (checked at start-up through the real asp parser)",
	}
	state := core.NewDefaultBuildState()
	rstate := remoteState()
	shapeBy := map[string]shape{}
	for _, s := range shapes {
		shapeBy[s.name] = s
	}
	shapeBy["source-file"] = shape{name: "source-file", nOuts: 1}

	var expansions []string
	seenExp := map[string]bool{}
	check := func(w witness) (class, detail string, res result) {
		sh := shapeBy[w.Shape]
		st := state
		if w.Locality != "" {
			st = rstate
		}
		if got := st.WillRunRemotely(&core.BuildTarget{Local: w.Locality == "target-local" || w.Locality == "both-local"}); got != w.runsRemotely() {
			lib.Fatal("harness: WillRunRemotely=%v for locality %q", got, w.Locality)
		}
		res = run(st, &w, sh)
		res2 := run(st, &w, sh)
		if res.expanded != res2.expanded || res.err != res2.err {
			lib.Fatal("HARNESS-NONDETERMINISM C37 %+v: %q/%q vs %q/%q", w, res.expanded, res.err, res2.expanded, res2.err)
		}
		if res.err == "" && !seenExp[res.expanded] {
			seenExp[res.expanded] = true
			expansions = append(expansions, res.expanded)
		}
		class, detail = verdict(&w, sh, &res, cwd)
		return class, detail, res
	}
	validateModel := func() (validated int, skipped bool) {
		bw := bashWords(expansions)
		if bw == nil {
			return 0, true
		}
		for _, e := range expansions {
			words, ok, _ := shellWords(e)
			if m := encodeWords(words, ok); m != bw[e] {
				lib.Fatal("shell word model disagrees with bash on %q: model %q, bash %q", e, m, bw[e])
			}
		}
		return len(expansions), false
	}

	if r.Replay != "" {
		var w witness
		lib.LoadReplay(r.Replay, &w)
		w.Expanded = ""
		class, detail, res := check(w)
		validateModel()
		if class != "" {
			w.Expanded = res.expanded
			r.Violate(class, w, detail)
		}
		r.Finish(lib.Coverage{Evaluations: 1, DistinctNontrivial: 1, Rule: "replay", Samples: []any{w}, Exhaustive: true})
	}

	// Alphabets.
	outNames := []string{"o", "o x", "o$x", "o'x", "o;x"}
	pkgNames := []string{"pkg", "", "p q"}
	if !r.Quick() {
		outNames = append(outNames, "o\"x", "o`x", "o\\x", "o&$x", "o;'x", "o x$y", "sub/o x")
		pkgNames = append(pkgNames, "p'q", "p;q", "p;q r")
	}
	// Feasibility through the real parser.
	parse.InitParser(state)
	infeasible := map[string]string{}
	n := 0
	var okOuts, okPkgs []string
	for _, p := range pkgNames {
		n++
		if ok, why := feasible(state, p, "plain", n); ok {
			okPkgs = append(okPkgs, p)
		} else {
			infeasible["package "+p] = why
		}
	}
	for _, o := range outNames {
		n++
		if ok, why := feasible(state, "feas", o, n); ok {
			okOuts = append(okOuts, o)
		} else {
			infeasible["output "+o] = why
		}
	}

	type foundT struct {
		count  int
		key    string
		w      witness
		detail string
	}
	found := map[string]*foundT{}
	var samples lib.Samples
	evals, nontrivial := 0, 0
	exhaustive := true
	emit := func(w witness) {
		evals++
		if specialOf(strings.Join(w.Outs, "")+w.DepPkg) != "" || w.Relation == "none" || len(w.Outs) != 1 {
			nontrivial++
		}
		if evals%257 == 1 {
			samples.Add(func() any { return w })
		}
		class, detail, res := check(w)
		if class == "" {
			return
		}
		w.Expanded = res.expanded
		k := sizeKey(&w)
		if f := found[class]; f == nil {
			found[class] = &foundT{1, k, w, detail}
		} else {
			f.count++
			if k < f.key {
				f.key, f.w, f.detail = k, w, detail
			}
		}
	}

outer:
	for _, o1 := range okOuts {
		for _, depPkg := range okPkgs {
			tPkgs := []string{"t"}
			if !r.Quick() {
				tPkgs = append(tPkgs, depPkg) // same package: local references
			}
			for _, tPkg := range tPkgs {
				// plain source file of the target's own package
				for _, seq := range []string{"location", "locations"} {
					if strings.Contains(o1, ")") {
						continue
					}
					emit(witness{Seq: seq, Shape: "source-file", Relation: "file", DepPkg: tPkg, TPkg: tPkg, Outs: []string{o1}, Ref: o1, Command: "$(" + seq + " " + o1 + ")"})
				}
				for _, sh := range shapes {
					var outsList [][]string
					switch sh.nOuts {
					case 0:
						if o1 != okOuts[0] {
							continue
						}
						outsList = [][]string{{}}
					case 1:
						outsList = [][]string{{o1}}
					case 2:
						outsList = [][]string{{o1, "z2"}}
						if !r.Quick() {
							outsList = append(outsList, []string{"a0", o1}, []string{o1, "z" + o1})
						}
					}
					for _, outs := range outsList {
						for _, rel := range []string{"src", "dep", "tool", "none"} {
							for _, seq := range seqs {
								if r.OutOfTime() {
									exhaustive = false
									break outer
								}
								refs := []string{"//" + depPkg + ":d"}
								if tPkg == depPkg {
									refs = append(refs, ":d")
								}
								if sh.ep {
									refs = append(refs, "//"+depPkg+":d|ep")
								}
								for _, ref := range refs {
									emit(witness{Seq: seq, Shape: sh.name, Relation: rel, DepPkg: depPkg, TPkg: tPkg, Outs: outs, Ref: ref, Command: "$(" + seq + " " + ref + ")"})
									// The same with remote execution configured, for every combination of local = True on the
									// command's target and on the dependency (sequences that name build-directory inputs only).
									if strings.HasPrefix(seq, "out_") || strings.Contains(ref, "|") || rel == "none" {
										continue
									}
									for _, loc := range []string{"none-local", "target-local", "dep-local", "both-local"} {
										emit(witness{Seq: seq, Shape: sh.name, Relation: rel, DepPkg: depPkg, TPkg: tPkg, Outs: outs, Ref: ref, Command: "$(" + seq + " " + ref + ")", Locality: loc})
									}
								}
							}
						}
					}
				}
			}
		}
	}
	// Dependencies in a subrepo, including one that has the package and the name of the command's own target.
	for _, o1 := range okOuts {
		for _, tPkg := range []string{"t", ""} {
			for _, name := range []string{"d", "t"} {
				for _, sh := range shapes {
					if sh.nOuts != 1 || sh.ep {
						continue
					}
					for _, rel := range []string{"src", "dep", "tool", "none"} {
						for _, seq := range seqs {
							ref := "///sub//" + tPkg + ":" + name
							emit(witness{Seq: seq, Shape: sh.name, Relation: rel, DepPkg: tPkg, TPkg: tPkg, Outs: []string{o1}, Ref: ref, Command: "$(" + seq + " " + ref + ")", DepSubrepo: "sub", DepName: name})
						}
					}
				}
			}
		}
	}
	validated, skipped := validateModel()
	if skipped {
		r.Assume = append(r.Assume, "bash not found: the word-splitting model was NOT cross-checked in this run")
	}
	for class, f := range found {
		r.Violate(class, f.w, f.detail)
		for i := 1; i < f.count; i++ {
			r.Violate(class, nil, "")
		}
	}
	r.Finish(lib.Coverage{
		Evaluations:        evals,
		DistinctNontrivial: nontrivial,
		Rule:               "every combination of the alphabets (distinct by construction); non-trivial = a name contains a shell metacharacter, or the reference is not a dependency, or the dependency does not have exactly one output",
		Samples:            samples.List(),
		Exhaustive:         exhaustive,
		Extra: map[string]any{
			"output_names": okOuts, "package_names": okPkgs, "names_rejected_by_the_parser": infeasible,
			"distinct_expansions_cross_checked_with_bash": validated,
		},
	})
}

// C36: --include / --exclude select exactly the documented targets when :all or /... is expanded.
//
// A real BuildGraph holds, in each of the packages p, p/q and pq, one target for every label set over {a, b, ab, test}
// x {test rule or not} (plus a hidden child). Every include list and exclude list (<=2 / <=3 entries; label groups with
// commas and trailing '*', and build-pattern excludes) is installed through the real SetIncludeAndExclude and every
// pseudo-target is expanded by the real ExpandLabels (expandOriginalPseudoTarget -> BuildState.ShouldInclude ->
// BuildTarget.ShouldInclude/HasLabel/match); the command-line route AddOriginalTarget + IsOriginalTarget is checked too.
// The selected set is compared target by target with a reference of the documented rules.
package main

import (
	"fmt"
	"runtime"
	"sort"
	"strings"
	"sync"
	"sync/atomic"

	"github.com/thought-machine/please/src/core"
	"github.com/thought-machine/please/verifharness/lib"
)

var packages = []string{"p", "p/q", "pq"}
var labelAlphabet = []string{"a", "b", "ab", "test"}

type tgt struct {
	Pkg    string   `json:"pkg"`
	Name   string   `json:"name"`
	Labels []string `json:"labels"`
	IsTest bool     `json:"is_test,omitempty"`
}

type witness struct {
	Site      string   `json:"site"` // ExpandLabels | IsOriginalTarget
	Include   []string `json:"include"`
	Exclude   []string `json:"exclude"`
	Pattern   string   `json:"pattern"`
	NeedTests bool     `json:"need_tests,omitempty"`
	Target    tgt      `json:"target"`
	FullGraph bool     `json:"full_graph,omitempty"` // the graph holds the whole target universe, not just Target
}

func allTargets() []tgt {
	var out []tgt
	for _, pkg := range packages {
		k := 0
		for mask := 0; mask < 1<<len(labelAlphabet); mask++ {
			var ls []string
			for i, l := range labelAlphabet {
				if mask&(1<<i) != 0 {
					ls = append(ls, l)
				}
			}
			for _, isTest := range []bool{false, true} {
				out = append(out, tgt{Pkg: pkg, Name: fmt.Sprintf("t%d", k), Labels: ls, IsTest: isTest})
				k++
			}
		}
		out = append(out, tgt{Pkg: pkg, Name: "_t0#x", Labels: []string{"a"}})
	}
	return out
}

type world struct {
	state   *core.BuildState
	targets map[core.BuildLabel]*core.BuildTarget
	tgts    []tgt
}

func newWorld(tgts []tgt) *world {
	w := &world{state: core.NewDefaultBuildState()}
	w.state.Stop() // no workers: queued parse tasks of AddOriginalTarget are dropped instead of piling up
	w.load(tgts)
	return w
}

// load replaces the graph of the world by one holding exactly tgts.
func (w *world) load(tgts []tgt) {
	w.state.Graph = core.NewGraph()
	w.targets = map[core.BuildLabel]*core.BuildTarget{}
	w.tgts = tgts
	pkgs := map[string]*core.Package{}
	for _, t := range tgts {
		l := core.BuildLabel{PackageName: t.Pkg, Name: t.Name}
		bt := core.NewBuildTarget(l)
		for _, lab := range t.Labels {
			bt.AddLabel(lab)
		}
		if t.IsTest {
			bt.Test = new(core.TestFields)
		}
		if pkgs[t.Pkg] == nil {
			pkgs[t.Pkg] = core.NewPackage(t.Pkg)
		}
		pkgs[t.Pkg].AddTarget(bt)
		w.state.Graph.AddTarget(bt)
		w.targets[l] = bt
	}
	for _, p := range pkgs {
		w.state.Graph.AddPackage(p)
	}
}

func parsePattern(s string) core.BuildLabel {
	l, err := core.TryParseBuildLabel(s, "", "")
	if err != nil {
		lib.Fatal("bad pattern %q: %v", s, err)
	}
	return l
}

func (w *world) configure(include, exclude []string, needTests bool) {
	w.state.ExcludeTargets = nil // SetIncludeAndExclude only ever appends to it
	w.state.SetIncludeAndExclude(include, exclude)
	w.state.NeedTests = needTests
}

// selectedSet runs the real code for one site.
func (w *world) selectedSet(site, pattern string) map[core.BuildLabel]bool {
	out := map[core.BuildLabel]bool{}
	p := parsePattern(pattern)
	switch site {
	case "ExpandLabels":
		for _, l := range w.state.ExpandLabels([]core.BuildLabel{p}) {
			if out[l] {
				lib.Fatal("ExpandLabels(%s) returned %s twice", pattern, l)
			}
			out[l] = true
		}
	case "IsOriginalTarget":
		core.VerifResetOriginalTargetsC36(w.state)
		w.state.AddOriginalTarget(p, true)
		for l, bt := range w.targets {
			if w.state.IsOriginalTarget(bt) {
				out[l] = true
			}
		}
	default:
		lib.Fatal("unknown site %s", site)
	}
	return out
}

// ---- reference ------------------------------------------------------------------------------------------------------

func under(dir, pkg string) bool { return dir == "" || pkg == dir || strings.HasPrefix(pkg, dir+"/") }

func patternSelects(p core.BuildLabel, t tgt) bool {
	switch p.Name {
	case "...":
		return under(p.PackageName, t.Pkg)
	case "all":
		return p.PackageName == t.Pkg
	}
	return p.PackageName == t.Pkg && p.Name == t.Name
}

func isPattern(e string) bool { return strings.HasPrefix(e, "//") }

// carries: does the target carry label l (trailing * = prefix)? implicitWild says whether a wildcard may also match the
// implicit "test" label of test rules (the documentation does not say).
func carries(t tgt, l string, implicitWild bool) bool {
	m := func(have string) bool {
		return have == l || (strings.HasSuffix(l, "*") && strings.HasPrefix(have, l[:len(l)-1]))
	}
	for _, have := range t.Labels {
		if m(have) {
			return true
		}
	}
	if t.IsTest {
		if implicitWild {
			return m("test")
		}
		return l == "test"
	}
	return false
}

func groupMatches(t tgt, group string, implicitWild bool) bool {
	for _, l := range strings.Split(group, ",") {
		if !carries(t, l, implicitWild) {
			return false
		}
	}
	return true
}

// refSelected returns the verdict and the deciding rule.
func refSelected(site string, include, exclude []string, pattern string, needTests bool, t tgt, implicitWild bool) (bool, string) {
	p := parsePattern(pattern)
	if !patternSelects(p, t) {
		return false, "outside-pattern"
	}
	for _, e := range exclude {
		if isPattern(e) && patternSelects(parsePattern(e), t) {
			return false, "exclude-pattern"
		}
	}
	for _, e := range exclude {
		if !isPattern(e) && groupMatches(t, e, implicitWild) {
			return false, "exclude-group" + groupKind(e)
		}
	}
	rule := "no-include-given"
	if len(include) > 0 {
		ok := false
		for _, g := range include {
			if groupMatches(t, g, implicitWild) {
				ok, rule = true, "include-group"+groupKind(g)
				break
			}
		}
		if !ok {
			return false, "no-include-group-matches"
		}
	}
	if site == "ExpandLabels" && needTests && !t.IsTest {
		return false, "non-test-when-testing"
	}
	return true, rule
}

func groupKind(g string) string {
	k := ""
	if strings.Contains(g, ",") {
		k += ":multi-label"
	}
	if strings.Contains(g, "*") {
		k += ":wildcard"
	}
	return k
}

// ---- enumeration ------------------------------------------------------------------------------------------------------

// groups with overlapping / duplicate entries (one label may satisfy several entries of a group) are included
var groupAlphabet = []string{"a", "b", "ab", "test", "a,b", "a*", "b*", "a,test", "t*", "*", "a,a", "a*,a", "a*,ab", "a,a,a", "a*,a,a", "*,a*,a", "a*,ab*,ab", "a,b,a*,b*"} // (groups longer than the label set whose entries are all satisfied by one or two labels)
var excludePatterns = []string{"//p:t3", "//p:all", "//p/...", "//pq/..."}
var expandPatterns = []string{"//p:all", "//p/...", "//pq:all", "//..."}

// lists returns all sub-multisets (as sorted-index combinations without repetition) of size <= max, smallest first.
func lists(alpha []string, max int) [][]string {
	out := [][]string{{}}
	var rec func(start int, cur []string)
	bySize := map[int][][]string{}
	rec = func(start int, cur []string) {
		if len(cur) > 0 {
			bySize[len(cur)] = append(bySize[len(cur)], append([]string{}, cur...))
		}
		if len(cur) == max {
			return
		}
		for i := start; i < len(alpha); i++ {
			rec(i+1, append(cur, alpha[i]))
		}
	}
	rec(0, nil)
	for n := 1; n <= max; n++ {
		out = append(out, bySize[n]...)
	}
	return out
}

type cfg struct {
	include, exclude []string
}

// judgeOne evaluates one target in a graph containing only that target (replay / shrinking / confirmation).
func judgeOne(wd *world, w witness) (got, want, open bool, rule string) {
	if w.FullGraph {
		wd.load(allTargets())
	} else {
		wd.load([]tgt{w.Target})
	}
	wd.configure(w.Include, w.Exclude, w.NeedTests)
	sel := wd.selectedSet(w.Site, w.Pattern)
	got = sel[core.BuildLabel{PackageName: w.Target.Pkg, Name: w.Target.Name}]
	strict, rule := refSelected(w.Site, w.Include, w.Exclude, w.Pattern, w.NeedTests, w.Target, false)
	loose, _ := refSelected(w.Site, w.Include, w.Exclude, w.Pattern, w.NeedTests, w.Target, true)
	return got, strict, strict != loose, rule
}

func classOf(sc *world, w witness, got bool, rule string) string {
	site := w.Site
	// Both sites forward to BuildState.ShouldInclude: if that call itself misjudges the target, name it as the site.
	if rule != "outside-pattern" && rule != "non-test-when-testing" {
		judgeOne(sc, w) // loads the graph and the filters
		direct := sc.state.ShouldInclude(sc.targets[core.BuildLabel{PackageName: w.Target.Pkg, Name: w.Target.Name}])
		want, _ := refSelected("ShouldInclude", w.Include, w.Exclude, "//...", false, w.Target, false)
		if direct != want && direct == got {
			site = "ShouldInclude"
		}
	}
	if got {
		return "filter:" + site + ":" + rule + ":selected-but-must-not"
	}
	// wrongly dropped: find which filter entry the code holds against the target
	for i, e := range w.Exclude {
		w2 := w
		w2.Exclude = append(append([]string{}, w.Exclude[:i]...), w.Exclude[i+1:]...)
		if g, want, _, _ := judgeOne(sc, w2); g && want {
			if isPattern(e) {
				p := parsePattern(e)
				kind := ":name"
				if p.Name == "..." {
					kind = "..."
				} else if p.Name == "all" {
					kind = ":all"
				}
				return "filter:" + site + ":over-exclusion-by-pattern:" + kind + ":dropped-but-must-be-selected"
			}
			return "filter:" + site + ":over-exclusion-by-group" + groupKind(e) + ":dropped-but-must-be-selected"
		}
	}
	return "filter:" + site + ":" + rule + ":dropped-but-must-be-selected"
}

func shrink(sc *world, w witness) witness {
	bad := func(x witness) bool {
		g, want, open, _ := judgeOne(sc, x)
		return !open && g != want
	}
	for changed := true; changed; {
		changed = false
		for i := range w.Include {
			c := w
			c.Include = append(append([]string{}, w.Include[:i]...), w.Include[i+1:]...)
			if bad(c) {
				w, changed = c, true
				break
			}
		}
		for i := range w.Exclude {
			c := w
			c.Exclude = append(append([]string{}, w.Exclude[:i]...), w.Exclude[i+1:]...)
			if bad(c) {
				w, changed = c, true
				break
			}
		}
		if w.NeedTests {
			c := w
			c.NeedTests = false
			if bad(c) {
				w, changed = c, true
			}
		}
		for i := range w.Target.Labels {
			c := w
			c.Target.Labels = append(append([]string{}, w.Target.Labels[:i]...), w.Target.Labels[i+1:]...)
			if bad(c) {
				w, changed = c, true
				break
			}
		}
	}
	return w
}

func main() {
	r := lib.Start("C36", "exploration")
	lib.Quiet()
	if r.Replay != "" {
		var w witness
		lib.LoadReplay(r.Replay, &w)
		sc := newWorld(nil)
		got, want, open, rule := judgeOne(sc, w)
		if !open && got != want {
			r.Violate(classOf(sc, w, got, rule), w, detailOf(w, got, want, rule))
		}
		r.Finish(lib.Coverage{Evaluations: 1, DistinctNontrivial: 1, Rule: "replay", Samples: []any{w}, Exhaustive: true})
	}
	maxList := 2
	if !r.Quick() {
		maxList = 3
	}
	includes := lists(groupAlphabet, maxList)
	excludes := lists(append(append([]string{}, groupAlphabet...), excludePatterns...), maxList)
	var cfgs []cfg
	// simplest first: by total number of filter entries
	for total := 0; total <= 2*maxList; total++ {
		for _, in := range includes {
			for _, ex := range excludes {
				if len(in)+len(ex) == total {
					cfgs = append(cfgs, cfg{in, ex})
				}
			}
		}
	}
	tgts := allTargets()
	var evals, nontriv, opens, calls int64
	var samples lib.Samples
	var next uint64
	var wg sync.WaitGroup
	for k := 0; k < runtime.NumCPU(); k++ {
		wg.Add(1)
		go func() {
			defer wg.Done()
			w := newWorld(tgts)
			sc := newWorld(nil) // scratch world for confirmation / shrinking
			var ev, nt, op, cl int64
			defer func() {
				atomic.AddInt64(&evals, ev)
				atomic.AddInt64(&nontriv, nt)
				atomic.AddInt64(&opens, op)
				atomic.AddInt64(&calls, cl)
			}()
			for {
				i := atomic.AddUint64(&next, 1) - 1
				if i >= uint64(len(cfgs)) || r.OutOfTime() {
					return
				}
				c := cfgs[i]
				for _, needTests := range []bool{false, true} {
					w.configure(c.include, c.exclude, needTests)
					for _, site := range []string{"ExpandLabels", "IsOriginalTarget"} {
						if site == "IsOriginalTarget" && needTests {
							continue // NeedTests does not enter IsOriginalTarget
						}
						for _, pattern := range expandPatterns {
							if site == "IsOriginalTarget" && strings.HasSuffix(pattern, "...") {
								continue // /... reaches the target set only as expanded :all labels (FindAllBuildFiles, C22)
							}
							sel := w.selectedSet(site, pattern)
							cl++
							for l := range sel {
								if w.targets[l] == nil {
									lib.Fatal("%s(%s) returned %s which is not in the graph", site, pattern, l)
								}
							}
							for _, t := range tgts {
								strict, rule := refSelected(site, c.include, c.exclude, pattern, needTests, t, false)
								loose, _ := refSelected(site, c.include, c.exclude, pattern, needTests, t, true)
								if strict != loose {
									op++
									continue
								}
								ev++
								if rule != "outside-pattern" && rule != "no-include-given" {
									nt++
								}
								got := sel[core.BuildLabel{PackageName: t.Pkg, Name: t.Name}]
								if (i*7+uint64(ev))%200003 == 0 {
									samples.Add(func() any {
										return witness{Site: site, Include: c.include, Exclude: c.exclude, Pattern: pattern, NeedTests: needTests, Target: t, FullGraph: true}
									})
								}
								if got == strict {
									continue
								}
								// Shrinking costs ~1 ms; a broken tree can misjudge 10^5 cases. Shrink and classify the first
								// few hits of every (site, deciding rule, direction) and only tally the rest.
								if !budgetFor(fmt.Sprintf("%s|%s|%v", site, rule, got)) {
									continue
								}
								wt := witness{Site: site, Include: c.include, Exclude: c.exclude, Pattern: pattern, NeedTests: needTests, Target: t}
								g1, w1, o1, _ := judgeOne(sc, wt)
								if o1 || g1 == w1 {
									wt.FullGraph = true // only misjudged in the company of the other targets
									g2, w2, _, _ := judgeOne(sc, wt)
									if g2 != got || w2 != strict {
										lib.Fatal("HARNESS-NONDETERMINISM %+v", wt)
									}
								} else {
									if g1 != got {
										lib.Fatal("HARNESS-NONDETERMINISM %+v", wt)
									}
									wt = shrink(sc, wt)
								}
								g, wnt, _, rl := judgeOne(sc, wt)
								recordMin(classOf(sc, wt, g, rl), wt, detailOf(wt, g, wnt, rl))
							}
						}
					}
				}
			}
		}()
	}
	wg.Wait()
	flushMin(r)
	r.Assume = []string{
		"a test rule carries the implicit label 'test' (BuildTarget.HasLabel); whether a trailing-* pattern such as 't*' or '*' also matches that implicit label is not documented: cases whose verdict depends on it are counted as 'open' and not judged",
		"build patterns are only meaningful in --exclude (SetIncludeAndExclude routes anything that looks like a build label to ExcludeTargets); pattern semantics are the exact ones of C20",
		"when building for test (NeedTests) the expansion additionally keeps only test rules (documented on ExpandOriginalLabels)",
		"a target named exactly on the command line is not subject to label filters (docs: filters apply 'when selecting multiple targets with :all or /...'), so only pseudo-targets are expanded here",
		"malformed groups (empty label between commas) are not enumerated",
	}
	r.Finish(lib.Coverage{
		Evaluations:        int(evals),
		DistinctNontrivial: int(nontriv),
		Rule:               fmt.Sprintf("graph: packages {p,p/q,pq}, in each one target per subset of labels {a,b,ab,test} x {test rule, not} plus a hidden child (%d targets); filters: every include list of <=%d distinct groups over %v and every exclude list of <=%d distinct entries over the same groups plus %v (%d filter configurations), x NeedTests, x pseudo-targets %v through ExpandLabels and the :all ones through AddOriginalTarget/IsOriginalTarget; one evaluation = one (configuration, pseudo-target, target) membership verdict; non-trivial = target inside the pseudo-target and at least one filter given", len(tgts), maxList, groupAlphabet, maxList, excludePatterns, len(cfgs), expandPatterns),
		Samples:            samples.List(),
		Exhaustive:         !r.Capped,
		Extra: map[string]any{"filter_configurations": len(cfgs), "real_expansion_calls": calls, "open_cases_not_judged": opens, "targets_in_graph": len(tgts),
			"misjudged_memberships": misjudged, "misjudged_not_shrunk_or_classified": notShrunk},
	})
}

func detailOf(w witness, got, want bool, rule string) string {
	return fmt.Sprintf("%s of %s with --include %q --exclude %q need_tests=%v: target //%s:%s labels=%v test=%v selected=%v, documented rules say %v (%s)",
		w.Site, w.Pattern, w.Include, w.Exclude, w.NeedTests, w.Target.Pkg, w.Target.Name, w.Target.Labels, w.Target.IsTest, got, want, rule)
}

const shrinkPerPreclass = 64

var (
	preMu     sync.Mutex
	preCount  = map[string]int{}
	notShrunk int64
	misjudged int64
)

func budgetFor(pre string) bool {
	preMu.Lock()
	defer preMu.Unlock()
	misjudged++
	preCount[pre]++
	if preCount[pre] > shrinkPerPreclass {
		notShrunk++
		return false
	}
	return true
}

// smallest witness per class across workers
var (
	minMu  sync.Mutex
	minW   = map[string]witness{}
	minDet = map[string]string{}
	minCnt = map[string]int{}
)

func size(w witness) int {
	n := (len(w.Include)+len(w.Exclude))*100 + len(w.Target.Labels)*10
	if w.NeedTests {
		n += 5
	}
	if w.Target.IsTest {
		n++
	}
	if w.FullGraph {
		n += 10000
	}
	return n + len(strings.Join(w.Include, ",")) + len(strings.Join(w.Exclude, ",")) + len(w.Pattern) + len(w.Target.Pkg)
}

func recordMin(class string, w witness, detail string) {
	minMu.Lock()
	defer minMu.Unlock()
	minCnt[class]++
	old, ok := minW[class]
	if !ok || size(w) < size(old) || (size(w) == size(old) && fmt.Sprint(w) < fmt.Sprint(old)) {
		minW[class] = w
		minDet[class] = detail
	}
}

func flushMin(r *lib.Run) {
	classes := []string{}
	for c := range minW {
		classes = append(classes, c)
	}
	sort.Strings(classes)
	for _, c := range classes {
		r.Violate(c, minW[c], minDet[c])
		for i := 1; i < minCnt[c]; i++ {
			r.Violate(c, nil, "")
		}
	}
}

// C26: test outcomes are parsed and summarised faithfully.
//
// Every bounded set of test cases (pass / fail / error / skip / flaky-retry outcomes, names with XML metacharacters,
// flat / single-suite / nested-suite layouts, repeated cases) is rendered by an independent renderer into JUnit XML
// and `go test -v` text and pushed through the REAL code:
//
//	stage "parse"           parseTestResultDatum (format dispatch + parser)
//	stage "serialise"       mustSerialiseResults (--test_results_file writer) and a re-parse of Please's own output
//	stage "parseTestOutput" parseTestOutput with the exit status a real runner would give (non-zero iff a case failed)
//	stage "flake"           doFlakeRun over every sequence of <= flakiness attempts (via a fake RemoteClient that only
//	                        writes the results file and returns the exit status - no processes are spawned)
//
// Oracle: same cases, same outcome counts; target passes <=> every case passed or was skipped within the allowance.
package main

import (
	"encoding/json"
	"encoding/xml"
	"errors"
	"fmt"
	iofs "io/fs"
	"os"
	"path/filepath"
	"runtime"
	"runtime/debug"
	"runtime/pprof"
	"sort"
	"strings"
	"sync"
	"sync/atomic"
	"time"

	"github.com/thought-machine/please/src/core"
	"github.com/thought-machine/please/src/test"
	"github.com/thought-machine/please/verifharness/lib"
)

// ---- case model -------------------------------------------------------------------------------------------------

type tcase struct {
	Name    string  `json:"name"`
	Outcome string  `json:"outcome"`
	Subs    []tcase `json:"subs,omitempty"` // go format only: subtests
}

type doc struct {
	Format   string  `json:"format"`             // "xml" | "go"
	Prologue string  `json:"prologue,omitempty"` // xml: none | decl | newline | bom+decl | comment
	Layout   string  `json:"layout,omitempty"`   // xml: bare | suite | suites
	Split    int     `json:"split,omitempty"`    // xml/suites: bit i set = new <testsuite> starts before case i+1
	Trailer  string  `json:"trailer,omitempty"`  // go: status | summary
	Cases    []tcase `json:"cases"`
}

type attempt struct {
	NoOutput bool    `json:"no_output,omitempty"` // the attempt died without writing a results file (exit status non-zero)
	Cases    []tcase `json:"cases,omitempty"`
}

type flake struct {
	Format    string    `json:"format"`
	Flakiness int       `json:"flakiness"`
	Attempts  []attempt `json:"attempts"`
}

type witness struct {
	Kind  string `json:"kind"` // "doc" | "flake"
	Doc   *doc   `json:"doc,omitempty"`
	Flake *flake `json:"flake,omitempty"`
}

// category of an outcome for counting
func category(o string) string {
	switch o {
	case "pass":
		return "pass"
	case "flakyfail", "flakyerr":
		return "flaky"
	case "fail", "rerunfail":
		return "fail"
	case "error", "rerunerr":
		return "error"
	case "skip":
		return "skip"
	}
	return o // noverdict
}

func ok(cat string) bool { return cat == "pass" || cat == "flaky" || cat == "skip" }

type entry struct {
	name string
	cat  string
}

// entries flattens a document to the written (name, outcome category) entries.
func entries(cases []tcase) []entry {
	var out []entry
	for _, c := range cases {
		if len(c.Subs) == 0 {
			out = append(out, entry{c.Name, category(c.Outcome)})
			continue
		}
		out = append(out, entry{c.Name, category(parentOutcome(c))})
		for _, s := range c.Subs {
			out = append(out, entry{c.Name + "/" + s.Name, category(s.Outcome)})
		}
	}
	return out
}

func parentOutcome(c tcase) string {
	for _, s := range c.Subs {
		if s.Outcome == "fail" {
			return "fail"
		}
	}
	return "pass"
}

// ---- independent renderers ----------------------------------------------------------------------------------------

var escaper = strings.NewReplacer("&", "&amp;", "<", "&lt;", ">", "&gt;", `"`, "&quot;", "'", "&apos;")

func esc(s string) string { return escaper.Replace(s) }

func xmlCase(c tcase) string {
	head := fmt.Sprintf(`<testcase name="%s" classname="cls" time="0.25">`, esc(c.Name))
	body := ""
	switch c.Outcome {
	case "pass":
	case "fail":
		body = `<failure message="1 != 2" type="AssertionError">trace &lt;here&gt;</failure>`
	case "error":
		body = `<error message="boom" type="RuntimeError">trace</error>`
	case "skip":
		body = `<skipped message="not today"/>`
	case "flakyfail":
		body = `<flakyFailure message="1 != 2" type="AssertionError">trace</flakyFailure>`
	case "flakyerr":
		body = `<flakyError message="boom" type="RuntimeError">trace</flakyError>`
	case "rerunfail":
		body = `<failure message="1 != 2" type="AssertionError">trace</failure><rerunFailure message="1 != 2" type="AssertionError">trace</rerunFailure>`
	case "rerunerr":
		body = `<error message="boom" type="RuntimeError">trace</error><rerunError message="boom" type="RuntimeError">trace</rerunError>`
	default:
		panic("xml outcome " + c.Outcome)
	}
	return head + body + "</testcase>\n"
}

func xmlSuite(name string, cs []tcase) string {
	var f, e, s int
	for _, c := range cs {
		switch category(c.Outcome) {
		case "fail":
			f++
		case "error":
			e++
		case "skip":
			s++
		}
	}
	var b strings.Builder
	fmt.Fprintf(&b, `<testsuite name="%s" package="pkg" tests="%d" failures="%d" errors="%d" skipped="%d" time="0.5">`+"\n", name, len(cs), f, e, s)
	for _, c := range cs {
		b.WriteString(xmlCase(c))
	}
	b.WriteString("</testsuite>\n")
	return b.String()
}

func renderXML(d doc) []byte {
	var b strings.Builder
	switch d.Prologue {
	case "none", "":
	case "decl":
		b.WriteString(`<?xml version="1.0" encoding="UTF-8"?>` + "\n")
	case "newline":
		b.WriteString("\n")
	case "bom+decl":
		b.WriteString("\xEF\xBB\xBF" + `<?xml version="1.0" encoding="UTF-8"?>` + "\n")
	case "comment":
		b.WriteString("<!-- generated by a test runner -->\n")
	default:
		panic("prologue " + d.Prologue)
	}
	switch d.Layout {
	case "bare":
		for _, c := range d.Cases {
			b.WriteString(xmlCase(c))
		}
	case "suite":
		b.WriteString(xmlSuite("s1", d.Cases))
	case "suites":
		b.WriteString(`<testsuites name="all" time="1">` + "\n")
		start, k := 0, 1
		for i := 1; i <= len(d.Cases); i++ {
			if i == len(d.Cases) || d.Split&(1<<(i-1)) != 0 {
				b.WriteString(xmlSuite(fmt.Sprintf("s%d", k), d.Cases[start:i]))
				start = i
				k++
			}
		}
		b.WriteString("</testsuites>\n")
	default:
		panic("layout " + d.Layout)
	}
	return []byte(b.String())
}

func goVerdict(o string) string {
	switch o {
	case "pass":
		return "PASS"
	case "fail":
		return "FAIL"
	case "skip":
		return "SKIP"
	}
	panic("go outcome " + o)
}

func renderGo(d doc) []byte {
	var b strings.Builder
	failed, crashed := false, false
	for _, c := range d.Cases {
		fmt.Fprintf(&b, "=== RUN   %s\n", c.Name)
		if c.Outcome == "noverdict" {
			b.WriteString("panic: runtime error: invalid memory address or nil pointer dereference\n[signal SIGSEGV: segmentation violation]\n\ngoroutine 7 [running]:\nmain.crash()\n")
			crashed = true
			break
		}
		o := c.Outcome
		if len(c.Subs) > 0 {
			o = parentOutcome(c)
			for _, s := range c.Subs {
				fmt.Fprintf(&b, "=== RUN   %s/%s\n", c.Name, s.Name)
				if s.Outcome == "fail" {
					b.WriteString("    x_test.go:10: 1 != 2\n")
				} else if s.Outcome == "skip" {
					b.WriteString("    x_test.go:8: not today\n")
				}
			}
		} else if o == "fail" {
			b.WriteString("    x_test.go:10: 1 != 2\n")
		} else if o == "skip" {
			b.WriteString("    x_test.go:8: not today\n")
		}
		if o == "fail" {
			failed = true
		}
		fmt.Fprintf(&b, "--- %s: %s (0.00s)\n", goVerdict(o), c.Name)
		for _, s := range c.Subs {
			fmt.Fprintf(&b, "    --- %s: %s/%s (0.00s)\n", goVerdict(s.Outcome), c.Name, s.Name)
		}
	}
	switch {
	case crashed:
		if d.Trailer == "summary" {
			b.WriteString("exit status 2\nFAIL\tpkg\t0.005s\n")
		}
	case failed:
		b.WriteString("FAIL\n")
		if d.Trailer == "summary" {
			b.WriteString("exit status 1\nFAIL\tpkg\t0.010s\n")
		}
	default:
		b.WriteString("PASS\n")
		if d.Trailer == "summary" {
			b.WriteString("ok  \tpkg\t0.010s\n")
		}
	}
	return []byte(b.String())
}

func render(d doc) []byte {
	if d.Format == "go" {
		return renderGo(d)
	}
	return renderXML(d)
}

// ---- observation of a parsed suite ------------------------------------------------------------------------------

func execCat(e core.TestExecution) string {
	switch {
	case e.Error != nil:
		return "error"
	case e.Failure != nil:
		return "fail"
	case e.Skip != nil:
		return "skip"
	}
	return "pass"
}

type counts struct{ Tests, Passes, Flaky, Failures, Errors, Skips int }

func observe(s *core.TestSuite) counts {
	return counts{s.Tests(), s.Passes(), s.FlakyPasses(), s.Failures(), s.Errors(), s.Skips()}
}

func expectCounts(es []entry) counts {
	c := counts{Tests: len(es)}
	for _, e := range es {
		switch e.cat {
		case "pass":
			c.Passes++
		case "flaky":
			c.Flaky++
		case "fail":
			c.Failures++
		case "error":
			c.Errors++
		case "skip":
			c.Skips++
		}
	}
	return c
}

type violation struct{ class, detail string }

// stripSynthetic removes the synthetic cases parseTestOutput adds (no classname, every execution an Error whose Type is one
// of its markers) and returns the marker types seen.
func stripSynthetic(s *core.TestSuite) map[string]bool {
	types := map[string]bool{}
	var keep core.TestCases
	for _, c := range s.TestCases {
		all := len(c.Executions) > 0 && c.ClassName == ""
		for _, e := range c.Executions {
			all = all && e.Error != nil && (e.Error.Type == "ReturnValue" || e.Error.Type == "TestFailed" || e.Error.Type == "MissingResults" || e.Error.Type == "NoResults")
		}
		if all {
			for _, e := range c.Executions {
				types[e.Error.Type] = true
			}
			continue
		}
		keep = append(keep, c)
	}
	s.TestCases = keep
	return types
}

// compare checks a parsed suite against the written entries. stage names the code path.
func compare(stage string, d doc, s *core.TestSuite, es []entry) []violation {
	var vs []violation
	pre := stage + ":" + d.Format
	hasNoVerdict, repeated := false, false
	seen := map[string]bool{}
	for _, e := range es {
		if e.cat == "noverdict" {
			hasNoVerdict = true
		}
		if seen[e.name] {
			repeated = true
		}
		seen[e.name] = true
	}
	if len(es) > 0 && s.Tests() == 0 {
		if d.Format == "xml" && (d.Prologue == "newline" || d.Prologue == "bom+decl" || d.Prologue == "comment") {
			// one cause: looksLikeJUnitXMLTestResults demands "<?xml" or "<test" at byte 0, anything else is taken for go test output
			return []violation{{pre + ":format-sniffing:xml-not-starting-with-<?xml-or-<test:taken-for-go-output:no-cases", fmt.Sprintf("prologue %q, layout %s: %d cases written, 0 reported, no error", d.Prologue, d.Layout, len(es))}}
		}
		what := "layout=" + d.Layout + ",prologue=" + d.Prologue
		if d.Format == "go" {
			what = "trailer=" + d.Trailer
		}
		return []violation{{pre + ":no-cases-recognised:" + what, fmt.Sprintf("%d cases written, 0 parsed", len(es))}}
	}
	// names
	var want, got []string
	for _, e := range es {
		want = append(want, e.name)
	}
	for _, c := range s.TestCases {
		got = append(got, c.Name)
	}
	sw, sg := append([]string{}, want...), append([]string{}, got...)
	sort.Strings(sw)
	sort.Strings(sg)
	if hasNoVerdict {
		// demanded only: the started-but-unfinished case is not reported as passed.
		for _, c := range s.TestCases {
			for _, e := range es {
				if e.cat == "noverdict" && e.name == c.Name && c.Success() != nil {
					vs = append(vs, violation{pre + ":run-without-verdict:reported-as-passed", fmt.Sprintf("%q was started and never finished (crash) but is counted as a pass", c.Name)})
				}
			}
		}
		return vs
	}
	if strings.Join(sw, "\x00") != strings.Join(sg, "\x00") && !hasNoVerdict {
		where := ""
		if d.Format == "xml" {
			where = ":layout=" + d.Layout
		}
		return append(vs, violation{pre + ":names-differ" + where, fmt.Sprintf("written %q, reported %q", want, got)})
	}
	if repeated {
		// entries with the same name may or may not be folded into one case; every written execution must be there.
		wantE, gotE := map[string][]string{}, map[string][]string{}
		for _, e := range es {
			cats := []string{e.cat}
			wantE[e.name] = append(wantE[e.name], cats...)
		}
		for _, c := range s.TestCases {
			cc := caseCat(c)
			gotE[c.Name] = append(gotE[c.Name], cc)
		}
		for n := range wantE {
			sort.Strings(wantE[n])
			sort.Strings(gotE[n])
			if strings.Join(wantE[n], ",") != strings.Join(gotE[n], ",") {
				vs = append(vs, violation{pre + ":repeated-case:entries-lost-or-changed", fmt.Sprintf("case %q written as %v, reported as %v", n, wantE[n], gotE[n])})
			}
		}
		return vs
	}
	if w, g := expectCounts(es), observe(s); w != g {
		field := ""
		switch {
		case w.Tests != g.Tests:
			field = "Tests"
		case w.Errors != g.Errors:
			field = "Errors"
		case w.Failures != g.Failures:
			field = "Failures"
		case w.Skips != g.Skips:
			field = "Skips"
		case w.Flaky != g.Flaky:
			field = "FlakyPasses"
		default:
			field = "Passes"
		}
		vs = append(vs, violation{pre + ":count-mismatch:" + field, fmt.Sprintf("written %+v, reported %+v", w, g)})
	}
	return vs
}

// caseCat classifies a whole reported case the way the summary does.
func caseCat(c core.TestCase) string {
	switch {
	case c.Success() != nil && len(c.Executions) > 1:
		return "flaky"
	case c.Success() != nil:
		return "pass"
	case c.Skip() != nil:
		return "skip"
	case len(c.Errors()) > 0:
		return "error"
	case len(c.Failures()) > 0:
		return "fail"
	}
	return "?"
}

func newTestTarget(pkg string, flakiness int) *core.BuildTarget {
	t := core.NewBuildTarget(core.NewBuildLabel(pkg, "t"))
	t.Test = &core.TestFields{Flakiness: uint8(flakiness)}
	t.StartTestSuite()
	return t
}

type xmlOut struct {
	Suites []struct {
		Tests    int `xml:"tests,attr"`
		Failures int `xml:"failures,attr"`
		Errors   int `xml:"errors,attr"`
		Skipped  int `xml:"skipped,attr"`
	} `xml:"testsuite"`
}

// docEnv holds the per-worker graph with the one test target whose results are serialised.
type docEnv struct {
	g *core.BuildGraph
	t *core.BuildTarget
}

func newDocEnv() *docEnv {
	e := &docEnv{g: core.NewGraph(), t: newTestTarget("pkg", 1)}
	e.g.AddTarget(e.t)
	return e
}

// checkDoc runs one document through the parse / serialise / parseTestOutput stages.
func (env *docEnv) checkDoc(d doc) []violation {
	es := entries(d.Cases)
	data := render(d)
	suite, err := test.VerifParseDatumC26(data)
	if err != nil {
		return []violation{{"parse:" + d.Format + ":error:layout=" + d.Layout + ",prologue=" + d.Prologue, err.Error()}}
	}
	vs := compare("parse", d, &suite, es)
	if len(vs) > 0 {
		return vs // later stages would only repeat the same cause
	}
	allOK, anyBad, hasNoVerdict := true, false, false
	for _, e := range es {
		if !ok(e.cat) {
			allOK = false
		}
		if e.cat == "fail" || e.cat == "error" || e.cat == "noverdict" {
			anyBad = true
		}
		if e.cat == "noverdict" {
			hasNoVerdict = true
		}
	}
	// serialise (Please's own report) and parse it back
	if !hasNoVerdict {
		cp := suite
		cp.Package, cp.Name = "pkg", "t"
		env.t.Test.Results = &cp
		out := test.VerifSerialiseC26(env.g)
		back, err := test.VerifParseDatumC26(out)
		if err != nil {
			vs = append(vs, violation{"serialise:" + d.Format + ":own-output-does-not-parse", err.Error()})
		} else {
			vs = append(vs, compare("serialise", d, &back, es)...)
		}
		seen := map[string]bool{}
		repeated := false
		for _, e := range es {
			repeated = repeated || seen[e.name]
			seen[e.name] = true
		}
		var xo xmlOut
		if err := xml.Unmarshal(out, &xo); err != nil || len(xo.Suites) != 1 {
			vs = append(vs, violation{"serialise:" + d.Format + ":report-unreadable", fmt.Sprintf("%v (%d suites)", err, len(xo.Suites))})
		} else if !repeated {
			w := expectCounts(es)
			a := xo.Suites[0]
			if a.Tests != w.Tests || a.Failures != w.Failures || a.Errors != w.Errors || a.Skipped != w.Skips {
				vs = append(vs, violation{"serialise:" + d.Format + ":testsuite-attributes", fmt.Sprintf("written %+v, report attributes tests=%d failures=%d errors=%d skipped=%d", w, a.Tests, a.Failures, a.Errors, a.Skipped)})
			}
		}
	}
	// combine with the exit status of the test process
	var runErr error
	if anyBad {
		runErr = errors.New("exit status 1")
	}
	env.t.Test.Results = &core.TestSuite{Package: "pkg", Name: "t"}
	res := test.VerifParseTestOutputC26(runErr, env.t, [][]byte{data})
	if !hasNoVerdict {
		if stripSynthetic(&res)["ReturnValue"] {
			w := expectCounts(es)
			exit := "zero-exit"
			if runErr != nil {
				exit = "nonzero-exit"
			}
			vs = append(vs, violation{fmt.Sprintf("parseTestOutput:%s:errors>0,failures=0:synthetic-ReturnValue-case-added", exit),
				fmt.Sprintf("written %+v and the runner exits non-zero=%v (consistent), yet an extra errored case named after the target is reported", w, runErr != nil)})
		}
		vs = append(vs, compare("parseTestOutput", d, &res, es)...)
	}
	pass := res.TestCases.AllSucceeded()
	repeatedMixed := false // a name with both an ok and a non-ok entry: the statement does not say which wins
	byName := map[string][2]bool{}
	for _, e := range es {
		x := byName[e.name]
		if ok(e.cat) {
			x[0] = true
		} else {
			x[1] = true
		}
		byName[e.name] = x
	}
	for _, x := range byName {
		if x[0] && x[1] {
			repeatedMixed = true
		}
	}
	if allOK && !pass {
		vs = append(vs, violation{"verdict:" + d.Format + ":every-case-ok-but-target-fails", "all cases passed or were skipped, exit status 0, target reported failing"})
	} else if !allOK && !repeatedMixed && pass {
		vs = append(vs, violation{"verdict:" + d.Format + ":case-not-ok-but-target-passes", "a case failed/errored and the runner exited non-zero, target reported passing"})
	}
	return vs
}

// ---- flake runs ---------------------------------------------------------------------------------------------------

type fakeRemote struct {
	format   string
	attempts []attempt
	calls    int
	overrun  bool
}

func attemptFails(a attempt) bool {
	if a.NoOutput {
		return true
	}
	for _, e := range entries(a.Cases) {
		if !ok(e.cat) {
			return true
		}
	}
	return false
}

func (f *fakeRemote) Test(target *core.BuildTarget, run int) (*core.BuildMetadata, error) {
	path := filepath.Join(target.TestDir(run), core.TestResultsFile)
	os.MkdirAll(filepath.Dir(path), 0o755)
	os.Remove(path)
	if f.calls >= len(f.attempts) {
		f.calls++
		f.overrun = true
		return &core.BuildMetadata{}, errors.New("exit status 1")
	}
	a := f.attempts[f.calls]
	f.calls++
	if !a.NoOutput {
		d := doc{Format: f.format, Layout: "suite", Prologue: "decl", Trailer: "status", Cases: a.Cases}
		if f.format == "xml-bare" {
			d.Format, d.Layout, d.Prologue = "xml", "bare", "none"
		}
		if err := os.WriteFile(path, render(d), 0o644); err != nil {
			lib.Fatal("write %s: %s", path, err)
		}
	}
	if attemptFails(a) {
		return &core.BuildMetadata{}, errors.New("exit status 1")
	}
	return &core.BuildMetadata{}, nil
}
func (f *fakeRemote) Build(*core.BuildTarget) (*core.BuildMetadata, error) { return nil, nil }
func (f *fakeRemote) Run(*core.BuildTarget) error                           { return nil }
func (f *fakeRemote) Download(*core.BuildTarget) error                      { return nil }
func (f *fakeRemote) DownloadInputs(*core.BuildTarget, string, bool) error  { return nil }
func (f *fakeRemote) PrintHashes(*core.BuildTarget, bool)                   {}
func (f *fakeRemote) DataRate() (int, int, int, int)                        { return 0, 0, 0, 0 }
func (f *fakeRemote) Disconnect() error                                     { return nil }
func (f *fakeRemote) SubrepoFS(*core.BuildTarget, string) iofs.FS           { return nil }

type flakeEnv struct {
	state *core.BuildState
	pkg   string
}

func newFlakeEnv(i int) *flakeEnv {
	return &flakeEnv{state: core.NewDefaultBuildState(), pkg: fmt.Sprintf("w%d", i)}
}

// checkFlake returns violations and whether the scenario is one the statement leaves open.
func (e *flakeEnv) checkFlake(f flake) (vs []violation, ambiguous bool) {
	fr := &fakeRemote{format: f.Format, attempts: f.Attempts}
	e.state.RemoteClient = fr
	t := newTestTarget(e.pkg, f.Flakiness)
	results := test.VerifDoFlakeRunC26(e.state, t)
	t.AddTestResults(results)
	final := t.Test.Results
	pass := final.TestCases.AllSucceeded()

	if fr.overrun || fr.calls != len(f.Attempts) {
		vs = append(vs, violation{"flake:wrong-number-of-attempts", fmt.Sprintf("flakiness %d, expected %d attempts, %d made", f.Flakiness, len(f.Attempts), fr.calls)})
		return
	}
	someAttemptAllOK := false
	perName := map[string][]string{}
	var order []string
	for _, a := range f.Attempts {
		if !attemptFails(a) {
			someAttemptAllOK = true
		}
		for _, en := range entries(a.Cases) {
			if _, okk := perName[en.name]; !okk {
				order = append(order, en.name)
			}
			perName[en.name] = append(perName[en.name], en.cat)
		}
	}
	neverOK := 0
	for _, cats := range perName {
		any := false
		for _, c := range cats {
			any = any || ok(c)
		}
		if !any {
			neverOK++
		}
	}
	noOutput := false
	for _, a := range f.Attempts {
		noOutput = noOutput || a.NoOutput
	}
	// synthetic cases (named after the target) that were added although exit status and results agree
	cp := *final
	syn := stripSynthetic(&cp)
	hadRV := syn["ReturnValue"]
	hadTF := syn["TestFailed"] // legit for an attempt without results: it is how that attempt is shown
	bareNamesLost := false
	if f.Format == "xml-bare" {
		for _, c := range cp.TestCases {
			if c.Name == "" {
				bareNamesLost = true
			}
		}
	}
	if bareNamesLost {
		// same cause as the parse stage reports for this layout; the per-case checks below would only repeat it
		vs = append(vs, violation{"parse:xml:names-differ:layout=bare", fmt.Sprintf("bare <testcase> elements lose name and classname; reported cases %s", describe(final))})
		if neverOK > 0 && pass {
			vs = append(vs, violation{"flake:case-never-passed-but-target-passes:bare-testcases-folded-under-empty-name", fmt.Sprintf("a written case failed (exit status non-zero) but all nameless cases were folded into one whose other execution passed: %s", describe(final))})
		}
	}
	if hadRV {
		vs = append(vs, violation{"parseTestOutput:nonzero-exit:errors>0,failures=0:synthetic-ReturnValue-case-added", "an attempt reported only errored cases and exited non-zero (consistent), an extra errored case named after the target was added"})
	}
	// every written execution is there, per case, in attempt order
	for _, n := range order {
		if bareNamesLost {
			break
		}
		var got []string
		for _, c := range cp.TestCases {
			if c.Name == n {
				for _, ex := range c.Executions {
					got = append(got, execCat(ex))
				}
			}
		}
		if strings.Join(got, ",") != strings.Join(perName[n], ",") {
			vs = append(vs, violation{"flake:" + f.Format + ":executions-lost-or-changed", fmt.Sprintf("case %q: attempts gave %v, reported executions %v", n, perName[n], got)})
		}
	}
	if bareNamesLost {
	} else if len(cp.TestCases) != len(order) {
		vs = append(vs, violation{"flake:" + f.Format + ":count-mismatch:Tests", fmt.Sprintf("%d distinct cases written, %d reported", len(order), len(cp.TestCases))})
	} else if got := cp.Failures() + cp.Errors(); got != neverOK {
		vs = append(vs, violation{"flake:" + f.Format + ":count-mismatch:failed+errored", fmt.Sprintf("%d cases never passed, %d reported failed or errored", neverOK, got)})
	}
	switch {
	case someAttemptAllOK && neverOK == 0 && !pass:
		cause := "unknown"
		switch {
		case hadRV:
			cause = "stale-synthetic-ReturnValue-case"
		case hadTF || noOutput:
			cause = "stale-synthetic-case-of-attempt-without-results"
		}
		vs = append(vs, violation{"flake:retry-passed-completely-but-target-fails:" + cause, fmt.Sprintf("an attempt within the allowance passed completely, the target is reported failing; cases %s", describe(final))})
	case neverOK > 0 && pass && !bareNamesLost:
		vs = append(vs, violation{"flake:case-never-passed-but-target-passes", fmt.Sprintf("a case never passed nor was skipped in %d attempts, the target is reported passing", len(f.Attempts))})
	case someAttemptAllOK != (neverOK == 0):
		// every case passed at some attempt but no attempt passed completely, or an attempt passed completely but did not
		// contain a case that failed earlier: docs ("any one run passes") and statement ("every case") differ, nothing demanded
		ambiguous = true
	}
	return
}

func describe(s *core.TestSuite) string {
	var parts []string
	for _, c := range s.TestCases {
		var ex []string
		for _, e := range c.Executions {
			ex = append(ex, execCat(e))
		}
		parts = append(parts, fmt.Sprintf("%s%v", c.Name, ex))
	}
	return strings.Join(parts, " ")
}

// ---- enumeration --------------------------------------------------------------------------------------------------

var xmlNamesFull = []string{"a", "b", "a<b", "x&y", `q"'>`}
var xmlNamesSmall = []string{"a", `x<&">'`}
var xmlOutcomesFull = []string{"pass", "fail", "error", "skip", "flakyfail", "flakyerr", "rerunfail", "rerunerr"}
var xmlOutcomesSmall = []string{"pass", "fail", "error", "skip"}
var prologuesFull = []string{"decl", "none", "newline", "bom+decl", "comment"}

func product(n int, names, outcomes []string, f func([]tcase)) {
	cs := make([]tcase, n)
	var rec func(i int)
	rec = func(i int) {
		if i == n {
			f(append([]tcase{}, cs...))
			return
		}
		for _, o := range outcomes {
			for _, nm := range names {
				cs[i] = tcase{Name: nm, Outcome: o}
				rec(i + 1)
			}
		}
	}
	rec(0)
}

func xmlDocs(n int, names, outcomes, prologues []string, f func(doc)) {
	product(n, names, outcomes, func(cs []tcase) {
		for _, p := range prologues {
			f(doc{Format: "xml", Prologue: p, Layout: "suite", Cases: cs})
			f(doc{Format: "xml", Prologue: p, Layout: "bare", Cases: cs})
			for split := 0; split < 1<<(n-1); split++ {
				f(doc{Format: "xml", Prologue: p, Layout: "suites", Split: split, Cases: cs})
			}
		}
	})
}

var goTop = []string{"TestA", "TestB"}
var goSub = []string{"s1", `x<y&"q"'>`}
var goLeaf = []string{"pass", "fail", "skip"}

// goDocs enumerates all documents with at most n written entries (parents count).
func goDocs(n int, f func(doc)) {
	var rec func(prefix []tcase, left int)
	emit := func(cs []tcase) {
		for _, tr := range []string{"status", "summary"} {
			f(doc{Format: "go", Trailer: tr, Cases: append([]tcase{}, cs...)})
		}
	}
	rec = func(prefix []tcase, left int) {
		if len(prefix) > 0 {
			emit(prefix)
			// the crashing case can only be the last one
		}
		if left == 0 {
			return
		}
		for _, nm := range goTop {
			// leaf
			for _, o := range goLeaf {
				rec(append(prefix, tcase{Name: nm, Outcome: o}), left-1)
			}
			emit(append(append([]tcase{}, prefix...), tcase{Name: nm, Outcome: "noverdict"}))
			// with subtests
			for s := 1; s <= 2 && 1+s <= left; s++ {
				var subsets [][]string
				if s == 1 {
					subsets = [][]string{{goSub[0]}, {goSub[1]}}
				} else {
					subsets = [][]string{{goSub[0], goSub[1]}, {goSub[1], goSub[0]}}
				}
				for _, names := range subsets {
					var rs func(i int, subs []tcase)
					rs = func(i int, subs []tcase) {
						if i == len(names) {
							rec(append(append([]tcase{}, prefix...), tcase{Name: nm, Outcome: "pass", Subs: append([]tcase{}, subs...)}), left-1-s)
							return
						}
						for _, o := range goLeaf {
							rs(i+1, append(subs, tcase{Name: names[i], Outcome: o}))
						}
					}
					rs(0, nil)
				}
			}
		}
	}
	rec(nil, n)
}

// flakes enumerates every attempt sequence: it continues after an attempt iff that attempt did not pass completely.
func flakes(format string, flakiness int, alphabet []attempt, f func(flake)) {
	var rec func(prefix []attempt)
	rec = func(prefix []attempt) {
		for _, a := range alphabet {
			seq := append(append([]attempt{}, prefix...), a)
			if !attemptFails(a) || len(seq) == flakiness {
				f(flake{Format: format, Flakiness: flakiness, Attempts: seq})
			} else {
				rec(seq)
			}
		}
	}
	rec(nil)
}

func attemptAlphabet(format string, withNoOutput bool) []attempt {
	outs := []string{"pass", "fail", "error", "skip"}
	a, b := "a", "b"
	if format == "go" {
		outs = []string{"pass", "fail", "skip"}
		a, b = "TestA", "TestB"
	}
	var out []attempt
	for _, o := range outs {
		out = append(out, attempt{Cases: []tcase{{Name: a, Outcome: o}}})
	}
	for _, o1 := range outs {
		for _, o2 := range outs {
			out = append(out, attempt{Cases: []tcase{{Name: a, Outcome: o1}, {Name: b, Outcome: o2}}})
		}
	}
	for _, o := range outs {
		out = append(out, attempt{Cases: []tcase{{Name: b, Outcome: o}}})
	}
	if withNoOutput {
		out = append(out, attempt{NoOutput: true})
	}
	return out
}

// ---- driver -------------------------------------------------------------------------------------------------------

type found struct {
	mu sync.Mutex
	m  map[string]*hit
}
type hit struct {
	idx    int64
	w      witness
	detail string
	count  int
}

func (f *found) add(class string, idx int64, w witness, detail string) {
	f.mu.Lock()
	defer f.mu.Unlock()
	if f.m == nil {
		f.m = map[string]*hit{}
	}
	h := f.m[class]
	if h == nil {
		f.m[class] = &hit{idx, w, detail, 1}
		return
	}
	h.count++
	if idx < h.idx {
		h.idx, h.w, h.detail = idx, w, detail
	}
}

func (f *found) flush(r *lib.Run) {
	var classes []string
	for c := range f.m {
		classes = append(classes, c)
	}
	sort.Strings(classes)
	for _, c := range classes {
		h := f.m[c]
		r.Violate(c, h.w, h.detail)
		for i := 1; i < h.count; i++ {
			r.Violate(c, nil, "")
		}
	}
	f.m = nil
}

func classesOf(vs []violation) string {
	var cs []string
	for _, v := range vs {
		cs = append(cs, v.class)
	}
	sort.Strings(cs)
	return strings.Join(cs, "|")
}

var stopProf = func() {}

// replayClass reads the class recorded in a violation artefact ("" if absent).
func replayClass(path string) string {
	var a struct {
		Class string `json:"class"`
	}
	if b, err := os.ReadFile(path); err == nil {
		json.Unmarshal(b, &a)
	}
	return a.Class
}

func main() {
	r := lib.Start("C26", "exploration")
	lib.Quiet()
	debug.SetGCPercent(800) // many tiny allocations on 16 workers: GC churn dominated the run
	if pf := os.Getenv("C26_PROF"); pf != "" {
		if f, err := os.Create(pf); err == nil {
			pprof.StartCPUProfile(f)
			defer pprof.StopCPUProfile()
			stopProf = pprof.StopCPUProfile
		}
	}
	var rw witness
	if r.Replay != "" {
		lib.LoadReplay(r.Replay, &rw)
	}
	scratch, err := os.MkdirTemp("", "c26-")
	if err != nil {
		lib.Fatal("mkdtemp: %s", err)
	}
	if err := os.Chdir(scratch); err != nil {
		lib.Fatal("chdir: %s", err)
	}
	finish := func(c lib.Coverage) {
		stopProf()
		os.Chdir("/")
		os.RemoveAll(scratch)
		r.Finish(c)
	}
	if r.Replay != "" {
		var vs []violation
		if rw.Kind == "flake" {
			vs, _ = newFlakeEnv(0).checkFlake(*rw.Flake)
		} else {
			vs = newDocEnv().checkDoc(*rw.Doc)
		}
		want := replayClass(r.Replay)
		for _, v := range vs {
			if want == "" || v.class == want { // only the class this artefact was written for (others have their own artefacts)
				r.Violate(v.class, rw, v.detail)
			}
		}
		finish(lib.Coverage{Evaluations: 1, DistinctNontrivial: 1, Rule: "replay", Samples: []any{rw}, Exhaustive: true})
	}

	t0 := time.Now()
	var evals, nontrivial, ambiguous, flakeEvals int64
	var samples lib.Samples
	var fnd found
	ncpu := runtime.NumCPU()

	// documents, simplest first; collected per space then sharded over the workers
	runDocs := func(docs []doc) {
		var next int64
		var wg sync.WaitGroup
		for w := 0; w < ncpu; w++ {
			wg.Add(1)
			go func() {
				defer wg.Done()
				env := newDocEnv()
				for {
					i := atomic.AddInt64(&next, 1) - 1
					if i >= int64(len(docs)) || r.OutOfTime() {
						return
					}
					d := docs[i]
					atomic.AddInt64(&evals, 1)
					es := entries(d.Cases)
					for _, e := range es {
						if e.cat != "pass" {
							atomic.AddInt64(&nontrivial, 1)
							break
						}
					}
					if i%9973 == 0 {
						samples.Add(func() any { return witness{Kind: "doc", Doc: &d} })
					}
					vs := env.checkDoc(d)
					if len(vs) > 0 {
						if again := env.checkDoc(d); classesOf(again) != classesOf(vs) {
							lib.Fatal("HARNESS-NONDETERMINISM %+v: %s then %s", d, classesOf(vs), classesOf(again))
						}
						for _, v := range vs {
							dd := d
							fnd.add(v.class, i, witness{Kind: "doc", Doc: &dd}, v.detail)
						}
					}
				}
			}()
		}
		wg.Wait()
		fnd.flush(r)
		if os.Getenv("C26_TIMING") != "" {
			fmt.Fprintf(os.Stderr, "docs %d: t=%v\n", len(docs), time.Since(t0))
		}
	}
	collect := func(gen func(func(doc))) []doc {
		var ds []doc
		gen(func(d doc) { ds = append(ds, d) })
		return ds
	}

	// XML
	fixed3 := func(f func(doc)) { // three distinct fixed names, every outcome triple
		product(3, []string{"_"}, xmlOutcomesFull, func(cs []tcase) {
			cs[0].Name, cs[1].Name, cs[2].Name = "a", `x<&">'`, "b"
			for _, l := range []doc{{Layout: "suite"}, {Layout: "bare"}, {Layout: "suites", Split: 0}, {Layout: "suites", Split: 1}, {Layout: "suites", Split: 2}, {Layout: "suites", Split: 3}} {
				l.Format, l.Prologue, l.Cases = "xml", "decl", cs
				f(l)
			}
		})
	}
	runDocs(collect(func(f func(doc)) { xmlDocs(1, xmlNamesFull, xmlOutcomesFull, prologuesFull, f) }))
	if r.Quick() {
		runDocs(collect(func(f func(doc)) { xmlDocs(2, xmlNamesFull, xmlOutcomesFull, []string{"decl", "none"}, f) }))
		runDocs(collect(func(f func(doc)) { xmlDocs(2, xmlNamesSmall, xmlOutcomesSmall, prologuesFull, f) }))
		runDocs(collect(func(f func(doc)) { xmlDocs(3, xmlNamesSmall, xmlOutcomesSmall, []string{"decl"}, f) }))
		runDocs(collect(fixed3))
	} else {
		runDocs(collect(func(f func(doc)) { xmlDocs(2, xmlNamesFull, xmlOutcomesFull, prologuesFull, f) }))
		runDocs(collect(func(f func(doc)) { xmlDocs(3, xmlNamesFull, xmlOutcomesFull, []string{"decl", "none"}, f) }))
		runDocs(collect(func(f func(doc)) { xmlDocs(3, xmlNamesSmall, xmlOutcomesSmall, prologuesFull, f) }))
		runDocs(collect(func(f func(doc)) { xmlDocs(4, xmlNamesSmall, xmlOutcomesSmall, []string{"decl"}, f) }))
	}
	// go test -v
	goN := 3
	if !r.Quick() {
		goN = 4
	}
	goAll := collect(func(f func(doc)) { goDocs(goN, f) })
	sort.SliceStable(goAll, func(i, j int) bool { return len(entries(goAll[i].Cases)) < len(entries(goAll[j].Cases)) }) // simplest first
	runDocs(goAll)

	// flake sequences
	type fspace struct {
		format    string
		flakiness int
		noOutput  bool
	}
	fspaces := []fspace{{"xml", 1, true}, {"xml", 2, true}, {"go", 1, true}, {"go", 2, true}, {"xml-bare", 1, false}, {"xml-bare", 2, false}, {"xml", 3, false}}
	if !r.Quick() {
		fspaces = append(fspaces, fspace{"go", 3, true}, fspace{"xml", 3, true}, fspace{"xml-bare", 3, false})
	}
	for _, sp := range fspaces {
		if r.Capped {
			break
		}
		var fl []flake
		flakes(sp.format, sp.flakiness, attemptAlphabet(sp.format, sp.noOutput), func(f flake) { fl = append(fl, f) })
		// simplest first: fewer attempts, fewer cases
		sort.SliceStable(fl, func(i, j int) bool {
			size := func(f flake) int {
				n := 0
				for _, a := range f.Attempts {
					n += 10 + len(a.Cases)
				}
				return n
			}
			return size(fl[i]) < size(fl[j])
		})
		var next int64
		var wg sync.WaitGroup
		for w := 0; w < ncpu; w++ {
			wg.Add(1)
			go func(w int) {
				defer wg.Done()
				env := newFlakeEnv(w)
				for {
					i := atomic.AddInt64(&next, 1) - 1
					if i >= int64(len(fl)) || r.OutOfTime() {
						return
					}
					f := fl[i]
					atomic.AddInt64(&evals, 1)
					atomic.AddInt64(&flakeEvals, 1)
					if len(f.Attempts) > 1 {
						atomic.AddInt64(&nontrivial, 1)
					}
					if i%997 == 0 {
						samples.Add(func() any { return witness{Kind: "flake", Flake: &f} })
					}
					vs, amb := env.checkFlake(f)
					if amb {
						atomic.AddInt64(&ambiguous, 1)
					}
					if len(vs) > 0 {
						if again, _ := env.checkFlake(f); classesOf(again) != classesOf(vs) {
							lib.Fatal("HARNESS-NONDETERMINISM %+v: %s then %s", f, classesOf(vs), classesOf(again))
						}
						for _, v := range vs {
							ff := f
							fnd.add(v.class, i, witness{Kind: "flake", Flake: &ff}, v.detail)
						}
					}
				}
			}(w)
		}
		wg.Wait()
		fnd.flush(r)
		if os.Getenv("C26_TIMING") != "" {
			fmt.Fprintf(os.Stderr, "flake %v %d: t=%v\n", sp, len(fl), time.Since(t0))
		}
	}

	// Same method name in two classes: two distinct cases of one file, aggregated the way doFlakeRun aggregates a run.
	_ = sameNameDifferentClass(r)
	r.Assume = []string{
		"a real runner exits non-zero exactly when a case failed or errored (or it crashed); only such consistent (results, exit status) pairs are fed to parseTestOutput/doFlakeRun",
		"JUnit flaky-retry outcomes follow Maven surefire (flakyFailure/flakyError = finally passed, rerunFailure/rerunError = never passed), which docs/tests.html names as the compatibility target; a flaky pass is counted under 'flakes', not under 'passed', as the summary line does",
		"a case written twice in ONE file (repeated case): the statement does not say whether the entries are two cases or two executions of one, so only 'no written execution is lost or changed' is demanded, and the target verdict is demanded only when the entries of a name are all ok or all not ok",
		"flaky allowance: docs say 'considered to pass if any one run passes', the statement says 'every case passed within its allowance'; where the two differ (every case passed at some attempt but no attempt passed completely) nothing is demanded (counted as ambiguous_flake_scenarios)",
		"go format: a test that was started and has no verdict line (crash) is not one of the statement's outcomes; demanded only that it is not reported as passed",
		"well-formed XML variants that a runner may emit before the root element (BOM, leading newline, comment) are part of 'JUnit XML'",
		"durations, messages, stdout/stderr are not compared",
	}
	finish(lib.Coverage{
		Evaluations:        int(evals),
		DistinctNontrivial: int(nontrivial),
		Rule:               "documents: every list of n cases over names (5, or 2 in the reduced alphabet) x outcomes (8, reduced 4) x layout (bare / one testsuite / every split into testsuites under testsuites) x prologue (5) (xml quick: n=1 full; n=2 full with 2 prologues and reduced with all 5; n=3 reduced, plus all 8^3 outcome triples on fixed names; thorough: n<=2 full, n=3 full with 2 prologues and reduced with 5, n=4 reduced) and every go test -v transcript with <=3 (thorough 4) entries incl. subtests, repeated names, crash without verdict, with/without package summary; flake: every attempt sequence for flakiness 1..3 over 1-2 cases x {pass,fail,error,skip} (+ attempt without results file), continued exactly while attempts fail; non-trivial = a document with a non-pass outcome / a scenario with more than one attempt",
		Samples:            samples.List(),
		Exhaustive:         !r.Capped,
		Extra:              map[string]any{"flake_scenarios": flakeEvals, "ambiguous_flake_scenarios": ambiguous},
	})
}

// sameNameDifferentClass enumerates files with two cases that share the method name but differ in classname, over all
// outcome pairs and both suite layouts; the parsed cases are aggregated with TestSuite.Add (as doFlakeRun does for each
// attempt) and the counts / verdict must be those of two separate cases.
func sameNameDifferentClass(r *lib.Run) int {
	bodies := map[string]string{"pass": "", "fail": `<failure message="m" type="T">trace</failure>`, "error": `<error message="m" type="T">trace</error>`, "skip": `<skipped message="m"/>`}
	outcomes := []string{"pass", "fail", "error", "skip"}
	n := 0
	for _, o1 := range outcomes {
		for _, o2 := range outcomes {
			for _, layout := range []string{"one-suite", "two-suites"} {
				c1 := fmt.Sprintf(`<testcase name="m" classname="A" time="0.1">%s</testcase>`, bodies[o1])
				c2 := fmt.Sprintf(`<testcase name="m" classname="B" time="0.1">%s</testcase>`, bodies[o2])
				doc := `<?xml version="1.0"?><testsuites><testsuite name="s">` + c1 + c2 + `</testsuite></testsuites>`
				if layout == "two-suites" {
					doc = `<?xml version="1.0"?><testsuites><testsuite name="s1">` + c1 + `</testsuite><testsuite name="s2">` + c2 + `</testsuite></testsuites>`
				}
				parsed, err := test.VerifParseDatumC26([]byte(doc))
				n++
				if err != nil {
					r.Violate("same-name-different-class:parse-error", map[string]any{"doc": doc}, err.Error())
					continue
				}
				agg := core.TestSuite{}
				agg.Add(parsed.TestCases...)
				want := map[string]int{}
				want[o1]++
				want[o2]++
				got := map[string]int{"pass": agg.Passes(), "fail": agg.Failures(), "error": agg.Errors(), "skip": agg.Skips()}
				bad := agg.Tests() != 2
				for _, o := range outcomes {
					if got[o] != want[o] {
						bad = true
					}
				}
				if bad {
					r.Violate("aggregate:same-method-name-in-two-classes:cases-merged", map[string]any{"doc": doc, "outcomes": []string{o1, o2}, "layout": layout},
						fmt.Sprintf("two cases A.m (%s) and B.m (%s) aggregate to tests=%d pass=%d fail=%d error=%d skip=%d", o1, o2, agg.Tests(), got["pass"], got["fail"], got["error"], got["skip"]))
				}
			}
		}
	}
	// every pair of DIFFERENT (classname, name) identities over a small alphabet in which concatenations coincide
	// (A + B.m and A.B + m), names repeat across classes and classes repeat across names: always two cases
	classes := []string{"", "A", "B", "A.B", "A.B.C", "A/B"}
	names := []string{"m", "B.m", "C.m", "B.C.m", ".m", "m."}
	type ident struct{ c, n string }
	var ids []ident
	for _, c := range classes {
		for _, nm := range names {
			ids = append(ids, ident{c, nm})
		}
	}
	for i, a := range ids {
		for _, b := range ids[i+1:] {
			for _, os := range [][2]string{{"pass", "fail"}, {"fail", "pass"}, {"pass", "pass"}} {
				c1 := fmt.Sprintf(`<testcase name=%q classname=%q time="0.1">%s</testcase>`, a.n, a.c, bodies[os[0]])
				c2 := fmt.Sprintf(`<testcase name=%q classname=%q time="0.1">%s</testcase>`, b.n, b.c, bodies[os[1]])
				doc := `<?xml version="1.0"?><testsuites><testsuite name="s">` + c1 + c2 + `</testsuite></testsuites>`
				parsed, err := test.VerifParseDatumC26([]byte(doc))
				n++
				if err != nil {
					r.Violate("distinct-identities:parse-error", map[string]any{"doc": doc}, err.Error())
					continue
				}
				agg := core.TestSuite{}
				agg.Add(parsed.TestCases...)
				wantFail := 0
				for _, o := range os {
					if o == "fail" {
						wantFail++
					}
				}
				if agg.Tests() != 2 || agg.Failures() != wantFail || agg.Passes() != 2-wantFail {
					kind := "different-class-and-name"
					switch {
					case a.c+"."+a.n == b.c+"."+b.n:
						kind = "classname-dot-name-coincides"
					case a.n == b.n:
						kind = "same-name"
					case a.c == b.c:
						kind = "same-class"
					}
					r.Violate("aggregate:distinct-identities:"+kind+":cases-merged", map[string]any{"doc": doc, "outcomes": os},
						fmt.Sprintf("two cases (%q, %q: %s) and (%q, %q: %s) aggregate to tests=%d pass=%d fail=%d", a.c, a.n, os[0], b.c, b.n, os[1], agg.Tests(), agg.Passes(), agg.Failures()))
				}
			}
		}
	}
	return n
}

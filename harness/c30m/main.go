// C30 model tier (run by harness/c30): the real process.Executor.ExecWithTimeout (src/process, mechanically rewritten:
// goroutines, channels, select, mutex and timers under the controlled scheduler; (*exec.Cmd).Start/Wait, syscall.Kill and
// context.WithTimeout replaced by the kernel model verifshim/vproc on the fake clock) is explored over ALL interleavings
// of its goroutines, the deadline timer, the 30ms/1s grace timers and the modelled processes, for the full product of
// command behaviours. This is the schedule half of the property, which the real-execution tier cannot enumerate.
//
// Output (stdout): one JSON document with coverage, per-case outcome sets and violations.
package main

import (
	"context"
	"encoding/json"
	"errors"
	"flag"
	"fmt"
	"os"
	"sort"
	"strings"
	"time"

	"github.com/thought-machine/please/src/process"
	"github.com/thought-machine/please/verifharness/lib"
	"github.com/thought-machine/please/verifshim/vproc"
	"github.com/thought-machine/please/verifshim/vsched"
)

// Case is one command behaviour (same alphabet as the real-execution tier).
type Case struct {
	IgnoreTerm      bool    `json:"ignore_term"`
	ChildIgnoreTerm bool    `json:"child_ignore_term"`
	Child           string  `json:"child"`
	Exit            string  `json:"exit"` // before | at | after
	Timeout         float64 `json:"timeout_s"`
}

// Key identifies the behaviour without the timeout (the real-execution tier looks its cases up under this key).
func (c Case) Key() string {
	return fmt.Sprintf("ignoreTERM=%v childIgnoresTERM=%v child=%s exit=%s", c.IgnoreTerm, c.ChildIgnoreTerm, c.Child, c.Exit)
}

func (c Case) String() string {
	return fmt.Sprintf("%s timeout=%.1fs", c.Key(), c.Timeout)
}

func (c Case) spec() vproc.Spec {
	d := time.Duration(c.Timeout * float64(time.Second))
	s := vproc.Spec{IgnoreTerm: c.IgnoreTerm, ChildIgnoreTerm: c.ChildIgnoreTerm, Child: c.Child, ChildFor: 30 * time.Second}
	switch c.Exit {
	case "before":
		s.ExitAfter = 50 * time.Millisecond
	case "at":
		s.ExitAfter = d
	case "after":
		s.ExitAfter = 60 * time.Second
	}
	return s
}

// obs is what one call of ExecWithTimeout was seen to do.
type obs struct {
	Returned   bool
	TimedOut   bool
	Err        string
	Took       time.Duration
	MainAlive  bool
	Alive      int
	SelfExited bool
}

type Violation struct {
	Class   string `json:"class"`
	Cases   []Case `json:"cases"`
	Choices []int  `json:"choices"`
	Newest  bool   `json:"newest_first"`
	Detail  string `json:"detail"`
}

type Out struct {
	Cases       int                 `json:"cases"`
	Executions  int                 `json:"executions"`
	Pruned      int                 `json:"pruned"`
	States      int                 `json:"states"`
	Transitions int                 `json:"transitions"`
	MaxPoints   int                 `json:"max_points"`
	Incomplete  int                 `json:"incomplete"`
	Bound       int                 `json:"bound"`
	PairBound   int                 `json:"pair_bound"`
	Outcomes    map[string][]string `json:"outcomes"` // case -> sorted set of "timedOut=.. main=.. others=.."
	Statuses    map[string]int      `json:"statuses"`
	Violations  []Violation         `json:"violations"`
}

var continuing, reported = map[string]bool{}, map[string]bool{}

const slack = 5 * time.Second // same generous bound as the real tier: deadline + 30ms + 1s + slack

// runCases is the body of one controlled execution: the commands run concurrently on ONE executor.
func runCases(cs []Case, res []obs) {
	specs := make([]vproc.Spec, len(cs))
	for i, c := range cs {
		specs[i] = c.spec()
	}
	w := vproc.NewWorld(specs...)
	e := process.New()
	one := func(i int) {
		c := cs[i]
		start := vsched.Now()
		_, _, err := e.ExecWithTimeout(context.Background(), nil, "/", nil, time.Duration(c.Timeout*float64(time.Second)), false, false, false, false, process.NoSandbox, []string{"bash", "-c", "x", fmt.Sprint(i)})
		o := obs{Returned: true, TimedOut: errors.Is(err, context.DeadlineExceeded), Took: vsched.Now().Sub(start), MainAlive: w.MainAlive(i), Alive: w.Alive(i), SelfExited: w.MainExitedByItself(i)}
		if err != nil {
			o.Err = err.Error()
		}
		res[i] = o
	}
	if len(cs) == 1 {
		one(0)
		return
	}
	done := make(chan struct{}, len(cs))
	for i := range cs {
		i := i
		vsched.GoNamed(fmt.Sprintf("caller%d", i), func() { one(i); vsched.Send(done, struct{}{}) })
	}
	for range cs {
		vsched.Recv(done)
	}
}

// judge applies the oracle to one command of one execution.
func judge(c Case, o obs, r *vsched.Result) (string, string) {
	d := time.Duration(c.Timeout * float64(time.Second))
	if !o.Returned {
		return "model:never-returns", fmt.Sprintf("%s: ExecWithTimeout did not return (status %s, blocked %v)", c, r.Status, r.Blocked)
	}
	if o.TimedOut {
		if o.MainAlive {
			return "main-process-survives", fmt.Sprintf("%s: deadline reported but the command's main process is still running", c)
		}
		if o.Alive > 0 {
			return "timeout:child-in-process-group-survives", fmt.Sprintf("%s: deadline reported but %d process(es) of the command's group still run", c, o.Alive)
		}
	} else {
		if !o.SelfExited {
			return "model:success-reported-for-a-command-that-did-not-finish", fmt.Sprintf("%s: err=%q but the main process did not exit by itself (alive=%v)", c, o.Err, o.MainAlive)
		}
		if o.Alive > 0 {
			return "normal-exit:background-child-survives", fmt.Sprintf("%s: %d background process(es) of the group keep running after the action finished normally", c, o.Alive)
		}
	}
	if r.EarlyFires == 0 {
		// timers fired only when every thread was blocked: the clock is exact, so time bounds and the verdict are determined
		// (an early firing models arbitrarily slow threads: the clock jumps, and nothing can be said about durations)
		if o.Took > d+1030*time.Millisecond+slack {
			return "returned-too-late", fmt.Sprintf("%s: returned %v after the start on the fake clock (deadline %v)", c, o.Took, d)
		}
		holder := c.Child == "holds-stdout"
		switch {
		case c.Exit == "before" && !holder && o.TimedOut:
			return "spurious-deadline", fmt.Sprintf("%s: finished at 50ms but a deadline was reported", c)
		case c.Exit == "before" && !holder && o.Took != 50*time.Millisecond:
			return "model:finished-command-reported-late", fmt.Sprintf("%s: finished at 50ms, reported at %v", c, o.Took)
		case (c.Exit == "after" || (holder && c.Exit == "before")) && !o.TimedOut:
			return "deadline-not-reported", fmt.Sprintf("%s: the command cannot finish before the deadline but err=%q", c, o.Err)
		}
	}
	return "", ""
}

func explore(cs []Case, bound int, out *Out, stop func() bool) {
	res := make([]obs, len(cs))
	fn := func() {
		for i := range res {
			res[i] = obs{}
		}
		runCases(cs, res)
	}
	key := ""
	for _, c := range cs {
		key += c.Key() + " | "
	}
	set := map[string]bool{}
	for _, newest := range []bool{false, true} {
		base := vsched.Options{Bound: bound, EarlyTimers: true, DelayBound: true, NewestFirst: newest}
		st := vsched.ExploreOpt(fn, base, true, [][]int{nil}, func(r *vsched.Result) bool {
			out.Statuses[r.Status]++
			if r.Status == "panic" || r.Status == "fatal" || r.Status == "steplimit" {
				out.Violations = append(out.Violations, Violation{Class: "model:" + r.Status, Cases: cs, Choices: r.Choices, Detail: r.Detail})
				return false
			}
			for i, c := range cs {
				o := res[i]
				others := o.Alive
				if o.MainAlive {
					others--
				}
				set[fmt.Sprintf("%d: timedOut=%v main=%v others=%d", i, o.TimedOut, o.MainAlive, others)] = true
				if cls, detail := judge(c, o, r); cls != "" {
					first := o
					for n := 0; n < 2; n++ { // the same schedule must fail again, identically
						r2 := vsched.Run(vsched.Options{Prefix: r.Choices, EarlyTimers: true, DelayBound: true, NewestFirst: newest}, fn)
						if c2, _ := judge(c, res[i], r2); c2 != cls || res[i] != first {
							fmt.Fprintf(os.Stderr, "HARNESS-NONDETERMINISM: replay of %v on %s gave %q vs %q\n", r.Choices, key, c2, cls)
							os.Exit(2)
						}
					}
					if continuing[cls] {
						// a listed finding: reported once per behaviour, exploration goes on
						if !reported[cls+"|"+key] {
							reported[cls+"|"+key] = true
							out.Violations = append(out.Violations, Violation{Class: cls, Cases: cs, Choices: r.Choices, Newest: newest, Detail: detail})
						}
						continue
					}
					out.Violations = append(out.Violations, Violation{Class: cls, Cases: cs, Choices: r.Choices, Newest: newest, Detail: detail})
					return false
				}
			}
			return true
		}, stop)
		out.Executions += st.Executions
		out.Pruned += st.Pruned
		out.States += st.States
		out.Transitions += st.Transitions
		if st.MaxPoints > out.MaxPoints {
			out.MaxPoints = st.MaxPoints
		}
		if !st.Complete {
			out.Incomplete++
		}
	}
	out.Cases++
	var ks []string
	for k := range set {
		ks = append(ks, k)
	}
	sort.Strings(ks)
	out.Outcomes[strings.TrimSuffix(key, " | ")] = ks
}

func main() {
	tier := flag.String("tier", "quick", "")
	replay := flag.String("replay", "", "JSON file with one Violation to replay")
	budget := flag.Duration("budget", 10*time.Minute, "")
	bound := flag.Int("bound", 3, "deviation bound for single commands (preemptions + early timer firings)")
	only := flag.Int("only", -1, "only this single case")
	shard := flag.String("shard", "0/1", "k/n: explore every n-th work item starting with the k-th")
	cont := flag.String("continue", "", "comma-separated classes that do not end the exploration (listed findings)")
	flag.Parse()
	lib.Quiet()
	for _, c := range strings.Split(*cont, ",") {
		if c != "" {
			continuing[c] = true
		}
	}
	out := &Out{Outcomes: map[string][]string{}, Statuses: map[string]int{}}
	deadline := time.Now().Add(*budget)
	stop := func() bool { return time.Now().After(deadline) }
	if *replay != "" {
		var v Violation
		b, _ := os.ReadFile(*replay)
		if err := json.Unmarshal(b, &v); err != nil {
			fmt.Fprintln(os.Stderr, err)
			os.Exit(2)
		}
		res := make([]obs, len(v.Cases))
		r := vsched.Run(vsched.Options{Prefix: v.Choices, EarlyTimers: true, DelayBound: true, NewestFirst: v.Newest, Trace: true}, func() { runCases(v.Cases, res) })
		fmt.Fprintln(os.Stderr, vsched.FormatTrace(r.Trace))
		for i, c := range v.Cases {
			if cls, detail := judge(c, res[i], r); cls != "" {
				out.Violations = append(out.Violations, Violation{Class: cls, Cases: v.Cases, Choices: v.Choices, Detail: detail})
			}
		}
		json.NewEncoder(os.Stdout).Encode(out)
		return
	}
	var cases []Case
	for _, it := range []bool{false, true} {
		for _, ch := range []string{"none", "holds-stdout", "detached"} {
			for _, cit := range []bool{false, true} {
				if ch == "none" && cit {
					continue
				}
				for _, ex := range []string{"before", "at", "after"} {
					cases = append(cases, Case{it, cit, ch, ex, 0.3})
				}
			}
		}
	}
	// work items: single commands (every schedule within the bound, state-key pruned) and two commands on one executor
	// (shared process table and mutex); --shard k/n takes every n-th item so that the driver can use all cores
	type item struct {
		cs    []Case
		bound int
	}
	out.Bound = *bound
	var items []item
	for i, c := range cases {
		if *only >= 0 && i != *only {
			continue
		}
		items = append(items, item{[]Case{c}, *bound})
	}
	pairBound := 2
	var pairs [][]Case
	if *tier == "thorough" {
		pairBound = 3
		for i, a := range cases {
			for _, b := range cases[i:] {
				pairs = append(pairs, []Case{a, b})
			}
		}
	} else {
		pick := []Case{{false, false, "none", "before", 0.3}, {true, true, "holds-stdout", "after", 0.3}, {false, true, "detached", "after", 0.3}, {true, false, "none", "at", 0.3}}
		for i, a := range pick {
			for _, b := range pick[i:] {
				pairs = append(pairs, []Case{a, b})
			}
		}
	}
	out.PairBound = pairBound
	if *only < 0 {
		for _, p := range pairs {
			items = append(items, item{p, pairBound})
		}
	}
	k, n := 0, 1
	fmt.Sscanf(*shard, "%d/%d", &k, &n)
	for i, it := range items {
		if i%n != k {
			continue
		}
		if stop() {
			out.Incomplete++
			continue
		}
		explore(it.cs, it.bound, out, stop)
	}
	json.NewEncoder(os.Stdout).Encode(out)
}

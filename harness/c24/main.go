// C24: `plz query changes` never misses an affected target.
//
// Three bounded-exhaustive spaces over in-memory repositories (packages, targets with file / directory / named /
// data inputs, dependency and data-dependency edges, require/provide), all through the real query.Changes and
// query.DiffGraphs:
//
//	A "ownership"   every repo of <=2 targets over nested packages x every set of <=2 changed files, level 0
//	B "propagation" every repo of <=3 (quick) / 4 (thorough) targets with typed edges and require/provide x changed files x levels
//	C "diffgraphs"  every base repo x every single BUILD / file / config edit (before/after pair) x levels
//
// Oracle (one-sided, as the statement): reported >= {targets that consume a changed file or whose definition changed}
// and, for an unlimited level, >= {targets of the after-graph whose recursive build key (own definition, consumed file
// versions, keys of the dependencies it resolves to) differs or that are new}.
package main

import (
	"fmt"
	"os"
	"runtime"
	"runtime/debug"
	"runtime/pprof"
	"sort"
	"strings"
	"sync"
	"sync/atomic"
	"time"

	"github.com/thought-machine/please/src/core"
	"github.com/thought-machine/please/src/query"
	"github.com/thought-machine/please/verifharness/lib"
)

// ---------------------------------------------------------------------------------------------------------------
// witness

type tgt struct {
	Pkg       string   `json:"pkg"`
	Name      string   `json:"name"`
	Cmd       string   `json:"cmd,omitempty"`
	Srcs      []string `json:"srcs,omitempty"`       // relative to the package; a file or a directory
	NamedSrcs []string `json:"named_srcs,omitempty"` // srcs = {"n": [...]}
	Data      []string `json:"data,omitempty"`
	NamedData []string `json:"named_data,omitempty"`
	Deps      []string `json:"deps,omitempty"`      // labels
	DataDeps  []string `json:"data_deps,omitempty"` // data = [label]
	DataNamed bool     `json:"data_named,omitempty"` // the data dependencies are declared as data = {"n": [label]}
	Requires  bool     `json:"requires,omitempty"`  // requires = ["l"]
	Provides  string   `json:"provides,omitempty"`  // provides = {"l": label}
	TestCmd   string   `json:"test_cmd,omitempty"`  // non-empty: a test target
	Manual    bool     `json:"manual,omitempty"`    // labels = ["manual"]: excluded from the report (as plz query changes always does), but still propagates
}

func (t tgt) label() string { return "//" + t.Pkg + ":" + t.Name }

type repo struct {
	Pkgs    []string `json:"packages"`
	Targets []tgt    `json:"targets"`
	Config  string   `json:"config,omitempty"`
}

type witness struct {
	Mode   string   `json:"mode"` // changes | diffgraphs
	Edit   string   `json:"edit,omitempty"`
	Before *repo    `json:"before,omitempty"`
	After  repo     `json:"after"`
	Files  []string `json:"files"`         // changed files passed to the query
	Edited []string `json:"content_edits"` // files whose bytes changed (subset of Files; the rest are BUILD files)
	Level  int      `json:"level"`

	// generator-assigned identities of the two repositories (0 = unknown): lets a worker reuse the real graphs it
	// built for the previous evaluation. Never serialised, reset by clone().
	afterID, beforeID uint64
}

var repoIDs uint64

func newID() uint64 { return atomic.AddUint64(&repoIDs, 1) }

func cloneStrs(s []string) []string { return append([]string(nil), s...) }

func (t tgt) clone() tgt {
	c := t
	c.Srcs, c.NamedSrcs, c.Data, c.NamedData = cloneStrs(t.Srcs), cloneStrs(t.NamedSrcs), cloneStrs(t.Data), cloneStrs(t.NamedData)
	c.Deps, c.DataDeps = cloneStrs(t.Deps), cloneStrs(t.DataDeps)
	return c
}

func (r repo) clone() repo {
	c := repo{Pkgs: cloneStrs(r.Pkgs), Config: r.Config}
	for _, t := range r.Targets {
		c.Targets = append(c.Targets, t.clone())
	}
	return c
}

func (w witness) clone() witness {
	c := w
	c.After = w.After.clone()
	if w.Before != nil {
		b := w.Before.clone()
		c.Before = &b
	}
	c.Files, c.Edited = cloneStrs(w.Files), cloneStrs(w.Edited)
	c.afterID, c.beforeID = 0, 0
	return c
}

// ---------------------------------------------------------------------------------------------------------------
// reference model

// owner: the closest enclosing package of a file ("" = root package; ok=false: no package owns it).
func owner(pkgs []string, file string) (string, bool) {
	best, found := "", false
	for _, p := range pkgs {
		if p == "" || strings.HasPrefix(file, p+"/") {
			if !found || len(p) > len(best) {
				best, found = p, true
			}
		}
	}
	return best, found
}

func join(pkg, rel string) string {
	if pkg == "" {
		return rel
	}
	return pkg + "/" + rel
}

func (t tgt) inputs() []string {
	var all []string
	all = append(all, t.Srcs...)
	all = append(all, t.NamedSrcs...)
	all = append(all, t.Data...)
	all = append(all, t.NamedData...)
	return all
}

func consumes(r *repo, t tgt, file string) bool {
	if o, ok := owner(r.Pkgs, file); !ok || o != t.Pkg {
		return false
	}
	for _, in := range t.inputs() {
		full := join(t.Pkg, in)
		if file == full || strings.HasPrefix(file, full+"/") {
			return true
		}
	}
	return false
}

func (r *repo) index() map[string]int {
	m := map[string]int{}
	for i, t := range r.Targets {
		m[t.label()] = i
	}
	return m
}

func has(xs []string, x string) bool {
	for _, y := range xs {
		if x == y {
			return true
		}
	}
	return false
}

// resolved: the targets t really depends on once require/provide is applied (never for data dependencies).
func (r *repo) resolved(idx map[string]int, t tgt) []string {
	var out []string
	for _, d := range t.Deps {
		if j, ok := idx[d]; ok && t.Requires && r.Targets[j].Provides != "" && !has(t.DataDeps, d) {
			out = append(out, r.Targets[j].Provides)
		} else {
			out = append(out, d)
		}
	}
	out = append(out, t.DataDeps...)
	sort.Strings(out)
	return out
}

func (r *repo) cyclic() bool {
	idx := r.index()
	col := map[string]int{}
	var dfs func(string) bool
	dfs = func(l string) bool {
		col[l] = 1
		i, ok := idx[l]
		if ok {
			t := r.Targets[i]
			for _, d := range append(r.resolved(idx, t), append(cloneStrs(t.Deps), t.DataDeps...)...) {
				if d == l || col[d] == 1 || (col[d] == 0 && dfs(d)) {
					return true
				}
			}
		}
		col[l] = 2
		return false
	}
	for _, t := range r.Targets {
		if col[t.label()] == 0 && dfs(t.label()) {
			return true
		}
	}
	return false
}

// legal: every referenced label exists, every input file belongs to the target's own package, no directory input
// contains another package, the target's package exists.
func (r *repo) legal() bool {
	idx := r.index()
	if len(idx) != len(r.Targets) {
		return false
	}
	for _, t := range r.Targets {
		if !has(r.Pkgs, t.Pkg) {
			return false
		}
		for _, d := range append(append(cloneStrs(t.Deps), t.DataDeps...), t.Provides) {
			if d == "" {
				continue
			}
			if _, ok := idx[d]; !ok || d == t.label() {
				return false
			}
		}
		for _, d := range t.Deps {
			if has(t.DataDeps, d) {
				return false
			}
		}
		for _, in := range t.inputs() {
			full := join(t.Pkg, in)
			if o, ok := owner(r.Pkgs, full+"/_"); !ok || o != t.Pkg {
				return false
			}
			for _, p := range r.Pkgs {
				if p != t.Pkg && (p == full || strings.HasPrefix(p, full+"/")) {
					return false
				}
			}
		}
	}
	return !r.cyclic()
}

func defString(t tgt) string {
	s := func(xs []string) string { ys := cloneStrs(xs); sort.Strings(ys); return strings.Join(ys, ",") }
	return fmt.Sprintf("cmd=%s|srcs=%s|nsrcs=%s|data=%s|ndata=%s|deps=%s|ddeps=%s|req=%v|prov=%s|test=%s|dnamed=%v",
		t.Cmd, strings.Join(t.Srcs, ","), strings.Join(t.NamedSrcs, ","), strings.Join(t.Data, ","), strings.Join(t.NamedData, ","), s(t.Deps), s(t.DataDeps), t.Requires, t.Provides, t.TestCmd, t.DataNamed && len(t.DataDeps) > 0)
}

// keys: the recursive build key of every target: own definition, versions of the files it consumes, keys of resolved deps.
func (r *repo) keys(edited map[string]bool) map[string]string {
	idx := r.index()
	memo := map[string]string{}
	var key func(l string) string
	key = func(l string) string {
		if k, ok := memo[l]; ok {
			return k
		}
		i, ok := idx[l]
		if !ok {
			return "<missing " + l + ">"
		}
		t := r.Targets[i]
		var parts []string
		parts = append(parts, "cfg="+r.Config, defString(t))
		var fs []string
		for f := range edited {
			if consumes(r, t, f) {
				fs = append(fs, f)
			}
		}
		sort.Strings(fs)
		parts = append(parts, "edited="+strings.Join(fs, ","))
		for _, d := range r.resolved(idx, t) {
			parts = append(parts, d+"{"+key(d)+"}")
		}
		memo[l] = strings.Join(parts, ";")
		return memo[l]
	}
	for _, t := range r.Targets {
		key(t.label())
	}
	return memo
}

type expectation struct {
	set    map[string]string // label -> why it is expected
	detail string
}

// expected computes the set the statement demands for this witness.
func expected(w *witness) map[string]string {
	after := &w.After
	idx := after.index()
	exp := map[string]string{}
	edited := map[string]bool{}
	for _, f := range w.Edited {
		edited[f] = true
	}
	// level 0: direct consumers and changed definitions
	for _, t := range after.Targets {
		for f := range edited {
			if consumes(after, t, f) {
				exp[t.label()] = "consumer"
			}
		}
	}
	if w.Before != nil {
		bidx := w.Before.index()
		for _, t := range after.Targets {
			if j, ok := bidx[t.label()]; !ok {
				exp[t.label()] = "definition"
			} else if defString(w.Before.Targets[j]) != defString(t) || w.Before.Config != after.Config {
				exp[t.label()] = "definition"
			}
		}
	}
	if w.Level == 0 {
		return exp
	}
	if w.Level > 0 {
		// a limited level: targets within w.Level resolved-dependency steps of that set
		frontier := map[string]bool{}
		for l := range exp {
			frontier[l] = true
		}
		for step := 0; step < w.Level; step++ {
			next := map[string]bool{}
			for _, t := range after.Targets {
				if _, ok := exp[t.label()]; ok {
					continue
				}
				for _, d := range after.resolved(idx, t) {
					if frontier[d] {
						next[t.label()] = true
					}
				}
			}
			for l := range next {
				exp[l] = "dependent"
			}
			frontier = next
		}
		return exp
	}
	// unlimited: every target whose recursive key differs
	var bk map[string]string
	if w.Before != nil {
		bk = w.Before.keys(nil)
	} else {
		bk = after.keys(nil)
	}
	ak := after.keys(edited)
	for _, t := range after.Targets {
		l := t.label()
		if _, ok := exp[l]; ok {
			continue
		}
		if b, ok := bk[l]; !ok || b != ak[l] {
			exp[l] = "dependent"
		}
	}
	return exp
}

// ---------------------------------------------------------------------------------------------------------------
// real code

func buildState(state *core.BuildState, r *repo) {
	g := core.NewGraph()
	state.Graph = g
	state.SetIncludeAndExclude(nil, []string{"manual"}) // what `plz query changes` always sets
	state.Hashes.Config = []byte(r.Config)
	pkgs := map[string]*core.Package{}
	for _, p := range r.Pkgs {
		pkgs[p] = core.NewPackage(p)
		g.AddPackage(pkgs[p])
	}
	lab := func(s string) core.BuildLabel { return core.ParseBuildLabel(s, "") }
	for _, t := range r.Targets {
		pkg := pkgs[t.Pkg]
		bt := core.NewBuildTarget(lab(t.label()))
		bt.Command = t.Cmd
		for _, s := range t.Srcs {
			bt.AddSource(core.NewFileLabel(s, pkg))
		}
		for _, s := range t.NamedSrcs {
			bt.AddNamedSource("n", core.NewFileLabel(s, pkg))
		}
		for _, s := range t.Data {
			bt.AddDatum(core.NewFileLabel(s, pkg))
		}
		for _, s := range t.NamedData {
			bt.AddNamedDatum("n", core.NewFileLabel(s, pkg))
		}
		for _, d := range t.Deps {
			bt.AddDependency(lab(d))
		}
		for _, d := range t.DataDeps {
			if t.DataNamed {
				bt.AddNamedDatum("n", lab(d))
			} else {
				bt.AddDatum(lab(d))
			}
		}
		if t.Requires {
			bt.AddRequire("l")
		}
		if t.Provides != "" {
			bt.AddProvide("l", []core.BuildLabel{lab(t.Provides)})
		}
		if t.TestCmd != "" {
			bt.Test = new(core.TestFields)
			bt.Test.Command = t.TestCmd
		}
		if t.Manual {
			bt.AddLabel("manual")
		}
		g.AddTarget(bt)
		pkg.AddTarget(bt)
	}
}

type states struct {
	before, after     *core.BuildState
	beforeID, afterID uint64
}

func newStates() *states {
	// Changes/DiffGraphs/RuleHash only read Graph, Hashes.Config and the (empty) include/exclude filters of a state
	// as long as no target has per-configuration commands or tools.
	return &states{before: &core.BuildState{}, after: &core.BuildState{}}
}

func run(st *states, w *witness) map[string]bool {
	// the real graphs are rebuilt only when the repository differs from the previous evaluation of this worker
	if w.afterID == 0 || w.afterID != st.afterID {
		buildState(st.after, &w.After)
		st.afterID = w.afterID
	}
	var out core.BuildLabels
	if w.Mode == "changes" {
		out = query.Changes(st.after, w.Files, w.Level, false)
	} else {
		if w.beforeID == 0 || w.beforeID != st.beforeID {
			buildState(st.before, w.Before)
			st.beforeID = w.beforeID
		}
		out = query.DiffGraphs(st.before, st.after, w.Files, w.Level, false)
	}
	got := map[string]bool{}
	for _, l := range out {
		got["//"+l.PackageName+":"+l.Name] = true
	}
	return got
}

// eval returns "" if the property holds on w, else (reason of the first missed target, detail).
func eval(st *states, w *witness) (string, string, bool) {
	exp := expected(w)
	for _, t := range w.After.Targets {
		if t.Manual {
			delete(exp, t.label()) // excluded targets need not be reported; what depends on them must be
		}
	}
	got := run(st, w)
	var missed []string
	for l := range exp {
		if !got[l] {
			missed = append(missed, l)
		}
	}
	if len(missed) == 0 {
		return "", "", len(exp) > 0
	}
	sort.Strings(missed)
	// prefer the most direct reason
	reason := "dependent"
	for _, l := range missed {
		if exp[l] == "definition" {
			reason = "definition"
		}
	}
	for _, l := range missed {
		if exp[l] == "consumer" {
			reason = "consumer"
		}
	}
	var gl []string
	for l := range got {
		gl = append(gl, l)
	}
	sort.Strings(gl)
	var el []string
	for l, why := range exp {
		el = append(el, l+"("+why+")")
	}
	sort.Strings(el)
	return reason, fmt.Sprintf("%s level=%d files=%v edit=%q: missed %v; reported %v; expected at least %v", w.Mode, w.Level, w.Files, w.Edit, missed, gl, el), true
}

// ---------------------------------------------------------------------------------------------------------------
// shrinking / classification

func levelTag(l int) string {
	switch {
	case l == 0:
		return "level=0"
	case l == -1:
		return "unlimited"
	}
	return "level-limited"
}

func (w *witness) valid() bool {
	if !w.After.legal() {
		return false
	}
	if w.Before != nil && !w.Before.legal() {
		return false
	}
	return true
}

func dropLabel(r *repo, l string) {
	var ts []tgt
	for _, t := range r.Targets {
		if t.label() == l {
			continue
		}
		var d, dd []string
		for _, x := range t.Deps {
			if x != l {
				d = append(d, x)
			}
		}
		for _, x := range t.DataDeps {
			if x != l {
				dd = append(dd, x)
			}
		}
		t.Deps, t.DataDeps = d, dd
		if t.Provides == l {
			t.Provides = ""
		}
		ts = append(ts, t)
	}
	r.Targets = ts
}

// mutations applies f to the same-labelled target in before and after (keeps the edit itself intact where possible).
func shrink(st *states, w witness, reason string) witness {
	still := func(c witness) bool {
		if !c.valid() {
			return false
		}
		r, _, _ := eval(st, &c)
		return r == reason
	}
	both := func(c *witness, f func(r *repo)) {
		f(&c.After)
		if c.Before != nil {
			f(c.Before)
		}
	}
	for changed := true; changed; {
		changed = false
		try := func(c witness) bool {
			if still(c) {
				w, changed = c, true
				return true
			}
			return false
		}
		// fewer files
		for i := range w.Files {
			c := w.clone()
			f := c.Files[i]
			c.Files = append(c.Files[:i:i], c.Files[i+1:]...)
			var ed []string
			for _, e := range c.Edited {
				if e != f {
					ed = append(ed, e)
				}
			}
			c.Edited = ed
			if try(c) {
				break
			}
		}
		if changed {
			continue
		}
		// fewer targets
		labels := map[string]bool{}
		for _, t := range w.After.Targets {
			labels[t.label()] = true
		}
		if w.Before != nil {
			for _, t := range w.Before.Targets {
				labels[t.label()] = true
			}
		}
		var ls []string
		for l := range labels {
			ls = append(ls, l)
		}
		sort.Strings(ls)
		for _, l := range ls {
			c := w.clone()
			both(&c, func(r *repo) { dropLabel(r, l) })
			if try(c) {
				break
			}
		}
		if changed {
			continue
		}
		// simpler targets (same simplification on both sides)
		for _, l := range ls {
			simpl := []func(t *tgt){
				func(t *tgt) { t.Provides = "" },
				func(t *tgt) { t.Requires = false },
				func(t *tgt) { t.TestCmd = "" },
				func(t *tgt) { t.Srcs = nil },
				func(t *tgt) { t.NamedSrcs = nil },
				func(t *tgt) { t.Data = nil },
				func(t *tgt) { t.NamedData = nil },
				func(t *tgt) { t.Srcs = append(t.Srcs, t.NamedSrcs...); t.NamedSrcs = nil },
				func(t *tgt) { t.Data = append(t.Data, t.NamedData...); t.NamedData = nil },
				func(t *tgt) { t.Deps = append(t.Deps, t.DataDeps...); t.DataDeps = nil },
			}
			for k := 0; k < 4; k++ {
				k := k
				simpl = append(simpl, func(t *tgt) {
					if k < len(t.Deps) {
						t.Deps = append(t.Deps[:k:k], t.Deps[k+1:]...)
					}
				}, func(t *tgt) {
					if k < len(t.DataDeps) {
						t.DataDeps = append(t.DataDeps[:k:k], t.DataDeps[k+1:]...)
					}
				})
			}
			for _, f := range simpl {
				c := w.clone()
				before := fmt.Sprint(c)
				both(&c, func(r *repo) {
					for i := range r.Targets {
						if r.Targets[i].label() == l {
							f(&r.Targets[i])
						}
					}
				})
				if fmt.Sprint(c) == before {
					continue
				}
				if try(c) {
					break
				}
			}
			if changed {
				break
			}
		}
		if changed {
			continue
		}
		// fewer packages
		for i := range w.After.Pkgs {
			c := w.clone()
			p := c.After.Pkgs[i]
			both(&c, func(r *repo) {
				var ps []string
				for _, q := range r.Pkgs {
					if q != p {
						ps = append(ps, q)
					}
				}
				r.Pkgs = ps
			})
			if try(c) {
				break
			}
		}
	}
	return w
}

func classOf(w *witness, reason string) string {
	cl := w.Mode + ":" + reason + "-missed"
	if reason == "dependent" {
		cl += ":" + levelTag(w.Level) // consumers and changed definitions are owed at every level
	}
	if w.Mode == "diffgraphs" {
		ed := strings.SplitN(w.Edit, "(", 2)[0]
		if strings.HasSuffix(ed, "-provides") {
			ed = "provides" // add / remove / retarget a provides entry: one family
		}
		cl += ":edit=" + ed
	}
	var feats []string
	anyT := func(f func(t tgt) bool) bool {
		for _, t := range w.After.Targets {
			if f(t) {
				return true
			}
		}
		if w.Before != nil {
			for _, t := range w.Before.Targets {
				if f(t) {
					return true
				}
			}
		}
		return false
	}
	if reason == "consumer" {
		kinds := []struct {
			n string
			f func(t tgt) []string
		}{{"src", func(t tgt) []string { return t.Srcs }}, {"named-src", func(t tgt) []string { return t.NamedSrcs }}, {"data", func(t tgt) []string { return t.Data }}, {"named-data", func(t tgt) []string { return t.NamedData }}}
		for _, k := range kinds {
			if anyT(func(t tgt) bool { return len(k.f(t)) > 0 }) {
				feats = append(feats, "input="+k.n)
			}
		}
		dir := false
		for _, t := range w.After.Targets {
			for _, in := range t.inputs() {
				for _, f := range w.Files {
					if strings.HasPrefix(f, join(t.Pkg, in)+"/") {
						dir = true
					}
				}
			}
		}
		if dir {
			feats = append(feats, "directory-input")
		}
		if len(w.After.Pkgs) > 1 {
			feats = append(feats, "nested-packages")
		}
	} else {
		if anyT(func(t tgt) bool { return t.Provides != "" }) {
			feats = append(feats, "require-provide")
		}
		if anyT(func(t tgt) bool { return len(t.DataDeps) > 0 }) {
			feats = append(feats, "data-dependency")
		}
	}
	if len(feats) > 0 {
		cl += ":" + strings.Join(feats, "+")
	}
	return cl
}

func size(w *witness) []int {
	n := len(w.After.Targets)
	e := 0
	for _, t := range w.After.Targets {
		e += len(t.Deps) + len(t.DataDeps) + len(t.inputs())
	}
	if w.Before != nil {
		n += len(w.Before.Targets)
	}
	lv := w.Level
	if lv == -1 {
		lv = 99
	}
	return []int{n, e, len(w.Files), len(w.After.Pkgs), lv}
}

func less(a, b *witness) bool {
	ka, kb := size(a), size(b)
	for i := range ka {
		if ka[i] != kb[i] {
			return ka[i] < kb[i]
		}
	}
	return fmt.Sprint(*a) < fmt.Sprint(*b)
}

type found struct {
	w      witness
	detail string
	count  int
}

var (
	foundMu sync.Mutex
	founds  = map[string]*found{}
	cnt     struct{ evals, nontrivial int64 }
)

func record(st *states, w witness, reason string) {
	for i := 0; i < 2; i++ {
		if r, _, _ := eval(st, &w); r != reason {
			lib.Fatal("HARNESS-NONDETERMINISM: %+v gave %q then %q", w, reason, r)
		}
	}
	sw := shrink(st, w.clone(), reason)
	cl := classOf(&sw, reason)
	_, d, _ := eval(st, &sw)
	foundMu.Lock()
	defer foundMu.Unlock()
	f := founds[cl]
	if f == nil {
		founds[cl] = &found{w: sw, detail: d, count: 1}
		return
	}
	f.count++
	if less(&sw, &f.w) {
		f.w, f.detail = sw, d
	}
}

// ---------------------------------------------------------------------------------------------------------------
// generators

// universe of repository files
var universe = []string{"x.txt", "d/y.txt", "d/e/z.txt", "a/x.txt", "a/d/y.txt", "a/a/x.txt", "a/b/x.txt", "a/b/d/y.txt"}

var pkgSets = [][]string{{""}, {"a"}, {"", "a"}, {"a", "a/b"}, {"", "a", "a/b"}, {"", "a/b"}}

// inputOptions: every file of the universe owned by pkg (as a path relative to pkg) and every directory above such a
// file, strictly inside the package and not containing another package.
func inputOptions(pkgs []string, pkg string) []string {
	seen := map[string]bool{}
	var out []string
	for _, f := range universe {
		if o, ok := owner(pkgs, f); !ok || o != pkg {
			continue
		}
		rel := f
		if pkg != "" {
			rel = strings.TrimPrefix(f, pkg+"/")
		}
		parts := strings.Split(rel, "/")
		for k := 1; k <= len(parts); k++ {
			cand := strings.Join(parts[:k], "/")
			if seen[cand] {
				continue
			}
			full := join(pkg, cand)
			bad := false
			for _, p := range pkgs {
				if p != pkg && (p == full || strings.HasPrefix(p, full+"/")) {
					bad = true
				}
			}
			if !bad {
				seen[cand] = true
				out = append(out, cand)
			}
		}
	}
	return out
}

type job func(st *states, emit func(w witness))

func withInput(t tgt, kind int, in string) tgt {
	t = t.clone()
	switch kind {
	case 0:
		t.Srcs = []string{in}
	case 1:
		t.NamedSrcs = []string{in}
	case 2:
		t.Data = []string{in}
	case 3:
		t.NamedData = []string{in}
	}
	return t
}

// fileSets: all non-empty subsets of size <= max.
func fileSets(files []string, max int) [][]string {
	var out [][]string
	for i := range files {
		out = append(out, []string{files[i]})
	}
	if max >= 2 {
		for i := range files {
			for j := i + 1; j < len(files); j++ {
				out = append(out, []string{files[i], files[j]})
			}
		}
	}
	return out
}

// spaceA: ownership. Up to two targets, each in any package with at most one input of any kind; all changed-file sets; level 0
// (and -1 / 1 for good measure when thorough; without edges they must equal level 0).
func spaceA(quick bool, out chan<- job) {
	type cand struct{ t tgt }
	for _, pkgs := range pkgSets {
		pkgs := pkgs
		var cands []tgt
		for _, p := range pkgs {
			base := tgt{Pkg: p, Cmd: "c"}
			cands = append(cands, base)
			for _, in := range inputOptions(pkgs, p) {
				for kind := 0; kind < 4; kind++ {
					cands = append(cands, withInput(base, kind, in))
				}
			}
		}
		maxFiles := 2
		fsets := fileSets(universe, maxFiles)
		levels := []int{0}
		if !quick {
			levels = []int{0, -1}
		}
		for i := range cands {
			i := i
			out <- func(st *states, emit func(w witness)) {
				for j := -1; j < len(cands); j++ {
					if j >= 0 && j < i {
						continue // unordered pairs
					}
					t0 := cands[i].clone()
					t0.Name = "t0"
					r := repo{Pkgs: pkgs, Targets: []tgt{t0}}
					if j >= 0 {
						t1 := cands[j].clone()
						t1.Name = "t1"
						r.Targets = append(r.Targets, t1)
					}
					id := newID()
					for _, fs := range fsets {
						for _, lv := range levels {
							emit(witness{Mode: "changes", After: r, Files: fs, Edited: fs, Level: lv, afterID: id})
						}
					}
				}
			}
		}
	}
}

// graphRepos enumerates the propagation repos: n targets t0..t(n-1), each in package "" or "a", each with no input or
// src x.txt of its package; typed edges i->j (i<j): none | dep | data-dep (data-deps only if dataDeps); at most one
// provider j with provides -> k (k != j); any subset of requirers among the dependents (dep or data-dep) of the provider.
// Each repo with data-deps is produced in two spellings: data = [labels] and data = {"n": [labels]}.
func graphRepos(n int, dataDeps bool, twoPkgs bool, reqAlone bool, visit0 func(r repo)) {
	// every repo with data dependencies is visited twice: data = [labels] and data = {"n": [labels]}
	visit := func(r repo) {
		visit0(r)
		named := false
		r2 := r.clone()
		for i := range r2.Targets {
			if len(r2.Targets[i].DataDeps) > 0 {
				r2.Targets[i].DataNamed, named = true, true
			}
		}
		if named {
			visit0(r2)
		}
	}
	pkgsOf := []string{""}
	if twoPkgs {
		pkgsOf = []string{"", "a"}
	}
	type edge struct{ i, j int }
	var edges []edge
	for i := 0; i < n; i++ {
		for j := i + 1; j < n; j++ {
			edges = append(edges, edge{i, j})
		}
	}
	kinds := 2
	if dataDeps {
		kinds = 3
	}
	pow := func(b, e int) int {
		r := 1
		for ; e > 0; e-- {
			r *= b
		}
		return r
	}
	for pa := 0; pa < pow(len(pkgsOf), n); pa++ {
		for ia := 0; ia < pow(2, n); ia++ {
			for em := 0; em < pow(kinds, len(edges)); em++ {
				ts := make([]tgt, n)
				x := pa
				for i := range ts {
					ts[i] = tgt{Pkg: pkgsOf[x%len(pkgsOf)], Name: fmt.Sprintf("t%d", i), Cmd: "c"}
					x /= len(pkgsOf)
					if ia&(1<<i) != 0 {
						ts[i].Srcs = []string{"x.txt"}
					}
				}
				y := em
				for _, e := range edges {
					switch y % kinds {
					case 1:
						ts[e.i].Deps = append(ts[e.i].Deps, ts[e.j].label())
					case 2:
						ts[e.i].DataDeps = append(ts[e.i].DataDeps, ts[e.j].label())
					}
					y /= kinds
				}
				pk := cloneStrs(pkgsOf)
				base := repo{Pkgs: pk, Targets: ts}
				visit(base.clone())
				if reqAlone {
					// targets that already require "l" although nothing provides it yet (matters for provides edits)
					for sub := 1; sub < 1<<n; sub++ {
						r := base.clone()
						for i := 0; i < n; i++ {
							r.Targets[i].Requires = sub&(1<<i) != 0
						}
						visit(r)
					}
				}
				for j := 0; j < n; j++ {
					var preds []int
					for i := 0; i < n; i++ {
						if has(ts[i].Deps, ts[j].label()) || has(ts[i].DataDeps, ts[j].label()) {
							preds = append(preds, i)
						}
					}
					if len(preds) == 0 {
						continue
					}
					for k := 0; k < n; k++ {
						if k == j {
							continue
						}
						for sub := 1; sub < 1<<len(preds); sub++ {
							r := base.clone()
							r.Targets[j].Provides = ts[k].label()
							for b, p := range preds {
								if sub&(1<<b) != 0 {
									r.Targets[p].Requires = true
								}
							}
							if r.legal() {
								visit(r)
							}
						}
					}
				}
			}
		}
	}
}

func repoFiles(r *repo) []string {
	var fs []string
	for _, p := range r.Pkgs {
		fs = append(fs, join(p, "x.txt"))
	}
	return fs
}

// spaceB: propagation through the real FindRevdeps call inside Changes.
func spaceB(quick bool, out chan<- job) {
	type cfg struct {
		n        int
		dataDeps bool
		twoPkgs  bool
	}
	cfgs := []cfg{{1, true, true}, {2, true, true}, {3, true, true}}
	if !quick {
		cfgs = append(cfgs, cfg{4, false, false})
	}
	for _, c := range cfgs {
		c := c
		var batch []repo
		flush := func() {
			b := batch
			batch = nil
			out <- func(st *states, emit func(w witness)) {
				for _, r := range b {
					levels := []int{0, 1, -1}
					if c.n >= 4 {
						levels = []int{1, 2, -1}
					}
					id := newID()
					for _, fs := range fileSets(repoFiles(&r), 2) {
						for _, lv := range levels {
							emit(witness{Mode: "changes", After: r, Files: fs, Edited: fs, Level: lv, afterID: id})
						}
					}
				}
			}
		}
		graphRepos(c.n, c.dataDeps, c.twoPkgs, false, func(r repo) {
			batch = append(batch, r)
			// the same repository with one target excluded from the report (label manual)
			if c.n <= 3 {
				for i := range r.Targets {
					r2 := r.clone()
					r2.Targets[i].Manual = true
					batch = append(batch, r2)
				}
			}
			if len(batch) >= 256 {
				flush()
			}
		})
		flush()
	}
}

// edits: every single edit of a repo, as (name, before, after, files, content-edited files).
func edits(base repo, visit func(name string, before, after repo, files, edited []string)) {
	build := func(t tgt) string { return join(t.Pkg, "BUILD") }
	n := len(base.Targets)
	// file content edits: same graph
	for _, f := range repoFiles(&base) {
		visit("file-content("+f+")", base, base, []string{f}, []string{f})
	}
	for i := 0; i < n; i++ {
		t := base.Targets[i]
		mod := func(name string, f func(t *tgt)) {
			a := base.clone()
			f(&a.Targets[i])
			if a.legal() {
				visit(name+"("+t.Name+")", base, a, []string{build(t)}, nil)
			}
		}
		mod("cmd", func(t *tgt) { t.Cmd = "c2" })
		mod("toggle-src", func(t *tgt) {
			if len(t.Srcs) > 0 {
				t.Srcs = nil
			} else {
				t.Srcs = []string{"x.txt"}
			}
		})
		mod("toggle-data", func(t *tgt) {
			if len(t.Data) > 0 {
				t.Data = nil
			} else {
				t.Data = []string{"x.txt"}
			}
		})
		mod("toggle-test", func(t *tgt) {
			if t.TestCmd != "" {
				t.TestCmd = ""
			} else {
				t.TestCmd = "tc"
			}
		})
		mod("toggle-requires", func(t *tgt) { t.Requires = !t.Requires })
		for k := -1; k < n; k++ {
			if k == i {
				continue
			}
			nl := ""
			if k >= 0 {
				nl = base.Targets[k].label()
			}
			if nl == t.Provides {
				continue
			}
			nm := "set-provides"
			if nl == "" {
				nm = "remove-provides"
			} else if t.Provides == "" {
				nm = "add-provides"
			}
			mod(nm, func(t *tgt) { t.Provides = nl })
		}
		for j := i + 1; j < n; j++ {
			l := base.Targets[j].label()
			if has(t.Deps, l) {
				mod("remove-dep", func(t *tgt) {
					var d []string
					for _, x := range t.Deps {
						if x != l {
							d = append(d, x)
						}
					}
					t.Deps = d
				})
				mod("dep-to-data-dep", func(t *tgt) {
					var d []string
					for _, x := range t.Deps {
						if x != l {
							d = append(d, x)
						}
					}
					t.Deps = d
					t.DataDeps = append(t.DataDeps, l)
				})
			} else if has(t.DataDeps, l) {
				mod("remove-data-dep", func(t *tgt) {
					var d []string
					for _, x := range t.DataDeps {
						if x != l {
							d = append(d, x)
						}
					}
					t.DataDeps = d
				})
			} else {
				mod("add-dep", func(t *tgt) { t.Deps = append(t.Deps, l) })
				mod("add-data-dep", func(t *tgt) { t.DataDeps = append(t.DataDeps, l) })
			}
		}
		// add / remove the whole target (with its edges)
		without := base.clone()
		dropLabel(&without, t.label())
		if without.legal() {
			visit("add-target("+t.Name+")", without, base, []string{build(t)}, nil)
			visit("remove-target("+t.Name+")", base, without, []string{build(t)}, nil)
		}
	}
	cfg := base.clone()
	cfg.Config = "other"
	visit("config", base, cfg, []string{".plzconfig"}, nil)
}

// spaceC: before/after pairs.
func spaceC(quick bool, out chan<- job) {
	type cfg struct {
		n        int
		dataDeps bool
		twoPkgs  bool
	}
	cfgs := []cfg{{1, false, false}, {2, true, false}, {3, false, false}}
	if !quick {
		cfgs = []cfg{{1, true, true}, {2, true, true}, {3, true, false}, {4, false, false}}
	}
	for _, c := range cfgs {
		var batch []repo
		flush := func() {
			b := batch
			batch = nil
			out <- func(st *states, emit func(w witness)) {
				for _, r := range b {
					edits(r, func(name string, before, after repo, files, edited []string) {
						ida, idb := newID(), newID()
						for _, lv := range []int{0, 1, -1} {
							bc := before
							emit(witness{Mode: "diffgraphs", Edit: name, Before: &bc, After: after, Files: files, Edited: edited, Level: lv, afterID: ida, beforeID: idb})
						}
					})
				}
			}
		}
		graphRepos(c.n, c.dataDeps, c.twoPkgs, true, func(r repo) {
			batch = append(batch, r)
			if len(batch) == 64 {
				flush()
			}
		})
		flush()
	}
}

// gcTuning: tiny live heap, very high allocation rate (every BuildGraph is 512 maps, every FindRevdeps a 1000-slot map):
// collect by footprint instead of by growth (measured: about 40% less CPU than the default or a ballast).
func gcTuning() {
	if os.Getenv("VERIF_NO_GC_TUNING") != "" {
		return
	}
	debug.SetGCPercent(-1)
	debug.SetMemoryLimit(512 << 20)
}

func main() {
	r := lib.Start("C24", "exploration")
	lib.Quiet()
	gcTuning()
	if pf := os.Getenv("VERIF_CPUPROFILE"); pf != "" {
		f, _ := os.Create(pf)
		pprof.StartCPUProfile(f)
		defer pprof.StopCPUProfile()
		time.AfterFunc(15*time.Second, func() { pprof.StopCPUProfile(); f.Close(); os.Exit(3) })
	}
	if r.Replay != "" {
		var w witness
		lib.LoadReplay(r.Replay, &w)
		st := newStates()
		if !w.valid() {
			lib.Fatal("replay witness is not a legal repository")
		}
		if reason, d, _ := eval(st, &w); reason != "" {
			r.Violate(classOf(&w, reason), w, d)
		}
		r.Finish(lib.Coverage{Evaluations: 1, DistinctNontrivial: 1, Rule: "replay", Samples: []any{w}, Exhaustive: true})
	}
	var samples lib.Samples
	perSpace := map[string]*int64{"A-ownership": new(int64), "B-propagation": new(int64), "C-diffgraphs": new(int64)}
	exhaustive := true
	for _, sp := range []struct {
		name string
		gen  func(bool, chan<- job)
	}{{"A-ownership", spaceA}, {"B-propagation", spaceB}, {"C-diffgraphs", spaceC}} {
		jobs := make(chan job, 64)
		go func() { sp.gen(r.Quick(), jobs); close(jobs) }()
		var wg sync.WaitGroup
		ctr := perSpace[sp.name]
		for wk := 0; wk < runtime.NumCPU(); wk++ {
			wg.Add(1)
			go func() {
				defer wg.Done()
				st := newStates()
				for j := range jobs {
					if r.OutOfTime() {
						continue // drain
					}
					j(st, func(w witness) {
						if !w.valid() {
							return
						}
						reason, _, nt := eval(st, &w)
						ev := atomic.AddInt64(&cnt.evals, 1)
						atomic.AddInt64(ctr, 1)
						if nt {
							atomic.AddInt64(&cnt.nontrivial, 1)
						}
						if ev%4099 == 1 {
							samples.Add(func() any { return w.clone() })
						}
						if reason != "" {
							record(st, w.clone(), reason)
						}
					})
				}
			}()
		}
		wg.Wait()
		if r.Capped {
			exhaustive = false
			break
		}
	}
	var classes []string
	for cl := range founds {
		classes = append(classes, cl)
	}
	sort.Strings(classes)
	for _, cl := range classes {
		f := founds[cl]
		r.Violate(cl, f.w, f.detail)
		for i := 1; i < f.count; i++ {
			r.Violate(cl, nil, "")
		}
	}
	r.Assume = []string{
		"repositories are legal: every input file belongs to the consuming target's own (closest) package, no directory input contains another package, labels resolve, graphs are acyclic before and after require/provide resolution",
		"a target consumes a file iff the file is one of its srcs / named srcs / data / named data or lies below a directory listed there (tools given as plain strings are PATH lookups, not repository files)",
		"one-sided oracle: over-reporting is never a violation; removed targets are not expected (documented in DiffGraphs)",
		"level 0: consumers of changed files and targets that are new or whose definition (cmd, inputs, deps, data deps, requires, provides, test_cmd, config) differs; level N>0: plus targets within N resolved-dependency steps of that set; unlimited: every target of the after-graph whose recursive build key (definition + consumed file versions + keys of the targets it resolves its dependencies to) differs",
		"subrepos, subincludes, include/exclude labels (manual), tools and per-configuration commands are not exercised",
	}
	extra := map[string]any{}
	for k, v := range perSpace {
		extra["evaluations_"+k] = *v
	}
	r.Finish(lib.Coverage{
		Evaluations:        int(cnt.evals),
		DistinctNontrivial: int(cnt.nontrivial),
		Rule:               "one evaluation = one (repository or before/after pair, changed-file set, level); distinct by construction; non-trivial = the expected set is non-empty",
		Samples:            samples.List(),
		Exhaustive:         exhaustive,
		Extra:              extra,
	})
}

// C29 concurrent-readers tier (run by harness/c29): the real CASFileSystem over the real on-disk blob cache client
// (src/remote/fs/cache, mechanically rewritten: its RWMutex and its four file operations go to the controlled
// scheduler / the vfile kernel model) is read by 2-3 threads at once. Every interleaving is explored (state-key
// pruned, no preemption bound); every ReadFile through the view must return exactly the tree's bytes.
//
// Output (stdout): one JSON document.
package main

import (
	"context"
	"encoding/json"
	"flag"
	"fmt"
	iofs "io/fs"
	"os"
	"strings"
	"time"

	"github.com/bazelbuild/remote-apis-sdks/go/pkg/client"
	"github.com/bazelbuild/remote-apis-sdks/go/pkg/digest"
	pb "github.com/bazelbuild/remote-apis/build/bazel/remote/execution/v2"

	rfs "github.com/thought-machine/please/src/remote/fs"
	"github.com/thought-machine/please/src/remote/fs/cache"
	"github.com/thought-machine/please/verifharness/lib"
	"github.com/thought-machine/please/verifshim/vfile"
	"github.com/thought-machine/please/verifshim/vsched"
)

type Body struct {
	Name    string     `json:"name"`
	Threads [][]string `json:"threads"` // per thread: the names it reads, in order
	Warm    []string   `json:"warm,omitempty"`
}

type Violation struct {
	Class   string `json:"class"`
	Body    Body   `json:"body"`
	Choices []int  `json:"choices"`
	Detail  string `json:"detail"`
}

type Out struct {
	Bodies      int            `json:"bodies"`
	Executions  int            `json:"executions"`
	Pruned      int            `json:"pruned"`
	States      int            `json:"states"`
	Transitions int            `json:"transitions"`
	Incomplete  int            `json:"incomplete"`
	Outcomes    map[string]int `json:"distinct_schedules_of_file_operations_per_body"`
	Violations  []Violation    `json:"violations"`
}

var contents = map[string]string{"f": "abcdef", "g": "uvwxyz", "h": "abcdef"} // h has f's digest

type net struct{ blobs map[digest.Digest][]byte }

type netObj struct{}

var theNet = &netObj{}

func (n *net) ReadBlob(_ context.Context, d digest.Digest) ([]byte, *client.MovedBytesMetadata, error) {
	vsched.Point(vsched.OpAtomic, theNet, "network", nil) // the download takes a while
	b, ok := n.blobs[d]
	if !ok {
		return nil, nil, fmt.Errorf("blob %s not in the CAS", d)
	}
	return append([]byte{}, b...), nil, nil
}

func tree(n *net) *pb.Tree {
	root := &pb.Directory{}
	for _, name := range []string{"f", "g", "h"} {
		b := []byte(contents[name])
		d := digest.NewFromBlob(b)
		n.blobs[d] = b
		root.Files = append(root.Files, &pb.FileNode{Name: name, Digest: d.ToProto()})
	}
	return &pb.Tree{Root: root}
}

type read struct {
	thread int
	name   string
	got    string
	err    string
}

func bodyFn(b Body, reads *[]read, log *[]string) func() {
	return func() {
		*reads = nil
		w := vfile.NewWorld()
		n := &net{blobs: map[digest.Digest][]byte{}}
		t := tree(n)
		fsys := rfs.New(cache.New(n, "/cas"), t, "")
		do := func(ti int, name string) {
			bs, err := iofs.ReadFile(fsys, name)
			r := read{thread: ti, name: name, got: string(bs)}
			if err != nil {
				r.err = err.Error()
			}
			*reads = append(*reads, r)
			*log = w.Log
		}
		for _, name := range b.Warm {
			do(-1, name)
		}
		for ti, names := range b.Threads {
			ti, names := ti, names
			vsched.GoNamed(fmt.Sprintf("T%d", ti), func() {
				for _, name := range names {
					do(ti, name)
				}
			})
		}
	}
}

func judge(b Body, reads []read, status, detail string) (string, string) {
	if status != "ok" {
		return "concurrent-readers:" + status, detail
	}
	want := len(b.Warm)
	for _, t := range b.Threads {
		want += len(t)
	}
	if len(reads) != want {
		return "concurrent-readers:read-did-not-return", fmt.Sprintf("%d of %d reads returned", len(reads), want)
	}
	for _, r := range reads {
		if r.err != "" {
			return "concurrent-readers:read-failed", fmt.Sprintf("thread %d: ReadFile(%s) failed: %s", r.thread, r.name, r.err)
		}
		if r.got != contents[r.name] {
			return "concurrent-readers:wrong-bytes", fmt.Sprintf("thread %d: ReadFile(%s) returned %q, the tree's file is %q", r.thread, r.name, r.got, contents[r.name])
		}
	}
	return "", ""
}

func bodies(thorough bool) []Body {
	bs := []Body{
		{Name: "two-readers-same-file", Threads: [][]string{{"f"}, {"f"}}},
		{Name: "two-readers-same-digest", Threads: [][]string{{"f"}, {"h"}}},
		{Name: "two-readers-different-files", Threads: [][]string{{"f"}, {"g"}}},
		{Name: "reader-rereads", Threads: [][]string{{"f", "f"}, {"f"}}},
		{Name: "warm-then-two-readers", Warm: []string{"f"}, Threads: [][]string{{"f"}, {"f", "g"}}},
	}
	if thorough {
		bs = append(bs,
			Body{Name: "three-readers-same-file", Threads: [][]string{{"f"}, {"f"}, {"f"}}},
			Body{Name: "three-readers-two-files", Threads: [][]string{{"f", "g"}, {"g", "f"}, {"f"}}},
			Body{Name: "three-readers-reread", Threads: [][]string{{"f", "f"}, {"f", "h"}, {"h"}}},
		)
	}
	return bs
}

func main() {
	thorough := flag.Bool("thorough", false, "")
	replay := flag.String("replay", "", "JSON file with one Violation to replay")
	budget := flag.Duration("budget", 2*time.Minute, "")
	flag.Parse()
	lib.Quiet()
	out := &Out{Outcomes: map[string]int{}}
	deadline := time.Now().Add(*budget)
	stop := func() bool { return time.Now().After(deadline) }
	var reads []read
	var log []string
	if *replay != "" {
		var v Violation
		b, _ := os.ReadFile(*replay)
		if err := json.Unmarshal(b, &v); err != nil {
			fmt.Fprintln(os.Stderr, err)
			os.Exit(2)
		}
		r := vsched.Run(vsched.Options{Prefix: v.Choices}, bodyFn(v.Body, &reads, &log))
		if cls, detail := judge(v.Body, reads, r.Status, r.Detail); cls != "" {
			out.Violations = append(out.Violations, Violation{cls, v.Body, v.Choices, detail})
		}
		json.NewEncoder(os.Stdout).Encode(out)
		return
	}
	for _, b := range bodies(*thorough) {
		fn := bodyFn(b, &reads, &log)
		out.Bodies++
		logs := map[string]bool{}
		st := vsched.Explore(fn, 1000, true, func(r *vsched.Result) bool {
			logs[strings.Join(log, ";")] = true
			cls, detail := judge(b, reads, r.Status, r.Detail)
			if cls == "" {
				return true
			}
			for n := 0; n < 2; n++ {
				r2 := vsched.Run(vsched.Options{Prefix: r.Choices}, fn)
				if c2, _ := judge(b, reads, r2.Status, r2.Detail); c2 != cls {
					fmt.Fprintf(os.Stderr, "HARNESS-NONDETERMINISM: replay of %v on %s gave %q vs %q\n", r.Choices, b.Name, c2, cls)
					os.Exit(2)
				}
			}
			out.Violations = append(out.Violations, Violation{cls, b, r.Choices, b.Name + ": " + detail + " (file operations: " + strings.Join(log, "; ") + ")"})
			return false
		}, stop)
		out.Executions += st.Executions
		out.Pruned += st.Pruned
		out.States += st.States
		out.Transitions += st.Transitions
		out.Outcomes[b.Name] = len(logs)
		if !st.Complete && len(out.Violations) == 0 {
			out.Incomplete++
		}
	}
	json.NewEncoder(os.Stdout).Encode(out)
}

// C06: cycle detection is sound and complete — every labelled digraph on n nodes, real detector, reference DFS.
package main

import (
	"fmt"
	"runtime"
	"strings"
	"sync"
	"sync/atomic"

	"github.com/thought-machine/please/src/core"
	"github.com/thought-machine/please/verifharness/lib"
)

type witness struct {
	N     int      `json:"n"`
	Edges [][2]int `json:"edges"`
}

func edgesOf(n int, mask uint64, self bool) [][2]int {
	var es [][2]int
	bit := 0
	for i := 0; i < n; i++ {
		for j := 0; j < n; j++ {
			if i == j && !self {
				continue
			}
			if mask&(1<<bit) != 0 {
				es = append(es, [2]int{i, j})
			}
			bit++
		}
	}
	return es
}

func refCyclic(n int, es [][2]int) bool {
	adj := make([][]int, n)
	for _, e := range es {
		adj[e[0]] = append(adj[e[0]], e[1])
	}
	col := make([]int, n)
	var dfs func(int) bool
	dfs = func(u int) bool {
		col[u] = 1
		for _, v := range adj[u] {
			if col[v] == 1 || (col[v] == 0 && dfs(v)) {
				return true
			}
		}
		col[u] = 2
		return false
	}
	for i := 0; i < n; i++ {
		if col[i] == 0 && dfs(i) {
			return true
		}
	}
	return false
}

// check returns "" or a description of the failure.
func check(n int, es [][2]int) string {
	g := core.NewGraph()
	ts := make([]*core.BuildTarget, n)
	for i := 0; i < n; i++ {
		ts[i] = core.NewBuildTarget(core.NewBuildLabel("p", string(rune('a'+i))))
		g.AddTarget(ts[i])
	}
	has := map[[2]int]bool{}
	for _, e := range es {
		ts[e[0]].AddDependency(ts[e[1]].Label)
		has[e] = true
	}
	for _, t := range ts {
		if err := t.ResolveDependencies(g); err != nil {
			return "resolve: " + err.Error()
		}
	}
	cyc := core.VerifCycleCheck(g)
	ref := refCyclic(n, es)
	if ref && cyc == nil {
		return "graph is cyclic but no cycle reported"
	}
	if !ref && cyc != nil {
		return "acyclic graph reported cyclic"
	}
	if cyc != nil {
		idx := func(t *core.BuildTarget) int { return int(t.Label.Name[0] - 'a') }
		seen := map[int]bool{}
		for i, t := range cyc {
			a, b := idx(t), idx(cyc[(i+1)%len(cyc)])
			if !has[[2]int{a, b}] {
				return fmt.Sprintf("reported cycle %v is not a cycle: no edge %d->%d", cyc, a, b)
			}
			if seen[a] {
				return fmt.Sprintf("reported cycle %v repeats node %d", cyc, a)
			}
			seen[a] = true
		}
	}
	return ""
}

// histWitness is a growth history: all of Edges are declared; Stages[i] lists the indices (into Edges) resolved before the
// i-th Check of ONE long-lived detector (the build re-runs the check whenever it goes idle, while dependencies still resolve).
type histWitness struct {
	N      int      `json:"n"`
	Edges  [][2]int `json:"edges"`
	Stages [][]int  `json:"stages_resolve_edge_indices"`
}

// judge compares one verdict with the reference on the resolved edges.
func judge(n int, resolved [][2]int, cyc []*core.BuildTarget) string {
	has := map[[2]int]bool{}
	for _, e := range resolved {
		has[e] = true
	}
	ref := refCyclic(n, resolved)
	if ref && cyc == nil {
		return "graph is cyclic but no cycle reported"
	}
	if !ref && cyc != nil {
		return "acyclic graph reported cyclic"
	}
	idx := func(t *core.BuildTarget) int { return int(t.Label.Name[0] - 'a') }
	seen := map[int]bool{}
	for i, t := range cyc {
		a, b := idx(t), idx(cyc[(i+1)%len(cyc)])
		if !has[[2]int{a, b}] {
			return fmt.Sprintf("reported cycle is not a cycle: no resolved edge %d->%d", a, b)
		}
		if seen[a] {
			return fmt.Sprintf("reported cycle repeats node %d", a)
		}
		seen[a] = true
	}
	return ""
}

// checkHistory runs a growth history against one long-lived detector; returns "" or (stage, failure).
func checkHistory(w histWitness) string {
	g := core.NewGraph()
	ts := make([]*core.BuildTarget, w.N)
	for i := 0; i < w.N; i++ {
		ts[i] = core.NewBuildTarget(core.NewBuildLabel("p", string(rune('a'+i))))
	}
	for _, e := range w.Edges {
		ts[e[0]].AddDependency(ts[e[1]].Label)
	}
	for _, t := range ts {
		g.AddTarget(t)
	}
	detect := core.VerifNewCycleChecker(g)
	var resolved [][2]int
	for si, st := range w.Stages {
		for _, ei := range st {
			e := w.Edges[ei]
			core.VerifResolveDep(ts[e[0]], ts[e[1]])
			resolved = append(resolved, e)
		}
		if msg := judge(w.N, resolved, detect()); msg != "" {
			return fmt.Sprintf("check %d of a long-lived detector: %s", si+1, msg)
		}
	}
	return ""
}

// histories enumerates, for every labelled digraph on n nodes, every assignment of its edges to one of `stages` resolution
// stages (stage k = resolved before the k-th check); returns the number evaluated.
func histories(r *lib.Run, n, stages int, samples *lib.Samples) (int64, bool) {
	bits := n*n - n
	var evals int64
	var next uint64
	total := uint64(1) << bits
	var wg sync.WaitGroup
	for w := 0; w < runtime.NumCPU(); w++ {
		wg.Add(1)
		go func() {
			defer wg.Done()
			for {
				m := atomic.AddUint64(&next, 1) - 1
				if m >= total || r.OutOfTime() {
					return
				}
				es := edgesOf(n, m, false)
				assign := make([]int, len(es))
				for {
					hw := histWitness{N: n, Edges: es, Stages: make([][]int, stages)}
					for i, a := range assign {
						hw.Stages[a] = append(hw.Stages[a], i)
					}
					atomic.AddInt64(&evals, 1)
					if msg := checkHistory(hw); msg != "" {
						class := "cycle-detector:history:" + msg[strings.Index(msg, ": ")+2:][:20]
						if !r.HasViolation(class) {
							r.Violate(class, hw, msg)
						} else {
							r.Violate(class, nil, "")
						}
					}
					if m%4099 == 0 && len(es) > 0 && assign[0] == stages-1 {
						samples.Add(func() any { return hw })
					}
					i := 0
					for ; i < len(assign); i++ {
						assign[i]++
						if assign[i] < stages {
							break
						}
						assign[i] = 0
					}
					if i == len(assign) {
						break
					}
				}
			}
		}()
	}
	wg.Wait()
	return evals, !r.Capped
}

func shrink(n int, es [][2]int) (int, [][2]int) {
	for changed := true; changed; {
		changed = false
		for i := range es {
			cand := append(append([][2]int{}, es[:i]...), es[i+1:]...)
			if check(n, cand) != "" {
				es, changed = cand, true
				break
			}
		}
	}
	return n, es
}

func main() {
	r := lib.Start("C06", "exploration")
	lib.Quiet()
	if r.Replay != "" {
		var hw histWitness
		lib.LoadReplay(r.Replay, &hw)
		if len(hw.Stages) > 0 {
			if msg := checkHistory(hw); msg != "" {
				r.Violate("cycle-detector:history:"+msg[strings.Index(msg, ": ")+2:][:20], hw, msg)
			}
			r.Finish(lib.Coverage{Evaluations: 1, DistinctNontrivial: 1, Rule: "replay", Samples: []any{hw}})
		}
		var w witness
		lib.LoadReplay(r.Replay, &w)
		if msg := check(w.N, w.Edges); msg != "" {
			r.Violate("replay", w, msg)
		}
		r.Finish(lib.Coverage{Evaluations: 1, DistinctNontrivial: 1, Rule: "replay", Samples: []any{w}})
	}
	type space struct {
		n    int
		self bool
	}
	spaces := []space{{1, false}, {2, false}, {3, false}, {4, false}}
	if !r.Quick() {
		spaces = append(spaces, space{5, false})
	}
	var evals, cyclic int64
	var samples lib.Samples
	exhaustive := true
	for _, sp := range spaces {
		bits := sp.n * sp.n
		if !sp.self {
			bits -= sp.n
		}
		total := uint64(1) << bits
		var next uint64
		var wg sync.WaitGroup
		const chunk = 4096
		for w := 0; w < runtime.NumCPU(); w++ {
			wg.Add(1)
			go func() {
				defer wg.Done()
				for {
					lo := atomic.AddUint64(&next, chunk) - chunk
					if lo >= total || r.OutOfTime() {
						return
					}
					for m := lo; m < lo+chunk && m < total; m++ {
						es := edgesOf(sp.n, m, sp.self)
						atomic.AddInt64(&evals, 1)
						if refCyclic(sp.n, es) {
							atomic.AddInt64(&cyclic, 1)
						}
						if m%65537 == 0 || m == total-1 {
							samples.Add(func() any { return witness{sp.n, es} })
						}
						if msg := check(sp.n, es); msg != "" {
							class := "cycle-detector:" + msg[:20]
							if !r.HasViolation(class) {
								n2, e2 := shrink(sp.n, es)
								r.Violate(class, witness{n2, e2}, check(n2, e2))
							} else {
								r.Violate(class, nil, "")
							}
						}
					}
				}
			}()
		}
		wg.Wait()
		if r.Capped {
			exhaustive = false
			break
		}
	}
	// growth histories on one long-lived detector
	type hspace struct{ n, stages int }
	hspaces := []hspace{{2, 2}, {2, 3}, {3, 2}, {3, 3}, {4, 2}}
	if !r.Quick() {
		hspaces = append(hspaces, hspace{3, 4}, hspace{4, 3})
	}
	var hevals int64
	var hdone []string
	for _, hs := range hspaces {
		if !exhaustive {
			break
		}
		n, ok := histories(r, hs.n, hs.stages, &samples)
		hevals += n
		if !ok {
			exhaustive = false
			break
		}
		hdone = append(hdone, fmt.Sprintf("n=%d,checks=%d", hs.n, hs.stages))
	}
	r.Assume = []string{"graphs are built through NewBuildTarget/AddDependency/ResolveDependencies; node iteration order is by label, so all orders are covered by enumerating all labelled graphs"}
	r.Finish(lib.Coverage{
		Evaluations:        int(evals + hevals),
		DistinctNontrivial: int(cyclic + hevals),
		Rule:               "(a) growth histories: for every labelled digraph on n nodes every assignment of its edges to k resolution stages, ONE long-lived detector checked after each stage against the reference on the edges resolved so far; (b) every labelled digraph without self-loops (AddDependency rejects a self-dependency with a fatal error, so none can reach the detector) on n<=4 nodes (quick) and on 5 nodes (thorough, 2^20 graphs); each distinct by construction; non-trivial = contains a cycle per the reference DFS",
		Samples:            samples.List(),
		Exhaustive:         exhaustive,
		Extra:              map[string]any{"max_nodes": spaces[len(spaces)-1].n, "growth_histories": hevals, "growth_history_spaces_completed": hdone},
	})
}

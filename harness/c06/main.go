// C06: cycle detection is sound and complete — every labelled digraph on n nodes, real detector, reference DFS.
package main

import (
	"fmt"
	"runtime"
	"sync"
	"sync/atomic"

	"github.com/thought-machine/please/src/core"
	"github.com/thought-machine/please/verifharness/lib"
)

type witness struct {
	N     int      `json:"n"`
	Edges [][2]int `json:"edges"`
}

func edgesOf(n int, mask uint64, self bool) [][2]int {
	var es [][2]int
	bit := 0
	for i := 0; i < n; i++ {
		for j := 0; j < n; j++ {
			if i == j && !self {
				continue
			}
			if mask&(1<<bit) != 0 {
				es = append(es, [2]int{i, j})
			}
			bit++
		}
	}
	return es
}

func refCyclic(n int, es [][2]int) bool {
	adj := make([][]int, n)
	for _, e := range es {
		adj[e[0]] = append(adj[e[0]], e[1])
	}
	col := make([]int, n)
	var dfs func(int) bool
	dfs = func(u int) bool {
		col[u] = 1
		for _, v := range adj[u] {
			if col[v] == 1 || (col[v] == 0 && dfs(v)) {
				return true
			}
		}
		col[u] = 2
		return false
	}
	for i := 0; i < n; i++ {
		if col[i] == 0 && dfs(i) {
			return true
		}
	}
	return false
}

// check returns "" or a description of the failure.
func check(n int, es [][2]int) string {
	g := core.NewGraph()
	ts := make([]*core.BuildTarget, n)
	for i := 0; i < n; i++ {
		ts[i] = core.NewBuildTarget(core.NewBuildLabel("p", string(rune('a'+i))))
		g.AddTarget(ts[i])
	}
	has := map[[2]int]bool{}
	for _, e := range es {
		ts[e[0]].AddDependency(ts[e[1]].Label)
		has[e] = true
	}
	for _, t := range ts {
		if err := t.ResolveDependencies(g); err != nil {
			return "resolve: " + err.Error()
		}
	}
	cyc := core.VerifCycleCheck(g)
	ref := refCyclic(n, es)
	if ref && cyc == nil {
		return "graph is cyclic but no cycle reported"
	}
	if !ref && cyc != nil {
		return "acyclic graph reported cyclic"
	}
	if cyc != nil {
		idx := func(t *core.BuildTarget) int { return int(t.Label.Name[0] - 'a') }
		seen := map[int]bool{}
		for i, t := range cyc {
			a, b := idx(t), idx(cyc[(i+1)%len(cyc)])
			if !has[[2]int{a, b}] {
				return fmt.Sprintf("reported cycle %v is not a cycle: no edge %d->%d", cyc, a, b)
			}
			if seen[a] {
				return fmt.Sprintf("reported cycle %v repeats node %d", cyc, a)
			}
			seen[a] = true
		}
	}
	return ""
}

func shrink(n int, es [][2]int) (int, [][2]int) {
	for changed := true; changed; {
		changed = false
		for i := range es {
			cand := append(append([][2]int{}, es[:i]...), es[i+1:]...)
			if check(n, cand) != "" {
				es, changed = cand, true
				break
			}
		}
	}
	return n, es
}

func main() {
	r := lib.Start("C06", "exploration")
	lib.Quiet()
	if r.Replay != "" {
		var w witness
		lib.LoadReplay(r.Replay, &w)
		if msg := check(w.N, w.Edges); msg != "" {
			r.Violate("replay", w, msg)
		}
		r.Finish(lib.Coverage{Evaluations: 1, DistinctNontrivial: 1, Rule: "replay", Samples: []any{w}})
	}
	type space struct {
		n    int
		self bool
	}
	spaces := []space{{1, false}, {2, false}, {3, false}, {4, false}}
	if !r.Quick() {
		spaces = append(spaces, space{5, false})
	}
	var evals, cyclic int64
	var samples lib.Samples
	exhaustive := true
	for _, sp := range spaces {
		bits := sp.n * sp.n
		if !sp.self {
			bits -= sp.n
		}
		total := uint64(1) << bits
		var next uint64
		var wg sync.WaitGroup
		const chunk = 4096
		for w := 0; w < runtime.NumCPU(); w++ {
			wg.Add(1)
			go func() {
				defer wg.Done()
				for {
					lo := atomic.AddUint64(&next, chunk) - chunk
					if lo >= total || r.OutOfTime() {
						return
					}
					for m := lo; m < lo+chunk && m < total; m++ {
						es := edgesOf(sp.n, m, sp.self)
						atomic.AddInt64(&evals, 1)
						if refCyclic(sp.n, es) {
							atomic.AddInt64(&cyclic, 1)
						}
						if m%65537 == 0 || m == total-1 {
							samples.Add(func() any { return witness{sp.n, es} })
						}
						if msg := check(sp.n, es); msg != "" {
							class := "cycle-detector:" + msg[:20]
							if !r.HasViolation(class) {
								n2, e2 := shrink(sp.n, es)
								r.Violate(class, witness{n2, e2}, check(n2, e2))
							} else {
								r.Violate(class, nil, "")
							}
						}
					}
				}
			}()
		}
		wg.Wait()
		if r.Capped {
			exhaustive = false
			break
		}
	}
	r.Assume = []string{"graphs are built through NewBuildTarget/AddDependency/ResolveDependencies; node iteration order is by label, so all orders are covered by enumerating all labelled graphs"}
	r.Finish(lib.Coverage{
		Evaluations:        int(evals),
		DistinctNontrivial: int(cyclic),
		Rule:               "every labelled digraph without self-loops (AddDependency rejects a self-dependency with a fatal error, so none can reach the detector) on n<=4 nodes (quick) and on 5 nodes (thorough, 2^20 graphs); each distinct by construction; non-trivial = contains a cycle per the reference DFS",
		Samples:            samples.List(),
		Exhaustive:         exhaustive,
		Extra:              map[string]any{"max_nodes": spaces[len(spaces)-1].n},
	})
}

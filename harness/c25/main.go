// C25: `plz gc` never proposes removing anything a kept root still needs.
//
// Space T (targets): every labelled DAG on <=3 targets (quick; 4 with a reduced alphabet) / <=4 (thorough; 5 reduced) under
// naming schemes with hidden sub-targets, every assignment of kinds {library, binary, test, test_only library}, every
// single "kept" mark (gc.keeplabel label / gc.keep named target / subinclude) and both modes, through the real
// gc.targetsToRemove (dry-run lists). Reference: least fixed point of the roots the statement lists, closed under
// declared and resolved dependencies.
// Space S (sources): every DAG on <=3 targets of one package with every assignment of file / directory srcs and data
// files; no proposed source deletion may overlap a file a needed target uses.
package main

import (
	"fmt"
	"os"
	"runtime"
	"runtime/debug"
	"runtime/pprof"
	"sort"
	"strings"
	"sync"
	"sync/atomic"
	"time"

	"github.com/thought-machine/please/src/core"
	"github.com/thought-machine/please/src/gc"
	"github.com/thought-machine/please/verifharness/lib"
)

// kinds
const (
	kLib = iota
	kBin
	kTest
	kTestOnlyLib
)

var kindNames = []string{"library", "binary", "test", "test_only_library"}

type witness struct {
	Names        []string   `json:"names"`
	Kinds        []string   `json:"kinds"`
	Edges        [][2]int   `json:"edges"`               // declared dependencies i -> j
	Provide      *[3]int    `json:"provide,omitempty"`   // [provider j, provided k, requirer i]: j provides {"l": k}, i requires "l"
	Mark         int        `json:"mark"`                // index of the marked target, -1 none
	MarkMode     string     `json:"mark_mode,omitempty"` // label | named | subinclude
	Conservative bool       `json:"conservative"`
	Srcs         [][]string `json:"srcs,omitempty"` // per target, relative to its package
	Data         [][]string `json:"data,omitempty"`
}

func (w witness) clone() witness {
	c := w
	c.Names = append([]string{}, w.Names...)
	c.Kinds = append([]string{}, w.Kinds...)
	c.Edges = append([][2]int{}, w.Edges...)
	if w.Provide != nil {
		p := *w.Provide
		c.Provide = &p
	}
	if w.Srcs != nil {
		c.Srcs = make([][]string, len(w.Srcs))
		for i := range w.Srcs {
			c.Srcs[i] = append([]string{}, w.Srcs[i]...)
		}
	}
	if w.Data != nil {
		c.Data = make([][]string, len(w.Data))
		for i := range w.Data {
			c.Data[i] = append([]string{}, w.Data[i]...)
		}
	}
	return c
}

func kindIdx(s string) int {
	for i, k := range kindNames {
		if k == s {
			return i
		}
	}
	lib.Fatal("unknown kind %q", s)
	return 0
}

// ---------------------------------------------------------------------------------------------------------------
// reference

func parentName(label string) (string, bool) {
	i := strings.LastIndex(label, ":")
	pkg, name := label[:i], label[i+1:]
	h := strings.Index(name, "#")
	if h == -1 || !strings.HasPrefix(name, "_") {
		return label, false
	}
	return pkg + ":" + strings.TrimLeft(name[:h], "_"), true
}

type model struct {
	n      int
	w      *witness
	adj    [][]int // declared + resolved dependencies (union)
	decl   [][]int
	family []string
	hidden []bool
}

func newModel(w *witness) *model {
	n := len(w.Names)
	m := &model{n: n, w: w, adj: make([][]int, n), decl: make([][]int, n), family: make([]string, n), hidden: make([]bool, n)}
	for i, s := range w.Names {
		m.family[i], m.hidden[i] = parentName(s)
	}
	for _, e := range w.Edges {
		m.decl[e[0]] = append(m.decl[e[0]], e[1])
		m.adj[e[0]] = append(m.adj[e[0]], e[1])
		if p := w.Provide; p != nil && e[0] == p[2] && e[1] == p[0] {
			m.adj[e[0]] = append(m.adj[e[0]], p[1])
		}
	}
	return m
}

func (m *model) cyclic() bool {
	col := make([]int, m.n)
	var dfs func(int) bool
	dfs = func(u int) bool {
		col[u] = 1
		for _, v := range m.adj[u] {
			if v == u || col[v] == 1 || (col[v] == 0 && dfs(v)) {
				return true
			}
		}
		col[u] = 2
		return false
	}
	for i := 0; i < m.n; i++ {
		if col[i] == 0 && dfs(i) {
			return true
		}
	}
	return false
}

func (m *model) close(k []bool, from int) {
	if k[from] {
		return
	}
	k[from] = true
	for _, v := range m.adj[from] {
		m.close(k, v)
	}
}

// publicDeps: the declared dependencies of a test, looking through its own hidden sub-targets.
func (m *model) publicDeps(t int) []int {
	var out []int
	var rec func(u int)
	rec = func(u int) {
		for _, v := range m.decl[u] {
			if m.family[v] == m.family[t] {
				rec(v)
			} else {
				out = append(out, v)
			}
		}
	}
	rec(t)
	return out
}

// needed: least fixed point of the statement's roots, closed under dependencies; why[i] explains membership.
func (m *model) needed() ([]bool, []string) {
	k := make([]bool, m.n)
	why := make([]string, m.n)
	add := func(root int, reason string) {
		before := append([]bool{}, k...)
		m.close(k, root)
		for i := range k {
			if k[i] && !before[i] {
				if i == root {
					why[i] = reason
				} else {
					why[i] = "dependency of " + m.w.Names[root] + " (" + reason + ")"
				}
			}
		}
	}
	for i := 0; i < m.n; i++ {
		kd := kindIdx(m.w.Kinds[i])
		if kd == kBin || (m.w.Conservative && kd == kTest) {
			add(i, "binary")
		}
		if m.w.Mark == i {
			add(i, "kept by "+m.w.MarkMode)
		}
	}
	if !m.w.Conservative {
		for changed := true; changed; {
			changed = false
			for t := 0; t < m.n; t++ {
				if k[t] || kindIdx(m.w.Kinds[t]) != kTest {
					continue
				}
				for _, d := range m.publicDeps(t) {
					dk := kindIdx(m.w.Kinds[d])
					if k[d] && dk != kTest && dk != kTestOnlyLib {
						add(t, "test of kept "+m.w.Names[d])
						changed = true
						break
					}
				}
			}
		}
	}
	return k, why
}

func overlap(a, b string) bool {
	return a == b || strings.HasPrefix(a, b+"/") || strings.HasPrefix(b, a+"/")
}

// ---------------------------------------------------------------------------------------------------------------
// real code

// built is a real graph for one (names, edges, provide) skeleton; kinds, marks and srcs/data are (re)applied in place
// before every evaluation, so one skeleton serves many cases without paying for a new 512-shard BuildGraph each time.
type built struct {
	g      *core.BuildGraph
	ts     []*core.BuildTarget
	labels []core.BuildLabel
	pkgs   map[string]*core.Package
	pkgOf  []*core.Package
}

func buildSkeleton(w *witness) *built {
	g := core.NewGraph()
	n := len(w.Names)
	b := &built{g: g, ts: make([]*core.BuildTarget, n), labels: make([]core.BuildLabel, n), pkgs: map[string]*core.Package{}, pkgOf: make([]*core.Package, n)}
	for i, s := range w.Names {
		l := core.ParseBuildLabel(s, "")
		b.labels[i] = l
		t := core.NewBuildTarget(l)
		p := b.pkgs[l.PackageName]
		if p == nil {
			p = core.NewPackage(l.PackageName)
			b.pkgs[l.PackageName] = p
			g.AddPackage(p)
		}
		b.pkgOf[i] = p
		b.ts[i] = t
		g.AddTarget(t)
		p.AddTarget(t)
	}
	// every package also exists, empty, under the same name in a few subrepos (as a subrepo's root package shadows the host's):
	// packages are identified by subrepo AND name, so this must change nothing
	for name := range b.pkgs {
		for i := 0; i < 8; i++ {
			g.AddPackage(core.NewPackageSubrepo(name, fmt.Sprintf("s%d", i)))
		}
	}
	for _, e := range w.Edges {
		b.ts[e[0]].AddDependency(b.labels[e[1]])
	}
	if p := w.Provide; p != nil {
		b.ts[p[0]].AddProvide("l", []core.BuildLabel{b.labels[p[1]]})
		b.ts[p[2]].AddRequire("l")
	}
	for _, t := range b.ts {
		if e := t.ResolveDependencies(g); e != nil {
			lib.Fatal("resolve: %s on %+v", e, *w)
		}
	}
	return b
}

// runOn applies the per-case attributes of w to the skeleton and runs the real dry-run computation.
func runOn(b *built, w *witness) (removed map[string]bool, srcs []string) {
	n := len(w.Names)
	for _, p := range b.pkgs {
		p.Subincludes = nil
	}
	for i, t := range b.ts {
		t.IsBinary, t.Test, t.TestOnly = false, nil, false
		switch kindIdx(w.Kinds[i]) {
		case kBin:
			t.IsBinary = true
		case kTest:
			t.IsBinary = true
			t.Test = new(core.TestFields)
			t.TestOnly = true // build_rule sets test_only for every test
		case kTestOnlyLib:
			t.TestOnly = true
		}
		t.Labels = nil
		if w.Provide != nil && w.Provide[2] == i {
			t.Labels = []string{"l"} // AddRequire made the requirement an implicit label
		}
		t.Sources, t.Data = nil, nil
		if w.Srcs != nil {
			for _, s := range w.Srcs[i] {
				t.AddSource(core.NewFileLabel(s, b.pkgOf[i]))
			}
		}
		if w.Data != nil {
			for _, s := range w.Data[i] {
				t.AddDatum(core.NewFileLabel(s, b.pkgOf[i]))
			}
		}
	}
	var keepLabels []string
	var named []core.BuildLabel
	if w.Mark >= 0 {
		switch w.MarkMode {
		case "label":
			b.ts[w.Mark].AddLabel("keepme")
			keepLabels = []string{"keepme"}
		case "named":
			named = []core.BuildLabel{b.labels[w.Mark]}
		case "subinclude":
			p := b.pkgOf[(w.Mark+1)%n]
			p.Subincludes = append(p.Subincludes, b.labels[w.Mark])
		}
	}
	// exactly as src/please.go wires it: gc.keep is passed both expanded (targets) and raw (targetsToKeep)
	rm, rs := gc.VerifTargetsToRemoveC25(b.g, nil, named, named, keepLabels, w.Conservative)
	removed = map[string]bool{}
	for _, l := range rm {
		removed[l.String()] = true
	}
	return removed, rs
}

func eval(w *witness) (string, string, bool) { return evalOn(buildSkeleton(w), w) }

// eval returns (symptom, detail, nontrivial).
func evalOn(b *built, w *witness) (string, string, bool) {
	m := newModel(w)
	need, why := m.needed()
	removed, rsrcs := runOn(b, w)
	nontrivial := false
	for i := range need {
		if !need[i] {
			nontrivial = true // something is garbage
		}
	}
	// S1: a proposed removal of rule x takes x and its hidden sub-targets with it
	for x := 0; x < m.n; x++ {
		if !removed[w.Names[x]] {
			continue
		}
		if need[x] {
			sym := "needed-target-proposed"
			if strings.Contains(why[x], "test of kept") { // the test itself, or something only that test needs
				sym = "test-of-kept-target-proposed"
			}
			return sym, fmt.Sprintf("gc proposes removing %s, which is needed: %s", w.Names[x], why[x]), true
		}
		if !m.hidden[x] {
			for c := 0; c < m.n; c++ {
				if m.hidden[c] && m.family[c] == w.Names[x] && need[c] {
					return "parent-of-needed-subtarget-proposed", fmt.Sprintf("gc proposes removing rule %s, whose hidden sub-target %s is needed: %s", w.Names[x], w.Names[c], why[c]), true
				}
			}
		}
	}
	// S2
	for _, rs := range rsrcs {
		for i := 0; i < m.n; i++ {
			if !need[i] {
				continue
			}
			pkg := w.Names[i][2:strings.LastIndex(w.Names[i], ":")]
			use := func(kind string, files []string) (string, string) {
				for _, f := range files {
					full := f
					if pkg != "" {
						full = pkg + "/" + f
					}
					if overlap(rs, full) {
						sym := "needed-" + kind
						if rs != full {
							sym += ":directory-overlap" // exact-path comparison: a file inside a needed directory, or a directory holding a needed file
						}
						return sym, fmt.Sprintf("gc proposes deleting %s, but needed target %s (%s) uses %s as %s", rs, w.Names[i], why[i], full, kind)
					}
				}
				return "", ""
			}
			if w.Srcs != nil {
				if s, d := use("src", w.Srcs[i]); s != "" {
					return "source-deleted:" + s, d, true
				}
			}
			if w.Data != nil {
				if s, d := use("data", w.Data[i]); s != "" {
					return "source-deleted:" + s, d, true
				}
			}
		}
	}
	return "", "", nontrivial
}

// ---------------------------------------------------------------------------------------------------------------
// shrink / classify

func removeNode(w witness, v int) (witness, bool) {
	for _, s := range w.Names {
		if pn, h := parentName(s); h && pn == w.Names[v] {
			return w, false // would orphan a hidden sub-target
		}
	}
	if p := w.Provide; p != nil && (p[0] == v || p[1] == v || p[2] == v) {
		return w, false
	}
	if len(w.Names) == 1 {
		return w, false
	}
	c := w.clone()
	re := func(i int) int {
		if i > v {
			return i - 1
		}
		return i
	}
	c.Names = append(c.Names[:v:v], c.Names[v+1:]...)
	c.Kinds = append(c.Kinds[:v:v], c.Kinds[v+1:]...)
	if c.Srcs != nil {
		c.Srcs = append(c.Srcs[:v:v], c.Srcs[v+1:]...)
	}
	if c.Data != nil {
		c.Data = append(c.Data[:v:v], c.Data[v+1:]...)
	}
	c.Edges = c.Edges[:0]
	for _, e := range w.Edges {
		if e[0] != v && e[1] != v {
			c.Edges = append(c.Edges, [2]int{re(e[0]), re(e[1])})
		}
	}
	if c.Mark == v {
		c.Mark, c.MarkMode = -1, ""
	} else if c.Mark > v {
		c.Mark--
	}
	if c.Provide != nil {
		c.Provide = &[3]int{re(c.Provide[0]), re(c.Provide[1]), re(c.Provide[2])}
	}
	return c, true
}

func valid(w *witness) bool {
	if w.MarkMode == "subinclude" && len(w.Names) < 1 {
		return false
	}
	if p := w.Provide; p != nil {
		if p[0] == p[1] || p[2] == p[0] || p[2] == p[1] {
			return false
		}
		ok := false
		for _, e := range w.Edges {
			if e[0] == p[2] && e[1] == p[0] {
				ok = true
			}
		}
		if !ok {
			return false
		}
	}
	return !newModel(w).cyclic()
}

func shrink(w witness, symptom string) witness {
	still := func(c witness) bool {
		if !valid(&c) {
			return false
		}
		s, _, _ := eval(&c)
		return s == symptom
	}
	for changed := true; changed; {
		changed = false
		try := func(c witness) bool {
			if still(c) {
				w, changed = c, true
				return true
			}
			return false
		}
		if w.Provide != nil {
			c := w.clone()
			c.Provide = nil
			if try(c) {
				continue
			}
		}
		for v := range w.Names {
			if c, ok := removeNode(w, v); ok && try(c) {
				break
			}
		}
		if changed {
			continue
		}
		for i := range w.Edges {
			c := w.clone()
			c.Edges = append(c.Edges[:i:i], c.Edges[i+1:]...)
			if try(c) {
				break
			}
		}
		if changed {
			continue
		}
		if w.Mark >= 0 {
			c := w.clone()
			c.Mark, c.MarkMode = -1, ""
			if try(c) {
				continue
			}
		}
		// un-hide
		for i, s := range w.Names {
			if _, h := parentName(s); h {
				for _, nn := range []string{"z", "Z"} {
					c := w.clone()
					c.Names[i] = fmt.Sprintf("%s:%s%d", s[:strings.LastIndex(s, ":")], nn, i)
					if try(c) {
						break
					}
				}
			}
			if changed {
				break
			}
		}
		if changed {
			continue
		}
		// plainer kinds
		for i, k := range w.Kinds {
			if k != kindNames[kLib] {
				c := w.clone()
				c.Kinds[i] = kindNames[kLib]
				if try(c) {
					break
				}
			}
		}
		if changed {
			continue
		}
		for _, fs := range []*[][]string{&w.Srcs, &w.Data} {
			if *fs == nil {
				continue
			}
			for i := range *fs {
				for j := range (*fs)[i] {
					c := w.clone()
					cf := &c.Srcs
					if fs == &w.Data {
						cf = &c.Data
					}
					(*cf)[i] = append((*cf)[i][:j:j], (*cf)[i][j+1:]...)
					if try(c) {
						break
					}
				}
				if changed {
					break
				}
			}
			if changed {
				break
			}
		}
		if changed {
			continue
		}
		if w.Conservative {
			c := w.clone()
			c.Conservative = false
			try(c)
		}
	}
	return w
}

func classOf(w *witness, symptom string) string {
	if strings.HasPrefix(symptom, "source-deleted") {
		return "srcs:" + symptom
	}
	cl := "targets:" + symptom
	if symptom == "test-of-kept-target-proposed" || symptom == "parent-of-needed-subtarget-proposed" {
		return cl // one root cause each, whatever made the target needed
	}
	var feats []string
	if w.Mark >= 0 {
		feats = append(feats, "root="+w.MarkMode)
	}
	if w.Provide != nil {
		feats = append(feats, "require-provide")
	}
	hid := false
	for _, s := range w.Names {
		if _, h := parentName(s); h {
			hid = true
		}
	}
	if hid && symptom != "parent-of-needed-subtarget-proposed" {
		feats = append(feats, "hidden-subtargets")
	}
	if w.Conservative {
		feats = append(feats, "conservative")
	}
	if len(feats) > 0 {
		cl += ":" + strings.Join(feats, "+")
	}
	return cl
}

func renamed(names []string) int {
	c := 0
	for _, s := range names {
		if strings.ContainsAny(s, "0123456789") {
			c++
		}
	}
	return c
}

func less(a, b *witness) bool {
	cnt := func(fs [][]string) int {
		c := 0
		for _, f := range fs {
			c += len(f)
		}
		return c
	}
	hid := func(names []string) int {
		c := 0
		for _, s := range names {
			if _, h := parentName(s); h {
				c++
			}
		}
		return c
	}
	mk := func(w *witness) int {
		if w.Mark >= 0 {
			return 1
		}
		return 0
	}
	ka := []int{mk(a), len(a.Names), len(a.Edges), cnt(a.Srcs) + cnt(a.Data), hid(a.Names), renamed(a.Names)}
	kb := []int{mk(b), len(b.Names), len(b.Edges), cnt(b.Srcs) + cnt(b.Data), hid(b.Names), renamed(b.Names)}
	for i := range ka {
		if ka[i] != kb[i] {
			return ka[i] < kb[i]
		}
	}
	return fmt.Sprint(*a) < fmt.Sprint(*b)
}

type found struct {
	w      witness
	detail string
	count  int
}

var (
	foundMu sync.Mutex
	founds  = map[string]*found{}
	cnt     struct{ evals, nontrivial, spaceT, spaceS int64 }
)

// symptomOnly: symptoms whose class does not depend on the shape of the shrunk witness. For these the smallest raw
// instance (canonical order) is kept and shrunk once at the end; every other violation is shrunk on the spot because its
// class is read off the minimal witness.
func symptomOnly(symptom string) bool {
	return symptom == "test-of-kept-target-proposed" || symptom == "parent-of-needed-subtarget-proposed" || strings.HasPrefix(symptom, "source-deleted")
}

var raws = map[string]*found{} // symptom -> smallest raw instance

func record(w witness, symptom string) {
	for i := 0; i < 2; i++ {
		if s, _, _ := eval(&w); s != symptom {
			lib.Fatal("HARNESS-NONDETERMINISM: %+v gave %q then %q", w, symptom, s)
		}
	}
	if symptomOnly(symptom) {
		foundMu.Lock()
		defer foundMu.Unlock()
		f := raws[symptom]
		if f == nil {
			raws[symptom] = &found{w: w, count: 1}
			return
		}
		f.count++
		if less(&w, &f.w) {
			f.w = w
		}
		return
	}
	sw := shrink(w.clone(), symptom)
	cl := classOf(&sw, symptom)
	_, d, _ := eval(&sw)
	foundMu.Lock()
	defer foundMu.Unlock()
	f := founds[cl]
	if f == nil {
		founds[cl] = &found{w: sw, detail: d, count: 1}
		return
	}
	f.count++
	if less(&sw, &f.w) {
		f.w, f.detail = sw, d
	}
}

// finishRaws shrinks the smallest raw instance of every symptom-only class.
func finishRaws() {
	for symptom, f := range raws {
		sw := shrink(f.w.clone(), symptom)
		_, d, _ := eval(&sw)
		founds[classOf(&sw, symptom)] = &found{w: sw, detail: d, count: f.count}
	}
}

// ---------------------------------------------------------------------------------------------------------------
// enumeration

func schemes(n int, full bool) [][]string {
	var out [][]string
	add := func(names ...string) {
		if len(names) >= n {
			out = append(out, append([]string{}, names[:n]...))
		}
	}
	add("//p:a", "//p:b", "//p:c", "//p:d", "//p:e")
	if n >= 2 {
		add("//p:a", "//p:_a#t", "//p:b", "//p:c", "//p:d")
		add("//p:a", "//p:_a#t", "//p:B", "//p:C", "//p:D")
	}
	if n == 4 {
		// a rule with TWO hidden sub-targets (a test may reach the thing under test through a chain of its own sub-targets)
		add("//p:a", "//p:_a#t", "//p:_a#u", "//p:b")
	}
	if full {
		// two packages (sources and sweep order differ), hidden names sorting after their parent, two sub-targets
		add("//q:a", "//p:b", "//p:c", "//q:d", "//p:e")
		if n >= 2 {
			add("//p:A", "//p:_A#t", "//p:b", "//p:c", "//p:d")
		}
		if n >= 3 {
			add("//p:a", "//p:_a#t", "//p:_a#u", "//p:b", "//p:c")
			add("//p:a", "//p:_a#t", "//p:b", "//p:_b#t", "//p:c")
		}
	}
	return out
}

type pair struct{ i, j int }

func pairsFor(n int) []pair {
	var ps []pair
	for i := 0; i < n; i++ {
		for j := 0; j < n; j++ {
			if i != j {
				ps = append(ps, pair{i, j})
			}
		}
	}
	return ps
}

func edgesOfMask(ps []pair, mask uint64) [][2]int {
	var es [][2]int
	for b, p := range ps {
		if mask&(1<<uint(b)) != 0 {
			es = append(es, [2]int{p.i, p.j})
		}
	}
	return es
}

type caseFn func(emit func(w witness))

func pow(b, e int) int {
	r := 1
	for ; e > 0; e-- {
		r *= b
	}
	return r
}

// spaceT enumerates kinds x marks x modes for one (scheme, edge set).
func spaceT(names []string, es [][2]int, kinds []int, markModes []string, modes []bool, provide bool, emit func(w witness)) {
	n := len(names)
	var hiddenIdx []bool
	for _, s := range names {
		_, h := parentName(s)
		hiddenIdx = append(hiddenIdx, h)
	}
	provs := []*[3]int{nil}
	if provide {
		for _, e := range es {
			for k := 0; k < n; k++ {
				if k != e[0] && k != e[1] {
					provs = append(provs, &[3]int{e[1], k, e[0]})
				}
			}
		}
	}
	for _, pv := range provs {
		for ka := 0; ka < pow(len(kinds), n); ka++ {
			ks := make([]string, n)
			x := ka
			ok := true
			for i := 0; i < n; i++ {
				k := kinds[x%len(kinds)]
				x /= len(kinds)
				if hiddenIdx[i] && k != kLib {
					ok = false // hidden sub-targets are plain internals
				}
				ks[i] = kindNames[k]
			}
			if !ok {
				continue
			}
			for _, cons := range modes {
				emit(witness{Names: names, Kinds: ks, Edges: es, Provide: pv, Mark: -1, Conservative: cons})
				for mk := 0; mk < n; mk++ {
					for _, mm := range markModes {
						emit(witness{Names: names, Kinds: ks, Edges: es, Provide: pv, Mark: mk, MarkMode: mm, Conservative: cons})
					}
				}
			}
		}
	}
}

var srcOpts = [][]string{nil, {"f.txt"}, {"d"}, {"d/g.txt"}, {"f.txt", "d/g.txt"}}
var dataOpts = [][]string{nil, {"f.txt"}, {"d/g.txt"}}

func spaceS(names []string, es [][2]int, nsrc, ndata int, emit func(w witness)) {
	n := len(names)
	for ka := 0; ka < pow(2, n); ka++ {
		ks := make([]string, n)
		for i := 0; i < n; i++ {
			ks[i] = kindNames[kLib]
			if ka&(1<<i) != 0 {
				ks[i] = kindNames[kBin]
			}
		}
		for sa := 0; sa < pow(nsrc*ndata, n); sa++ {
			srcs := make([][]string, n)
			data := make([][]string, n)
			x := sa
			for i := 0; i < n; i++ {
				srcs[i] = srcOpts[x%nsrc]
				x /= nsrc
				data[i] = dataOpts[x%ndata]
				x /= ndata
			}
			emit(witness{Names: names, Kinds: ks, Edges: es, Mark: -1, Srcs: srcs, Data: data})
		}
	}
}

var started = time.Now()

// overBudget keeps the thorough tier under its 20-minute contract on a loaded machine (the run then reports exhaustive=false).
func overBudget(r *lib.Run) bool {
	if !r.Quick() && time.Since(started) > 16*time.Minute {
		r.Capped = true
		return true
	}
	return false
}

// gcTuning: tiny live heap, very high allocation rate (every BuildGraph is 512 maps, every FindRevdeps a 1000-slot map):
// collect by footprint instead of by growth (measured: about 40% less CPU than the default or a ballast).
func gcTuning() {
	if os.Getenv("VERIF_NO_GC_TUNING") != "" {
		return
	}
	debug.SetGCPercent(-1)
	debug.SetMemoryLimit(512 << 20)
}

func main() {
	r := lib.Start("C25", "exploration")
	lib.Quiet()
	gcTuning()
	if pf := os.Getenv("VERIF_CPUPROFILE"); pf != "" {
		f, _ := os.Create(pf)
		pprof.StartCPUProfile(f)
		time.AfterFunc(20*time.Second, func() { pprof.StopCPUProfile(); f.Close(); os.Exit(3) })
	}
	if r.Replay != "" {
		var w witness
		lib.LoadReplay(r.Replay, &w)
		if !valid(&w) {
			lib.Fatal("replay witness is not a valid case")
		}
		if s, d, _ := eval(&w); s != "" {
			r.Violate(classOf(&w, s), w, d)
		}
		r.Finish(lib.Coverage{Evaluations: 1, DistinctNontrivial: 1, Rule: "replay", Samples: []any{w}, Exhaustive: true})
	}
	var samples lib.Samples
	// one() is called once per (naming scheme, edge set): the closure keeps the real graph skeleton of the last provide decoration.
	one := func(ctr *int64) func(w witness) {
		var sk *built
		var skProv *[3]int
		return func(w witness) {
			if !valid(&w) {
				return
			}
			if sk == nil || skProv != w.Provide {
				sk, skProv = buildSkeleton(&w), w.Provide
			}
			s, _, nt := evalOn(sk, &w)
			ev := atomic.AddInt64(&cnt.evals, 1)
			atomic.AddInt64(ctr, 1)
			if nt {
				atomic.AddInt64(&cnt.nontrivial, 1)
			}
			if ev%4099 == 1 {
				samples.Add(func() any { return w.clone() })
			}
			if s != "" {
				record(w.clone(), s)
			}
		}
	}
	type tcfg struct {
		n         int
		full      bool // all schemes
		kinds     []int
		markModes []string
		modes     []bool
		provide   bool
	}
	allKinds := []int{kLib, kBin, kTest, kTestOnlyLib}
	allMarks := []string{"label", "named", "subinclude"}
	var tcfgs []tcfg
	var sN, sSrc, sData int
	if r.Quick() {
		tcfgs = []tcfg{
			{1, true, allKinds, allMarks, []bool{false, true}, false},
			{2, true, allKinds, allMarks, []bool{false, true}, false},
			{3, true, allKinds, allMarks, []bool{false, true}, true},
			{4, false, []int{kLib, kBin, kTest}, []string{"label"}, []bool{false}, false},
		}
		sN, sSrc, sData = 3, 4, 2
	} else {
		tcfgs = []tcfg{
			{1, true, allKinds, allMarks, []bool{false, true}, false},
			{2, true, allKinds, allMarks, []bool{false, true}, false},
			{3, true, allKinds, allMarks, []bool{false, true}, true},
			{4, true, allKinds, []string{"label"}, []bool{false, true}, false},
			{4, false, []int{kLib, kBin, kTest}, []string{"label"}, []bool{false}, true},
			{5, false, []int{kLib, kBin, kTest}, nil, []bool{false}, false},
		}
		sN, sSrc, sData = 3, 5, 3
	}
	var desc []string
	exhaustive := true
	runMasks := func(n int, body func(es [][2]int)) {
		ps := pairsFor(n)
		total := uint64(1) << uint(len(ps))
		var next uint64
		var wg sync.WaitGroup
		const chunk = 64
		for wk := 0; wk < runtime.NumCPU(); wk++ {
			wg.Add(1)
			go func() {
				defer wg.Done()
				for {
					lo := atomic.AddUint64(&next, chunk) - chunk
					if lo >= total || r.OutOfTime() || overBudget(r) {
						return
					}
					for mask := lo; mask < lo+chunk && mask < total; mask++ {
						es := edgesOfMask(ps, mask)
						probe := witness{Names: make([]string, n), Edges: es}
						for i := range probe.Names {
							probe.Names[i] = fmt.Sprintf("//p:n%c", 'a'+i)
						}
						if newModel(&probe).cyclic() {
							continue
						}
						body(es)
					}
				}
			}()
		}
		wg.Wait()
	}
	for _, c := range tcfgs {
		e0 := atomic.LoadInt64(&cnt.spaceT)
		schs := schemes(c.n, c.full)
		for _, names := range schs {
			runMasks(c.n, func(es [][2]int) {
				spaceT(names, es, c.kinds, c.markModes, c.modes, c.provide, one(&cnt.spaceT))
			})
		}
		desc = append(desc, fmt.Sprintf("T n=%d schemes=%d kinds=%d marks=%v conservative=%v provide=%v evaluations=%d", c.n, len(schs), len(c.kinds), c.markModes, c.modes, c.provide, atomic.LoadInt64(&cnt.spaceT)-e0))
		if r.Capped {
			exhaustive = false
			break
		}
	}
	if !r.Capped {
		for n := 1; n <= sN; n++ {
			names := []string{"//p:a", "//p:b", "//p:c"}[:n]
			runMasks(n, func(es [][2]int) {
				spaceS(names, es, sSrc, sData, one(&cnt.spaceS))
			})
		}
		desc = append(desc, fmt.Sprintf("S n<=%d src-options=%d data-options=%d evaluations=%d", sN, sSrc, sData, cnt.spaceS))
		if r.Capped {
			exhaustive = false
		}
	}
	finishRaws()
	var classes []string
	for cl := range founds {
		classes = append(classes, cl)
	}
	sort.Strings(classes)
	for _, cl := range classes {
		f := founds[cl]
		r.Violate(cl, f.w, f.detail)
		for i := 1; i < f.count; i++ {
			r.Violate(cl, nil, "")
		}
	}
	r.Assume = []string{
		"kept roots: every non-test binary (every binary in --conservative mode), the target carrying a gc.keeplabel label, the gc.keep named target, a subincluded target, and - as a least fixed point - every test one of whose public dependencies (declared dependencies, looking through the test's own hidden sub-targets) is needed and is not itself a test or test_only (a test_only helper is not the thing under test)",
		"needed = closure of the roots under declared dependencies and the dependencies they resolve to through require/provide",
		"proposing to remove a visible rule x removes its hidden sub-targets `_x#t` with it (they are generated by the same BUILD statement, and gc never lists hidden targets separately)",
		"a proposed source deletion conflicts with a needed target if it is, contains, or lies inside a file or directory the target lists in srcs or data; 'kept' is read narrowly as 'needed' (targets that are merely not proposed, e.g. outside a filter, are not protected)",
		"tests are binary and test_only (as build_rule sets them); hidden sub-targets are plain libraries; filters and gc_sibling labels are not exercised; subrepos only as empty packages that share the names of the host packages",
	}
	r.Finish(lib.Coverage{
		Evaluations:        int(cnt.evals),
		DistinctNontrivial: int(cnt.nontrivial),
		Rule:               "one evaluation = one (labelled DAG, naming scheme, kind assignment, kept mark, mode[, provide][, srcs/data assignment]); distinct by construction; non-trivial = at least one target is not needed (gc has something to propose)",
		Samples:            samples.List(),
		Exhaustive:         exhaustive,
		Extra:              map[string]any{"spaces": desc},
	})
}

// C33: visibility and test_only restrictions are enforced exactly.
//
// Every target T (package x name/hidden child x kind plain/test/test_only) with one or two declared dependencies D
// (package x visibility list x test_only x plain/hidden child), with and without an experimental directory configured, is
// put through the real BuildTarget.CheckDependencyVisibility and compared with a reference of the documented rules.
package main

import (
	"fmt"
	"github.com/thought-machine/please/verifharness/hist"
	"os"
	"path/filepath"
	"runtime"
	"sort"
	"strings"
	"sync"
	"sync/atomic"

	"github.com/thought-machine/please/src/core"
	"github.com/thought-machine/please/verifharness/lib"
)

var packages = []string{"a", "a/b", "ab", "exp", "exp/x", "expx"}

// visibility alphabet (DESIGN: PUBLIC, //a:all, //a/..., //a:t, none) ; lists of <=2 distinct entries, as sets.
var visAlphabet = []string{"PUBLIC", "//a:all", "//a/...", "//a:t", "//a/b:all"}

type depCfg struct {
	Pkg      string   `json:"pkg"`
	Vis      []string `json:"visibility"`
	TestOnly bool     `json:"test_only,omitempty"`
	Hidden   bool     `json:"hidden,omitempty"`
}

type tgtCfg struct {
	Pkg  string `json:"pkg"`
	Name string `json:"name"` // t, u, _t#x, _u#x
	Kind string `json:"kind"` // plain, test, test_only
}

type witness struct {
	ExpDirs []string `json:"experimental_dirs"`
	Target  tgtCfg   `json:"target"`
	Deps    []depCfg `json:"deps"`
}

func visLists(max int) [][]string {
	out := [][]string{{}}
	for i := range visAlphabet {
		out = append(out, []string{visAlphabet[i]})
	}
	if max >= 2 {
		for i := range visAlphabet {
			for j := i + 1; j < len(visAlphabet); j++ {
				out = append(out, []string{visAlphabet[i], visAlphabet[j]})
			}
		}
	}
	return out
}

func parseVis(v string) core.BuildLabel {
	if v == "PUBLIC" {
		return core.WholeGraph[0] // what the BUILD parser produces for PUBLIC
	}
	l, err := core.TryParseBuildLabel(v, "", "")
	if err != nil {
		lib.Fatal("bad visibility %q: %v", v, err)
	}
	return l
}

// depName encodes the configuration so that every configuration is a distinct, pre-registered target of a shared graph.
func depLabel(d depCfg, idx int) core.BuildLabel {
	name := fmt.Sprintf("d%d", idx)
	if d.Hidden {
		name = fmt.Sprintf("_d%d#y", idx)
	}
	return core.BuildLabel{PackageName: d.Pkg, Name: name}
}

type world struct {
	expDirs []string
	state   *core.BuildState
	deps    []depCfg
	labels  []core.BuildLabel
}

func newWorld(expDirs []string, deps []depCfg) *world {
	c := core.DefaultConfiguration()
	c.Parse.ExperimentalDir = expDirs
	w := &world{expDirs: expDirs, state: core.NewBuildState(c), deps: deps}
	for i, d := range deps {
		l := depLabel(d, i)
		t := core.NewBuildTarget(l)
		for _, v := range d.Vis {
			t.Visibility = append(t.Visibility, parseVis(v))
		}
		t.TestOnly = d.TestOnly
		w.state.Graph.AddTarget(t)
		w.labels = append(w.labels, l)
	}
	return w
}

// run executes the real check: true = accepted (no error).
func (w *world) run(t tgtCfg, depIdx []int) (bool, string) {
	bt := core.NewBuildTarget(core.BuildLabel{PackageName: t.Pkg, Name: t.Name})
	switch t.Kind {
	case "test":
		bt.Test = new(core.TestFields)
	case "test_only":
		bt.TestOnly = true
	}
	for _, i := range depIdx {
		bt.AddDependency(w.labels[i])
	}
	if err := bt.CheckDependencyVisibility(w.state); err != nil {
		return false, err.Error()
	}
	return true, ""
}

// ---- reference -----------------------------------------------------------------------------------------------

func under(dir, pkg string) bool { return pkg == dir || strings.HasPrefix(pkg, dir+"/") }

func isExp(expDirs []string, pkg string) bool {
	for _, d := range expDirs {
		if under(d, pkg) {
			return true
		}
	}
	return false
}

func parentName(name string) string {
	if i := strings.IndexByte(name, '#'); i != -1 && strings.HasPrefix(name, "_") {
		return strings.TrimLeft(name[:i], "_")
	}
	return name
}

func visGrants(v string, pkg, name string) bool {
	if v == "PUBLIC" {
		return true
	}
	l := parseVis(v)
	switch l.Name {
	case "...":
		return l.PackageName == "" || under(l.PackageName, pkg)
	case "all":
		return l.PackageName == pkg
	}
	return l.PackageName == pkg && l.Name == name
}

// verdict of one edge: "ok", "fail", or "open" (the statement and documentation do not decide it), with the deciding rule.
func refEdge(expDirs []string, t tgtCfg, d depCfg) (string, string) {
	expT, expD := isExp(expDirs, t.Pkg), isExp(expDirs, d.Pkg)
	visible, rule := false, "no-grant"
	switch {
	case t.Pkg == d.Pkg:
		visible, rule = true, "same-package"
	case expD && !expT:
		visible, rule = false, "experimental-dep-from-outside"
	default:
		for _, v := range d.Vis {
			// a hidden target _t#x is part of rule t: visibility is granted to the rule (documented on CanSee)
			if visGrants(v, t.Pkg, parentName(t.Name)) {
				visible = true
				switch {
				case v == "PUBLIC":
					rule = "PUBLIC"
				case strings.HasSuffix(v, "/..."):
					rule = "pattern-subpackages"
				case strings.HasSuffix(v, ":all"):
					rule = "pattern-all"
				default:
					rule = "pattern-exact"
				}
				break
			}
		}
		if !visible && expT {
			visible, rule = true, "experimental-exemption"
		}
	}
	if !visible {
		return "fail", rule
	}
	if d.TestOnly && t.Kind == "plain" {
		if expT {
			// The statement gives no experimental exemption for test_only, the code deliberately has one
			// ("Test-only restrictions suppressed ... experimental tree"): not decided here.
			return "open", "test_only-in-experimental"
		}
		return "fail", "test_only"
	}
	return "ok", rule
}

func refCase(expDirs []string, t tgtCfg, deps []depCfg) (string, string) {
	verdict, rule := "ok", ""
	for _, d := range deps {
		v, r := refEdge(expDirs, t, d)
		if v == "fail" {
			return "fail", r
		}
		if v == "open" {
			verdict, rule = "open", r
		} else if rule == "" {
			rule = r
		}
	}
	return verdict, rule
}

// ---- driver --------------------------------------------------------------------------------------------------

func relation(t tgtCfg, d depCfg) string {
	switch {
	case t.Pkg == d.Pkg:
		return "same-package"
	case strings.HasPrefix(t.Pkg, d.Pkg+"/"):
		return "target-in-subpackage-of-dep"
	case strings.HasPrefix(d.Pkg, t.Pkg+"/"):
		return "dep-in-subpackage-of-target"
	}
	return "other-package"
}

func check(w *world, t tgtCfg, depIdx []int) (class, detail string, nontrivial, open bool) {
	deps := make([]depCfg, len(depIdx))
	for i, x := range depIdx {
		deps[i] = w.deps[x]
	}
	want, rule := refCase(w.expDirs, t, deps)
	if want == "open" {
		return "", "", false, true
	}
	got, msg := w.run(t, depIdx)
	if got == (want == "ok") {
		return "", "", want == "fail" || rule != "same-package", false
	}
	return classify(w, t, depIdx, deps, got, msg, want, rule),
		fmt.Sprintf("CheckDependencyVisibility of //%s:%s (%s) with deps %+v, experimental dirs %v: got accepted=%v (%s), documented rules say %s by rule %s", t.Pkg, t.Name, t.Kind, deps, w.expDirs, got, msg, want, rule), true, false
}

// classify names a misjudged case by its root cause: the rule of the reference that decides the misjudged edge, whether
// the code rejected for visibility or for test_only, and a hidden-target marker only when the parent rule is judged right.
func classify(w *world, t tgtCfg, depIdx []int, deps []depCfg, got bool, msg, want, rule string) string {
	if len(depIdx) > 1 {
		for _, x := range depIdx {
			if c, _, _, _ := check(w, t, []int{x}); c != "" {
				return c // a single edge is already misjudged: same root cause
			}
		}
		dir := "accepted-but-must-fail"
		if !got {
			dir = "rejected-but-allowed"
		}
		return "visibility:multi-dep-only:" + rule + ":" + dir
	}
	if p := parentName(t.Name); p != t.Name {
		tp := t
		tp.Name = p
		if c, _, _, _ := check(w, tp, depIdx); c != "" {
			return c // the parent rule is misjudged in the same way: hiddenness is not the cause
		}
		rule += ":hidden-target"
	}
	if got {
		return "visibility:" + rule + ":accepted-but-must-fail"
	}
	if strings.Contains(msg, "test_only") {
		return "visibility:test_only-wrongly-applied:" + t.Kind + "-target:rejected-but-allowed"
	}
	return "visibility:" + rule + ":rejected-but-allowed"
}

func depConfigs(maxVis int, hidden bool) []depCfg {
	var out []depCfg
	for _, vis := range visLists(maxVis) {
		for _, pkg := range packages {
			for _, to := range []bool{false, true} {
				out = append(out, depCfg{Pkg: pkg, Vis: vis, TestOnly: to})
				if hidden {
					out = append(out, depCfg{Pkg: pkg, Vis: vis, TestOnly: to, Hidden: true})
				}
			}
		}
	}
	return out
}

func tgtConfigs() []tgtCfg {
	var out []tgtCfg
	for _, name := range []string{"t", "u", "_t#x", "_u#x"} {
		for _, pkg := range packages {
			for _, kind := range []string{"plain", "test", "test_only"} {
				out = append(out, tgtCfg{Pkg: pkg, Name: name, Kind: kind})
			}
		}
	}
	return out
}

func main() {
	r := lib.Start("C33", "exploration")
	lib.Quiet()
	if r.Replay != "" {
		var hw struct {
			Family string `json:"family"`
		}
		lib.LoadReplay(r.Replay, &hw)
		if hw.Family == "visibility" {
			n, t, _ := historyTier(r) // (small: the whole tier is re-run)
			r.Finish(lib.Coverage{Evaluations: t, DistinctNontrivial: n, Rule: "replay of the history tier", Exhaustive: true})
		}
		var w witness
		lib.LoadReplay(r.Replay, &w)
		wd := newWorld(w.ExpDirs, w.Deps)
		idx := make([]int, len(w.Deps))
		for i := range idx {
			idx[i] = i
		}
		if class, detail, _, _ := check(wd, w.Target, idx); class != "" {
			r.Violate(class, w, detail)
		}
		r.Finish(lib.Coverage{Evaluations: 1, DistinctNontrivial: 1, Rule: "replay", Samples: []any{w}, Exhaustive: true})
	}

	expCfgs := [][]string{nil, {"exp"}}
	tgts := tgtConfigs()
	fullDeps := depConfigs(2, true)
	pairDeps := fullDeps
	if r.Quick() {
		pairDeps = depConfigs(1, false)
	}
	var evals, nontriv, opens int64
	var samples lib.Samples
	exhaustive := true

	runSpace := func(deps []depCfg, arity int) {
		for _, exp := range expCfgs {
			w := newWorld(exp, deps)
			n := len(deps)
			total := uint64(n)
			if arity == 2 {
				total = uint64(n) * uint64(n)
			}
			var next uint64
			var wg sync.WaitGroup
			const chunk = 64
			for k := 0; k < runtime.NumCPU(); k++ {
				wg.Add(1)
				go func() {
					defer wg.Done()
					var ev, nt, op int64
					defer func() { atomic.AddInt64(&evals, ev); atomic.AddInt64(&nontriv, nt); atomic.AddInt64(&opens, op) }()
					for {
						lo := atomic.AddUint64(&next, chunk) - chunk
						if lo >= total || r.OutOfTime() {
							return
						}
						for m := lo; m < lo+chunk && m < total; m++ {
							idx := []int{int(m)}
							if arity == 2 {
								idx = []int{int(m / uint64(n)), int(m % uint64(n))}
								if idx[0] == idx[1] {
									continue // the same dependency twice is one dependency
								}
							}
							for ti, t := range tgts {
								class, detail, nontrivial, open := check(w, t, idx)
								if open {
									op++
									continue
								}
								ev++
								if nontrivial {
									nt++
								}
								if (m*uint64(len(tgts))+uint64(ti))%50021 == 0 {
									samples.Add(func() any { return mkWitness(w, t, idx) })
								}
								if class != "" {
									if c2, _, _, _ := check(w, t, idx); c2 != class {
										lib.Fatal("HARNESS-NONDETERMINISM %+v %v", t, idx)
									}
									recordMin(class, mkWitness(w, t, idx), detail)
								}
							}
						}
					}
				}()
			}
			wg.Wait()
			if r.Capped {
				exhaustive = false
				return
			}
		}
	}
	// simplest first: one dependency over the full alphabet, then two dependencies
	runSpace(fullDeps, 1)
	if !r.Capped {
		runSpace(pairDeps, 2)
	}

	flushMin(r)
	r.Assume = []string{
		"a hidden target _t#x is treated as part of its rule t when visibility patterns are matched (documented on BuildLabel.CanSee); a visibility entry that literally names a hidden target is outside the enumerated alphabet",
		"experimental directories: code inside may ignore visibility, code outside can never depend on code inside (config help of parse.experimentaldir); a directory is experimental iff it is the configured dir or below it (component-wise)",
		"the statement gives no experimental exemption for test_only while the code deliberately suppresses the test_only restriction for targets in the experimental tree: cases decided only by that are counted as 'open' and not judged",
		"only declared dependencies are checked (that is what CheckDependencyVisibility iterates); dependency targets are registered in a real BuildGraph, the dependent target is built with NewBuildTarget/AddDependency",
	}
	hstates, htrans, hcomplete := historyTier(r)
	if !hcomplete {
		exhaustive = false
	}
	r.Assume = append(r.Assume, "history tier: `plz build //p:t` (real binary) after every history of edits of the dependency's visibility / test_only and of the depender's kind, with the depender's own inputs unchanged; the build must fail exactly when the current edge is illegal, also when nothing about the depender needs rebuilding")
	r.Finish(lib.Coverage{
		Evaluations:        int(evals) + htrans,
		DistinctNontrivial: int(nontriv) + hstates,
		Rule:               fmt.Sprintf("targets: 6 packages {a,a/b,ab,exp,exp/x,expx} x names {t,u,_t#x,_u#x} x kinds {plain,test,test_only} = %d; dependency configurations: package x visibility set (<=2 of PUBLIC,//a:all,//a/...,//a:t,//a/b:all) x test_only x plain/hidden = %d; every target x every single dependency, and every target x every ordered pair of distinct dependency configurations (pairs over %d configurations in this tier), each with experimental dirs {} and {exp}; non-trivial = not decided by the same-package rule alone, or must fail", len(tgts), len(fullDeps), len(pairDeps)),
		Samples:            samples.List(),
		Exhaustive:         exhaustive,
		Extra:              map[string]any{"history_tier_states": hstates, "history_tier_transitions": htrans, "open_cases_not_judged": opens, "dep_configs": len(fullDeps), "pair_dep_configs": len(pairDeps), "target_configs": len(tgts)},
	})
}

func mkWitness(w *world, t tgtCfg, idx []int) witness {
	wt := witness{ExpDirs: w.expDirs, Target: t}
	if wt.ExpDirs == nil {
		wt.ExpDirs = []string{}
	}
	for _, x := range idx {
		wt.Deps = append(wt.Deps, w.deps[x])
	}
	return wt
}

// smallest witness per class across workers (workers do not hit cases in size order)
var (
	minMu  sync.Mutex
	minW   = map[string]witness{}
	minDet = map[string]string{}
	minCnt = map[string]int{}
)

func size(w witness) int {
	n := len(w.Deps)*1000 + len(w.ExpDirs)*100
	for _, d := range w.Deps {
		n += len(d.Vis) * 10
		if d.Hidden {
			n += 3
		}
		if d.TestOnly {
			n++
		}
		n += len(d.Pkg)
	}
	if w.Target.Name != parentName(w.Target.Name) {
		n += 3
	}
	if w.Target.Kind != "plain" {
		n++
	}
	return n + len(w.Target.Pkg)
}

func recordMin(class string, w witness, detail string) {
	minMu.Lock()
	defer minMu.Unlock()
	minCnt[class]++
	old, ok := minW[class]
	if !ok || size(w) < size(old) || (size(w) == size(old) && fmt.Sprint(w) < fmt.Sprint(old)) {
		minW[class] = w
		minDet[class] = detail
	}
}

func flushMin(r *lib.Run) {
	classes := []string{}
	for c := range minW {
		classes = append(classes, c)
	}
	sort.Strings(classes)
	for _, c := range classes {
		r.Violate(c, minW[c], minDet[c])
		for i := 1; i < minCnt[c]; i++ {
			r.Violate(c, nil, "")
		}
	}
}

// historyTier: the same restriction along edit histories, with the real binary (engine E3). A target whose own inputs did
// not change is not rebuilt - but whether its dependency may be depended on is a property of the CURRENT graph.
func historyTier(r *lib.Run) (int, int, bool) {
	plz := os.Getenv("VERIF_PLZ")
	if plz == "" {
		lib.Fatal("VERIF_PLZ not set (the driver builds plz for the history tier)")
	}
	root := filepath.Join(lib.VerifRoot, ".work", "hist", "C33")
	os.RemoveAll(root)
	defer os.RemoveAll(root)
	plz = hist.PrivatePlz(plz, filepath.Join(root, "bin"))
	fam := hist.VisFam{WithNoop: true, WithRm: !r.Quick()}
	depth := 2
	if !r.Quick() {
		depth = 3
	}
	e := hist.NewEngine(plz, filepath.Join(root, "vis"), fam)
	noCache := "[cache]\ndir =\n"
	visit := func(from *hist.State, ed hist.Edit, obs *hist.Obs, dir string) (any, string) {
		legal, why := fam.Legal(ed.Src)
		var history []string
		if from != nil {
			history = append(append(history, from.Hist...), ed.Name)
		} else {
			history = []string{"init"}
			if obs.Exit != 0 {
				lib.Fatal("the initial tree of the visibility family does not build (vacuous scenario):\n%s", obs.Output)
			}
		}
		w := map[string]any{"family": "visibility", "history": history}
		switch {
		case obs.Exit == -9:
			// horizon: an outcome, not a verdict
		case legal && obs.Exit != 0:
			r.Violate("history:legal-edge-rejected:"+ed.Kind, w, "the edge //p:t -> //q:d is legal in the current tree but the build fails:\n"+obs.Output)
		case !legal && obs.Exit == 0:
			r.Violate("history:illegal-edge-accepted:"+ed.Kind, w, "the build succeeds although "+why+" (targets executed: "+fmt.Sprint(obs.Actions)+")")
		}
		return nil, ""
	}
	st := e.BFS(depth, noCache, visit, r.OutOfTime)
	return st.States, st.Transitions, st.Complete
}

// C16: the BUILD language agrees with CPython on its documented subset.
// Bounded-exhaustive program enumeration (expression trees by operator count, then statement templates), every
// program evaluated by the real interpreter on BOTH of its paths (BUILD file: no optimisation; build_defs file:
// Parser.optimise + constant folding + freeze) and by python3; globals compared.
package main

import (
	"fmt"
	"os"
	"reflect"
	"runtime"
	"runtime/debug"
	"sort"
	"strings"
	"sync"
	"sync/atomic"
	"time"

	"github.com/thought-machine/please/rules"
	"github.com/thought-machine/please/src/core"
	"github.com/thought-machine/please/src/parse/asp"
	"github.com/thought-machine/please/verifharness/lib"
)

type witness struct {
	Program  string `json:"program"`
	Python   any    `json:"python,omitempty"`
	AspBuild any    `json:"asp_build_file,omitempty"`
	AspDefs  any    `json:"asp_build_defs,omitempty"`
	Space    string `json:"space,omitempty"`
}

// ---------- the interpreter under test ----------

type aspWorker struct {
	state *core.BuildState
	p     *asp.Parser
}

var builtinsSrc []byte

func newAspWorker() *aspWorker {
	state := core.NewDefaultBuildState()
	p := asp.NewParser(state)
	p.MustLoadBuiltins("builtins.build_defs", builtinsSrc)
	return &aspWorker{state, p}
}

type aspRes struct {
	b, d       map[string]any
	bok, dok   bool
	berr, derr string
}

func (w *aspWorker) eval(code string) (r aspRes) {
	var err error
	if r.b, err = asp.VerifEvalBuildC16(w.p, core.NewPackage("p"), code); err == nil {
		r.bok = true
	} else {
		r.berr = err.Error()
	}
	if r.d, err = asp.VerifEvalDefsC16(w.p, code); err == nil {
		r.dok = true
	} else {
		r.derr = err.Error()
	}
	return r
}

var workers []*aspWorker

func evalAll(progs []string) []aspRes {
	out := make([]aspRes, len(progs))
	var next int64
	var wg sync.WaitGroup
	for _, w := range workers {
		wg.Add(1)
		go func(w *aspWorker) {
			defer wg.Done()
			for {
				lo := int(atomic.AddInt64(&next, 256)) - 256
				if lo >= len(progs) {
					return
				}
				for i := lo; i < lo+256 && i < len(progs); i++ {
					out[i] = w.eval(progs[i])
				}
			}
		}(w)
	}
	wg.Wait()
	return out
}

// ---------- comparison ----------

type counters struct {
	evaluated, pyRejected, pyUnsupported, pySyntax, aspBuildOK, aspDefsOK, bothOK, mismatched int
	pyErrTypes                                                                                map[string]int
}

var cnt = counters{pyErrTypes: map[string]int{}}

// verdict of one program.
type verdict struct {
	pyOK   bool
	py     map[string]any
	mb, md bool // BUILD path / build_defs path evaluated without error and disagrees with CPython
}

func judge(line string, a aspRes) verdict {
	var v verdict
	cnt.evaluated++
	if a.bok {
		cnt.aspBuildOK++
	}
	if a.dok {
		cnt.aspDefsOK++
	}
	py, ok, why := decodePy(line)
	if !ok {
		if why == "U" {
			cnt.pyUnsupported++
		} else {
			cnt.pyRejected++
			cnt.pyErrTypes[strings.TrimPrefix(why, "E")]++
			if why == "ESyntaxError" || why == "EIndentationError" {
				cnt.pySyntax++
			}
		}
		return v
	}
	v.pyOK, v.py = true, py
	if a.bok || a.dok {
		cnt.bothOK++
	}
	v.mb = a.bok && !eq(a.b, py)
	v.md = a.dok && !eq(a.d, py)
	if v.mb || v.md {
		cnt.mismatched++
	}
	return v
}

func pathSuffix(v verdict, a aspRes) string {
	switch {
	case v.mb && v.md:
		return ""
	case v.md:
		return ":build_defs-path-only"
	default:
		return ":BUILD-path-only"
	}
}

func mkWitness(prog, space string, v verdict, a aspRes) witness {
	w := witness{Program: prog, Python: v.py, Space: space}
	if a.bok {
		w.AspBuild = a.b
	} else {
		w.AspBuild = "error"
	}
	if a.dok {
		w.AspDefs = a.d
	} else {
		w.AspDefs = "error"
	}
	return w
}

func detail(w witness) string {
	return fmt.Sprintf("program %q: CPython %s, BUILD-file path %s, build_defs path %s", w.Program, show(w.Python), show(w.AspBuild), show(w.AspDefs))
}

// best witness per class: the shortest program text (ties: lexicographically first), so the reported witness is minimal.
type classRec struct {
	count  int
	w      witness
	detail string
}

var classes = map[string]*classRec{}

func violate(class string, w witness, detail string) {
	c := classes[class]
	if c == nil {
		classes[class] = &classRec{1, w, detail}
		return
	}
	c.count++
	if len(w.Program) < len(c.w.Program) || (len(w.Program) == len(c.w.Program) && w.Program < c.w.Program) {
		c.w, c.detail = w, detail
	}
}

func violateMore(class string) {
	if c := classes[class]; c != nil {
		c.count++
	}
}

func flushViolations(r *lib.Run) {
	for class, c := range classes {
		r.Violate(class, c.w, c.detail)
		for i := 1; i < c.count; i++ {
			r.Violate(class, nil, "")
		}
	}
}

// confirm re-runs the interpreter side of a violation; it must reproduce.
func confirm(prog string, a aspRes) {
	b := workers[0].eval(prog)
	if a.bok != b.bok || a.dok != b.dok || (a.bok && !eq(a.b, b.b)) || (a.dok && !eq(a.d, b.d)) {
		lib.Fatal("HARNESS-NONDETERMINISM program %q evaluated differently on a second run", prog)
	}
}

// ---------- expression spaces ----------

var (
	allBin  = []*opInfo{opAdd, opSub, opMul, opFloor, opMod, opLt, opLe, opGt, opGe, opEq, opNe, opAnd, opOr, opIn, opNotIn, opUnion}
	arith13 = []*opInfo{opAdd, opSub, opMul, opFloor, opMod, opLt, opLe, opGt, opGe, opEq, opNe, opAnd, opOr}
	arith9  = []*opInfo{opAdd, opSub, opMul, opFloor, opMod, opLt, opEq, opAnd, opOr}
	arith7  = []*opInfo{opAdd, opSub, opMul, opFloor, opMod, opLt, opAnd}
	bothUn  = []*opInfo{opNeg, opNot}
)

func lv(typ uint8, texts ...string) []leafT {
	out := make([]leafT, len(texts))
	for i, t := range texts {
		out[i] = leafT{t, typ}
	}
	return out
}

func cat(ls ...[]leafT) []leafT {
	var out []leafT
	for _, l := range ls {
		out = append(out, l...)
	}
	return out
}

var fullLeaves = cat(lv(tI, "0", "1", "2", "-1", "7"), lv(tS, `""`, `"a"`, `"ab"`, `"é"`), lv(tL, "[]", "[1]", "[1, 2]"), lv(tD, `{"a": 1}`))

func spaces(quick bool) []*space {
	if quick {
		return []*space{
			{"all-operators/13-leaves/<=1-op", allBin, bothUn, fullLeaves, 1},
			{"all-operators/7-leaves/<=2-ops", allBin, bothUn, cat(lv(tI, "2", "-1"), lv(tS, `"a"`, `"é"`), lv(tL, "[]", "[1, 2]"), lv(tD, `{"a": 1}`)), 2},
			{"9-operators/ints{-2,7}/<=3-ops", arith9, bothUn, lv(tI, "-2", "7"), 3},
		}
	}
	return []*space{
		{"all-operators/13-leaves/<=2-ops", allBin, bothUn, fullLeaves, 2},
		{"13-operators/ints{0,1,2,-1,7}/<=3-ops", arith13, bothUn, lv(tI, "0", "1", "2", "-1", "7"), 3},
		{"all-operators/mixed-6-leaves/<=3-ops", allBin, bothUn, cat(lv(tI, "3", "-2"), lv(tS, `"a"`, `"é"`), lv(tL, "[1, 2]"), lv(tD, `{"a": 1}`)), 3},
		{"7-operators/ints{2,-1,7}/<=4-ops", arith7, []*opInfo{opNeg}, lv(tI, "2", "-1", "7"), 4},
	}
}

var nMinimal int

const chunkSize = 300000

// An item is one program waiting to be evaluated: an expression tree, a template program, or a filter self-check.
type item struct {
	prog string
	n    *node  // expression tree
	sp   *space // its space
	t    *tprog // template program
	fc   bool   // static-filter self-check: CPython must raise TypeError
}

type pipeline struct {
	r        *lib.Run
	py       *pyServer
	samples  lib.Samples
	pending  []item
	distinct map[string]bool // expression programs of layers with <=2 operators / retained layers, counted once across spaces
	famStats map[string][2]int
	perSpace map[string]int
	fcCount  int
	stopped  bool
}

func (pl *pipeline) push(it item) {
	pl.pending = append(pl.pending, it)
	if len(pl.pending) >= chunkSize {
		pl.flush()
		if pl.r.OutOfTime() {
			pl.stopped = true
		}
	}
}

// flush evaluates the pending programs (CPython and the interpreter concurrently) and judges them in generation order,
// so the verdicts of a tree's subtrees are always known before the tree itself is classified.
func (pl *pipeline) flush() {
	if len(pl.pending) == 0 {
		return
	}
	items := pl.pending
	pl.pending = nil
	progs := make([]string, len(items))
	for i := range items {
		progs[i] = items[i].prog
	}
	var lines []string
	done := make(chan struct{})
	go func() { lines = pl.py.run(progs); close(done) }()
	dbg("batch of %d", len(progs))
	res := evalAll(progs)
	dbg("  interpreter done")
	<-done
	dbg("  python done")
	for i := range items {
		it := &items[i]
		switch {
		case it.fc:
			pl.fcCount++
			if lines[i] != "ETypeError" {
				lib.Fatal("static filter is wrong: it drops %q as a certain TypeError but CPython says %s", it.prog, lines[i])
			}
		case it.t != nil:
			pl.judgeTemplate(it, lines[i], res[i])
		default:
			pl.judgeTree(it, lines[i], res[i])
		}
	}
	dbg("  judged")
}

func (pl *pipeline) judgeTemplate(it *item, line string, a aspRes) {
	t := it.t
	v := judge(line, a)
	st := pl.famStats[t.family]
	st[0]++
	if v.pyOK && (a.bok || a.dok) {
		st[1]++
	}
	pl.famStats[t.family] = st
	if line == "ESyntaxError" || line == "EIndentationError" {
		fmt.Fprintf(os.Stderr, "note: CPython rejects a template program as a syntax error: %q\n", t.code)
	}
	pl.samples.Add(func() any { return witness{Program: t.code, Space: "template " + t.family} })
	if v.mb || v.md {
		class := "tmpl:" + t.family + pathSuffix(v, a)
		if classes[class] != nil {
			violateMore(class) // templates are generated simplest first: keep the first witness
			return
		}
		confirm(t.code, a)
		w := mkWitness(t.code, "template "+t.family, v, a)
		violate(class, w, detail(w))
	}
}

func (pl *pipeline) judgeTree(it *item, line string, a aspRes) {
	n, sp := it.n, it.sp
	v := judge(line, a)
	pl.perSpace[sp.name]++
	n.done, n.pyOK = true, v.pyOK
	if v.pyOK {
		n.pyVal = v.py["x"]
	}
	pl.samples.Add(func() any { return witness{Program: it.prog, Space: sp.name} })
	sub := ""
	if n.l != nil && n.l.bad {
		sub = n.l.class
	} else if n.r != nil && n.r.bad {
		sub = n.r.class
	}
	if !(v.mb || v.md) {
		if sub != "" { // a disagreeing subtree whose effect is masked here (e.g. short-circuited): not counted
			n.bad, n.class = true, sub
		}
		return
	}
	n.bad = true
	if sub != "" { // not minimal: same cause as the disagreeing subtree
		n.class = sub
		violateMore(sub)
		return
	}
	// minimal disagreeing tree: precedence (flat rendering) or the root operator itself?
	nMinimal++
	full := workers[0].eval("x = " + renderFull(n) + "\n")
	fullAgrees := (full.bok && eq(full.b, v.py)) && (!a.dok || (full.dok && eq(full.d, v.py)))
	var class string
	if n.op == nil {
		class = "literal:" + n.leaf
	} else if n.nops >= 2 && fullAgrees {
		class = "interpretOps:flat-chain:" + chainClass(n)
	} else if n.op.unary {
		class = "unop:" + n.op.sym + ":" + traitOf(n.l.pyVal)
	} else {
		class = "binop:" + n.op.sym + ":" + traitOf(n.l.pyVal) + "," + traitOf(n.r.pyVal)
	}
	class += pathSuffix(v, a)
	n.class = class
	w := mkWitness(it.prog, sp.name, v, a)
	d := detail(w)
	if fullAgrees && n.nops >= 2 {
		d += fmt.Sprintf("; the fully parenthesised form %q evaluates correctly", renderFull(n))
	}
	if classes[class] == nil {
		confirm(it.prog, a)
	}
	violate(class, w, d)
}

// genSpace pushes every tree of the space, layer by layer (generation is purely static).
func (pl *pipeline) genSpace(sp *space) {
	layers := [][]*node{sp.leafNodes()}
	emit := func(t *node) { pl.push(item{prog: "x = " + t.flat + "\n", n: t, sp: sp}) }
	for _, l := range layers[0] {
		emit(l)
	}
	for n := 1; n <= sp.maxOps && !pl.stopped; n++ {
		retain := n < sp.maxOps
		var kept []*node
		sp.layer(n, layers, func(t *node) {
			if pl.stopped {
				return
			}
			if retain || n <= 2 {
				if pl.distinct[t.flat] {
					if retain { // evaluated in an earlier space already: again, only to have its verdict for this space's larger trees
						kept = append(kept, t)
						emit(t)
					}
					return
				}
				pl.distinct[t.flat] = true
			}
			emit(t)
			if retain {
				kept = append(kept, t)
			}
		})
		layers = append(layers, kept)
	}
}

// genFilterCheck: every single-operator tree the static filter calls a certain TypeError must be rejected by CPython.
func (pl *pipeline) genFilterCheck() {
	leaves := (&space{leaves: fullLeaves}).leafNodes()
	for _, b := range allBin {
		if b == opAnd || b == opOr {
			continue
		}
		for _, l := range leaves {
			for _, r := range leaves {
				if _, ok, skip := pairType(b, l.ts, r.ts); !ok && !skip {
					pl.push(item{prog: "x = " + l.flat + " " + b.sym + " " + r.flat + "\n", fc: true})
				}
			}
		}
	}
	for _, l := range leaves {
		if l.ts&(tI|tB) == 0 {
			pl.push(item{prog: "x = -" + l.flat + "\n", fc: true})
		}
	}
}

var t0 = time.Now()

func dbg(format string, args ...any) {
	if os.Getenv("VERIF_DEBUG") != "" {
		fmt.Fprintf(os.Stderr, "[c16 %6.1fs] "+format+"\n", append([]any{time.Since(t0).Seconds()}, args...)...)
	}
}

// ---------- evaluation must not depend on what the same interpreter evaluated before ----------
// One parser evaluates many files in one plz run. A file whose evaluation fails inside a builtin must leave nothing behind
// that changes the value of a later, unrelated file (the builtins' argument slices are pooled). For every pair
// (failing program, good program) the good program's globals after the failure are compared with its globals on a fresh
// interpreter (differential: no reference implementation involved).

var failingProgs = []string{
	`x = sorted([2, "a", 1], reverse = True)`,
	`x = sorted([2, "a", 1], key = lambda v: v, reverse = True)`,
	`x = max([], key = lambda v: 0 - v)`,
	`x = min([], key = lambda v: 0 - v)`,
	`x = max([1, "a"], key = lambda v: v + 1)`,
	`x = reduce(lambda a, b: a + b, [1, "a"], 100)`,
	`x = map(lambda v: v + 1, ["a"])`,
	`x = filter(lambda v: v + 1, ["a"])`,
	`x = range(1, "a", 2)`,
	`x = range(5, 1, 0 - 1) + "a"`,
	`x = "a,b".split(",", "z")`,
	`x = "aXa".replace("a", 1)`,
	`x = ",".join([1, 2])`,
	`x = {"a": 1}.get("b", 5) + "z"`,
	`x = enumerate(5)`,
	`x = zip([1], 5)`,
	`x = "abc".find("c", "z")`,
	`x = any(5)`,
	`x = int("zz")`,
	`x = "a b".partition(5)`,
	`x = "%s %s" % ("a",)`,
}

var goodProgs = []string{
	`x = sorted([3, 1, 2])`, `x = sorted(["b", "a"])`, `x = max([1, 3, 2])`, `x = min([3, 1, 2])`, `x = max(["a", "c", "b"])`,
	`x = reduce(lambda a, b: a + b, [1, 2, 3])`, `x = reduce(lambda a, b: a + b, ["a", "b"])`, `x = map(lambda v: v + 1, [1, 2])`,
	`x = filter(lambda v: v, [0, 1, 2])`, `x = range(3)`, `x = range(1, 4)`, `x = "a,b,c".split(",")`, `x = "aXa".replace("a", "b")`,
	`x = ",".join(["a", "b"])`, `x = {"a": 1}.get("b")`, `x = {"a": 1}.get("a")`, `x = enumerate(["a", "b"])`, `x = zip([1, 2], [3, 4])`,
	`x = "abcabc".find("c")`, `x = "abcabc".rfind("c")`, `x = any([0, 1])`, `x = all([0, 1])`, `x = int("12")`, `x = "a b c".partition(" ")`,
	`x = "a b c".rpartition(" ")`, `x = "  a ".strip()`, `x = "xax".lstrip("x")`, `x = "a b".split()`, `x = "abc".count("b")`,
	`x = "Abc".startswith("A")`, `x = "abc".endswith("c")`, `x = len([1, 2])`, `x = str(5)`, `x = sorted([2, 1], reverse = False)`,
}

func afterFailure(r *lib.Run) int {
	defer debug.SetGCPercent(debug.SetGCPercent(-1)) // (a collection empties the pools whose contents this tier is about)
	alone := make([]aspRes, len(goodProgs))
	for i, g := range goodProgs {
		alone[i] = newAspWorker().eval(g)
		if !alone[i].bok || !alone[i].dok {
			lib.Fatal("after-failure tier: the good program %q is rejected on a fresh interpreter: %s %s", g, alone[i].berr, alone[i].derr)
		}
	}
	pairs := 0
	var mu sync.Mutex
	var wg sync.WaitGroup
	sem := make(chan struct{}, runtime.NumCPU())
	for _, f := range failingProgs {
		wg.Add(1)
		sem <- struct{}{}
		go func(f string) {
			defer wg.Done()
			defer func() { <-sem }()
			for i, g := range goodProgs {
				w := newAspWorker()
				fr := w.eval(f)
				if fr.bok && fr.dok {
					continue // not a failing program on this tree: nothing to learn
				}
				got := w.eval(g)
				mu.Lock()
				pairs++
				mu.Unlock()
				if got.bok != alone[i].bok || got.dok != alone[i].dok || !reflect.DeepEqual(got.b, alone[i].b) || !reflect.DeepEqual(got.d, alone[i].d) {
					// the same pair must fail again on another fresh interpreter
					w2 := newAspWorker()
					w2.eval(f)
					again := w2.eval(g)
					if reflect.DeepEqual(again.b, got.b) && reflect.DeepEqual(again.d, got.d) && again.bok == got.bok && again.dok == got.dok {
						name := g[4:]
						if k := strings.IndexAny(name, "(."); k > 0 && !strings.HasPrefix(name, "\"") && !strings.HasPrefix(name, "{") && !strings.HasPrefix(name, "[") {
							name = name[:k]
						}
						r.Violate("value-depends-on-an-earlier-failed-evaluation:"+name, map[string]any{"failing_program_evaluated_first": f, "program": g},
							fmt.Sprintf("after the evaluation of %q failed, %q evaluates to %s / %s (errors %q %q); on a fresh interpreter to %s / %s", f, g, show(got.b), show(got.d), got.berr, got.derr, show(alone[i].b), show(alone[i].d)))
					}
				}
			}
		}(f)
	}
	wg.Wait()
	return pairs
}

func main() {
	r := lib.Start("C16", "exploration")
	lib.Quiet()
	var err error
	if builtinsSrc, err = rules.ReadAsset("builtins.build_defs"); err != nil {
		lib.Fatal("builtins: %s", err)
	}
	dir, err := os.MkdirTemp("", "c16-")
	if err != nil {
		lib.Fatal("tmp: %s", err)
	}
	defer os.RemoveAll(dir)
	nw := runtime.NumCPU()
	for i := 0; i < nw; i++ {
		workers = append(workers, newAspWorker())
	}

	dbg("workers ready")
	if prog := os.Getenv("VERIF_C16_PROG"); prog != "" { // debugging aid: evaluate one program and show both paths
		a := workers[0].eval(prog)
		fmt.Printf("BUILD path: ok=%v %s %s\nbuild_defs path: ok=%v %s %s\n", a.bok, show(a.b), a.berr, a.dok, show(a.d), a.derr)
		os.Exit(0)
	}
	if r.Replay != "" {
		var pw struct {
			F string `json:"failing_program_evaluated_first"`
			G string `json:"program"`
		}
		lib.LoadReplay(r.Replay, &pw)
		if pw.F != "" {
			// pooled objects survive only until the next garbage collection and only on the same processor: the garbage
			// collector is switched off and the pair is tried a few times (what is being replayed is a possibility)
			defer debug.SetGCPercent(debug.SetGCPercent(-1))
			alone := newAspWorker().eval(pw.G)
			for try := 0; try < 20; try++ {
				w := newAspWorker()
				w.eval(pw.F)
				got := w.eval(pw.G)
				if !reflect.DeepEqual(got.b, alone.b) || !reflect.DeepEqual(got.d, alone.d) || got.bok != alone.bok || got.dok != alone.dok {
					r.Violate("replay", pw, fmt.Sprintf("after %q failed, %q evaluates to %s / %s; on a fresh interpreter to %s / %s", pw.F, pw.G, show(got.b), show(got.d), show(alone.b), show(alone.d)))
					break
				}
			}
			os.RemoveAll(dir)
			r.Finish(lib.Coverage{Evaluations: 1, DistinctNontrivial: 1, Rule: "replay", Samples: []any{pw}, Exhaustive: true})
		}
		var w witness
		lib.LoadReplay(r.Replay, &w)
		py := startPy(dir, 1)
		lines := py.run([]string{w.Program})
		py.stop()
		a := workers[0].eval(w.Program)
		v := judge(lines[0], a)
		if v.mb || v.md {
			r.Violate("replay", mkWitness(w.Program, w.Space, v, a), detail(mkWitness(w.Program, w.Space, v, a)))
		} else {
			fmt.Printf("replay: CPython %s, BUILD-file path ok=%v %s, build_defs path ok=%v %s\n", lines[0], a.bok, show(a.b), a.dok, show(a.d))
		}
		os.RemoveAll(dir)
		r.Finish(lib.Coverage{Evaluations: 1, DistinctNontrivial: 1, Rule: "replay", Samples: []any{w}, Exhaustive: true})
	}

	afterFailurePairs := afterFailure(r)

	pyw := nw - 4
	if pyw < 2 {
		pyw = 2
	}
	pl := &pipeline{r: r, py: startPy(dir, pyw), distinct: map[string]bool{}, famStats: map[string][2]int{}, perSpace: map[string]int{}}
	pl.genFilterCheck()
	tps := templates(!r.Quick())
	for i := range tps {
		pl.push(item{prog: tps[i].code, t: &tps[i]})
	}
	exhaustive := true
	sps := spaces(r.Quick())
	for _, sp := range sps {
		dbg("space %s", sp.name)
		pl.genSpace(sp)
		if pl.stopped {
			exhaustive = false
			break
		}
	}
	pl.flush()
	pl.py.stop()
	os.RemoveAll(dir)
	dbg("done, minimal disagreeing trees: %d", nMinimal)
	flushViolations(r)
	spaceNames := []string{}
	for _, sp := range sps {
		spaceNames = append(spaceNames, fmt.Sprintf("%s: %d programs", sp.name, pl.perSpace[sp.name]))
	}
	deadFamilies := []string{}
	templateEvals := 0
	for f, st := range pl.famStats {
		templateEvals += st[0]
		if st[1] == 0 {
			deadFamilies = append(deadFamilies, f)
		}
	}
	sort.Strings(deadFamilies)
	samples := &pl.samples
	famStats := pl.famStats
	filterChecked := pl.fcCount

	r.Assume = []string{
		"CPython 3 (python3 on PATH) is the oracle; zip/enumerate/reversed/map/filter are materialised to lists and tuples are compared as lists, because the BUILD language documents lists there",
		"a program counts only if the interpreter evaluates it without error on that path AND CPython accepts it (the statement speaks about programs Please evaluates without error; programs CPython rejects are dropped)",
		"outside the documented subset and therefore not generated: comparison chains (a < b < c), bool/int mixing (True == 1, True + 1, True in [1]; the docs list Booleans as a type of their own), printf-style % on strings and bitwise | on ints in expression trees, direct iteration over dicts, dict literals whose insertion order is not the sorted order (keys()/items() are documented to be sorted), ints beyond 64 bits, floats, tuples as values, classes",
		"subtrees that are certainly a CPython TypeError are pruned statically (self-checked against CPython on every single-operator case each run), including where an enclosing and/or would have short-circuited past them",
		"expression trees are rendered with the minimal parentheses CPython needs, binary operators surrounded by single spaces",
	}
	r.Finish(lib.Coverage{
		Evaluations:        cnt.evaluated,
		DistinctNontrivial: cnt.bothOK,
		Rule:               "a case is one program text; it is evaluated by CPython once and by the real interpreter twice (BUILD-file path and build_defs path). Non-trivial = CPython accepts it and the interpreter evaluates it without error on at least one path, so its globals are actually compared. Programs of layers with <=2 operators are de-duplicated across spaces by text; larger layers are disjoint by construction.",
		Samples:            samples.List(),
		Exhaustive:         exhaustive,
		Extra: map[string]any{
			"after_failure_pairs_failing_then_good_program_on_one_interpreter": afterFailurePairs,
			"spaces":                           spaceNames,
			"template_programs":                templateEvals,
			"template_families":                len(famStats),
			"template_families_never_compared": deadFamilies,
			"cpython_rejected":                 cnt.pyRejected,
			"cpython_rejected_by_type":         cnt.pyErrTypes,
			"cpython_unsupported_value":        cnt.pyUnsupported,
			"interpreter_ok_build_file_path":   cnt.aspBuildOK,
			"interpreter_ok_build_defs_path":   cnt.aspDefsOK,
			"programs_disagreeing":             cnt.mismatched,
			"static_filter_self_checked":       filterChecked,
		},
	})
}

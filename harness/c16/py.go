package main

import (
	"bufio"
	"bytes"
	"encoding/json"
	"fmt"
	"io"
	"os"
	"os/exec"
	"path/filepath"
	"strings"

	"github.com/thought-machine/please/verifharness/lib"
)

// The CPython oracle. ONE python3 process is started per run (process creation costs seconds here); for every batch
// it forks workers (cheap) that exec() each program in a fresh namespace and print the JSON-able globals or the
// exception type. The only adaptation: builtins that return lazy iterators / tuples in CPython and lists in the BUILD
// language (zip, enumerate, reversed, map, filter; reduce from functools) are materialised to lists, and tuples are
// serialised as lists.
const pySrc = `
import sys, os, json, functools
_b = __builtins__ if isinstance(__builtins__, dict) else __builtins__.__dict__
class U(Exception): pass
def _zip(*a): return [list(t) for t in _b['zip'](*a)]
def _enumerate(s): return [[i, x] for i, x in _b['enumerate'](s)]
def _reversed(s): return list(_b['reversed'](s))
def _map(f, s): return list(_b['map'](f, s))
def _filter(f, s): return list(_b['filter'](f, s))
PRE = {'zip': _zip, 'enumerate': _enumerate, 'reversed': _reversed, 'map': _map, 'filter': _filter, 'reduce': functools.reduce}
KV, VV, IV = type({}.keys()), type({}.values()), type({}.items())
LIM = 1 << 62
def conv(v):
    t = type(v)
    if t is bool or t is str or v is None: return v
    if t is int:
        if -LIM <= v <= LIM: return v
        raise U()
    if t is list or t is tuple or t is KV or t is VV: return [conv(x) for x in v]
    if t is range: return list(v)
    if t is IV: return [[conv(a), conv(b)] for a, b in v]
    if t is dict:
        o = {}
        for k, x in v.items():
            if type(k) is not str: raise U()
            o[k] = conv(x)
        return o
    raise U()
def run(code):
    g = dict(PRE)
    try:
        exec(compile(code, '<p>', 'exec'), g)
    except BaseException as e:
        return 'E' + type(e).__name__
    out = {}
    try:
        for k, v in g.items():
            if k[0] == '_' or (k in PRE and v is PRE[k]) or callable(v): continue
            out[k] = conv(v)
    except U:
        return 'U'
    except BaseException as e:
        return 'E' + type(e).__name__
    return json.dumps(out, sort_keys=True)
def main():
    nw = int(sys.argv[1])
    while True:
        line = sys.stdin.readline()
        if not line: return
        parts = line.split()
        if parts[0] != 'run': continue
        inp, outp = parts[1], parts[2]
        with open(inp, encoding='utf-8') as f: progs = f.read().split('\n')
        if progs and progs[-1] == '': progs.pop()
        n = len(progs); pids = []
        for w in range(nw):
            lo, hi = w * n // nw, (w + 1) * n // nw
            pid = os.fork()
            if pid == 0:
                rc = 1
                try:
                    with open('%s.%d' % (outp, w), 'w', encoding='utf-8') as o:
                        for i in range(lo, hi):
                            o.write(run(json.loads(progs[i]))); o.write('\n')
                    rc = 0
                finally:
                    os._exit(rc)
            pids.append(pid)
        bad = 0
        for p in pids:
            _, st = os.waitpid(p, 0)
            if st != 0: bad += 1
        sys.stdout.write('done %d\n' % bad); sys.stdout.flush()
main()
`

type pyServer struct {
	cmd *exec.Cmd
	in  io.WriteCloser
	out *bufio.Reader
	dir string
	nw  int
	seq int
}

func startPy(dir string, nw int) *pyServer {
	script := filepath.Join(dir, "oracle.py")
	if err := os.WriteFile(script, []byte(pySrc), 0o644); err != nil {
		lib.Fatal("write oracle: %s", err)
	}
	cmd := exec.Command("python3", "-I", "-S", script, fmt.Sprint(nw))
	cmd.Stderr = os.Stderr
	in, _ := cmd.StdinPipe()
	out, _ := cmd.StdoutPipe()
	if err := cmd.Start(); err != nil {
		lib.Fatal("cannot start python3 (the CPython oracle): %s", err)
	}
	return &pyServer{cmd: cmd, in: in, out: bufio.NewReader(out), dir: dir, nw: nw}
}

func (p *pyServer) stop() {
	p.in.Close()
	p.cmd.Wait()
}

// run evaluates the programs with CPython and returns one raw result line per program:
// "E<ExceptionType>", "U" (a value with no counterpart, e.g. an int beyond 64 bits) or the JSON globals.
func (p *pyServer) run(progs []string) []string {
	p.seq++
	inp := filepath.Join(p.dir, fmt.Sprintf("in-%d", p.seq))
	outp := filepath.Join(p.dir, fmt.Sprintf("out-%d", p.seq))
	var buf bytes.Buffer
	enc := json.NewEncoder(&buf)
	enc.SetEscapeHTML(false)
	for _, s := range progs {
		enc.Encode(s) // one JSON string per line
	}
	if err := os.WriteFile(inp, buf.Bytes(), 0o644); err != nil {
		lib.Fatal("write batch: %s", err)
	}
	fmt.Fprintf(p.in, "run %s %s\n", inp, outp)
	line, err := p.out.ReadString('\n')
	if err != nil || strings.TrimSpace(line) != "done 0" {
		lib.Fatal("python oracle failed: %q %v", line, err)
	}
	res := make([]string, 0, len(progs))
	for w := 0; w < p.nw; w++ {
		fn := fmt.Sprintf("%s.%d", outp, w)
		b, err := os.ReadFile(fn)
		if err != nil {
			lib.Fatal("python oracle output: %s", err)
		}
		os.Remove(fn)
		lines := strings.Split(string(b), "\n")
		if len(lines) > 0 && lines[len(lines)-1] == "" {
			lines = lines[:len(lines)-1]
		}
		res = append(res, lines...)
	}
	os.Remove(inp)
	if len(res) != len(progs) {
		lib.Fatal("python oracle returned %d results for %d programs", len(res), len(progs))
	}
	return res
}

// decodePy parses a result line: ok=false means CPython rejected the program (or produced an unsupported value).
func decodePy(line string) (val map[string]any, ok bool, why string) {
	if line == "" || line[0] != '{' {
		return nil, false, line
	}
	dec := json.NewDecoder(strings.NewReader(line))
	dec.UseNumber()
	var v any
	if err := dec.Decode(&v); err != nil {
		lib.Fatal("bad oracle line %q: %s", line, err)
	}
	return norm(v).(map[string]any), true, ""
}

// norm turns json.Number into int so values compare with the interpreter's plain values.
func norm(v any) any {
	switch t := v.(type) {
	case json.Number:
		i, err := t.Int64()
		if err != nil {
			lib.Fatal("non-integer number from oracle: %s", t)
		}
		return int(i)
	case []any:
		for i := range t {
			t[i] = norm(t[i])
		}
		return t
	case map[string]any:
		for k := range t {
			t[k] = norm(t[k])
		}
		return t
	}
	return v
}

// eq is structural equality of plain values (int, string, bool, nil, []any, map[string]any). bool != int.
func eq(a, b any) bool {
	switch x := a.(type) {
	case nil:
		return b == nil
	case int:
		y, ok := b.(int)
		return ok && x == y
	case string:
		y, ok := b.(string)
		return ok && x == y
	case bool:
		y, ok := b.(bool)
		return ok && x == y
	case []any:
		y, ok := b.([]any)
		if !ok || len(x) != len(y) {
			return false
		}
		for i := range x {
			if !eq(x[i], y[i]) {
				return false
			}
		}
		return true
	case map[string]any:
		y, ok := b.(map[string]any)
		if !ok || len(x) != len(y) {
			return false
		}
		for k, v := range x {
			w, ok := y[k]
			if !ok || !eq(v, w) {
				return false
			}
		}
		return true
	}
	return false
}

func show(v any) string {
	b, _ := json.Marshal(v)
	return string(b)
}

package main

import (
	"fmt"
	"strings"
)

// Statement-level templates. A family names the language feature / program shape that its programs exercise; the
// programs of a family are generated simplest first, so the first disagreeing program of a family is its witness.

type tprog struct {
	family string
	code   string
}

type tgen struct {
	progs []tprog
	seen  map[string]bool
}

func (g *tgen) add(family string, lines ...string) {
	code := strings.Join(lines, "\n") + "\n"
	if g.seen[code] {
		return
	}
	g.seen[code] = true
	g.progs = append(g.progs, tprog{family, code})
}

func lit(v any) string {
	switch t := v.(type) {
	case int:
		return fmt.Sprint(t)
	case string:
		return `"` + strings.NewReplacer(`\`, `\\`, `"`, `\"`, "\n", `\n`, "\t", `\t`).Replace(t) + `"`
	case []any:
		parts := make([]string, len(t))
		for i, x := range t {
			parts[i] = lit(x)
		}
		return "[" + strings.Join(parts, ", ") + "]"
	case [][2]any: // dict items in order
		parts := make([]string, len(t))
		for i, x := range t {
			parts[i] = lit(x[0]) + ": " + lit(x[1])
		}
		return "{" + strings.Join(parts, ", ") + "}"
	}
	panic("lit")
}

func L(xs ...any) []any { return xs }

func templates(thorough bool) []tprog {
	g := &tgen{seen: map[string]bool{}}
	ints := []int{0, 1, 2, -1, 7}
	strs := []string{"", "a", "ab", "é", "aé b", "a,b", " a "}
	intLists := [][]any{L(), L(1), L(1, 2), L(2, 1), L(3, 1, 2), L(-1, 7, 0, 7)}
	strLists := [][]any{L("a"), L("b", "a"), L("é", "z", "a")}
	nested := [][]any{L(L(2), L(1)), L(L(1, 2), L(0, 5)), L(L(1, "b"), L(1, "a"))}
	var lists, nonEmpty [][]any
	lists = append(append(append(lists, intLists...), strLists...), nested...)
	for _, l := range lists {
		if len(l) > 0 {
			nonEmpty = append(nonEmpty, l)
		}
	}
	dicts := [][][2]any{{}, {{"a", 1}}, {{"a", 1}, {"b", 2}}, {{"a", L(1, 2)}}, {{"z", 0}, {"é", "x"}}}

	// ---- aliasing and mutation
	for _, l := range nonEmpty {
		a := "a = " + lit(l)
		g.add("alias:index-assign-through-alias", a, "b = a", "b[0] = 9")
		g.add("list-augassign:rebinds-instead-of-extending-in-place", a, "b = a", "b += [5]")
		g.add("list-slice:shares-storage-with-original", a, "b = a[:]", "b[0] = 9")
		g.add("list-slice:shares-storage-with-original", a, "b = a[0:]", "b[0] = 9")
		g.add("list-add:result-shares-storage-with-left-operand", a, "b = a + []", "b[0] = 9")
		g.add("alias:empty-list-add-then-index-assign", a, "b = [] + a", "b[0] = 9")
		g.add("alias:mul-1-then-index-assign", a, "b = a * 1", "b[0] = 9")
		g.add("alias:comprehension-copy-then-index-assign", a, "b = [x for x in a]", "b[0] = 9")
		g.add("alias:function-arg-index-assign", "def f(l):", "    l[0] = 9", "    return l", a, "b = f(a)")
		g.add("list-augassign:rebinds-instead-of-extending-in-place", "def f(l):", "    l += [3]", "    return l", a, "b = f(a)")
		g.add("list-append-extend:rewritten-to-rebinding-augassign", a, "b = a", "b.append(5)")
		g.add("list-append-extend:rewritten-to-rebinding-augassign", a, "b = a", "b.extend([5, 6])")
		if len(l) >= 2 {
			g.add("list-add:result-shares-storage-with-left-operand", a, "b = a[0:1]", "c = b + [9]")
			g.add("list-add:result-shares-storage-with-left-operand", a, "b = a[:1]", "b += [9]")
			g.add("list-slice:shares-storage-with-original", a, "b = a[:1]", "b[0] = 9")
		}
	}
	for _, l := range intLists {
		if len(l) < 2 {
			continue
		}
		a := "a = [x for x in " + lit(l) + " if x != " + lit(l[len(l)-1]) + "]"
		g.add("list-add:result-shares-storage-with-left-operand", a, "b = a + [5]", "c = a + [6]")
		g.add("list-add:result-shares-storage-with-left-operand", a, "b = a + [5]", "c = a + [6, 7]")
	}
	g.add("alias:nested-element-index-assign", "a = [[1, 2], [3]]", "b = a[0]", "b[0] = 9")
	g.add("alias:nested-element-index-assign", "a = {\"k\": [1, 2]}", "b = a[\"k\"]", "b[0] = 9")
	g.add("alias:repeat-shares-elements", "a = [[1]] * 2", "b = a[0]", "b[0] = 9")
	g.add("alias:loop-variable-index-assign", "a = [[1], [2]]", "for x in a:", "    x[0] = 9")
	g.add("alias:int-augassign", "a = 1", "b = a", "b += 2")
	g.add("alias:str-augassign", "a = \"x\"", "b = a", "b += \"y\"")
	for _, d := range dicts {
		a := "d = " + lit(d)
		g.add("alias:dict-index-assign-through-alias", a, "e = d", "e[\"z\"] = 1")
		g.add("alias:dict-copy-then-index-assign", a, "e = d.copy()", "e[\"z\"] = 1")
		g.add("alias:dict-union-then-index-assign", a, "e = d | {}", "e[\"z\"] = 1")
		g.add("alias:dict-union-then-index-assign", a, "e = {} | d", "e[\"z\"] = 1")
		g.add("alias:function-arg-dict-index-assign", "def f(m):", "    m[\"z\"] = 1", a, "f(d)")
	}

	// ---- builtins that must not touch their argument
	for _, l := range lists {
		a := "a = " + lit(l)
		g.add("sorted:reorders-its-argument", a, "b = sorted(a)")
		g.add("reversed:reverses-its-argument", a, "b = reversed(a)")
		g.add("sorted:reorders-its-argument", a, "b = sorted(a, reverse = True)")
		g.add("inplace:sorted-of-copy", a, "b = sorted([x for x in a])")
		g.add("inplace:min-max", a, "b = [min(a), max(a)]")
	}
	for _, l := range intLists {
		a := "a = " + lit(l)
		g.add("sorted:reorders-its-argument", a, "b = sorted(a, key = lambda x: -x)")
		g.add("sorted:reorders-its-argument", a, "b = sorted(a, key = lambda x: (x + 8) % 2)")
		g.add("inplace:filter-map", a, "b = filter(lambda x: x > 0, a)", "c = map(lambda x: x * 2, a)")
	}

	// ---- fresh values: a literal / a call evaluated twice gives independent objects
	fresh := []string{"[1, 2]", "[\"a\"]", "[[1], [2]]", "{\"a\": 1}", "[1, x]"}
	for _, v := range fresh {
		decl := []string{"x = 5", "def f():", "    return " + v}
		mut := "a[0] = 9"
		if strings.HasPrefix(v, "{") {
			mut = "a[\"a\"] = 9"
		}
		fam := "constant-list-literal:one-object-shared-by-all-evaluations"
		if strings.HasPrefix(v, "{") || strings.Contains(v, "x") {
			fam = "fresh:function-returns-non-constant-literal"
		}
		g.add(fam, append(decl, "a = f()", "b = f()", mut)...)
		if !strings.HasPrefix(v, "{") {
			g.add("fresh:function-returns-literal-then-augassign", append(decl, "a = f()", "a += "+v, "b = f()")...)
		}
	}
	g.add("constant-list-literal:one-object-shared-by-all-evaluations", "def f():", "    return [[1], [2]]", "a = f()", "q = a[0]", "q[0] = 9", "b = f()")
	g.add("fresh:function-returns-empty-list", "def f():", "    return []", "a = f()", "a += [1]", "b = f()")
	g.add("constant-list-literal:one-object-shared-by-all-evaluations", "def f():", "    l = [1, 2]", "    l[0] = l[0] + 1", "    return l[0]", "a = f()", "b = f()")
	g.add("fresh:function-local-dict-literal", "def f():", "    d = {\"n\": 1}", "    d[\"n\"] += 1", "    return d[\"n\"]", "a = f()", "b = f()")
	g.add("constant-list-literal:one-object-shared-by-all-evaluations", "r = []", "for i in [0, 1]:", "    l = [1, 2]", "    l[0] = l[0] + i + 5", "    r += [l]")
	g.add("constant-list-literal:one-object-shared-by-all-evaluations", "r = []", "for i in [0, 1]:", "    l = [1, 2]", "    l[1] = i", "    r += [l[1]]", "    r += [l]")
	g.add("constant-list-literal:one-object-shared-by-all-evaluations", "r = [[0, 0] for i in [1, 2]]", "q = r[0]", "q[0] = 5")
	g.add("fresh:comprehension-element-literal", "r = [{\"k\": 0} for i in [1, 2]]", "q = r[0]", "q[\"k\"] = 5")
	g.add("constant-list-literal:one-object-shared-by-all-evaluations", "def f(l):", "    l[0] = l[0] + 1", "    return l[0]", "r = [f([1, 2]) for i in [0, 1]]")
	g.add("constant-list-literal:one-object-shared-by-all-evaluations", "def f(l):", "    l[0] = l[0] + 1", "    return l[0]", "a = f([1, 2])", "b = f([1, 2])")
	g.add("fresh:two-equal-literals", "a = [1, 2]", "b = [1, 2]", "a[0] = 9")
	g.add("fresh:default-argument-literal", "def f(l = [1, 2]):", "    return l", "a = f()", "a[0] = 9", "b = f()")
	g.add("constant-list-literal:one-object-shared-by-all-evaluations", "f = lambda: [1, 2]", "a = f()", "b = f()", "a[0] = 9")
	g.add("constant-list-literal:one-object-shared-by-all-evaluations", "def f(c):", "    return [1, 2] if c else [3]", "a = f(True)", "b = f(True)", "a[0] = 9")
	g.add("constant-list-literal:one-object-shared-by-all-evaluations", "def f():", "    def h():", "        return [1, 2]", "    return h()", "a = f()", "b = f()", "a[0] = 9")
	g.add("constant-list-literal:one-object-shared-by-all-evaluations", "def f():", "    return [[1, 2], 3]", "a = f()", "q = a[0]", "q[0] = 9", "b = f()")
	g.add("fresh:tuple-literal", "def f():", "    return (1, 2)", "a = f()", "b = f()")

	// ---- control flow
	for _, l := range intLists {
		v := lit(l)
		g.add("for:accumulate", "t = 0", "for x in "+v+":", "    t += x")
		g.add("for:accumulate", "t = 0", "n = 0", "for x in "+v+":", "    t = (t * 2) - x", "    n += 1")
		g.add("for:break", "t = 0", "for x in "+v+":", "    if x > 1:", "        break", "    t += x")
		g.add("for:continue", "t = 0", "for x in "+v+":", "    if x > 1:", "        continue", "    t += x")
		g.add("for:enumerate", "t = []", "for i, x in enumerate("+v+"):", "    t += [i * x]")
		g.add("for:zip", "t = []", "for a, b in zip("+v+", "+v+"):", "    t += [(a - b) * 2]")
		g.add("for:nested", "t = []", "for x in "+v+":", "    for y in "+v+":", "        if x < y:", "            t += [[x, y]]")
		g.add("for:nested-break", "t = []", "for x in "+v+":", "    for y in "+v+":", "        if y > x:", "            break", "        t += [y]")
		g.add("if:elif-else", "r = []", "for x in "+v+":", "    if x < 1:", "        r += [\"lt\"]", "    elif x == 1:", "        r += [\"eq\"]", "    else:", "        r += [\"gt\"]")
		g.add("comp:map", "r = [(x * 2) - 1 for x in "+v+"]")
		g.add("comp:filter", "r = [x for x in "+v+" if x > 0 and x != 2]")
		g.add("comp:two-loops", "r = [(x * 10) + y for x in "+v+" for y in "+v+" if x != y]")
		g.add("comp:pairs", "r = [[x, -x] for x in "+v+"]")
		g.add("comp:dict", "r = {str(x): x * x for x in "+v+"}")
		g.add("comp:enumerate", "r = [i - x for i, x in enumerate("+v+")]")
		g.add("comp:scope", "x = 5", "r = [x for x in "+v+"]")
		g.add("comp:ternary", "r = [\"p\" if x > 0 else \"n\" for x in "+v+"]")
		g.add("comp:nested-list", "r = [[y for y in "+v+" if y < x] for x in "+v+"]")
	}
	for _, a := range ints {
		for _, b := range ints {
			g.add("if:comparison", fmt.Sprintf("a = %d", a), fmt.Sprintf("b = %d", b), "r = \"none\"", "if a < b:", "    r = \"lt\"", "elif a == b:", "    r = \"eq\"", "else:", "    r = \"gt\"")
			g.add("ternary", fmt.Sprintf("r = %d if %d else %d", a, b, a+1))
			g.add("ternary", fmt.Sprintf("r = %d + 1 if %d > %d else %d * 2", a, a, b, b))
			g.add("for:range-2", "r = []", fmt.Sprintf("for i in range(%d, %d):", a, b), "    r += [i]")
			for _, c := range []int{1, 2, -1, 7} {
				if c < 0 && a >= b {
					g.add("range:negative-step", "r = []", fmt.Sprintf("for i in range(%d, %d, %d):", a, b, c), "    r += [i]")
					g.add("range:negative-step", fmt.Sprintf("r = [i for i in range(%d, %d, %d)]", a, b, c))
				} else if c > 0 {
					g.add("for:range-3", "r = []", fmt.Sprintf("for i in range(%d, %d, %d):", a, b, c), "    r += [i]")
				} else {
					// CPython: empty. (Unguarded, the interpreter's pyRange.Iter counts down from a forever: i < stop stays true.)
					g.add("range:negative-step", "n = 0", fmt.Sprintf("for i in range(%d, %d, %d):", a, b, c), "    n += 1", "    if n > 3:", "        break")
				}
				if c > 0 {
					g.add("comp:range-3", fmt.Sprintf("r = [i for i in range(%d, %d, %d)]", a, b, c))
				}
			}
		}
		g.add("for:range-1", "r = []", fmt.Sprintf("for i in range(%d):", a), "    r += [i]")
		g.add("range:as-value", fmt.Sprintf("r = range(%d)", a))
	}
	g.add("for:loop-variable-survives", "for x in [1, 2, 3]:", "    pass")
	g.add("for:unpack", "r = []", "for a, b in [[1, 2], [3, 4]]:", "    r += [a * b]")
	g.add("for:dict-items", "r = []", "for k, v in {\"a\": 1, \"b\": 2}.items():", "    r += [k * v]")
	g.add("for:dict-keys", "r = []", "for k in {\"a\": 1, \"b\": 2}.keys():", "    r += [k]")
	g.add("for:string-list", "r = \"\"", "for s in [\"a\", \"é\", \"b\"]:", "    r += s")
	g.add("if:truthiness", "r = []", "for v in [0, 1, -1, \"\", \"a\", [], [0], {}, {\"a\": 0}, None, True, False]:", "    if v:", "        r += [1]", "    else:", "        r += [0]")
	g.add("if:not-truthiness", "r = [not v for v in [0, 1, \"\", \"a\", [], [0], {}, None]]")
	g.add("if:and-or-values", "r = [0 or \"a\", 1 and [], \"\" or 0, [] or {}, 1 and 2, None or 0]")
	g.add("if:is-none", "x = None", "y = 0", "r = [x is None, y is None, x is not None, y is not None]")
	g.add("unpack:assign", "a, b = [1, 2]")
	g.add("unpack:assign", "a, b, c = [1, [2], \"x\"]")
	g.add("unpack:from-function", "def f():", "    return 1, 2", "a, b = f()")
	g.add("unpack:swap-via-list", "a = 1", "b = 2", "a, b = [b, a]")
	g.add("unpack:tuple-rhs", "a, b = 1, 2")
	g.add("unpack:tuple-rhs", "a = 1", "b = 2", "a, b = b, a")

	// ---- functions
	g.add("func:defaults-kwargs", "def f(a, b = 2):", "    return a - (b * 2)", "x = f(1)", "y = f(1, b = 5)", "z = f(b = 1, a = 7)", "w = f(3, 4)")
	g.add("func:closure", "def mk(n):", "    return lambda x: x + n", "f = mk(2)", "y = f(3)", "z = mk(-1)(1)")
	g.add("func:closure-def", "def mk(n):", "    def add(x):", "        return x + n", "    return add", "y = mk(2)(3)")
	g.add("func:recursion", "def fact(n):", "    return 1 if n < 2 else n * fact(n - 1)", "x = fact(5)")
	g.add("func:recursion", "def fib(n):", "    if n < 2:", "        return n", "    return fib(n - 1) + fib(n - 2)", "x = [fib(i) for i in range(8)]")
	g.add("func:global-read-late-binding", "def f():", "    return x", "x = 5", "y = f()")
	g.add("func:local-shadow", "x = 1", "def f():", "    x = 2", "    return x", "y = f()")
	g.add("func:argument-shadow", "x = 1", "def f(x):", "    x += 1", "    return x", "y = f(5)")
	g.add("func:implicit-none", "def f():", "    pass", "x = f()")
	g.add("func:bare-return", "def f(a):", "    if a:", "        return", "    return 1", "x = f(1)", "y = f(0)")
	g.add("func:return-in-loop", "def f(l):", "    for x in l:", "        if x > 1:", "            return x", "    return -1", "x = f([0, 1, 2, 3])", "y = f([0])")
	g.add("func:lambda-default", "f = lambda a, b = 3: a * b", "x = f(2)", "y = f(2, 2)")
	g.add("func:higher-order", "def ap(f, v):", "    return f(f(v))", "x = ap(lambda n: (n * 3) - 1, 2)")
	g.add("func:default-evaluated-once", "n = 1", "def f(a = n):", "    return a", "n = 2", "x = f()")
	g.add("func:none-default", "def f(a = None):", "    return 0 if a is None else a", "x = f()", "y = f(3)")
	g.add("func:many-returns", "def f(a):", "    return a, a + 1, [a]", "x = f(1)")

	// ---- builtins
	for _, l := range lists {
		v := lit(l)
		g.add("builtin:len", "r = len("+v+")")
		g.add("builtin:any-all", "r = [any("+v+"), all("+v+")]")
		g.add("builtin:enumerate", "r = enumerate("+v+")")
		g.add("builtin:zip", "r = zip("+v+", "+v+")")
		g.add("builtin:zip-3", "r = zip("+v+", "+v+", "+v+")")
		g.add("builtin:reversed", "r = reversed("+v+")")
		g.add("builtin:sorted", "r = sorted("+v+")")
		g.add("builtin:bool", "r = bool("+v+")")
		if len(l) > 0 {
			g.add("builtin:min-max", "r = [min("+v+"), max("+v+")]")
			g.add("index:list", "r = ["+v+"[0], "+v+"[-1], "+v+"[len("+v+") - 1]]")
		}
		for _, s := range []string{"[1:]", "[:1]", "[:-1]", "[-1:]", "[0:5]", "[5:]", "[1:2]", "[:]", "[-2:]", "[:0]"} {
			g.add("slice:list", "r = "+v+s)
		}
		g.add("eq:list", "r = ["+v+" == "+v+", "+v+" != "+v+", "+v+" == [], [] == "+v+"]")
		g.add("list:add-mul", "r = "+v+" + "+v, "q = "+v+" * 2", "p = 2 * "+v)
		g.add("builtin:isinstance", "r = [isinstance("+v+", list), isinstance("+v+", dict), isinstance("+v+", str)]")
		g.add("str-of-list:format", "r = str("+v+")")
		g.add("str-of-list:format", "v = "+v, "r = f\"<{v}>\"")
		g.add("str-of-list:format", "r = \"<{}>\".format("+v+")")
	}
	for _, l := range intLists {
		v := lit(l)
		g.add("builtin:map-filter-reduce", "a = map(lambda x: (x * 2) - 1, "+v+")", "b = filter(lambda x: (x + 8) % 2 == 1, "+v+")")
		g.add("builtin:filter-none-matching", "b = filter(lambda x: x > 100, "+v+")", "c = b == []", "d = [] == b")
		if len(l) > 0 {
			g.add("builtin:reduce", "r = reduce(lambda a, b: (a * 2) - b, "+v+")")
			g.add("builtin:reduce-init", "r = reduce(lambda a, b: a - b, "+v+", 100)")
			g.add("builtin:min-max-key", "r = [min("+v+", key = lambda x: -x), max("+v+", key = lambda x: (x + 9) % 3)]")
		}
		g.add("in:list", "r = [1 in "+v+", 7 in "+v+", 5 not in "+v+", \"a\" in "+v+"]")
	}
	for _, n := range []int{13, 20, 50} {
		if n > 13 && !thorough {
			continue
		}
		g.add("sorted:stability", fmt.Sprintf("l = [[i %% 3, i] for i in range(%d)]", n), "s = sorted(l, key = lambda p: p[0])")
		g.add("sorted:stability", fmt.Sprintf("l = [[i %% 3, i] for i in range(%d)]", n), "s = sorted(l, key = lambda p: p[0], reverse = True)")
		g.add("builtin:sorted-long", fmt.Sprintf("s = sorted([(i * 7) %% %d for i in range(%d)])", n, n))
		g.add("builtin:min-max-first-of-equals", fmt.Sprintf("l = [[i %% 3, i] for i in range(%d)]", n), "a = min(l, key = lambda p: p[0])", "b = max(l, key = lambda p: p[0])")
	}
	for _, a := range ints {
		g.add("builtin:str-int-bool", fmt.Sprintf("r = [str(%d), int(str(%d)), bool(%d), str(%d > 0), str(None)]", a, a, a, a))
		g.add("builtin:isinstance-scalars", fmt.Sprintf("r = [isinstance(%d, int), isinstance(%d, str), isinstance(%d > 0, bool), isinstance(%d > 0, int), isinstance(%d, bool)]", a, a, a, a, a))
		g.add("fstring:int", fmt.Sprintf("v = %d", a), "r = f\"<{v}>{v}\"")
	}
	g.add("builtin:chr-ord", "r = [chr(97), chr(233), ord(\"a\"), ord(\"é\"), chr(ord(\"z\") - 1)]")
	g.add("builtin:int-parse", "r = [int(\"12\"), int(\"-3\"), int(\"0\"), int(\"007\")]")
	g.add("int:literals", "r = [0, -0, 7, -7, 100, 999999999999999999, -99999999999999999]")
	g.add("int:literals", "r = -999999999999999999")
	g.add("int:octal-literal", "r = 0o7")
	g.add("int:octal-literal", "r = 0o10")
	g.add("int:octal-literal", "r = 0o17")
	g.add("int:double-negation", "r = [--1, - -1, -(-1)]")
	g.add("int:double-negation", "a = 3", "r = [-a, - a, -(a), -(-a)]")
	g.add("int:double-negation", "a = 3", "r = --a")
	g.add("int:subtraction-spacing", "a = 3", "r = [a - 1, a - -1, a -1]")
	g.add("int:subtraction-spacing", "a = 3", "r = a-1")
	g.add("int:subtraction-spacing", "r = 3-1")

	// ---- strings
	for _, s := range strs {
		v := lit(s)
		g.add("str:len", "r = len("+v+")")
		g.add("str:upper-lower", "r = ["+v+".upper(), "+v+".lower()]")
		g.add("str:mul-add", "r = ["+v+" * 2, 3 * "+v+", "+v+" + "+v+", "+v+" * 0]")
		g.add("str:compare", "r = ["+v+" < \"a\", "+v+" <= \"b\", "+v+" == \"a\", "+v+" > \"\", "+v+" >= \"é\"]")
		g.add("str:truthiness", "r = bool("+v+")", "q = not "+v)
		g.add("builtin:str-of-str", "r = str("+v+")")
		g.add("fstring:str", "v = "+v, "w = 1", "r = f\"<{v}|{w}>\"")
		g.add("str:concat-adjacent", "r = "+v+" \"x\"")
		g.add("str.format:positional", "r = \"{}-{}\".format("+v+", 1)")
		g.add("str.format:named", "r = \"{a}-{b}\".format(a = "+v+", b = 2)")
		g.add("str:sorted-reversed-of-split", "r = sorted("+v+".split(\" \"))")
		if len(s) > 0 {
			g.add("index:str", "r = ["+v+"[0], "+v+"[-1]]")
		}
		for _, sl := range []string{"[1:]", "[:1]", "[:-1]", "[-1:]", "[0:5]", "[1:2]", "[:]"} {
			g.add("slice:str", "r = "+v+sl)
		}
		for _, t := range []string{"a", "é", " ", ",", "b", "ab"} {
			w := lit(t)
			g.add("str:in", "r = ["+w+" in "+v+", "+w+" not in "+v+"]")
			g.add("str:find-rfind", "r = ["+v+".find("+w+"), "+v+".rfind("+w+")]")
			g.add("str:count", "r = "+v+".count("+w+")")
			g.add("str:startswith-endswith", "r = ["+v+".startswith("+w+"), "+v+".endswith("+w+")]")
			g.add("str:split-sep", "r = "+v+".split("+w+")")
			g.add("str:replace", "r = ["+v+".replace("+w+", \"X\"), "+v+".replace("+w+", \"\")]")
			g.add("str:partition", "r = ["+v+".partition("+w+"), "+v+".rpartition("+w+")]")
			g.add("str:strip-cutset", "r = ["+v+".strip("+w+"), "+v+".lstrip("+w+"), "+v+".rstrip("+w+")]")
			g.add("str:removeprefix-suffix", "r = ["+v+".removeprefix("+w+"), "+v+".removesuffix("+w+")]")
			g.add("str:join", "r = "+w+".join(["+v+", \"x\", "+v+"])")
			g.add("str:join-comprehension", "r = "+w+".join([s + \"!\" for s in ["+v+", \"x\"] if s])")
		}
		for _, n := range []int{0, 1, 3, 6} {
			g.add("str:ljust-rjust", fmt.Sprintf("r = [%s.ljust(%d), %s.rjust(%d), %s.ljust(%d, \"é\")]", v, n, v, n, v, n))
		}
	}
	g.add("str:find-rfind", "r = [\"ab\".find(\"\"), \"ab\".rfind(\"\"), \"\".find(\"\")]")
	g.add("str:find-rfind", "r = [\"é\".find(\"\"), \"é\".rfind(\"\")]")
	g.add("str:count", "r = [\"ab\".count(\"\"), \"é\".count(\"\")]")
	g.add("str:replace-empty", "r = [\"ab\".replace(\"\", \"-\"), \"é\".replace(\"\", \"-\")]")
	g.add("str:escapes", "r = [\"a\\nb\", \"a\\tb\", \"a\\\\b\", \"a\\\"b\", 'a\\'b', len(\"\\n\")]")
	g.add("str:escapes-unknown", "r = \"a\\qb\"")
	g.add("str:raw", "r = [r\"a\\nb\", len(r\"\\n\")]")
	g.add("str:triple-quoted", "r = \"\"\"a\nb\"\"\"")
	g.add("str:single-quotes", "r = 'a\"b' + \"c'd\"")
	g.add("str.format:repeated-named", "r = \"{a}{a}\".format(a = 1)")
	g.add("str.format:bool-none", "r = \"{} {}\".format(True, None)")
	g.add("str-of-dict:format", "v = {\"a\": 1}", "r = f\"{v}\"")
	g.add("fstring:bool-none", "a = True", "b = None", "r = f\"{a} {b}\"")
	g.add("str-of-dict:format", "r = str({\"a\": 1})")
	g.add("str-of-dict:format", "r = str({})")
	g.add("str:percent-format", "r = [\"%s\" % \"a\", \"%d\" % 4, \"%s-%s\" % (\"a\", 2), \"%s\" % 1]")
	g.add("str:percent-format-escape", "r = \"100%%\" % ()")

	// ---- dicts (literals are written in sorted key order: keys()/values()/items() are documented to be sorted)
	for _, d := range dicts {
		v := lit(d)
		g.add("dict:len-bool", "r = [len("+v+"), bool("+v+")]")
		g.add("dict:keys-values-items", "d = "+v, "k = d.keys()", "w = d.values()", "i = d.items()")
		g.add("dict:get", "d = "+v, "r = [d.get(\"a\"), d.get(\"zz\"), d.get(\"zz\", 5), d.get(\"a\", 5)]")
		g.add("dict:in", "d = "+v, "r = [\"a\" in d, \"zz\" in d, \"a\" not in d, 1 in d]")
		g.add("dict:union", "d = "+v, "r = d | {\"a\": 9, \"n\": 0}", "q = {\"a\": 9, \"n\": 0} | d")
		g.add("dict:index-assign", "d = "+v, "d[\"a\"] = 5", "d[\"n\"] = [1]")
		g.add("dict:setdefault", "d = "+v, "x = d.setdefault(\"a\", 7)", "y = d.setdefault(\"n\", 8)")
		g.add("dict:eq", "d = "+v, "r = [d == "+v+", d != "+v+", d == {}, d == d.copy()]")
		g.add("dict:comprehension-over-items", "d = "+v, "r = {k + \"!\": v for k, v in d.items()}")
		g.add("dict:sorted-keys", "d = "+v, "r = sorted(d.keys())", "q = reversed(d.keys())")
		g.add("builtin:isinstance-dict", "d = "+v, "r = [isinstance(d, dict), isinstance(d, list)]")
	}
	g.add("dict:index", "d = {\"a\": 1, \"b\": [2]}", "r = [d[\"a\"], d[\"b\"], d[\"b\"][0]]")
	g.add("dict:augassign-value", "d = {\"a\": 1, \"l\": [1]}", "d[\"a\"] += 2", "d[\"l\"] += [2]")
	g.add("dict:duplicate-keys", "d = {\"a\": 1, \"a\": 2}")
	g.add("dict:nested", "d = {\"a\": {\"b\": {\"c\": 1}}}", "r = d[\"a\"][\"b\"][\"c\"]")
	g.add("dict:values-alias", "d = {\"a\": [1]}", "v = d.values()", "q = v[0]", "q[0] = 9")
	g.add("list:index-assign", "l = [1, 2, 3]", "l[0] = 9", "l[2] = l[1]")
	g.add("list:index-augassign", "l = [1, 2, 3]", "l[0] += 9", "l[1] += l[0]")
	g.add("list:negative-index-assign", "l = [1, 2, 3]", "l[-1] = 9")
	g.add("list:compare", "r = [[1, 2] < [1, 3], [1] < [1, 0], [] < [0], [2] < [1, 5], [1, 2] < [1, 2]]")
	g.add("list:nested-eq-in", "r = [[1] in [[1]], [[1], [2]] == [[1], [2]]]")
	g.add("list:in-strings", "r = [\"a\" in [\"a\", \"b\"], \"é\" in [\"é\"], \"\" in [\"a\"], None in [None]]")
	g.add("list:multiline", "l = [", "    1,", "    2,", "]")
	g.add("stmt:comments-blank-lines", "# c", "a = 1  # d", "", "b = 2")
	g.add("stmt:pass", "pass", "a = 1")
	g.add("stmt:assert", "assert 1 == 1", "a = 1")
	g.add("stmt:expression-statement", "1 + 1", "a = 1")
	return g.progs
}

package main

import (
	"strings"
)

// Expression trees, enumerated by number of operators. Every tree is rendered with the MINIMAL parentheses CPython
// needs to parse it back to the same tree, so operator chains come out flat (`1 - 2 * 3 - 4`) and the BUILD
// language's own precedence handling is what is exercised.

const (
	tI uint8 = 1 << iota // int
	tB                   // bool
	tS                   // str
	tL                   // list
	tD                   // dict
)

func typeName(t uint8) string {
	switch t {
	case tI:
		return "int"
	case tB:
		return "bool"
	case tS:
		return "str"
	case tL:
		return "list"
	case tD:
		return "dict"
	}
	return "mixed"
}

type opInfo struct {
	sym   string
	prec  int // CPython precedence level (the BUILD language orders its operators the same way)
	unary bool
	cmp   bool
}

var (
	opOr    = &opInfo{sym: "or", prec: 1}
	opAnd   = &opInfo{sym: "and", prec: 2}
	opNot   = &opInfo{sym: "not", prec: 3, unary: true}
	opLt    = &opInfo{sym: "<", prec: 4, cmp: true}
	opLe    = &opInfo{sym: "<=", prec: 4, cmp: true}
	opGt    = &opInfo{sym: ">", prec: 4, cmp: true}
	opGe    = &opInfo{sym: ">=", prec: 4, cmp: true}
	opEq    = &opInfo{sym: "==", prec: 4, cmp: true}
	opNe    = &opInfo{sym: "!=", prec: 4, cmp: true}
	opIn    = &opInfo{sym: "in", prec: 4, cmp: true}
	opNotIn = &opInfo{sym: "not in", prec: 4, cmp: true}
	opUnion = &opInfo{sym: "|", prec: 5}
	opAdd   = &opInfo{sym: "+", prec: 6}
	opSub   = &opInfo{sym: "-", prec: 6}
	opMul   = &opInfo{sym: "*", prec: 7}
	opFloor = &opInfo{sym: "//", prec: 7}
	opMod   = &opInfo{sym: "%", prec: 7}
	opNeg   = &opInfo{sym: "-", prec: 8, unary: true}
)

type leafT struct {
	text string
	typ  uint8
}

type node struct {
	op   *opInfo // nil for a leaf
	l, r *node   // unary: l only
	leaf string
	ts   uint8 // possible result types (over-approximation)
	nops int
	flat string // minimal-parenthesis rendering

	// verdicts, filled after evaluation (retained nodes only)
	done   bool
	pyOK   bool
	pyVal  any
	bad    bool   // this tree or one of its subtrees disagrees with CPython
	class  string // class of the minimal disagreeing subtree
}

// pairType gives CPython's result type of `lt op rt` for single types.
// ok=false: certainly a TypeError. skip=true: valid CPython but outside the documented subset (see Assume).
func pairType(op *opInfo, lt, rt uint8) (res uint8, ok, skip bool) {
	num := func(t uint8) bool { return t == tI || t == tB }
	hasB := lt == tB || rt == tB
	switch op {
	case opAdd:
		switch {
		case num(lt) && num(rt):
			return tI, true, hasB
		case lt == tS && rt == tS:
			return tS, true, false
		case lt == tL && rt == tL:
			return tL, true, false
		}
	case opSub, opFloor:
		if num(lt) && num(rt) {
			return tI, true, hasB
		}
	case opMod:
		if num(lt) && num(rt) {
			return tI, true, hasB
		}
		if lt == tS {
			return tS, true, true // printf-style formatting: not in the statement's subset
		}
	case opMul:
		switch {
		case num(lt) && num(rt):
			return tI, true, hasB
		case lt == tS && num(rt), num(lt) && rt == tS:
			return tS, true, hasB
		case lt == tL && num(rt), num(lt) && rt == tL:
			return tL, true, hasB
		}
	case opLt, opLe, opGt, opGe:
		switch {
		case num(lt) && num(rt):
			return tB, true, hasB
		case lt == tS && rt == tS, lt == tL && rt == tL:
			return tB, true, false
		}
	case opEq, opNe:
		return tB, true, (lt == tB && rt == tI) || (lt == tI && rt == tB)
	case opIn, opNotIn:
		switch rt {
		case tS:
			if lt == tS {
				return tB, true, false
			}
		case tL:
			return tB, true, lt == tB // the list leaves hold ints: True in [1] is int/bool mixing
		case tD:
			if lt != tL && lt != tD {
				return tB, true, false
			}
		}
	case opUnion:
		if lt == tD && rt == tD {
			return tD, true, false
		}
		if num(lt) && num(rt) {
			return tI, true, true // bitwise or: not in the subset
		}
	}
	return 0, false, false
}

var allTypes = []uint8{tI, tB, tS, tL, tD}

// mk builds a node; ok=false if it is certainly a TypeError in CPython or outside the subset.
func mkUnary(op *opInfo, c *node) (*node, bool) {
	n := &node{op: op, l: c, nops: c.nops + 1}
	if op == opNot {
		n.ts = tB
	} else {
		if c.ts&tB != 0 {
			return nil, false // -True: bool arithmetic, outside the subset
		}
		if c.ts&tI == 0 {
			return nil, false
		}
		n.ts = tI
	}
	n.flat = renderFlat(n)
	return n, true
}

func mkBinary(op *opInfo, l, r *node) (*node, bool) {
	n := &node{op: op, l: l, r: r, nops: l.nops + r.nops + 1}
	if op == opAnd || op == opOr {
		n.ts = l.ts | r.ts
	} else {
		any := false
		for _, lt := range allTypes {
			if l.ts&lt == 0 {
				continue
			}
			for _, rt := range allTypes {
				if r.ts&rt == 0 {
					continue
				}
				res, ok, skip := pairType(op, lt, rt)
				if skip {
					return nil, false
				}
				if ok {
					any = true
					n.ts |= res
				}
			}
		}
		if !any {
			return nil, false
		}
	}
	n.flat = renderFlat(n)
	return n, true
}

func needParens(parent *opInfo, child *node, right bool) bool {
	if child.op == nil {
		return false
	}
	c := child.op
	if parent.unary {
		if parent == opNeg {
			return !(c == opNeg)
		}
		// not
		return c.prec < opNot.prec
	}
	if c == opNeg {
		return false
	}
	if c == opNot {
		return parent.prec > opNot.prec
	}
	if parent.cmp && c.cmp {
		return true // never produce a CPython comparison chain
	}
	if right {
		return c.prec <= parent.prec
	}
	return c.prec < parent.prec
}

func wrap(s string, p bool) string {
	if p {
		return "(" + s + ")"
	}
	return s
}

func renderFlat(n *node) string {
	if n.op == nil {
		return n.leaf
	}
	if n.op.unary {
		sep := ""
		if n.op == opNot {
			sep = " "
		}
		return n.op.sym + sep + wrap(n.l.flat, needParens(n.op, n.l, false))
	}
	return wrap(n.l.flat, needParens(n.op, n.l, false)) + " " + n.op.sym + " " + wrap(n.r.flat, needParens(n.op, n.r, true))
}

// renderFull parenthesises every compound operand.
func renderFull(n *node) string {
	if n.op == nil {
		return n.leaf
	}
	if n.op.unary {
		sep := ""
		if n.op == opNot {
			sep = " "
		}
		return n.op.sym + sep + wrap(renderFull(n.l), n.l.op != nil)
	}
	return wrap(renderFull(n.l), n.l.op != nil) + " " + n.op.sym + " " + wrap(renderFull(n.r), n.r.op != nil)
}

// chainOps lists the operators the BUILD-language parser sees at the top level of the flat rendering (outside any
// parentheses), in source order; a leading unary operator is included.
func chainOps(n *node, out *[]*opInfo) {
	if n.op == nil {
		return
	}
	if n.op.unary {
		*out = append(*out, n.op)
		if !needParens(n.op, n.l, false) {
			chainOps(n.l, out)
		}
		return
	}
	if !needParens(n.op, n.l, false) {
		chainOps(n.l, out)
	}
	*out = append(*out, n.op)
	if !needParens(n.op, n.r, true) {
		chainOps(n.r, out)
	}
}

// precPattern describes a flat chain as the BUILD-language interpreter sees it: b = binary operator, u = unary
// operator, separated by the relation between the precedences of consecutive operators
// (`1 - 2 * 3 - 4` is "b<b>b", `not 2 - 2 and 2` is "u<b>b").
func precPattern(n *node) string {
	var ops []*opInfo
	chainOps(n, &ops)
	var b strings.Builder
	for i, o := range ops {
		if i > 0 {
			switch {
			case ops[i-1].prec < o.prec:
				b.WriteByte('<')
			case ops[i-1].prec > o.prec:
				b.WriteByte('>')
			default:
				b.WriteByte('=')
			}
		}
		if o.unary {
			b.WriteByte('u')
		} else {
			b.WriteByte('b')
		}
	}
	return b.String()
}

// chainClass names the way a flat chain goes wrong in interpretOps. The known mechanism: an operator that is followed
// by a higher-precedence one takes THE WHOLE REST of the chain as its right operand, which is wrong as soon as the
// rest contains an operator that does not bind tighter than it. Anything else keeps its full pattern.
func chainClass(n *node) string {
	var ops []*opInfo
	chainOps(n, &ops)
	for i := 0; i+1 < len(ops); i++ {
		if ops[i].prec < ops[i+1].prec {
			for j := i + 2; j < len(ops); j++ {
				if ops[j].prec <= ops[i].prec {
					if ops[i].unary {
						return "unary-operator-followed-by-higher-precedence-takes-rest-of-chain"
					}
					return "binary-operator-followed-by-higher-precedence-takes-rest-of-chain"
				}
			}
		}
	}
	return "other:prec-pattern=" + precPattern(n)
}

// A space is one enumeration: all trees with up to maxOps operators over the alphabets.
type space struct {
	name   string
	bin    []*opInfo
	un     []*opInfo
	leaves []leafT
	maxOps int
}

func (sp *space) leafNodes() []*node {
	out := make([]*node, len(sp.leaves))
	for i, l := range sp.leaves {
		out[i] = &node{leaf: l.text, ts: l.typ, flat: l.text}
	}
	return out
}

// layer calls emit for every tree with exactly n operators, given the retained smaller layers.
func (sp *space) layer(n int, layers [][]*node, emit func(*node)) {
	for _, u := range sp.un {
		for _, c := range layers[n-1] {
			if u == opNeg && c.op == nil && c.ts == tI && !strings.HasPrefix(c.leaf, "-") {
				continue // "-2" as Negate(2) duplicates a possible leaf and is lexed as a literal anyway
			}
			if t, ok := mkUnary(u, c); ok {
				emit(t)
			}
		}
	}
	for _, b := range sp.bin {
		for i := 0; i <= n-1; i++ {
			for _, l := range layers[i] {
				for _, r := range layers[n-1-i] {
					if t, ok := mkBinary(b, l, r); ok {
						emit(t)
					}
				}
			}
		}
	}
}

func traitOf(v any) string {
	switch t := v.(type) {
	case int:
		return "int"
	case string:
		for i := 0; i < len(t); i++ {
			if t[i] >= 0x80 {
				return "str(nonascii)"
			}
		}
		return "str"
	case bool:
		return "bool"
	case nil:
		return "none"
	case []any:
		return "list"
	case map[string]any:
		return "dict"
	}
	return "?"
}

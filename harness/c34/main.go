// C34: output trees are copied and hard-linked faithfully, and the source tree is never modified.
//
// Every small tree of the C09 shape set is created on disk and copied with the real fs.RecursiveCopy and linked with
// the real fs.RecursiveLink into a destination that is absent, absent together with its parent, a pre-existing empty
// directory, or a pre-existing identical copy; the destination is read back and compared with the source.
package main

import (
	"fmt"
	"os"
	"path/filepath"
	"runtime"
	"sort"
	"sync"
	"sync/atomic"

	"github.com/thought-machine/please/src/fs"
	"github.com/thought-machine/please/verifharness/c09/tree"
	"github.com/thought-machine/please/verifharness/lib"
)

type witness struct {
	Op    string     `json:"op"`    // copy | link
	Dest  string     `json:"dest"`  // absent | parent-absent | empty-dir | identical
	Mode  uint32     `json:"mode"`  // mode argument of RecursiveCopy
	Tree  *tree.Node `json:"tree"`  // the source
	Found *tree.Node `json:"found"` // what was at the destination afterwards (informational)
}

var dests = []string{"absent", "parent-absent", "empty-dir", "identical"}

var root string
var seq int64

// diff describes the first difference between what is expected and what was found, as a stable short string.
func diff(want, got *tree.Node) string {
	if got == nil {
		return "missing:" + kindName(want)
	}
	if want.Kind != got.Kind {
		return "kind-changed:" + kindName(want) + "-to-" + kindName(got)
	}
	switch want.Kind {
	case "f":
		if want.Content != got.Content {
			return "file-content-changed"
		}
	case "l":
		if want.Target != got.Target {
			return "symlink-target-changed"
		}
	case "d":
		for _, k := range want.Names() {
			if d := diff(want.Children[k], got.Children[k]); d != "" {
				return d
			}
		}
		for _, k := range got.Names() {
			if want.Children[k] == nil {
				return "extra:" + kindName(got.Children[k])
			}
		}
	}
	return ""
}

func kindName(n *tree.Node) string {
	switch n.Kind {
	case "f":
		return "file"
	case "l":
		return "symlink"
	}
	if len(n.Children) == 0 {
		return "empty-dir"
	}
	return "dir"
}

// perms lists path -> permission bits below p (symlinks excluded), to detect chmod of the source.
func perms(p string) string {
	var out []string
	filepath.Walk(p, func(q string, info os.FileInfo, err error) error {
		if err == nil && info.Mode()&os.ModeSymlink == 0 {
			out = append(out, fmt.Sprintf("%s=%o", q[len(p):], info.Mode().Perm()))
		}
		return nil
	})
	sort.Strings(out)
	return fmt.Sprint(out)
}

// run executes one case; it returns the violation class ("" if the case holds), a detail, what was found at the
// destination and whether the call returned an error.
func run(worker int, op, dest string, mode os.FileMode, n *tree.Node) (class, detail string, found *tree.Node, failed bool) {
	// one parent directory per worker: concurrent creates/removes in one directory serialise in the kernel
	dir := filepath.Join(root, fmt.Sprintf("w%d", worker), fmt.Sprintf("c%d", atomic.AddInt64(&seq, 1)))
	defer os.RemoveAll(dir)
	src := filepath.Join(dir, "s", "r")
	dst := filepath.Join(dir, "d", "r")
	must := func(err error) {
		if err != nil {
			lib.Fatal("%s", err)
		}
	}
	must(os.MkdirAll(filepath.Join(dir, "s"), 0o755))
	must(os.Mkdir(filepath.Join(dir, "d"), 0o755))
	must(os.WriteFile(filepath.Join(dir, "s", "a"), []byte("sibling"), 0o644)) // what a root symlink "a" resolves to
	must(n.Materialise(src))
	call := func() error {
		if op == "copy" {
			return fs.RecursiveCopy(src, dst, mode)
		}
		return fs.RecursiveLink(src, dst)
	}
	want := n.Literal()
	before, err := tree.Read(src)
	must(err)
	if before.Canon() != want.Canon() {
		lib.Fatal("materialised tree reads back differently: %s vs %s", before.Canon(), want.Canon())
	}
	permsBefore := perms(src)
	demand := true // must the call succeed?
	switch dest {
	case "parent-absent":
		dst = filepath.Join(dir, "d", "x", "r")
		demand = false
	case "empty-dir":
		if n.Kind != "d" {
			return "", "", nil, false // not applicable
		}
		must(os.Mkdir(dst, 0o755))
	case "identical":
		if err := call(); err != nil {
			return "", "", nil, true // the first copy is judged by the "absent" case
		}
		demand = false
	}
	err = call()
	after, rerr := tree.Read(src)
	if rerr != nil {
		return op + ":" + dest + ":source-unreadable-afterwards", rerr.Error(), nil, err != nil
	}
	if d := diff(want, after); d != "" {
		return op + ":" + dest + ":source-modified:" + d, fmt.Sprintf("source was %s, is now %s", want.Canon(), after.Canon()), nil, err != nil
	}
	if p := perms(src); p != permsBefore {
		return op + ":" + dest + ":source-permissions-modified", permsBefore + " -> " + p, nil, err != nil
	}
	// A root symlink is not "inside" the tree: in copy mode it is followed (like cp without -P); both readings are accepted.
	rootLinkCopy := n.Kind == "l" && op == "copy"
	if err != nil {
		if demand && !rootLinkCopy {
			return op + ":" + dest + ":error:" + kindName(n), "returned error: " + err.Error(), nil, true
		}
		return "", "", nil, true
	}
	found, rerr = tree.Read(dst)
	if rerr != nil {
		return op + ":" + dest + ":missing:" + kindName(n), "call succeeded but destination unreadable: " + rerr.Error(), nil, false
	}
	if rootLinkCopy && found.Kind == "f" {
		if n.Target == "a" && found.Content == "sibling" {
			return "", "", found, false
		}
		return op + ":" + dest + ":root-symlink-followed-to-wrong-content", found.Canon(), found, false
	}
	if d := diff(want, found); d != "" {
		return op + ":" + dest + ":" + d, fmt.Sprintf("source %s, destination %s", want.Canon(), found.Canon()), found, false
	}
	return "", "", found, false
}

func main() {
	r := lib.Start("C34", "exploration")
	lib.Quiet()
	if r.Replay != "" {
		r.Replay, _ = filepath.Abs(r.Replay)
	}
	var err error
	// tmpfs when there is one (hard links and symlinks work there; journalled disks make the ~1e6 tiny operations slow)
	base := ""
	if st, e := os.Stat("/dev/shm"); e == nil && st.IsDir() && os.Getenv("C34_TMP") == "" {
		base = "/dev/shm"
	} else {
		base = os.Getenv("C34_TMP")
	}
	root, err = os.MkdirTemp(base, "verif-c34-")
	if err != nil {
		lib.Fatal("%s", err)
	}
	cleanup := func() { os.RemoveAll(root) }
	r.Assume = []string{
		"faithful = the destination read back without following symlinks has the same entries, kinds, file bytes and symlink target strings as the source (permissions and timestamps are not in the statement); the source is unmodified = same entries/bytes/targets and same permission bits afterwards",
		"the call must succeed when the destination is absent (parent present) or a pre-existing empty directory; when the parent is absent or an identical copy already exists an error return is accepted (callers remove the destination and create the parent first) and only success is checked for faithfulness; the source must be unmodified in every case",
		"a symlink that IS the copied path (root) is outside the tree: RecursiveCopy follows it like cp does; either the same symlink or a regular file with the bytes it resolves to is accepted there. Symlinks inside the tree must be reproduced verbatim",
		"both trees live on one filesystem, so the hard-link path (not the cross-device fallback) is what RecursiveLink exercises, except where linking fails with EEXIST",
	}
	if r.Replay != "" {
		var w witness
		lib.LoadReplay(r.Replay, &w)
		class, detail, found, _ := run(0, w.Op, w.Dest, os.FileMode(w.Mode), w.Tree)
		w.Found = found
		if class != "" {
			r.Violate("copytree:"+class, w, detail)
		}
		cleanup()
		r.Finish(lib.Coverage{Evaluations: 1, DistinctNontrivial: 1, Rule: "replay", Samples: []any{w}, Exhaustive: true})
	}

	sp := tree.Space{Names: []string{"a", "b"}, Contents: []string{"", "x", "y", "xy"}, Targets: []string{"a", "b", "../a"}, MaxDepth: 2, MaxEntries: 4}
	modes := []os.FileMode{0}
	if !r.Quick() {
		sp = tree.Space{Names: []string{"a", "b", "c"}, Contents: []string{"", "x", "xy"}, Targets: []string{"a", "../a", "b/a"}, MaxDepth: 3, MaxEntries: 4}
		modes = []os.FileMode{0, 0o444, 0o755}
	}
	trees := sp.Dirs()
	for _, c := range append(append([]string{}, sp.Contents...), "@70000z1") {
		trees = append(trees, tree.File(c))
	}
	for _, t := range []string{"a", "b", "../a"} {
		trees = append(trees, tree.Link(t))
	}
	trees = append(trees, tree.Dir(map[string]*tree.Node{"a": tree.File("@70000z1"), "b": tree.Dir(map[string]*tree.Node{"a": tree.Dir(map[string]*tree.Node{"a": tree.Dir(nil)})})}))

	type job struct {
		op, dest string
		mode     os.FileMode
		n        *tree.Node
		idx      int
	}
	var jobs []job
	for i, n := range trees {
		for _, op := range []string{"copy", "link"} {
			for _, m := range modes {
				if op == "link" && m != modes[0] {
					continue // RecursiveLink takes no mode
				}
				for _, d := range dests {
					if d == "empty-dir" && n.Kind != "d" {
						continue
					}
					jobs = append(jobs, job{op, d, m, n, i})
				}
			}
		}
	}
	type best struct {
		w      witness
		detail string
		idx    int
		count  int
	}
	var mu sync.Mutex
	found := map[string]*best{}
	var next, evals, errors, nontrivial int64
	errBy := map[string]int{}
	var samples lib.Samples
	var wg sync.WaitGroup
	workers := runtime.NumCPU()
	if v := os.Getenv("C34_WORKERS"); v != "" {
		fmt.Sscan(v, &workers)
	}
	for w := 0; w < workers; w++ {
		wg.Add(1)
		go func() {
			defer wg.Done()
			for {
				i := int(atomic.AddInt64(&next, 1) - 1)
				if i >= len(jobs) || r.OutOfTime() {
					return
				}
				j := jobs[i]
				class, detail, got, failed := run(w, j.op, j.dest, j.mode, j.n)
				atomic.AddInt64(&evals, 1)
				if j.n.Kind != "d" || j.n.Entries() > 0 {
					atomic.AddInt64(&nontrivial, 1)
				}
				if i%997 == 0 {
					samples.Add(func() any { return witness{j.op, j.dest, uint32(j.mode), j.n, got} })
				}
				mu.Lock()
				if failed {
					errors++
					errBy[j.op+":"+j.dest]++
				}
				if class != "" {
					class = "copytree:" + class
					b := found[class]
					if b == nil {
						b = &best{idx: 1 << 30}
						found[class] = b
					}
					b.count++
					if i < b.idx { // jobs are ordered by tree size: the smallest index is the smallest witness
						b.idx, b.w, b.detail = i, witness{j.op, j.dest, uint32(j.mode), j.n, got}, detail
					}
				}
				mu.Unlock()
			}
		}()
	}
	wg.Wait()
	for class, b := range found {
		c2, _, _, _ := run(0, b.w.Op, b.w.Dest, os.FileMode(b.w.Mode), b.w.Tree)
		if "copytree:"+c2 != class {
			lib.Fatal("HARNESS-NONDETERMINISM %s: re-run gave %q", class, c2)
		}
		r.Violate(class, b.w, b.detail)
		for i := 1; i < b.count; i++ {
			r.Violate(class, nil, "")
		}
	}
	cleanup()
	r.Finish(lib.Coverage{
		Evaluations:        int(evals),
		DistinctNontrivial: int(nontrivial),
		Rule:               "a case = (source tree, copy|link, mode argument, destination state) executed on real directories with the real RecursiveCopy/RecursiveLink; each case distinct by construction; non-trivial = the source is not the empty directory",
		Samples:            samples.List(),
		Exhaustive:         int(evals) == len(jobs),
		Extra: map[string]any{"trees": len(trees), "calls_returning_error": errors, "errors_by_op_and_destination": errBy,
			"space": fmt.Sprintf("names %q contents %q targets %q depth<=%d entries<=%d + root files/symlinks + a 70 KB file and a 4-deep empty directory chain; destinations %q; modes %v", sp.Names, sp.Contents, sp.Targets, sp.MaxDepth, sp.MaxEntries, dests, modes)},
	})
}

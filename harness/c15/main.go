// C15: the concurrent awaitable map is linearizable and never loses wake-ups.
// Every generated 2-3 thread body over keys {k1,k2} is run against the REAL (mechanically rewritten) cmap under
// the controlled scheduler; every interleaving (state-key pruned, optionally preemption-bounded) is checked
// against a sequential reference map by brute-force linearization.
package main

import (
	"context"
	"encoding/json"
	"flag"
	"fmt"
	"os"
	"os/exec"
	"sort"
	"strings"
	"sync"
	"sync/atomic"
	"time"

	"github.com/thought-machine/please/src/cmap"
	"github.com/thought-machine/please/verifharness/lib"
	"github.com/thought-machine/please/verifshim/vsched"
)

const (
	opAdd = iota
	opAddOrGet
	opSet
	opGet
	opGetWait
	opContains
	opValues
	opGetOrSet // ErrMap bodies only
)

var opNames = []string{"Add", "AddOrGet", "Set", "Get", "GetWait", "Contains", "Values", "GetOrSet"}

type op struct {
	Kind int `json:"kind"`
	Key  int `json:"key"`
	Val  int `json:"val"`
}

func (o op) String() string {
	if o.Kind == opValues {
		return "Values()"
	}
	return fmt.Sprintf("%s(k%d,%d)", opNames[o.Kind], o.Key+1, o.Val)
}

type body struct {
	Shards  int    `json:"shards"`
	Threads [][]op `json:"threads"`
	ErrMap  bool   `json:"errmap,omitempty"`
	Limiter int    `json:"limiter,omitempty"` // capacity, 0 = none
	FailF   bool   `json:"failf,omitempty"`   // GetOrSet's f returns an error
}

func (b body) String() string {
	var ts []string
	for _, t := range b.Threads {
		var os []string
		for _, o := range t {
			os = append(os, o.String())
		}
		ts = append(ts, strings.Join(os, ";"))
	}
	s := fmt.Sprintf("shards=%d ", b.Shards)
	if b.ErrMap {
		s += fmt.Sprintf("errmap limiter=%d failf=%v ", b.Limiter, b.FailF)
	}
	return s + strings.Join(ts, " || ")
}

// event is one completed or pending call in the recorded history.
type event struct {
	Thread, Idx int
	Op          op
	Call, Ret   int // sequence numbers; Ret = -1 if pending
	ResVal      int
	ResOK       bool
	ResVals     []int
	First       bool
	Waited      bool
	ErrStr      string
}

type recorder struct {
	mu     sync.Mutex
	seq    int
	events []*event
	fcalls map[int]int
}

func (r *recorder) call(thread, idx int, o op) *event {
	vsched.Event("hist")
	r.mu.Lock()
	defer r.mu.Unlock()
	r.seq++
	e := &event{Thread: thread, Idx: idx, Op: o, Call: r.seq, Ret: -1}
	r.events = append(r.events, e)
	return e
}

func (r *recorder) ret(e *event) {
	vsched.Event("hist")
	r.mu.Lock()
	defer r.mu.Unlock()
	r.seq++
	e.Ret = r.seq
}

func hasher(shards int) func(string) uint64 {
	return func(k string) uint64 {
		if shards == 1 || k == "k1" {
			return 0
		}
		return 1
	}
}

var keyNames = []string{"k1", "k2"}

type limiter struct {
	cap, n int
	rel    int
	acq    int
}

func (l *limiter) Acquire() {
	vsched.Point(vsched.OpLock, l, "limiter", func() bool { return l.n < l.cap })
	l.n++
	l.acq++
}

func (l *limiter) Release() {
	vsched.Point(vsched.OpUnlock, l, "limiter", nil)
	l.n--
	l.rel++
}

// runBody executes the body's threads (controlled if inside vsched.Run, free-running otherwise).
func runBody(b body, rec *recorder, free bool) {
	if b.ErrMap {
		runErrBody(b, rec, free)
		return
	}
	m := cmap.New[string, int](uint64(b.Shards), hasher(b.Shards))
	var wg sync.WaitGroup
	for ti, ops := range b.Threads {
		ti, ops := ti, ops
		f := func() {
			for oi, o := range ops {
				e := rec.call(ti, oi, o)
				k := keyNames[o.Key]
				switch o.Kind {
				case opAdd:
					e.ResOK = m.Add(k, o.Val)
				case opAddOrGet:
					e.ResVal, e.ResOK = m.AddOrGet(k, func() int { return o.Val })
				case opSet:
					m.Set(k, o.Val)
				case opGet:
					e.ResVal = m.Get(k)
				case opContains:
					e.ResOK = m.Contains(k)
				case opValues:
					vs := m.Values()
					sort.Ints(vs)
					e.ResVals = vs
				case opGetWait:
					v, ch, first := m.GetOrWait(k)
					e.First = first
					if ch != nil {
						e.Waited = true
						vsched.Recv(ch)
						v = m.Get(k)
					}
					e.ResVal = v
				}
				rec.ret(e)
			}
		}
		if free {
			wg.Add(1)
			go func() { defer wg.Done(); f() }()
		} else {
			vsched.GoNamed(fmt.Sprintf("T%d", ti), f)
		}
	}
	if free {
		wg.Wait()
	}
}

func runErrBody(b body, rec *recorder, free bool) {
	var lim *limiter
	var m *cmap.ErrMap[string, int]
	if b.Limiter > 0 && !free {
		lim = &limiter{cap: b.Limiter}
		m = cmap.NewErrMap[string, int](uint64(b.Shards), hasher(b.Shards), lim)
	} else {
		m = cmap.NewErrMap[string, int](uint64(b.Shards), hasher(b.Shards), nil)
	}
	var wg sync.WaitGroup
	for ti, ops := range b.Threads {
		ti, ops := ti, ops
		f := func() {
			if lim != nil {
				lim.Acquire()
			}
			for oi, o := range ops {
				e := rec.call(ti, oi, o)
				k := keyNames[o.Key]
				switch o.Kind {
				case opGetOrSet:
					v, err := m.GetOrSet(k, func() (int, error) {
						rec.mu.Lock()
						rec.fcalls[o.Key]++
						rec.mu.Unlock()
						if lim != nil { // the computation waits for something else with the limiter released, as parsing does
							lim.Release()
							vsched.Yield()
							lim.Acquire()
						} else {
							vsched.Yield()
						}
						if b.FailF {
							return 0, fmt.Errorf("fail")
						}
						return o.Val, nil
					})
					e.ResVal = v
					if err != nil {
						e.ErrStr = err.Error()
					}
				case opGet:
					v, err := m.Get(k)
					e.ResVal = v
					if err != nil {
						e.ErrStr = err.Error()
					}
				case opSet:
					m.Set(k, o.Val)
				case opAdd:
					e.ResOK = m.Add(k, o.Val)
				}
				rec.ret(e)
			}
			if lim != nil {
				lim.Release()
			}
		}
		if free {
			wg.Add(1)
			go func() { defer wg.Done(); f() }()
		} else {
			vsched.GoNamed(fmt.Sprintf("T%d", ti), f)
		}
	}
	if free {
		wg.Wait()
	}
}

// ---- reference model + brute-force linearization --------------------------------------------

type model struct {
	present [2]bool
	val     [2]int
}

// apply returns (ok, newModel): ok iff the event's recorded result is what the sequential map gives in state m.
func apply(m model, e *event) (bool, model) {
	k := e.Op.Key
	switch e.Op.Kind {
	case opAdd:
		if m.present[k] {
			return !e.ResOK, m
		}
		m.present[k], m.val[k] = true, e.Op.Val
		return e.ResOK, m
	case opAddOrGet:
		if m.present[k] {
			return !e.ResOK && e.ResVal == m.val[k], m
		}
		m.present[k], m.val[k] = true, e.Op.Val
		return e.ResOK && e.ResVal == e.Op.Val, m
	case opSet:
		m.present[k], m.val[k] = true, e.Op.Val
		return true, m
	case opGet:
		if m.present[k] {
			return e.ResVal == m.val[k], m
		}
		return e.ResVal == 0, m
	case opContains:
		return e.ResOK == m.present[k], m
	case opValues:
		var vs []int
		for i := 0; i < 2; i++ {
			if m.present[i] {
				vs = append(vs, m.val[i])
			}
		}
		sort.Ints(vs)
		if len(vs) != len(e.ResVals) {
			return false, m
		}
		for i := range vs {
			if vs[i] != e.ResVals[i] {
				return false, m
			}
		}
		return true, m
	case opGetWait:
		// takes effect only when the key is present; returns the value then
		if !m.present[k] {
			return false, m
		}
		return e.ResVal == m.val[k], m
	}
	return false, m
}

// linearizable searches for a linearization of the completed events (pending ones are blocked waiters: no effect).
// It returns the final model states reachable by some valid linearization.
func linearizable(evs []*event) (bool, []model) {
	var done []*event
	for _, e := range evs {
		if e.Ret >= 0 {
			done = append(done, e)
		}
	}
	n := len(done)
	finals := []model{}
	seen := map[string]bool{}
	var rec func(mask int, m model) bool
	found := false
	rec = func(mask int, m model) bool {
		key := fmt.Sprint(mask, m)
		if seen[key] {
			return false
		}
		seen[key] = true
		if mask == (1<<n)-1 {
			found = true
			finals = append(finals, m)
			return true
		}
		// earliest return among un-linearized events bounds which calls may go next
		minRet := 1 << 30
		for i, e := range done {
			if mask&(1<<i) == 0 && e.Ret < minRet {
				minRet = e.Ret
			}
		}
		for i, e := range done {
			if mask&(1<<i) != 0 || e.Call > minRet {
				continue
			}
			if ok, m2 := apply(m, e); ok {
				rec(mask|1<<i, m2)
			}
		}
		return false
	}
	rec(0, model{})
	return found, finals
}

func describe(evs []*event) string {
	var sb strings.Builder
	for _, e := range evs {
		fmt.Fprintf(&sb, "T%d %s call@%d ret@%d -> val=%d ok=%v vals=%v first=%v waited=%v err=%q\n", e.Thread, e.Op, e.Call, e.Ret, e.ResVal, e.ResOK, e.ResVals, e.First, e.Waited, e.ErrStr)
	}
	return sb.String()
}

// checkExec is the oracle for one complete execution. Returns (class, detail) or "".
func checkExec(b body, rec *recorder, status, detail string, blocked []string) (string, string) {
	if status == "panic" || status == "steplimit" || status == "fatal" {
		return "status:" + status, detail
	}
	if b.ErrMap {
		return checkErrExec(b, rec, status, blocked)
	}
	ok, finals := linearizable(rec.events)
	if !ok {
		// classify: is it only explained by Contains seeing an awaited placeholder?
		class := "not-linearizable"
		for _, e := range rec.events {
			if e.Op.Kind == opContains && e.ResOK {
				cp := *e
				cp.ResOK = false
				evs2 := make([]*event, len(rec.events))
				for i, x := range rec.events {
					evs2[i] = x
					if x == e {
						evs2[i] = &cp
					}
				}
				if ok2, _ := linearizable(evs2); ok2 {
					class = "contains-true-for-awaited-key"
				}
			}
		}
		return class, "history has no linearization against the sequential map:\n" + describe(rec.events)
	}
	// wake-ups: a waiter still blocked although its key is present in every possible final state => lost wake-up
	pending := 0
	for _, e := range rec.events {
		if e.Ret < 0 {
			pending++
			if e.Op.Kind != opGetWait {
				return "blocked-non-waiter", "an operation that never blocks in the model is blocked:\n" + describe(rec.events)
			}
			all := len(finals) > 0
			for _, f := range finals {
				if !f.present[e.Op.Key] {
					all = false
				}
			}
			if all {
				return "lost-wakeup", "waiter still blocked at quiescence although its key was added:\n" + describe(rec.events)
			}
		}
	}
	if status == "deadlock" && pending == 0 {
		return "deadlock", "deadlock with no pending waiter: " + strings.Join(blocked, ",")
	}
	// exactly one `first` among the callers that had to wait for a key
	for k := 0; k < 2; k++ {
		waited, first := 0, 0
		for _, e := range rec.events {
			if e.Op.Kind == opGetWait && e.Op.Key == k {
				if e.Waited || e.Ret < 0 {
					waited++
				}
				if e.First {
					first++
					if !e.Waited && e.Ret >= 0 {
						return "first-without-wait", describe(rec.events)
					}
				}
			}
		}
		if waited > 0 && first != 1 {
			return "first-flag", fmt.Sprintf("%d waiters for k%d but %d reported first:\n%s", waited, k+1, first, describe(rec.events))
		}
	}
	return "", ""
}

func checkErrExec(b body, rec *recorder, status string, blocked []string) (string, string) {
	if status == "deadlock" {
		return "errmap-deadlock", "GetOrSet deadlocked: " + strings.Join(blocked, ",") + "\n" + describe(rec.events)
	}
	for k := 0; k < 2; k++ {
		if rec.fcalls[k] > 1 {
			return "getorset-computed-twice", fmt.Sprintf("f ran %d times for k%d:\n%s", rec.fcalls[k], k+1, describe(rec.events))
		}
	}
	// all GetOrSet callers of a key agree, unless a Set/Add intervened in the body
	for k := 0; k < 2; k++ {
		writers := false
		for _, t := range b.Threads {
			for _, o := range t {
				if o.Key == k && (o.Kind == opSet || o.Kind == opAdd) {
					writers = true
				}
			}
		}
		if writers {
			continue
		}
		var vals []string
		for _, e := range rec.events {
			if e.Op.Kind == opGetOrSet && e.Op.Key == k {
				vals = append(vals, fmt.Sprintf("%d/%s", e.ResVal, e.ErrStr))
			}
		}
		for _, v := range vals {
			if v != vals[0] {
				return "getorset-disagree", "callers of GetOrSet for one key got different results:\n" + describe(rec.events)
			}
		}
		if len(vals) > 0 && rec.fcalls[k] != 1 {
			return "getorset-not-computed", describe(rec.events)
		}
		if b.FailF {
			for _, e := range rec.events {
				if e.Op.Kind == opGetOrSet && e.Op.Key == k && e.ErrStr == "" {
					return "getorset-error-lost", "f failed but a caller got no error:\n" + describe(rec.events)
				}
			}
		}
	}
	return "", ""
}

// ---- body generation ---------------------------------------------------------------------------

func conflict(a, b op) bool {
	if a.Kind == opValues || b.Kind == opValues {
		return a.Kind != b.Kind || false
	}
	if a.Key != b.Key {
		return false
	}
	w := func(o op) bool {
		return o.Kind == opAdd || o.Kind == opAddOrGet || o.Kind == opSet || o.Kind == opGetWait || o.Kind == opGetOrSet
	}
	return w(a) || w(b)
}

func nontrivial(b body) bool {
	for i := range b.Threads {
		for j := i + 1; j < len(b.Threads); j++ {
			for _, x := range b.Threads[i] {
				for _, y := range b.Threads[j] {
					if conflict(x, y) {
						return true
					}
				}
			}
		}
	}
	return false
}

func canon(b body) string {
	// canonical under thread permutation and key renaming (k1<->k2 only for the single-shard map, where keys are symmetric)
	best := ""
	for swap := 0; swap < 2; swap++ {
		var ts []string
		for _, t := range b.Threads {
			var os []string
			for _, o := range t {
				k := o.Key
				if swap == 1 && o.Kind != opValues {
					k = 1 - k
				}
				os = append(os, fmt.Sprintf("%d.%d", o.Kind, k))
			}
			ts = append(ts, strings.Join(os, ";"))
		}
		sort.Strings(ts)
		s := strings.Join(ts, "|")
		if best == "" || s < best {
			best = s
		}
	}
	return fmt.Sprintf("%d/%v/%d/%v/%s", b.Shards, b.ErrMap, b.Limiter, b.FailF, best)
}

func genBodies(shape []int, shards int, kinds []int) []body {
	var alphabet []op
	for _, k := range kinds {
		if k == opValues {
			alphabet = append(alphabet, op{Kind: k})
			continue
		}
		for key := 0; key < 2; key++ {
			alphabet = append(alphabet, op{Kind: k, Key: key})
		}
	}
	total := 0
	for _, n := range shape {
		total += n
	}
	var out []body
	seen := map[string]bool{}
	idx := make([]int, total)
	for {
		b := body{Shards: shards}
		p := 0
		for ti, n := range shape {
			var t []op
			for j := 0; j < n; j++ {
				o := alphabet[idx[p]]
				o.Val = (ti+1)*10 + j + 1
				t = append(t, o)
				p++
			}
			b.Threads = append(b.Threads, t)
		}
		if nontrivial(b) {
			if c := canon(b); !seen[c] {
				seen[c] = true
				out = append(out, b)
			}
		}
		i := total - 1
		for ; i >= 0; i-- {
			idx[i]++
			if idx[i] < len(alphabet) {
				break
			}
			idx[i] = 0
		}
		if i < 0 {
			break
		}
	}
	return out
}

func genErrBodies(tier string) []body {
	var out []body
	for _, failf := range []bool{false, true} {
		for _, lim := range []int{0, 1, 2} {
			shapes := [][]int{{1, 1}, {1, 1, 1}, {2, 1}}
			if tier == "thorough" {
				shapes = append(shapes, []int{2, 2})
			}
			for _, shape := range shapes {
				kinds := []int{opGetOrSet, opGet}
				for _, b := range genBodies(shape, 1, kinds) {
					has := 0
					for _, t := range b.Threads {
						for _, o := range t {
							if o.Kind == opGetOrSet {
								has++
							}
						}
					}
					if has < 2 {
						continue
					}
					b.ErrMap, b.Limiter, b.FailF = true, lim, failf
					out = append(out, b)
				}
			}
		}
	}
	return out
}

// surelyCompletes is a static fixpoint: every op of the body returns in every schedule.
func surelyCompletes(b body) bool {
	type pos struct{ t, i int }
	ok := map[pos]bool{}
	for changed := true; changed; {
		changed = false
		for ti, ops := range b.Threads {
			for i, o := range ops {
				if ok[pos{ti, i}] || (i > 0 && !ok[pos{ti, i - 1}]) {
					continue
				}
				good := o.Kind != opGetWait
				if !good {
					for tj, ops2 := range b.Threads {
						for j, o2 := range ops2 {
							adder := o2.Key == o.Key && (o2.Kind == opAdd || o2.Kind == opAddOrGet || o2.Kind == opSet)
							if adder && ok[pos{tj, j}] && (tj != ti || j < i) {
								good = true
							}
						}
					}
				}
				if good {
					ok[pos{ti, i}] = true
					changed = true
				}
			}
		}
	}
	for ti, ops := range b.Threads {
		for i := range ops {
			if !ok[pos{ti, i}] {
				return false
			}
		}
	}
	return true
}

type workerOut struct {
	Bodies      int            `json:"bodies"`
	Executions  int            `json:"executions"`
	Pruned      int            `json:"pruned"`
	States      int            `json:"states"`
	Transitions int            `json:"transitions"`
	Outcomes    map[string]int `json:"outcomes"`
	Incomplete  int            `json:"incomplete"`
	Violations  []violation    `json:"violations"`
	DistinctObs int            `json:"distinct_observations"`
	MaxBound    int            `json:"bound"`
	Unbounded   int            `json:"unbounded"`
	Bounded     int            `json:"bounded"`
}

type violation struct {
	Class   string `json:"class"`
	Body    body   `json:"body"`
	Choices []int  `json:"choices"`
	Detail  string `json:"detail"`
}

func exploreBody(b body, bound int, prune bool, stop func() bool, out *workerOut) {
	var rec *recorder
	fn := func() {
		rec = &recorder{fcalls: map[int]int{}}
		runBody(b, rec, false)
	}
	obs := map[string]bool{}
	st := vsched.Explore(fn, bound, prune, func(r *vsched.Result) bool {
		obs[describe(rec.events)] = true
		if class, detail := checkExec(b, rec, r.Status, r.Detail, r.Blocked); class != "" {
			// determinism: the same schedule must fail again, identically
			first := describe(rec.events)
			for i := 0; i < 2; i++ {
				r2 := vsched.Run(vsched.Options{Prefix: r.Choices}, fn)
				c2, _ := checkExec(b, rec, r2.Status, r2.Detail, r2.Blocked)
				if c2 != class || describe(rec.events) != first {
					fmt.Fprintf(os.Stderr, "HARNESS-NONDETERMINISM: replay of %v on %s gave %q vs %q\n%s\n", r.Choices, b, c2, class, detail)
					os.Exit(2)
				}
			}
			out.Violations = append(out.Violations, violation{Class: class, Body: b, Choices: r.Choices, Detail: detail})
			return false
		}
		return true
	}, stop)
	if os.Getenv("VERIF_DEBUG") != "" {
		fmt.Fprintf(os.Stderr, "%8d exec %8d pruned %4d maxpts  %s\n", st.Executions, st.Pruned, st.MaxPoints, b)
	}
	out.Bodies++
	out.Executions += st.Executions
	out.Pruned += st.Pruned
	out.States += st.States
	out.Transitions += st.Transitions
	out.DistinctObs += len(obs)
	for k, v := range st.Outcomes {
		out.Outcomes[k] += v
	}
	if !st.Complete && len(out.Violations) == 0 {
		out.Incomplete++
	}
}

func allBodies(tier string) []body {
	kinds := []int{opAdd, opAddOrGet, opSet, opGet, opGetWait, opContains}
	var bs []body
	bs = append(bs, genBodies([]int{1, 1}, 1, append(kinds, opValues))...)
	bs = append(bs, genBodies([]int{2, 1}, 1, append(kinds, opValues))...)
	bs = append(bs, genBodies([]int{1, 1, 1}, 1, kinds)...)
	bs = append(bs, genBodies([]int{1, 1}, 2, kinds)...)
	bs = append(bs, genBodies([]int{2, 1}, 2, kinds)...)
	bs = append(bs, genErrBodies(tier)...)
	if tier == "thorough" {
		bs = append(bs, genBodies([]int{2, 2}, 1, kinds)...)
		bs = append(bs, genBodies([]int{2, 1, 1}, 1, kinds)...)
		bs = append(bs, genBodies([]int{2, 2}, 2, kinds)...)
	}
	return bs
}

func main() {
	worker := flag.Int("worker", -1, "worker index")
	nworkers := flag.Int("nworkers", 16, "number of workers")
	bound := flag.Int("bound", -1, "preemption bound (-1 = unbounded with pruning)")
	only := flag.String("only", "", "only bodies whose description contains this")
	free := flag.Int("free", 0, "free-running repetitions per body (race pass; no exploration)")
	r := lib.Start("C15", "model_checking")
	lib.Quiet()
	bodies := allBodies(r.Tier)
	if r.Replay != "" {
		var v violation
		lib.LoadReplay(r.Replay, &v)
		var rec *recorder
		fn := func() { rec = &recorder{fcalls: map[int]int{}}; runBody(v.Body, rec, false) }
		res := vsched.Run(vsched.Options{Prefix: v.Choices, Trace: true}, fn)
		fmt.Println(vsched.FormatTrace(res.Trace))
		fmt.Print(describe(rec.events))
		if class, detail := checkExec(v.Body, rec, res.Status, res.Detail, res.Blocked); class != "" {
			r.Violate(class, v, detail)
		}
		r.Finish(lib.Coverage{Evaluations: 1, DistinctNontrivial: 1, States: 1, Transitions: res.Steps, TracesValidated: 1, Samples: []any{v.Body.String()}})
	}
	if *free > 0 {
		for i, b := range bodies {
			if i%*nworkers != *worker && *worker >= 0 {
				continue
			}
			if !surelyCompletes(b) {
				continue // a waiter that nobody releases would block the free-running pass forever
			}
			if os.Getenv("VERIF_DEBUG") != "" {
				fmt.Fprintln(os.Stderr, "free:", b)
			}
			for n := 0; n < *free; n++ {
				rec := &recorder{fcalls: map[int]int{}}
				done := make(chan struct{})
				go func() { runBody(b, rec, true); close(done) }()
				<-done
			}
		}
		fmt.Println(`{"free":"ok"}`)
		return
	}
	if *worker >= 0 {
		out := &workerOut{Outcomes: map[string]int{}, MaxBound: *bound}
		for i, b := range bodies {
			if i%*nworkers != *worker {
				continue
			}
			if *only != "" && !strings.Contains(b.String(), *only) {
				continue
			}
			if r.OutOfTime() {
				out.Incomplete++
				continue
			}
			// unbounded exploration with an execution cap; bodies that exceed it are completed at a preemption bound instead
			capN := 30000
			fallback := 2
			if r.Tier == "thorough" {
				capN, fallback = 1500000, 3
			}
			if *bound >= 0 {
				capN = 0
				fallback = *bound
			}
			done := false
			if capN > 0 {
				n := 0
				before := *out
				exploreBody(b, 1000, true, func() bool { n++; return n > capN || r.OutOfTime() }, out)
				if out.Incomplete == before.Incomplete {
					done = true
					out.Unbounded++
				} else {
					out.Incomplete = before.Incomplete
					out.Bodies--
				}
			}
			if !done && len(out.Violations) == 0 {
				inc := out.Incomplete
				for bd := 0; bd <= fallback && len(out.Violations) == 0; bd++ {
					exploreBody(b, bd, true, r.OutOfTime, out)
					out.Bodies--
				}
				out.Bodies++
				if out.Incomplete == inc {
					out.Bounded++
				}
			}
			if len(out.Violations) > 8 {
				break
			}
		}
		json.NewEncoder(os.Stdout).Encode(out)
		return
	}
	// coordinator
	var mu sync.Mutex
	total := &workerOut{Outcomes: map[string]int{}}
	var wg sync.WaitGroup
	var failed atomic.Bool
	for w := 0; w < *nworkers; w++ {
		wg.Add(1)
		go func(w int) {
			defer wg.Done()
			cmd := exec.Command(os.Args[0], "--tier", r.Tier, "--worker", fmt.Sprint(w), "--nworkers", fmt.Sprint(*nworkers), "--bound", fmt.Sprint(*bound))
			cmd.Env = append(os.Environ(), "GOMAXPROCS=2")
			cmd.Stderr = os.Stderr
			o, err := cmd.Output()
			var wo workerOut
			if err != nil || json.Unmarshal(o, &wo) != nil {
				fmt.Fprintf(os.Stderr, "worker %d failed: %v\n%s\n", w, err, o)
				failed.Store(true)
				return
			}
			mu.Lock()
			defer mu.Unlock()
			total.Bodies += wo.Bodies
			total.Executions += wo.Executions
			total.Pruned += wo.Pruned
			total.States += wo.States
			total.Transitions += wo.Transitions
			total.Incomplete += wo.Incomplete
			total.Unbounded += wo.Unbounded
			total.Bounded += wo.Bounded
			total.DistinctObs += wo.DistinctObs
			for k, v := range wo.Outcomes {
				total.Outcomes[k] += v
			}
			total.Violations = append(total.Violations, wo.Violations...)
		}(w)
	}
	wg.Wait()
	if failed.Load() {
		lib.Fatal("a worker failed")
	}
	sort.Slice(total.Violations, func(i, j int) bool {
		a, b := total.Violations[i], total.Violations[j]
		if len(a.Choices) != len(b.Choices) {
			return len(a.Choices) < len(b.Choices)
		}
		return a.Body.String() < b.Body.String()
	})
	for _, v := range total.Violations {
		r.Violate(v.Class, v, v.Body.String()+"\n"+v.Detail)
	}
	// free-running race pass (separate -race binary built by the driver), if present
	raceNote := "not run"
	if rb := os.Getenv("VERIF_RACE_BIN"); rb != "" && len(total.Violations) == 0 {
		ctx, cancel := context.WithTimeout(context.Background(), 5*time.Minute)
		defer cancel()
		cmd := exec.CommandContext(ctx, rb, "--tier", r.Tier, "--free", "20")
		cmd.Env = append(os.Environ(), "GORACE=exitcode=66 halt_on_error=1")
		o, err := cmd.CombinedOutput()
		if ctx.Err() != nil {
			raceNote = "race pass timed out after 5 minutes without a report (not a verdict)"
		} else if err != nil {
			if strings.Contains(string(o), "DATA RACE") {
				r.Violate("data-race", string(o[:min(len(o), 4000)]), "race detector report in the free-running pass over the same bodies")
				raceNote = "DATA RACE"
			} else {
				lib.Fatal("race pass failed: %v\n%s", err, o)
			}
		} else {
			raceNote = "clean (20 free runs of every body under -race)"
		}
	}
	samples := []any{bodies[0].String(), bodies[len(bodies)/2].String(), bodies[len(bodies)-1].String()}
	r.Assume = []string{
		"threads are deterministic functions of what they observe through scheduling points (checked: every violating schedule is replayed twice and must reproduce identically)",
		"unsynchronised accesses are invisible to the cooperative scheduler; they are delegated to the separate free-running -race pass: " + raceNote,
		"call and return of every operation are scheduling points on one global history object, so every real-time order of calls/returns is explored",
		"Values() is compared atomically only on single-shard maps (documented: no consistency guarantee across shards)",
	}
	r.Finish(lib.Coverage{
		Evaluations:        total.Executions,
		DistinctNontrivial: total.DistinctObs,
		Rule:               "all bodies of 2-3 threads x 1-2 ops over {Add,AddOrGet,Set,Get,GetOrWait+wait,Contains,Values} x keys {k1,k2} on 1 and 2 shards (canonical under thread permutation / key swap, kept only if two threads conflict on a key) plus ErrMap.GetOrSet bodies (limiter cap 0/1/2, failing f); every interleaving explored with state-key pruning; distinct_nontrivial = number of distinct observed call/return histories summed over bodies",
		Samples:            samples,
		States:             total.States,
		Transitions:        total.Transitions,
		TracesValidated:    total.Executions - total.Pruned,
		Exhaustive:         total.Incomplete == 0 && total.Bounded == 0,
		Extra: map[string]any{"bodies": total.Bodies, "executions": total.Executions, "pruned_executions": total.Pruned, "outcomes": total.Outcomes,
			"bodies_incomplete": total.Incomplete, "bodies_all_interleavings": total.Unbounded, "bodies_completed_at_preemption_bound_only": total.Bounded,
			"preemption_bound_for_capped_bodies": map[string]int{"quick": 2, "thorough": 3}[r.Tier], "race_pass": raceNote},
	})
}

// C07: target hashes are deterministic across runs, parse orders and map iteration orders.
// The explorer owns (a) the order in which packages are parsed (all k! orders, free choices) and (b) the iteration
// order of every Go map ranged over in the hashing / target code (rewritten to vsched.MapRange: default sorted,
// deviations = other permutations). Oracle: the vector of rule / runtime-rule / source hashes is the same on every execution.
package main

import (
	"encoding/hex"
	"fmt"
	"os"
	"path/filepath"
	"sort"
	"strings"

	"github.com/thought-machine/please/src/build"
	"github.com/thought-machine/please/src/core"
	"github.com/thought-machine/please/src/parse"
	"github.com/thought-machine/please/verifharness/lib"
	"github.com/thought-machine/please/verifshim/vsched"
)

var files = map[string]string{
	"p/BUILD": `
build_rule(name="a", cmd="x", srcs={"s1": ["a.txt"], "s2": ["b.txt"], "s0": ["c.txt"]}, outs={"o2": ["a2.out"], "o1": ["a1.out"], "o3": ["a3.out"]},
    env={"B": "2", "A": "1", "C": "3"}, entry_points={"e2": "a2.out", "e1": "a1.out", "e3": "a3.out"}, labels=["l2", "l1"],
    provides={"py": ":b", "go": "//q:c", "cc": ":b"}, tools={"t2": ["//q:c"], "t1": [":b"]}, pass_env=["HOME", "USER"],
    deps=["//q:c", ":b", "//r:d"], visibility=["PUBLIC"], binary=True, secrets={"k2": ["/s2"], "k1": ["/s1"]})
build_rule(name="b", cmd={"opt": "o", "dbg": "d", "cover": "c"}, outs=["b.out"], requires=["py", "go"], visibility=["PUBLIC"])
`,
	"p/a.txt": "a", "p/b.txt": "b", "p/c.txt": "c",
	// q overrides a configuration value that is the DEFAULT of an argument of a function every package calls (build_rule's
	// exit_on_error=CONFIG.EXIT_ON_ERROR): the default must be the calling package's, whichever package called first
	"q/BUILD": `
package(exit_on_error = True)
build_rule(name="c", cmd="y", srcs=["c.txt"], outs=["c.out"], deps=["//p:b"], env={"Z": "1", "Y": "2"}, data={"d2": ["x.txt"], "d1": ["y.txt"]}, test=True, test_cmd={"opt": "t", "dbg": "u"}, visibility=["PUBLIC"])
`,
	"q/c.txt": "c", "q/x.txt": "x", "q/y.txt": "y",
	// two packages sharing a subincluded build_defs file that touches CONFIG; one of them sets package() defaults afterwards
	"plz-out/gen/defs/d.build_defs": "CONFIG.setdefault(\"C07_X\", \"1\")\ndef mk(name):\n    return build_rule(name=name, cmd=\"m\", outs=[name + \".out\"])\n",
	"s/BUILD":                       "subinclude(\"//defs:d\")\npackage(default_visibility=[\"PUBLIC\"], default_licences=[\"MIT\"])\nmk(\"s1\")\n",
	"u/BUILD":                       "subinclude(\"//defs:d\")\nmk(\"u1\")\nbuild_rule(name=\"u2\", cmd=CONFIG.C07_X, outs=[\"u2.out\"])\n",
	"r/BUILD": `
build_rule(name="d", cmd="z", outs={"n2": ["d2.out"], "n1": ["d1.out"]}, optional_outs=["*.opt", "*.abc"], output_dirs=["od2", "od1"], visibility=["PUBLIC"], provides={"b": "//q:c", "a": "//p:b"})
`,
}

var pkgs = []string{"p", "q", "r", "s", "u"}

type witness struct {
	Choices []int `json:"choices"`
}

func main() {
	r := lib.Start("C07", "model_checking")
	lib.Quiet()
	root := filepath.Join(lib.VerifRoot, ".work", "c07")
	os.RemoveAll(root)
	defer os.RemoveAll(root)
	for p, c := range files {
		os.MkdirAll(filepath.Dir(filepath.Join(root, p)), 0o755)
		os.WriteFile(filepath.Join(root, p), []byte(c), 0o644)
	}
	os.Chdir(root)
	core.RepoRoot = root

	var vector string
	allOrders, mapChoices := true, true
	body := func() {
		if mapChoices {
			vsched.EnableMapChoices()
		}
		config := core.DefaultConfiguration()
		config.Parse.BuildFileName = []string{"BUILD"}
		config.Display.SystemStats = false
		state := core.NewBuildState(config)
		// the subincluded target //defs:d is already built (its output is on disk)
		dp := core.NewPackage("defs")
		dt := core.NewBuildTarget(core.NewBuildLabel("defs", "d"))
		dt.AddOutput("d.build_defs")
		dt.Visibility = core.WholeGraph
		dt.SetState(core.Built)
		dp.AddTarget(dt)
		state.Graph.AddTarget(dt)
		state.Graph.AddPackage(dp)
		parse.InitParser(state)
		build.Init(state)
		// parse order: one free choice among the k! orders
		order := append([]string{}, pkgs...)
		perm := 0
		if allOrders {
			perm = vsched.ChooseFree(120, "parse-order")
		}
		for i := 0; i < len(order); i++ {
			f := 1
			for j := 2; j < len(order)-i; j++ {
				f *= j
			}
			q := perm / f
			perm %= f
			order[i], order[i+q] = order[i+q], order[i]
			// keep the tail sorted for a canonical numbering
			tail := order[i+1:]
			sort.Strings(tail)
		}
		for _, p := range order {
			if err := parse.VerifParsePackageC07(state, p); err != nil {
				vsched.Fatal("parse " + p + ": " + err.Error())
			}
		}
		var sb strings.Builder
		for _, t := range state.Graph.AllTargets() {
			if t.Label.PackageName == "_please" || t.Label.PackageName == "defs" {
				continue
			}
			rh := build.RuleHash(state, t, false, false)
			rr := build.RuleHash(state, t, true, false)
			rp := build.RuleHash(state, t, false, true)
			sh, err := build.VerifSourceHashC07(state, t)
			fmt.Fprintf(&sb, "%s rule=%s runtime=%s post=%s src=%s(%v) deps=%v outs=%v srcs=%v\n", t.Label, hex.EncodeToString(rh[:6]), hex.EncodeToString(rr[:6]), hex.EncodeToString(rp[:6]), hex.EncodeToString(sh), err, t.DeclaredDependencies(), t.Outputs(), t.AllSourcePaths(state.Graph))
		}
		vector = sb.String()
		vsched.End()
	}
	if r.Replay != "" {
		var w witness
		lib.LoadReplay(r.Replay, &w)
		res := vsched.Run(vsched.Options{Prefix: w.Choices, NoSchedChoices: true}, body)
		fmt.Println(res.Status, res.Detail)
		fmt.Print(vector)
		ref := vsched.Run(vsched.Options{}, body)
		_ = ref
		r.Finish(lib.Coverage{Evaluations: 1, DistinctNontrivial: 1, States: 1, Transitions: res.Steps, TracesValidated: 1, Samples: []any{w}})
	}
	bound := 1
	if !r.Quick() {
		bound = 2
	}
	reference := ""
	vectors := map[string]bool{}
	mapPoints := 0
	explore := func() vsched.Stats {
		return vsched.ExploreOpt(body, vsched.Options{Bound: bound, NoSchedChoices: true}, false, [][]int{nil}, func(res *vsched.Result) bool {
			if res.Status != "ok" {
				r.Violate("status:"+res.Status, witness{res.Choices}, res.Detail)
				return false
			}
			n := 0
			for _, p := range res.Points {
				if p.Kind == "maporder" {
					n++
				}
			}
			if n > mapPoints {
				mapPoints = n
			}
			if reference == "" {
				reference = vector
			}
			vectors[vector] = true
			if vector != reference {
				// which line differs
				a, b := strings.Split(reference, "\n"), strings.Split(vector, "\n")
				diff := ""
				for i := range a {
					if i < len(b) && a[i] != b[i] {
						diff = "reference: " + a[i] + "\nthis run:  " + b[i]
						break
					}
				}
				field := "other"
				for _, f := range []string{"rule=", "runtime=", "post=", "src=", "deps=", "outs=", "srcs="} {
					ra, rb := "", ""
					if i := strings.Index(diff, "reference"); i >= 0 {
						la := strings.SplitN(diff, "\n", 2)
						ra, rb = la[0], la[1]
					}
					fa, fb := fieldOf(ra, f), fieldOf(rb, f)
					if fa != fb {
						field = strings.TrimSuffix(f, "=")
						break
					}
				}
				r.Violate("hash-depends-on-order:"+field, witness{res.Choices}, diff)
				return r.NumViolations() < 4
			}
			return !r.OutOfTime()
		}, r.OutOfTime)
	}
	var st vsched.Stats
	if r.Quick() {
		// quick: every parse order with default map orders, then every single map-order deviation under the first parse order
		allOrders, mapChoices = true, false
		st = explore()
		allOrders, mapChoices = false, true
		st2 := explore()
		st.Executions += st2.Executions
		st.Transitions += st2.Transitions
		st.Complete = st.Complete && st2.Complete
	} else {
		st = explore() // thorough: the full product of parse orders and (bounded) map-order deviations
	}
	if mapPoints == 0 {
		lib.Fatal("no map-iteration choice point was reached: the MapRange rewrite is not in place")
	}
	r.Assume = []string{
		"sources of nondeterminism owned: package parse order (all 5! orders) and the iteration order of every map ranged over in src/build/incrementality.go and src/core (rewritten to an explorer-controlled range: sorted by default, any other permutation costs one deviation); thread count only influences these two",
		"hash vector = rule hash, runtime rule hash, post-build rule hash and source hash of every target plus its declared deps, outputs and source paths",
	}
	r.Finish(lib.Coverage{
		Evaluations:        st.Executions,
		DistinctNontrivial: st.Executions,
		Rule:               "every parse order (5! = 120) x every single (quick) / pair of (thorough) non-default map iteration orders at every map-range point reached while parsing and hashing 5 packages (two of them sharing a subincluded build_defs file that touches CONFIG) whose targets use every map-typed attribute with >=2 keys; each execution is a distinct choice sequence",
		Samples:            []any{strings.Split(reference, "\n")[0]},
		States:             st.Executions,
		Transitions:        st.Transitions,
		TracesValidated:    st.Executions,
		Exhaustive:         st.Complete,
		Extra:              map[string]any{"map_range_choice_points_per_execution": mapPoints, "distinct_hash_vectors": len(vectors), "deviation_bound": bound},
	})
}

func fieldOf(line, f string) string {
	i := strings.Index(line, f)
	if i < 0 {
		return ""
	}
	rest := line[i+len(f):]
	if j := strings.IndexByte(rest, ' '); j >= 0 {
		return rest[:j]
	}
	return rest
}

// C32: crashes never leave files that later builds trust wrongly.
// (a) Subprocess tier: the real plz, built with the file-system seam, is killed (SIGKILL, or torn write + SIGKILL)
// immediately before EVERY mutating file-system operation of a build; a normal build of the same tree follows and must
// equal a clean build. (b) In-process tier: every crash point of the atomic write helper fs.WriteFile.
package main

import (
	"bytes"
	"fmt"
	"os"
	"path/filepath"
	"regexp"
	"strings"
	"sync"
	"sync/atomic"

	"github.com/thought-machine/please/src/fs"
	"github.com/thought-machine/please/verifharness/hist"
	"github.com/thought-machine/please/verifharness/lib"
	"github.com/thought-machine/please/verifshim/vos"
)

type witness struct {
	Family  string   `json:"family"`
	History []string `json:"history"` // edits applied (each followed by a complete build) before the crashed build
	Edit    string   `json:"edit"`    // the edit whose build is crashed ("init" = first build)
	Plan    string   `json:"plan"`    // crash@k or tear@k
	Op      string   `json:"op"`      // the operation the process died in front of
}

type scenario struct {
	fam   hist.Family
	edits []string // names of edits (applied one after the other with full builds) before the crashed build; last one is crashed
}

var absRepo = regexp.MustCompile(`/[^ ]*/repo/`)

func readTrace(p string) []string {
	b, _ := os.ReadFile(p)
	var out []string
	for _, l := range strings.Split(strings.TrimSpace(string(b)), "\n") {
		if l != "" {
			out = append(out, absRepo.ReplaceAllString(l, "REPO/")) // scratch directories differ between runs
		}
	}
	return out
}

func findEdit(f hist.Family, s hist.Src, name string) hist.Edit {
	for _, e := range f.Edits(s) {
		if e.Name == name {
			return e
		}
	}
	lib.Fatal("edit %s not applicable", name)
	return hist.Edit{}
}

func main() {
	r := lib.Start("C32", "fault_enumeration")
	plz := filepath.Join(lib.VerifRoot, ".work", "bin", "plz")
	if p := os.Getenv("VERIF_PLZ"); p != "" {
		plz = p // the driver says which binary it built from the repository under test
	}
	plzVos := os.Getenv("VERIF_PLZ_VOS")
	if plzVos == "" {
		lib.Fatal("VERIF_PLZ_VOS not set (driver must build plz with the file-system seam)")
	}
	root := filepath.Join(lib.VerifRoot, ".work", "hist", "C32")
	os.RemoveAll(root)
	defer os.RemoveAll(root)
	noCache := "[cache]\ndir =\n"

	var scs []scenario
	chain, dirs := hist.Chain{Threads: "1"}, hist.Dirs{Threads: "1"}
	scs = append(scs, scenario{chain, []string{"init"}}, scenario{dirs, []string{"init"}})
	rebuilds := map[string][]string{"chain": {"a_txt=y", "a_cmd=2", "c_dep=a"}, "dirs": {"d_txt=y", "f_txt=y", "g_binary=True"}}
	if !r.Quick() {
		rebuilds = map[string][]string{}
		for _, f := range []hist.Family{chain, dirs} {
			for _, e := range f.Edits(f.Initial()) {
				rebuilds[f.Name()] = append(rebuilds[f.Name()], e.Name)
			}
		}
	}
	for _, f := range []hist.Family{chain, dirs} {
		for _, e := range rebuilds[f.Name()] {
			scs = append(scs, scenario{f, []string{"init", e}})
		}
	}
	if r.Replay != "" {
		var w witness
		lib.LoadReplay(r.Replay, &w)
		var f hist.Family = chain
		if w.Family == "dirs" {
			f = dirs
		}
		scs = []scenario{{f, append(append([]string{}, w.History...), w.Edit)}}
	}

	var skipped []string
	var evals, crashed, recovered int64
	var opsMu sync.Mutex
	distinctOps := map[string]bool{}
	var samples lib.Samples
	exhaustive := true
	totalOps := 0
	confSyscalls, confOps := 0, 0
	for si, sc := range scs {
		if r.OutOfTime() {
			exhaustive = false
			break
		}
		e := hist.NewEngine(plz, filepath.Join(root, fmt.Sprintf("s%d", si)), sc.fam)
		// pre-state: all but the last edit applied with complete builds
		src := sc.fam.Initial()
		pre := filepath.Join(e.Root, "pre")
		os.MkdirAll(filepath.Join(pre, "repo"), 0o755)
		for _, name := range sc.edits[:len(sc.edits)-1] {
			if name != "init" {
				src = findEdit(sc.fam, src, name).Src
			}
			hist.Materialise(sc.fam, src, filepath.Join(pre, "repo"), noCache)
			if o := e.RunWith(plz, pre, src, nil); o.Exit != 0 {
				lib.Fatal("pre-state build failed: %s", o.Output)
			}
		}
		last := sc.edits[len(sc.edits)-1]
		if last != "init" {
			src = findEdit(sc.fam, src, last).Src
		}
		hist.Materialise(sc.fam, src, filepath.Join(pre, "repo"), noCache)
		clean := e.CleanObs(src, noCache)
		if clean.Exit != 0 {
			lib.Fatal("clean build of scenario fails: %s", clean.Output)
		}
		// an uninterrupted incremental build from the pre-state with the plain binary: where that already differs from a clean
		// build (the listed C01 name-blind-directory-hash findings) the scenario says nothing about crashes and is skipped
		inc := filepath.Join(e.Root, "inc")
		hist.CopyTree(pre, inc)
		incObs := e.RunWith(plz, inc, src, nil)
		os.RemoveAll(inc)
		if incObs.Exit != 0 || hist.DiffOuts(incObs, clean) != "" {
			skipped = append(skipped, sc.fam.Name()+":"+last)
			os.RemoveAll(e.Root)
			continue
		}
		// dry run with tracing to learn the operation sequence
		dry := filepath.Join(e.Root, "dry")
		hist.CopyTree(pre, dry)
		tf := filepath.Join(e.Root, "dry.trace")
		if o := e.RunWith(plzVos, dry, src, []string{"VOS_TRACE=" + tf}); o.Exit != 0 || hist.DiffOuts(o, incObs) != "" {
			lib.Fatal("dry run of the seamed binary differs from the plain binary: exit=%d %s", o.Exit, hist.DiffOuts(o, incObs))
		}
		ops := readTrace(tf)
		os.RemoveAll(dry)
		// seam conformance: the same run under strace; every mutating system call of the plz process below the scenario
		// directory must be explained by an operation the seam numbered (otherwise crash points are missing from the enumeration)
		{
			cdir := filepath.Join(e.Root, "conf")
			hist.CopyTree(pre, cdir)
			ctf, sout := filepath.Join(e.Root, "conf.trace"), filepath.Join(e.Root, "conf.strace")
			wrapper := hist.StraceWrapper(e.Root, plzVos)
			if o := e.RunWith(wrapper, cdir, src, []string{"VOS_TRACE=" + ctf, "SEAM_STRACE_OUT=" + sout}); o.Exit != 0 {
				lib.Fatal("seam conformance run failed: exit=%d %s", o.Exit, o.Output)
			}
			repoDir := filepath.Join(cdir, "repo")
			evs, err := hist.ParseStrace(sout, repoDir)
			if err != nil {
				lib.Fatal("strace output unreadable: %v", err)
			}
			seamOps := hist.ParseSeamTrace(ctf, repoDir)
			gaps, checked := hist.SeamGaps(evs, seamOps, cdir, []string{filepath.Join(repoDir, "plz-out", "log")})
			if checked == 0 || len(seamOps) == 0 {
				lib.Fatal("seam conformance run observed nothing (strace events=%d, seam operations=%d)", len(evs), len(seamOps))
			}
			if len(gaps) > 0 {
				lib.Fatal("SEAM-GAP: %d mutating system calls of plz are not operations of the file-system seam (scenario %s:%s):\n%s", len(gaps), sc.fam.Name(), sc.edits[len(sc.edits)-1], strings.Join(gaps, "\n"))
			}
			confSyscalls += checked
			confOps += len(seamOps)
			os.RemoveAll(cdir)
			os.Remove(ctf)
			os.Remove(sout)
		}
		totalOps += len(ops)
		type job struct {
			k    int
			plan string
		}
		var jobs []job
		for k := 1; k <= len(ops); k++ {
			jobs = append(jobs, job{k, "crash"})
			if !r.Quick() || k%4 == 0 { // torn-write variant: every op in thorough, every 4th in quick
				jobs = append(jobs, job{k, "tear"})
			}
		}
		ch := make(chan job)
		var wg sync.WaitGroup
		for w := 0; w < 4; w++ {
			wg.Add(1)
			go func(w int) {
				defer wg.Done()
				for j := range ch {
					dir := filepath.Join(e.Root, fmt.Sprintf("c%d-%s", j.k, j.plan))
					hist.CopyTree(pre, dir)
					ctf := filepath.Join(e.Root, fmt.Sprintf("c%d-%s.trace", j.k, j.plan))
					plan := fmt.Sprintf("%s@%d", j.plan, j.k)
					o := e.RunWith(plzVos, dir, src, []string{"VOS_PLAN=" + plan, "VOS_TRACE=" + ctf})
					atomic.AddInt64(&evals, 1)
					wit := witness{Family: sc.fam.Name(), History: sc.edits[:len(sc.edits)-1], Edit: last, Plan: plan, Op: ops[j.k-1]}
					samples.Add(func() any { return wit })
					got := readTrace(ctf)
					// The order in which independent targets are built is not fixed even with -n 1, so the operation the process
					// died in front of is taken from the crashed run's own trace (its last line).
					if len(got) > 0 {
						wit.Op = got[len(got)-1]
					}
					if len(got) != j.k && o.Exit != 0 {
						lib.Fatal("crash run %s wrote %d trace lines", plan, len(got))
					}
					opsMu.Lock()
					distinctOps[strings.Join(strings.Fields(wit.Op)[1:], " ")] = true
					opsMu.Unlock()
					if o.Exit == 0 {
						// this run needed fewer operations than the dry run (different target order): nothing to crash
						os.RemoveAll(dir)
						os.Remove(ctf)
						continue
					}
					atomic.AddInt64(&crashed, 1)
					// recovery: a normal build with the plain binary
					rec := e.RunWith(plz, dir, src, nil)
					if d := hist.DiffOuts(rec, clean); d != "" {
						opKind := strings.Fields(wit.Op)[1]
						tgt := "other"
						for _, t := range sc.fam.Targets(src) {
							if rec.Outs[t.Label] != clean.Outs[t.Label] {
								tgt = t.Label
								break
							}
						}
						cls := fmt.Sprintf("%s:%s:%s-before-%s:wrong=%s", sc.fam.Name(), last, j.plan, opKind, tgt)
						r.Violate(cls, wit, "after plz was killed at "+plan+" ("+wit.Op+") the next build differs from a clean build:\n"+d+rec.Output)
					} else {
						atomic.AddInt64(&recovered, 1)
					}
					os.RemoveAll(dir)
					os.Remove(ctf)
				}
			}(w)
		}
		for _, j := range jobs {
			if r.OutOfTime() {
				exhaustive = false
				break
			}
			ch <- j
		}
		close(ch)
		wg.Wait()
		os.RemoveAll(e.Root)
	}

	// (b) fs.WriteFile: every crash point, destination is old or new, never partial
	wfEvals, wfOps := writeFileCrashPoints(r, root)

	r.Assume = []string{
		"crash model = process death (SIGKILL): every prefix of the sequence of mutating file-system operations is a reachable disk state, the page cache survives; additionally the file being written at the moment of death may be half written (tear). No power-loss reordering.",
		"the seam covers os.* and xattr.* calls of src/fs, src/cache, src/build, src/core, src/test; the seamed binary's outputs are asserted equal to the plain binary's on every scenario (dry run), and on every scenario one run under strace asserts that every successful mutating system call of the plz process below the scenario directory (plz-out/log excepted: log files are not build state) is explained by a numbered seam operation",
		"-n 1; the order in which independent targets are built still varies between runs, so crash point k is the k-th operation of that run (taken from its own trace); k ranges over the length of a dry run, and the distinct operations actually crashed at are counted in the evidence",
		"build commands themselves (bash) are not crashed mid-way: their writes go to the target's temporary directory, which every build wipes before use",
	}
	r.Finish(lib.Coverage{
		Evaluations:        int(evals) + wfEvals,
		DistinctNontrivial: int(crashed) + wfEvals,
		Rule:               "for each scenario (first build of two repository families; rebuild after single edits) every mutating file-system operation k of the build: kill before k (and torn-write variant), then recover; plus every crash point of fs.WriteFile over old/new contents; non-trivial = the process really died at the crash point",
		Samples:            samples.List(),
		Exhaustive:         exhaustive,
		Extra:              map[string]any{"scenarios": len(scs), "scenarios_skipped_because_the_uninterrupted_incremental_build_already_differs_from_clean": skipped, "fs_operations_in_dry_runs": totalOps, "recovered_equal_to_clean": recovered, "distinct_operations_crashed_at": len(distinctOps), "seam_conformance_syscalls_checked_against_strace": confSyscalls, "seam_conformance_seam_operations": confOps, "writefile_crash_points": wfEvals, "writefile_ops": wfOps},
	})
}

// writeFileCrashPoints enumerates every freeze point (and torn variant) of fs.WriteFile in-process.
func writeFileCrashPoints(r *lib.Run, root string) (int, int) {
	dir := filepath.Join(root, "wf")
	os.MkdirAll(dir, 0o755)
	defer os.RemoveAll(dir)
	evals, maxOps := 0, 0
	olds := []string{"", "OLD-CONTENT-OLD-CONTENT"} // "" = destination absent
	news := []string{"N", strings.Repeat("NEW-CONTENT-", 700)}
	for _, old := range olds {
		for _, nw := range news {
			dest := filepath.Join(dir, "dest")
			reset := func() {
				os.RemoveAll(dir)
				os.MkdirAll(dir, 0o755)
				if old != "" {
					os.WriteFile(dest, []byte(old), 0o644)
				}
			}
			reset()
			vos.Reset()
			vos.Hook = func(n int64, op, path string) error { return nil }
			if err := fs.WriteFile(bytes.NewReader([]byte(nw)), dest, 0o755); err != nil {
				lib.Fatal("fs.WriteFile: %s", err)
			}
			n := int(vos.Count())
			if n > maxOps {
				maxOps = n
			}
			if n == 0 {
				lib.Fatal("fs.WriteFile performed no seamed operation: the seam is not in place")
			}
			for k := 1; k <= n+1; k++ {
				for _, tear := range []bool{false, true} {
					reset()
					vos.Reset()
					vos.Hook = func(i int64, op, path string) error {
						if int(i) >= k {
							return fmt.Errorf("disk frozen")
						}
						return nil
					}
					fs.WriteFile(bytes.NewReader([]byte(nw)), dest, 0o755)
					vos.Hook = nil
					if tear {
						vos.TearLast()
					}
					evals++
					got, err := os.ReadFile(dest)
					ok := false
					switch {
					case err != nil && os.IsNotExist(err):
						ok = old == "" // absent is fine only if there was no old file
					case err == nil:
						ok = string(got) == nw || (old != "" && string(got) == old)
					}
					// the mode belongs to the content: new bytes are only ever visible with the requested mode
					if fi, serr := os.Lstat(dest); ok && serr == nil && string(got) == nw && (old == "" || string(got) != old) && fi.Mode().Perm() != 0o755 {
						r.Violate(fmt.Sprintf("writefile:new-content-with-wrong-mode:freeze@%d:tear=%v", k, tear), map[string]any{"old_len": len(old), "new_len": len(nw), "k": k, "tear": tear},
							fmt.Sprintf("destination holds the new content with mode %v instead of the requested 0755 (a later build that compares contents keeps it)", fi.Mode().Perm()))
					}
					if !ok {
						r.Violate(fmt.Sprintf("writefile:partial-destination:freeze@%d:tear=%v", k, tear), map[string]any{"old_len": len(old), "new_len": len(nw), "k": k, "tear": tear},
							fmt.Sprintf("destination holds %d bytes (%v), neither the old (%d) nor the new (%d) content", len(got), err, len(old), len(nw)))
					}
				}
			}
		}
	}
	vos.Hook = nil
	return evals, maxOps
}

// C32: crashes never leave files that later builds trust wrongly.
// (a) Subprocess tier: the real plz, built with the file-system seam, is killed (SIGKILL, or torn write + SIGKILL)
// immediately before EVERY mutating file-system operation of a build; a normal build of the same tree follows and must
// equal a clean build. (b) In-process tier: every crash point of the atomic write helper fs.WriteFile.
package main

import (
	"bytes"
	"fmt"
	"os"
	"path/filepath"
	"regexp"
	"strings"
	"sync"
	"sync/atomic"

	"github.com/thought-machine/please/src/fs"
	"github.com/thought-machine/please/verifharness/hist"
	"github.com/thought-machine/please/verifharness/lib"
	"github.com/thought-machine/please/verifshim/vos"
)

type witness struct {
	Family  string   `json:"family"`
	History []string `json:"history"` // edits applied (each followed by a complete build) before the crashed build
	Edit    string   `json:"edit"`    // the edit whose build is crashed ("init" = first build)
	Plan    string   `json:"plan"`    // crash@k or tear@k
	Op      string   `json:"op"`      // the operation the process died in front of
	Cfg     string   `json:"config,omitempty"`
}

type scenario struct {
	fam   hist.Family
	edits []string // names of edits (applied one after the other with full builds) before the crashed build; last one is crashed
	cfg   string   // configuration text besides the family's own ("" = no cache directory)
}

var absRepo = regexp.MustCompile(`/[^ ]*/repo/`)

func readTrace(p string) []string {
	b, _ := os.ReadFile(p)
	var out []string
	for _, l := range strings.Split(strings.TrimSpace(string(b)), "\n") {
		if l != "" {
			out = append(out, absRepo.ReplaceAllString(l, "REPO/")) // scratch directories differ between runs
		}
	}
	return out
}

func findEdit(f hist.Family, s hist.Src, name string) hist.Edit {
	for _, e := range f.Edits(s) {
		if e.Name == name {
			return e
		}
	}
	lib.Fatal("edit %s not applicable", name)
	return hist.Edit{}
}

func main() {
	r := lib.Start("C32", "fault_enumeration")
	plz := filepath.Join(lib.VerifRoot, ".work", "bin", "plz")
	if p := os.Getenv("VERIF_PLZ"); p != "" {
		plz = p // the driver says which binary it built from the repository under test
	}
	plzVos := os.Getenv("VERIF_PLZ_VOS")
	if plzVos == "" {
		lib.Fatal("VERIF_PLZ_VOS not set (driver must build plz with the file-system seam)")
	}
	root := filepath.Join(lib.VerifRoot, ".work", "hist", "C32")
	os.RemoveAll(root)
	defer os.RemoveAll(root)
	noCache := "[cache]\ndir =\n"
	cfgOf := func(sc scenario) string {
		if sc.cfg != "" {
			return sc.cfg
		}
		return noCache
	}
	// an uncompressed directory cache next to the repository (entries are hard links: a restore links the outputs one by one)
	dirCache := "[cache]\ndir = ../cache\ndirclean = false\n"

	var scs []scenario
	chain, dirs := hist.Chain{Threads: "1"}, hist.Dirs{Threads: "1"}
	scs = append(scs, scenario{fam: chain, edits: []string{"init"}}, scenario{fam: dirs, edits: []string{"init"}})
	rebuilds := map[string][]string{"chain": {"a_txt=y", "a_cmd=2", "c_dep=a"}, "dirs": {"d_txt=y", "f_txt=y", "g_binary=True"}}
	if !r.Quick() {
		rebuilds = map[string][]string{}
		for _, f := range []hist.Family{chain, dirs} {
			for _, e := range f.Edits(f.Initial()) {
				rebuilds[f.Name()] = append(rebuilds[f.Name()], e.Name)
			}
		}
	}
	for _, f := range []hist.Family{chain, dirs} {
		for _, e := range rebuilds[f.Name()] {
			scs = append(scs, scenario{fam: f, edits: []string{"init", e}})
		}
	}
	// with a directory cache: change, build, change back - the crashed build restores every target from the cache
	scs = append(scs, scenario{fam: dirs, edits: []string{"init", "d_txt=y", "d_txt=x"}, cfg: dirCache})
	// ... and a fresh plz-out (new checkout, rm -rf plz-out) with a warm cache: nothing is there, everything is restored
	if !r.Quick() {
		scs = append(scs, scenario{fam: hist.Dirs{Threads: "1", WithRm: true}, edits: []string{"init", "rm-plz-out"}, cfg: dirCache})
		scs = append(scs, scenario{fam: chain, edits: []string{"init", "a_txt=y", "a_txt=x"}, cfg: dirCache})
	}
	if r.Replay != "" {
		var w witness
		lib.LoadReplay(r.Replay, &w)
		var f hist.Family = chain
		if w.Family == "dirs" {
			f = hist.Dirs{Threads: "1", WithRm: true}
		}
		scs = []scenario{{fam: f, edits: append(append([]string{}, w.History...), w.Edit), cfg: w.Cfg}}
	}

	var skipped []string
	var evals, crashed, recovered, notReached int64
	var opsMu sync.Mutex
	distinctOps := map[string]bool{}
	var samples lib.Samples
	exhaustive := true
	totalOps := 0
	confSyscalls, confOps := 0, 0
	for si, sc := range scs {
		if r.OutOfTime() {
			exhaustive = false
			break
		}
		e := hist.NewEngine(plz, filepath.Join(root, fmt.Sprintf("s%d", si)), sc.fam)
		// pre-state: all but the last edit applied with complete builds
		src := sc.fam.Initial()
		pre := filepath.Join(e.Root, "pre")
		os.MkdirAll(filepath.Join(pre, "repo"), 0o755)
		for _, name := range sc.edits[:len(sc.edits)-1] {
			if name != "init" {
				src = findEdit(sc.fam, src, name).Src
			}
			hist.Materialise(sc.fam, src, filepath.Join(pre, "repo"), cfgOf(sc))
			if o := e.RunWith(plz, pre, src, nil); o.Exit != 0 {
				lib.Fatal("pre-state build failed: %s", o.Output)
			}
		}
		last := sc.edits[len(sc.edits)-1]
		if last != "init" {
			ed := findEdit(sc.fam, src, last)
			src = ed.Src
			if ed.Pre != nil {
				ed.Pre(filepath.Join(pre, "repo")) // e.g. rm -rf plz-out
			}
		}
		hist.Materialise(sc.fam, src, filepath.Join(pre, "repo"), cfgOf(sc))
		clean := e.CleanObs(src, noCache)
		if clean.Exit != 0 {
			lib.Fatal("clean build of scenario fails: %s", clean.Output)
		}
		// an uninterrupted incremental build from the pre-state with the plain binary: where that already differs from a clean
		// build (the listed C01 name-blind-directory-hash findings) the scenario says nothing about crashes and is skipped
		inc := filepath.Join(e.Root, "inc")
		hist.CopyTree(pre, inc)
		incObs := e.RunWith(plz, inc, src, nil)
		os.RemoveAll(inc)
		if incObs.Exit != 0 || hist.DiffOuts(incObs, clean) != "" {
			skipped = append(skipped, sc.fam.Name()+":"+last)
			os.RemoveAll(e.Root)
			continue
		}
		// dry run with tracing to learn the operation sequence
		dry := filepath.Join(e.Root, "dry")
		hist.CopyTree(pre, dry)
		tf := filepath.Join(e.Root, "dry.trace")
		if o := e.RunWith(plzVos, dry, src, []string{"VOS_TRACE=" + tf}); o.Exit != 0 || hist.DiffOuts(o, incObs) != "" {
			lib.Fatal("dry run of the seamed binary differs from the plain binary: exit=%d %s", o.Exit, hist.DiffOuts(o, incObs))
		}
		ops := readTrace(tf)
		os.RemoveAll(dry)
		// seam conformance: the same run under strace; every mutating system call of the plz process below the scenario
		// directory must be explained by an operation the seam numbered (otherwise crash points are missing from the enumeration)
		{
			cdir := filepath.Join(e.Root, "conf")
			hist.CopyTree(pre, cdir)
			ctf, sout := filepath.Join(e.Root, "conf.trace"), filepath.Join(e.Root, "conf.strace")
			wrapper := hist.StraceWrapper(e.Root, plzVos)
			if o := e.RunWith(wrapper, cdir, src, []string{"VOS_TRACE=" + ctf, "SEAM_STRACE_OUT=" + sout}); o.Exit != 0 {
				lib.Fatal("seam conformance run failed: exit=%d %s", o.Exit, o.Output)
			}
			repoDir := filepath.Join(cdir, "repo")
			evs, err := hist.ParseStrace(sout, repoDir)
			if err != nil {
				lib.Fatal("strace output unreadable: %v", err)
			}
			seamOps := hist.ParseSeamTrace(ctf, repoDir)
			gaps, checked := hist.SeamGaps(evs, seamOps, cdir, []string{filepath.Join(repoDir, "plz-out", "log")})
			if checked == 0 || len(seamOps) == 0 {
				lib.Fatal("seam conformance run observed nothing (strace events=%d, seam operations=%d)", len(evs), len(seamOps))
			}
			if len(gaps) > 0 {
				lib.Fatal("SEAM-GAP: %d mutating system calls of plz are not operations of the file-system seam (scenario %s:%s):\n%s", len(gaps), sc.fam.Name(), sc.edits[len(sc.edits)-1], strings.Join(gaps, "\n"))
			}
			confSyscalls += checked
			confOps += len(seamOps)
			os.RemoveAll(cdir)
			os.Remove(ctf)
			os.Remove(sout)
		}
		totalOps += len(ops)
		// One job per DISTINCT operation occurrence ("op path", i-th time), not per operation number: the order in which
		// independent targets are built differs between runs, so "the k-th operation" names a different operation each time,
		// whereas "the i-th `link CACHE/.. -> REPO/plz-out/gen/p/m2.out`" is the same place in every run that reaches it.
		// Operations that only show up in later runs (another order) are added until no new one appears.
		type job struct {
			key  string // normalised "op path"
			occ  int
			plan string // crashop | tearafter
		}
		normalise := func(lines []string, runDir string) []string { // "n op path" -> "op path" with the run directory as "@"
			var out []string
			for _, l := range lines {
				f := strings.SplitN(l, " ", 2)
				if len(f) == 2 {
					out = append(out, strings.ReplaceAll(f[1], runDir, "@"))
				}
			}
			return out
		}
		rawTrace := func(p string) []string {
			b, _ := os.ReadFile(p)
			var out []string
			for _, l := range strings.Split(strings.TrimSpace(string(b)), "\n") {
				if l != "" {
					out = append(out, l)
				}
			}
			return out
		}
		seen := map[string]bool{}
		var jobs []job
		addJobs := func(keys []string) int {
			n := 0
			count := map[string]int{}
			for _, k := range keys {
				count[k]++
				id := fmt.Sprintf("%s#%d", k, count[k])
				if seen[id] {
					continue
				}
				seen[id] = true
				n++
				jobs = append(jobs, job{k, count[k], "crashop"})
				switch strings.SplitN(k, " ", 2)[0] {
				case "create", "openfile", "writefile", "createtemp":
					jobs = append(jobs, job{k, count[k], "tearafter"}) // died while writing the file this operation created
				}
			}
			return n
		}
		{
			// the dry run's own operations, normalised against ITS directory
			dry2 := filepath.Join(e.Root, "dry2")
			hist.CopyTree(pre, dry2)
			tf2 := filepath.Join(e.Root, "dry2.trace")
			if o := e.RunWith(plzVos, dry2, src, []string{"VOS_TRACE=" + tf2}); o.Exit != 0 {
				lib.Fatal("second dry run failed: %s", o.Output)
			}
			addJobs(normalise(rawTrace(tf2), dry2))
			os.RemoveAll(dry2)
			os.Remove(tf2)
		}
		var newMu sync.Mutex
		for round := 0; round < 4 && len(jobs) > 0; round++ {
			batch := jobs
			jobs = nil
			var later [][]string
			ch := make(chan job)
			var wg sync.WaitGroup
			for w := 0; w < 4; w++ {
				wg.Add(1)
				go func(w int) {
					defer wg.Done()
					for j := range ch {
						n := atomic.AddInt64(&evals, 1)
						dir := filepath.Join(e.Root, fmt.Sprintf("c%d", n))
						hist.CopyTree(pre, dir)
						ctf := filepath.Join(e.Root, fmt.Sprintf("c%d.trace", n))
						plan := fmt.Sprintf("%s@%d:%s", j.plan, j.occ, j.key)
						o := e.RunWith(plzVos, dir, src, []string{"VOS_PLAN=" + plan, "VOS_NORM=" + dir, "VOS_TRACE=" + ctf})
						wit := witness{Family: sc.fam.Name(), History: sc.edits[:len(sc.edits)-1], Edit: last, Plan: plan, Op: j.key, Cfg: sc.cfg}
						samples.Add(func() any { return wit })
						got := normalise(rawTrace(ctf), dir)
						newMu.Lock()
						later = append(later, got)
						newMu.Unlock()
						if o.Exit == 0 {
							// this run never reached that operation occurrence (another order of independent targets)
							atomic.AddInt64(&notReached, 1)
							os.RemoveAll(dir)
							os.Remove(ctf)
							continue
						}
						atomic.AddInt64(&crashed, 1)
						opsMu.Lock()
						distinctOps[fmt.Sprintf("%s#%d:%s", j.key, j.occ, j.plan)] = true
						opsMu.Unlock()
						// recovery: a normal build with the plain binary
						rec := e.RunWith(plz, dir, src, nil)
						if d := hist.DiffOuts(rec, clean); d != "" {
							opKind := strings.SplitN(j.key, " ", 2)[0]
							tgt := "other"
							for _, t := range sc.fam.Targets(src) {
								if rec.Outs[t.Label] != clean.Outs[t.Label] {
									tgt = t.Label
									break
								}
							}
							how := "crash-before-" + opKind
							if j.plan == "tearafter" {
								how = "torn-file-after-" + opKind
							}
							cache := ""
							if sc.cfg != "" {
								cache = ":dir-cache"
							}
							cls := fmt.Sprintf("%s:%s%s:%s:wrong=%s", sc.fam.Name(), last, cache, how, tgt)
							r.Violate(cls, wit, "after plz was killed at "+plan+" the next build differs from a clean build:\n"+d+rec.Output)
						} else {
							atomic.AddInt64(&recovered, 1)
						}
						os.RemoveAll(dir)
						os.Remove(ctf)
					}
				}(w)
			}
			for _, j := range batch {
				if r.OutOfTime() {
					exhaustive = false
					break
				}
				ch <- j
			}
			close(ch)
			wg.Wait()
			// operations seen only in these runs become jobs of the next round
			for _, tr := range later {
				addJobs(tr)
			}
			if round == 3 && len(jobs) > 0 {
				exhaustive = false
			}
		}
		os.RemoveAll(e.Root)
	}

	// (b) fs.WriteFile: every crash point, destination is old or new, never partial
	wfEvals, wfOps := writeFileCrashPoints(r, root)

	r.Assume = []string{
		"crash model = process death (SIGKILL): every prefix of the sequence of mutating file-system operations is a reachable disk state, the page cache survives; additionally the file being written at the moment of death may be half written (tear). No power-loss reordering.",
		"the seam covers os.* and xattr.* calls of src/fs, src/cache, src/build, src/core, src/test; the seamed binary's outputs are asserted equal to the plain binary's on every scenario (dry run), and on every scenario one run under strace asserts that every successful mutating system call of the plz process below the scenario directory (plz-out/log excepted: log files are not build state) is explained by a numbered seam operation",
		"-n 1; the order in which independent targets are built still varies between runs, so crash points are named by operation (i-th occurrence of `op path`, run directory normalised), not by number: every distinct operation occurrence of a dry run - and every further one seen in any crash run, to a fixed point - gets its own run that is killed immediately before it (and, for file-creating operations, one killed at the next operation with the created file cut in half); a plan whose operation is not reached in its run (another order) is counted",
		"build commands themselves (bash) are not crashed mid-way: their writes go to the target's temporary directory, which every build wipes before use",
	}
	r.Finish(lib.Coverage{
		Evaluations:        int(evals) + wfEvals,
		DistinctNontrivial: int(crashed) + wfEvals,
		Rule:               "for each scenario (first build of two repository families; rebuild after single edits; restore of every target from a directory cache) every distinct mutating file-system operation occurrence of the build: kill immediately before it (and, after file-creating operations, with the file half written), then recover with a normal build and compare with a clean build; plus every crash point of fs.WriteFile over old/new contents; non-trivial = the process really died at the crash point",
		Samples:            samples.List(),
		Exhaustive:         exhaustive,
		Extra:              map[string]any{"scenarios": len(scs), "scenarios_skipped_because_the_uninterrupted_incremental_build_already_differs_from_clean": skipped, "fs_operations_in_dry_runs": totalOps, "recovered_equal_to_clean": recovered, "plans_whose_operation_was_not_reached_in_that_run": notReached, "distinct_operations_crashed_at": len(distinctOps), "seam_conformance_syscalls_checked_against_strace": confSyscalls, "seam_conformance_seam_operations": confOps, "writefile_crash_points": wfEvals, "writefile_ops": wfOps},
	})
}

// writeFileCrashPoints enumerates every freeze point (and torn variant) of fs.WriteFile in-process.
func writeFileCrashPoints(r *lib.Run, root string) (int, int) {
	dir := filepath.Join(root, "wf")
	os.MkdirAll(dir, 0o755)
	defer os.RemoveAll(dir)
	evals, maxOps := 0, 0
	olds := []string{"", "OLD-CONTENT-OLD-CONTENT"} // "" = destination absent
	news := []string{"N", strings.Repeat("NEW-CONTENT-", 700)}
	for _, old := range olds {
		for _, nw := range news {
			dest := filepath.Join(dir, "dest")
			reset := func() {
				os.RemoveAll(dir)
				os.MkdirAll(dir, 0o755)
				if old != "" {
					os.WriteFile(dest, []byte(old), 0o644)
				}
			}
			reset()
			vos.Reset()
			vos.Hook = func(n int64, op, path string) error { return nil }
			if err := fs.WriteFile(bytes.NewReader([]byte(nw)), dest, 0o755); err != nil {
				lib.Fatal("fs.WriteFile: %s", err)
			}
			n := int(vos.Count())
			if n > maxOps {
				maxOps = n
			}
			if n == 0 {
				lib.Fatal("fs.WriteFile performed no seamed operation: the seam is not in place")
			}
			for k := 1; k <= n+1; k++ {
				for _, tear := range []bool{false, true} {
					reset()
					vos.Reset()
					vos.Hook = func(i int64, op, path string) error {
						if int(i) >= k {
							return fmt.Errorf("disk frozen")
						}
						return nil
					}
					fs.WriteFile(bytes.NewReader([]byte(nw)), dest, 0o755)
					vos.Hook = nil
					if tear {
						vos.TearLast()
					}
					evals++
					got, err := os.ReadFile(dest)
					ok := false
					switch {
					case err != nil && os.IsNotExist(err):
						ok = old == "" // absent is fine only if there was no old file
					case err == nil:
						ok = string(got) == nw || (old != "" && string(got) == old)
					}
					// the mode belongs to the content: new bytes are only ever visible with the requested mode
					if fi, serr := os.Lstat(dest); ok && serr == nil && string(got) == nw && (old == "" || string(got) != old) && fi.Mode().Perm() != 0o755 {
						r.Violate(fmt.Sprintf("writefile:new-content-with-wrong-mode:freeze@%d:tear=%v", k, tear), map[string]any{"old_len": len(old), "new_len": len(nw), "k": k, "tear": tear},
							fmt.Sprintf("destination holds the new content with mode %v instead of the requested 0755 (a later build that compares contents keeps it)", fi.Mode().Perm()))
					}
					if !ok {
						r.Violate(fmt.Sprintf("writefile:partial-destination:freeze@%d:tear=%v", k, tear), map[string]any{"old_len": len(old), "new_len": len(nw), "k": k, "tear": tear},
							fmt.Sprintf("destination holds %d bytes (%v), neither the old (%d) nor the new (%d) content", len(got), err, len(old), len(nw)))
					}
				}
			}
		}
	}
	vos.Hook = nil
	return evals, maxOps
}

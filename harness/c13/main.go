// C13: the HTTP cache and the command cache store complete artifacts or nothing, and a retrieve that fails partway is a miss.
//
// The real httpCache talks to an in-process HTTP server that commits an entry only when the request body was read to
// EOF without error; the real cmdCache runs `sh` store / retrieve commands that commit with a rename after a
// successful read of stdin. For every small output tree and every position in it one fault is injected:
//
//	store:    a declared output has vanished; a file / directory cannot be read (mode 000, the Store runs with the
//	          effective uid of `nobody`); the PUT connection is cut after k bytes; the store command fails after k bytes.
//	          Afterwards a Retrieve must miss, or hit with every file complete.
//	retrieve: the HTTP response body is cut at EVERY byte offset (connection aborted, or a short but well-formed
//	          response); the retrieve command's output is cut at every tar block boundary (+-1) and the command exits
//	          non-zero, or exits 0 although the transfer was short (a pipeline whose last stage succeeds).
//	          The Retrieve must report a miss (or, if it reports a hit, every file must be complete).
package main

import (
	"archive/tar"
	"bytes"
	"fmt"
	"io"
	"net/http"
	"net/http/httptest"
	"os"
	"path/filepath"
	"runtime"
	"runtime/pprof"
	"strings"
	"sync"
	"syscall"
	"time"

	"github.com/thought-machine/please/src/cache"
	"github.com/thought-machine/please/src/cli"
	"github.com/thought-machine/please/src/core"
	"github.com/thought-machine/please/verifharness/c09/tree"
	"github.com/thought-machine/please/verifharness/lib"
	logging "gopkg.in/op/go-logging.v1"
)

// A Case is one executable scenario (and the replay witness).
type Case struct {
	Cache string     `json:"cache"` // http | cmd
	Phase string     `json:"phase"` // store | retrieve
	Tree  *tree.Node `json:"tree"`  // contents of the target's output directory
	Decl  string     `json:"decl"`  // top: root entries are the outputs; leaf: every leaf path is an output
	Fault string     `json:"fault"` // none | output-missing | file-unreadable | dir-unreadable | put-cut | command-fails | entry-vanishes-mid-walk | body-aborted | body-short | output-cut-exit1 | output-cut-exit0
	Pos   string     `json:"pos,omitempty"`
	Off   int        `json:"off,omitempty"`
	Got   *tree.Node `json:"got,omitempty"`
}

var key = []byte("12345678901234567890")

var (
	root     string
	outDir   string
	cmdDir   string
	target   *core.BuildTarget
	config   *core.Configuration
	srv      *server
	httpC    core.Cache
	isRoot   = os.Geteuid() == 0
	procs    int
	requests int
)

const nobody = 65534

func must(err error) {
	if err != nil {
		lib.Fatal("%s", err)
	}
}

// server is the cache server model: an entry exists only if its PUT body was read to EOF without error.
type server struct {
	mu      sync.Mutex
	entries map[string][]byte
	putCut  int    // >=0: read that many bytes of the next PUT, then cut the connection
	getMode string // "" | body-aborted | body-short
	getOff  int
	gets    int
	puts    int
}

func (s *server) ServeHTTP(w http.ResponseWriter, r *http.Request) {
	s.mu.Lock()
	defer s.mu.Unlock()
	switch r.Method {
	case http.MethodPut:
		s.puts++
		if s.putCut >= 0 {
			io.CopyN(io.Discard, r.Body, int64(s.putCut))
			panic(http.ErrAbortHandler)
		}
		b, err := io.ReadAll(r.Body)
		if err != nil {
			w.WriteHeader(http.StatusBadRequest)
			return
		}
		s.entries[r.URL.Path] = b
	case http.MethodGet:
		s.gets++
		b, ok := s.entries[r.URL.Path]
		if !ok {
			w.WriteHeader(http.StatusNotFound)
			return
		}
		mode := s.getMode
		if s.getOff >= len(b) {
			mode = "" // nothing is cut (and a complete response must leave the connection reusable)
		}
		switch mode {
		case "":
			w.Write(b)
		case "body-short": // a well-formed response carrying only a prefix
			w.Header().Set("Content-Length", fmt.Sprint(s.getOff))
			w.Write(b[:s.getOff])
		case "body-aborted": // the connection dies after a prefix
			w.Header().Set("Content-Length", fmt.Sprint(len(b)))
			w.Write(b[:s.getOff])
			if f, ok := w.(http.Flusher); ok {
				f.Flush()
			}
			panic(http.ErrAbortHandler)
		}
	}
}

func emptyDir(p string) {
	es, err := os.ReadDir(p)
	must(err)
	for _, e := range es {
		must(os.RemoveAll(filepath.Join(p, e.Name())))
	}
}

func setSource(n *tree.Node) {
	emptyDir(outDir)
	for _, name := range n.Names() {
		must(n.Children[name].Materialise(filepath.Join(outDir, name)))
	}
}

func outsOf(n *tree.Node, decl string) []string {
	if decl == "top" {
		return n.Names()
	}
	var out []string
	var rec func(prefix string, d *tree.Node)
	rec = func(prefix string, d *tree.Node) {
		for _, name := range d.Names() {
			c := d.Children[name]
			if c.Kind == "d" && len(c.Children) > 0 {
				rec(prefix+name+"/", c)
			} else {
				out = append(out, prefix+name)
			}
		}
	}
	rec("", n)
	return out
}

// positions lists every path of the tree with its node, in walk order.
func positions(n *tree.Node) (paths []string, nodes []*tree.Node) {
	var rec func(prefix string, d *tree.Node)
	rec = func(prefix string, d *tree.Node) {
		for _, name := range d.Names() {
			c := d.Children[name]
			paths, nodes = append(paths, prefix+name), append(nodes, c)
			if c.Kind == "d" {
				rec(prefix+name+"/", c)
			}
		}
	}
	rec("", n)
	return
}

func coarse(want, got *tree.Node) string {
	if got == nil {
		return "missing"
	}
	if want.Kind != got.Kind {
		return "kind"
	}
	switch want.Kind {
	case "f":
		if want.Content != got.Content {
			return "content"
		}
	case "l":
		if want.Target != got.Target {
			return "content"
		}
	case "d":
		for _, k := range want.Names() {
			if d := coarse(want.Children[k], got.Children[k]); d != "" {
				return d
			}
		}
		for _, k := range got.Names() {
			if want.Children[k] == nil {
				return "extra"
			}
		}
	}
	return ""
}

var diffName = map[string]string{"missing": "missing-files", "extra": "extra-entries", "content": "truncated-or-wrong-bytes", "kind": "wrong-kind"}

// asNobody runs f with the effective uid of nobody when the harness is root (mode 000 means nothing to root).
func asNobody(f func()) {
	if !isRoot {
		f()
		return
	}
	must(syscall.Seteuid(nobody))
	defer func() { must(syscall.Seteuid(0)) }()
	f()
}

func theCache(c Case, storeCmd, retrieveCmd string) core.Cache {
	if c.Cache == "http" {
		return httpC
	}
	cfg := *config
	cfg.Cache.StoreCommand, cfg.Cache.RetrieveCommand = storeCmd, retrieveCmd
	return cache.VerifNewCmdCacheC13(&cfg)
}

func sq(s string) string { return "'" + strings.ReplaceAll(s, "'", `'\''`) + "'" }

// stored returns the bytes of the committed entry (nil if there is none).
func stored(c Case) []byte {
	if c.Cache == "http" {
		for _, b := range srv.entries {
			return b
		}
		return nil
	}
	b, err := os.ReadFile(filepath.Join(cmdDir, fmt.Sprintf("%x", key)))
	if err != nil {
		return nil
	}
	return b
}

// wellFormed reports whether b is a complete tar stream (readable to the end-of-archive marker).
func wellFormedTar(b []byte) bool {
	if len(b) < 1024 || !bytes.Equal(b[len(b)-1024:], make([]byte, 1024)) {
		return false
	}
	tr := tar.NewReader(bytes.NewReader(b))
	for {
		if _, err := tr.Next(); err == io.EOF {
			return true
		} else if err != nil {
			return false
		}
		if _, err := io.Copy(io.Discard, tr); err != nil {
			return false
		}
	}
}

var storeRetries int
var logMem *logging.MemoryBackend
var last string
var kept string // id of the tree whose complete entry is in the cache (retrieve cases)
var faultlessMiss int
var faultlessMissExample string
var cmdStreamWellFormedAfterCancel, storeFaultCommitted, storeFaultNothing, retrieveFaultMiss, retrieveFaultCompleteHit int

// runCase executes one case; class "" = holds.
func runCase(c Case) (class, detail string, got *tree.Node) {
	outs := outsOf(c.Tree, c.Decl)
	want := c.Tree.Literal()
	kf := filepath.Join(cmdDir, fmt.Sprintf("%x", key))
	storeCmd := "cat > " + sq(kf+".tmp") + " && mv " + sq(kf+".tmp") + " " + sq(kf)
	retrieveCmd := "cat " + sq(kf)
	// fresh cache contents (the complete entry of the previous retrieve case of the same tree is kept)
	id := c.Cache + "|" + c.Decl + "|" + c.Tree.Canon()
	reuse := c.Phase == "retrieve" && kept == id
	if !reuse {
		kept = ""
		srv.mu.Lock()
		srv.entries, srv.putCut, srv.getMode = map[string][]byte{}, -1, ""
		srv.mu.Unlock()
		emptyDir(cmdDir)
		setSource(c.Tree)
	}
	pfx := c.Cache + "cache:" + c.Phase + "-fault:"
	if c.Phase == "store" {
		p := filepath.Join(outDir, c.Pos)
		store := func() { theCache(c, storeCmd, retrieveCmd).Store(target, key, outs) }
		switch c.Fault {
		case "none":
			store()
		case "output-missing":
			must(os.RemoveAll(p))
			store()
		case "file-unreadable", "dir-unreadable":
			must(os.Chmod(p, 0))
			asNobody(store)
			must(os.Chmod(p, 0o755))
		case "put-cut":
			srv.putCut = c.Off
			store()
			srv.putCut = -1
		case "command-fails":
			storeCmd = fmt.Sprintf("head -c %d > /dev/null; exit 1", c.Off)
			store()
		case "entry-vanishes-mid-walk":
			// the store command takes c.Off bytes (the archiver is then inside an earlier, larger file and blocked on the
			// pipe), removes an entry of an output directory that has been listed but not yet archived, then takes the rest
			storeCmd = fmt.Sprintf("head -c %d > %s; rm -f %s; cat >> %s && mv %s %s", c.Off, sq(kf+".tmp"), sq(p), sq(kf+".tmp"), sq(kf+".tmp"), sq(kf))
			store()
		default:
			lib.Fatal("unknown store fault %q", c.Fault)
		}
		if c.Cache == "cmd" {
			procs += 3
			if c.Fault != "none" && c.Fault != "command-fails" {
				b, err := os.ReadFile(kf + ".tmp")
				if err == nil && wellFormedTar(b) {
					cmdStreamWellFormedAfterCancel++
				}
				if os.Getenv("C13_DEBUG") != "" {
					fmt.Fprintf(os.Stderr, "DEBUG %s %s: tmp file %d bytes err=%v wellformed=%v committed=%v\n", c.Fault, c.Pos, len(b), err, wellFormedTar(b), stored(c) != nil)
				}
			}
		}
		entry := stored(c)
		emptyDir(outDir)
		before := srv.gets
		hit := theCache(c, storeCmd, retrieveCmd).Retrieve(target, key, outs)
		if c.Cache == "http" && srv.gets != before+1 {
			lib.Fatal("the retrieve did not reach the server")
		}
		if c.Cache == "cmd" {
			procs += 2
		}
		got, err := tree.Read(outDir)
		must(err)
		if entry == nil {
			storeFaultNothing++
		} else {
			storeFaultCommitted++
		}
		if !hit {
			if c.Fault == "none" {
				faultlessMiss++ // not demanded by the statement (a miss is always safe); reported in the evidence
				if faultlessMissExample == "" {
					faultlessMissExample = fmt.Sprintf("%s cache, outputs %v of %s", c.Cache, outs, want.Canon())
				}
			}
			return "", "", got
		}
		if d := coarse(want, got); d != "" {
			what := "after a Store during which " + map[string]string{"none": "nothing failed", "output-missing": "the declared output " + c.Pos + " did not exist",
				"file-unreadable": "the file " + c.Pos + " could not be opened (EACCES)", "dir-unreadable": "the directory " + c.Pos + " could not be read (EACCES)",
				"put-cut": fmt.Sprintf("the PUT connection was cut after %d bytes", c.Off), "command-fails": fmt.Sprintf("the store command exited 1 after reading %d bytes", c.Off),
				"entry-vanishes-mid-walk": "the entry " + c.Pos + " of an output directory disappeared after the directory had been listed (while an earlier file was being archived)"}[c.Fault]
			if c.Fault == "none" {
				pfx = c.Cache + "cache:faultless:"
			}
			return pfx + "hit-with-" + diffName[d], fmt.Sprintf("%s, an entry of %d bytes was committed and a later Retrieve reports a hit with %s; the outputs were %s", what, len(entry), got.Canon(), want.Canon()), got
		}
		return "", "", got
	}
	// retrieve faults: a complete entry first
	if !reuse {
		// (retried: with HTTPRetry=0 a PUT that happens to be written to a connection the server has just closed fails)
		for try := 0; try < 3 && stored(c) == nil; try++ {
			theCache(c, storeCmd, retrieveCmd).Store(target, key, outs)
			if c.Cache == "cmd" {
				procs += 3
			}
			if try > 0 {
				storeRetries++
			}
		}
		kept = id
	}
	entry := stored(c)
	if entry == nil {
		for n := logMem.Head(); n != nil; n = n.Next() {
			last = n.Record.Message()
		}
		lib.Fatal("last log message: %s\n"+"faultless store committed nothing for %s (%s cache, %d PUTs seen so far, %d evaluations)", c.Tree.Canon(), c.Cache, srv.puts, srv.gets)
	}
	if c.Off < 0 || c.Off > len(entry) {
		return "", "n/a", nil
	}
	switch c.Fault {
	case "body-aborted", "body-short":
		srv.getMode, srv.getOff = c.Fault, c.Off
	case "output-cut-exit1":
		retrieveCmd = fmt.Sprintf("head -c %d %s; exit 1", c.Off, sq(kf))
	case "output-cut-exit0":
		// the transfer ends early but the last stage of the command succeeds (a pipeline, a backend serving a short object)
		retrieveCmd = fmt.Sprintf("head -c %d %s", c.Off, sq(kf))
	default:
		lib.Fatal("unknown retrieve fault %q", c.Fault)
	}
	emptyDir(outDir)
	before := srv.gets
	hit := theCache(c, storeCmd, retrieveCmd).Retrieve(target, key, outs)
	srv.getMode = ""
	if c.Cache == "http" && srv.gets != before+1 {
		lib.Fatal("the retrieve did not reach the server (%d requests)", srv.gets-before)
	}
	if c.Cache == "cmd" {
		procs += 2
	}
	got, err := tree.Read(outDir)
	must(err)
	if !hit {
		retrieveFaultMiss++
		return "", "", got
	}
	if d := coarse(want, got); d != "" {
		return pfx + "hit-with-" + diffName[d], fmt.Sprintf("the entry is %d bytes; the transfer was cut after %d bytes (%s); Retrieve reported a hit with %s; the stored outputs were %s", len(entry), c.Off, c.Fault, got.Canon(), want.Canon()), got
	}
	if c.Fault == "output-cut-exit1" {
		return pfx + "hit-although-command-failed", fmt.Sprintf("the retrieve command wrote %d of %d bytes and exited 1; Retrieve reported a hit", c.Off, len(entry)), got
	}
	retrieveFaultCompleteHit++
	return "", "", got
}

func main() {
	runtime.GOMAXPROCS(2) // one case at a time: fewer threads make the uid switches and the goroutine hand-offs cheaper
	r := lib.Start("C13", "fault_enumeration")
	lib.Quiet()
	logMem = logging.InitForTesting(logging.WARNING)
	if r.Replay != "" {
		r.Replay, _ = filepath.Abs(r.Replay)
	}
	if pf := os.Getenv("C13_PROF"); pf != "" {
		f, _ := os.Create(pf)
		pprof.StartCPUProfile(f)
		go func() { time.Sleep(25 * time.Second); pprof.StopCPUProfile(); os.Exit(3) }()
	}
	base := os.Getenv("C13_TMP")
	if st, e := os.Stat("/dev/shm"); base == "" && e == nil && st.IsDir() {
		base = "/dev/shm"
	}
	var err error
	root, err = os.MkdirTemp(base, "verif-c13-")
	must(err)
	root, _ = filepath.EvalSymlinks(root)
	must(os.Chmod(root, 0o755))
	must(os.Chdir(root))
	core.RepoRoot = root
	outDir = filepath.Join(root, "plz-out/gen/p")
	cmdDir = filepath.Join(root, "cmdstore")
	must(os.MkdirAll(outDir, 0o755))
	must(os.MkdirAll(cmdDir, 0o777))
	must(os.Chmod(cmdDir, 0o777))
	target = core.NewBuildTarget(core.NewBuildLabel("p", "t"))
	srv = &server{entries: map[string][]byte{}, putCut: -1}
	ts := httptest.NewServer(srv)
	ts.Config.ErrorLog = nil
	config = core.DefaultConfiguration()
	config.Cache.HTTPURL = cli.URL(ts.URL)
	config.Cache.HTTPWriteable = true
	config.Cache.HTTPRetry = 0
	httpC = cache.VerifNewHTTPCacheC13(config)
	finish := func() {
		ts.Close()
		os.RemoveAll(root)
	}
	r.Assume = []string{
		"HTTP server model: an entry is committed only if the PUT body was read to EOF without error; command model: `cat > key.tmp && mv key.tmp key` (commit by rename after a successful read of stdin to EOF); retrieve command `cat key`",
		"an output 'cannot be read' = it does not exist any more, or open/readdir fails with EACCES (mode 000; the Store call runs with effective uid nobody because the harness is root); read errors in the middle of a file are not injected (no seam on reads)",
		"HTTP retries are disabled (HTTPRetry=0; retry waits are >= 1 s); the client buffers the whole body before sending, so a cut PUT connection never leaves an entry in this server model",
		"after a faulted store: a miss, or a hit whose restored tree equals the declared outputs (entries, kinds, bytes, symlink targets). After a faulted retrieve: a miss (anything may be left in the output directory), or - HTTP only - a hit with the complete tree (a cut inside the gzip trailer loses nothing)",
		"a retrieve command whose output ends early but which exits 0 (output-cut-exit0) must give a miss or a hit with the complete tree, like a short HTTP response",
	}
	if !isRoot {
		r.Assume = append(r.Assume, "harness not running as root: mode 000 is enforced directly")
	}
	if r.Replay != "" {
		var c Case
		lib.LoadReplay(r.Replay, &c)
		class, detail, got := runCase(c)
		c.Got = got
		if class != "" {
			r.Violate(class, c, detail)
		}
		finish()
		r.Finish(lib.Coverage{Evaluations: 1, DistinctNontrivial: 1, Rule: "replay", Samples: []any{c}, Exhaustive: true})
	}

	sp := tree.Space{Names: []string{"a", "b"}, Contents: []string{"", "x"}, Targets: []string{"a"}, MaxDepth: 2, MaxEntries: 3}
	if !r.Quick() {
		sp = tree.Space{Names: []string{"a", "b", "c"}, Contents: []string{"", "x"}, Targets: []string{"a", "../a"}, MaxDepth: 3, MaxEntries: 3}
	}
	var trees []*tree.Node
	for _, t := range sp.Dirs() {
		if t.Entries() > 0 {
			trees = append(trees, t)
		}
	}
	big := tree.Dir(map[string]*tree.Node{"a": tree.File("@70000z1"), "b": tree.Dir(map[string]*tree.Node{"a": tree.File("@3000q"), "b": tree.Link("a")})})
	trees = append(trees, big)

	var evals, nontrivial int
	byFault := map[string]int{}
	var samples lib.Samples
	exhaustive := true
	run := func(c Case) {
		if r.OutOfTime() {
			exhaustive = false
			return
		}
		class, detail, got := runCase(c)
		if detail == "n/a" {
			return
		}
		evals++
		if c.Fault != "none" {
			nontrivial++
		}
		if evals%499 == 1 {
			samples.Add(func() any { return c })
		}
		if class == "" {
			return
		}
		byFault[c.Cache+":"+c.Phase+":"+c.Fault+" -> "+class]++
		if os.Getenv("C13_DEBUG") == c.Fault {
			fmt.Fprintf(os.Stderr, "DEBUG %s %s %s pos=%s tree=%s got=%s\n", c.Cache, c.Fault, c.Decl, c.Pos, c.Tree.Canon(), got.Canon())
		}
		if !r.HasViolation(class) {
			c2, _, _ := runCase(c)
			if c2 != class {
				lib.Fatal("HARNESS-NONDETERMINISM %s: re-run gave %q", class, c2)
			}
			c.Got = got
			r.Violate(class, c, detail)
		} else {
			r.Violate(class, nil, "")
		}
	}
	decls := func(t *tree.Node) []string {
		if fmt.Sprint(outsOf(t, "leaf")) == fmt.Sprint(outsOf(t, "top")) {
			return []string{"top"}
		}
		return []string{"top", "leaf"}
	}
	storeFaults := func(kind string, t *tree.Node, decl string) {
		run(Case{Cache: kind, Phase: "store", Tree: t, Decl: decl, Fault: "none"})
		for _, o := range outsOf(t, decl) {
			run(Case{Cache: kind, Phase: "store", Tree: t, Decl: decl, Fault: "output-missing", Pos: o})
		}
		paths, nodes := positions(t)
		for i, p := range paths {
			switch nodes[i].Kind {
			case "f":
				run(Case{Cache: kind, Phase: "store", Tree: t, Decl: decl, Fault: "file-unreadable", Pos: p})
			case "d":
				run(Case{Cache: kind, Phase: "store", Tree: t, Decl: decl, Fault: "dir-unreadable", Pos: p})
			}
		}
	}
	// HTTP: store faults at every position, then retrieve cuts at every byte offset
	for _, t := range trees {
		for _, decl := range decls(t) {
			storeFaults("http", t, decl)
		}
		if t.Entries() <= 2 || t == big {
			// transport cut of the PUT every 64 bytes (the client buffers the body, so this only exercises the server model)
			for off := 0; off < 400; off += 64 {
				run(Case{Cache: "http", Phase: "store", Tree: t, Decl: "top", Fault: "put-cut", Off: off})
			}
		}
	}
	for ti, t := range trees {
		step := 1
		if t == big {
			step = 7
		} else if r.Quick() && t.Entries() > 2 && ti%16 != 0 {
			continue // quick: every offset for the trees of <=2 entries and every 16th larger one
		}
		for _, f := range []string{"body-short", "body-aborted"} {
			for off := 0; off < 100000; off += step {
				before := evals
				run(Case{Cache: "http", Phase: "retrieve", Tree: t, Decl: "top", Fault: f, Off: off})
				if evals == before {
					break // beyond the entry
				}
			}
		}
	}
	httpEvals := evals
	// command cache (a store case costs 5 processes, a retrieve cut 2): a fixed list of trees in the quick tier
	f, d, l := tree.File, tree.Dir, tree.Link
	type m = map[string]*tree.Node
	cmdTrees := []*tree.Node{
		d(m{"a": f("x")}),
		d(m{"a": f("x"), "b": f("")}),
		d(m{"a": d(m{"a": f("x")})}),
		d(m{"a": d(m{"a": f("x"), "b": f("x")})}),
		d(m{"a": l("a"), "b": f("x")}),
	}
	cutTrees := []*tree.Node{cmdTrees[1], cmdTrees[3]}
	if !r.Quick() {
		for _, t := range trees {
			if t.Entries() <= 2 {
				cmdTrees = append(cmdTrees, t)
			}
		}
		cmdTrees = append(cmdTrees, big)
		cutTrees = append(cutTrees, cmdTrees[0], cmdTrees[2], cmdTrees[4], big)
		for i, t := range trees {
			if t.Entries() == 3 && i%9 == 0 {
				cutTrees = append(cutTrees, t)
			}
		}
	}
	// an entry of an output directory disappears while the store is archiving an earlier, larger file of that directory
	// (only an entry of a directory that has ALREADY been listed: one that disappears before its directory is read was
	// simply not there when the store looked, which is not a failed store)
	run(Case{Cache: "cmd", Phase: "store", Tree: d(m{"d": d(m{"a": f("@1000000z1"), "z": f("x")})}), Decl: "top", Fault: "entry-vanishes-mid-walk", Pos: "d/z", Off: 200000})
	run(Case{Cache: "cmd", Phase: "store", Tree: d(m{"d": d(m{"a": f("@1000000z1"), "m": f("y"), "z": f("x")})}), Decl: "top", Fault: "entry-vanishes-mid-walk", Pos: "d/m", Off: 200000})
	for i, t := range cmdTrees {
		for _, decl := range decls(t) {
			storeFaults("cmd", t, decl)
		}
		if i == 1 || t == big {
			for _, off := range []int{0, 700} {
				run(Case{Cache: "cmd", Phase: "store", Tree: t, Decl: "top", Fault: "command-fails", Off: off})
			}
		}
	}
	for _, t := range cutTrees {
		for blk := 0; blk < 400; blk++ {
			stop := false
			for _, d := range []int{-1, 0, 1} {
				off := blk*512 + d
				if off < 0 || (t == big && blk > 8 && blk < 136 && blk%16 != 0) {
					continue
				}
				before := evals
				run(Case{Cache: "cmd", Phase: "retrieve", Tree: t, Decl: "top", Fault: "output-cut-exit1", Off: off})
				run(Case{Cache: "cmd", Phase: "retrieve", Tree: t, Decl: "top", Fault: "output-cut-exit0", Off: off})
				if evals == before {
					stop = true
					break
				}
			}
			if stop {
				break
			}
		}
	}
	finish()
	r.Finish(lib.Coverage{
		Evaluations:        evals,
		DistinctNontrivial: nontrivial,
		Rule:               "an evaluation = one (cache kind, output tree, declaration, fault kind, fault position / byte offset) executed with the real httpCache / cmdCache; non-trivial = a fault was injected (the faultless store of every tree is the baseline)",
		Samples:            samples.List(),
		Exhaustive:         exhaustive,
		Extra: map[string]any{"trees": len(trees), "http_evaluations": httpEvals, "cmd_evaluations": evals - httpEvals, "processes_spawned_approx": procs,
			"faulted_stores_that_committed_an_entry": storeFaultCommitted, "faulted_or_faultless_stores_that_committed_nothing": storeFaultNothing,
			"faulted_retrieves_reported_as_miss": retrieveFaultMiss, "cut_retrieves_that_still_restored_everything": retrieveFaultCompleteHit,
			"violations_by_fault_kind": byFault, "harness_store_retries": storeRetries,
			"timing_dependent_cmd_faulted_stores_whose_stdin_stream_was_a_complete_archive": cmdStreamWellFormedAfterCancel,
			"faultless_round_trips_that_missed":                                             faultlessMiss, "faultless_miss_example": faultlessMissExample,
			"space": fmt.Sprintf("names %q contents %q symlink targets %q depth<=%d entries<=%d + one tree with a 70 KB file; declarations top|leaf; command cache: store faults on %d trees, retrieve cuts on %d trees",
				sp.Names, sp.Contents, sp.Targets, sp.MaxDepth, sp.MaxEntries, len(cmdTrees), len(cutTrees))},
	})
}

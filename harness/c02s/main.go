// C02 store-discipline tier (run by harness/histcheck for C02): the real build step (mechanically rewritten scheduler,
// as in C04) runs tiny repositories against a recording cache under every schedule within the delay bound. What a cache
// restores is a function of the key, so within one invocation one key may be stored with one content only: two Store
// calls with the same key and different file lists leave the entry's content to the order in which the (asynchronous)
// cache workers happen to finish - a restore is then not "exactly what a build would produce".
//
// Output (stdout): one JSON document.
package main

import (
	"encoding/json"
	"flag"
	"fmt"
	"os"
	"path/filepath"
	"strings"
	"time"

	"github.com/thought-machine/please/verifharness/lib"
	"github.com/thought-machine/please/verifharness/schedh"
	"github.com/thought-machine/please/verifshim/vsched"
)

type Violation struct {
	Class    string          `json:"class"`
	Scenario schedh.Scenario `json:"scenario"`
	Choices  []int           `json:"choices"`
	Newest   bool            `json:"newest_first"`
	Detail   string          `json:"detail"`
}

type Out struct {
	Scenarios   int         `json:"scenarios"`
	Executions  int         `json:"executions"`
	Pruned      int         `json:"pruned"`
	States      int         `json:"states"`
	Transitions int         `json:"transitions"`
	Incomplete  int         `json:"incomplete"`
	Bound       int         `json:"bound"`
	Stores      int         `json:"store_calls_observed"`
	Violations  []Violation `json:"violations"`
}

func rule(name string, deps ...string) string {
	d := ""
	for _, x := range deps {
		d += fmt.Sprintf("%q, ", x)
	}
	return fmt.Sprintf("build_rule(name=%q, cmd=\"FAKE\", outs=[%q], deps=[%s], visibility=[\"PUBLIC\"])\n", name, name+".out", d)
}

func scenarios() []schedh.Scenario {
	pbNoop := "def _pb(name, output):\n    pass\n"
	pbDep := "def _pb(name, output):\n    build_rule(name=\"h\", cmd=\"FAKE\", outs=[\"h.out\"])\n    add_dep(\"a\", \":h\")\n"
	g := "build_rule(name=\"g\", cmd=\"FAKE\", outs=[\"g.out\"], post_build=_pb)\n"
	return []schedh.Scenario{
		{Name: "chain2", Files: map[string]string{"p/BUILD": rule("a", ":b") + rule("b")}, Targets: []string{"//p:a"}, Threads: 2},
		{Name: "postbuild-does-nothing", Files: map[string]string{"p/BUILD": pbNoop + g + rule("a", ":g")}, Targets: []string{"//p:a"}, Threads: 2},
		{Name: "postbuild-adds-dependency", Files: map[string]string{"p/BUILD": pbDep + g + rule("a", ":g")}, Targets: []string{"//p:a"}, Threads: 2},
		{Name: "two-postbuilds", Files: map[string]string{"p/BUILD": pbNoop + g + "build_rule(name=\"k\", cmd=\"FAKE\", outs=[\"k.out\"], post_build=_pb)\n" + rule("a", ":g", ":k")}, Targets: []string{"//p:a"}, Threads: 2},
	}
}

// judge: one key, one content.
func judge(obs *schedh.Obs) (string, string) {
	byKey := map[string]schedh.StoreRec{}
	for _, s := range obs.Stores {
		k := s.Label + " " + s.Key
		if p, ok := byKey[k]; ok && strings.Join(p.Files, ",") != strings.Join(s.Files, ",") {
			return "cache:one-key-stored-with-different-contents", fmt.Sprintf("%s was stored twice under key %s in one invocation, once with files %v and once with %v: which of the two a later build restores depends on the order in which the cache workers finish", s.Label, s.Key, p.Files, s.Files)
		}
		byKey[k] = s
	}
	return "", ""
}

func main() {
	bound := flag.Int("bound", 1, "delay bound")
	replay := flag.String("replay", "", "JSON file with one Violation to replay")
	budget := flag.Duration("budget", 3*time.Minute, "")
	flag.Parse()
	lib.Quiet()
	scratch := filepath.Join(lib.VerifRoot, ".work", "sched")
	if fi, err := os.Stat("/dev/shm"); err == nil && fi.IsDir() {
		scratch = "/dev/shm/verif-sched"
	}
	schedh.Setup(filepath.Join(scratch, fmt.Sprintf("c02s-%d", os.Getpid())))
	defer os.RemoveAll(schedh.Root)
	out := &Out{Bound: *bound}
	deadline := time.Now().Add(*budget)
	stop := func() bool { return time.Now().After(deadline) }
	if *replay != "" {
		var v Violation
		b, _ := os.ReadFile(*replay)
		if err := json.Unmarshal(b, &v); err != nil {
			fmt.Fprintln(os.Stderr, err)
			os.Exit(2)
		}
		schedh.Materialise(v.Scenario)
		var obs schedh.Obs
		vsched.Run(vsched.Options{Prefix: v.Choices, DelayBound: true, NewestFirst: v.Newest}, schedh.Body(v.Scenario, &obs))
		if cls, detail := judge(&obs); cls != "" {
			out.Violations = append(out.Violations, Violation{cls, v.Scenario, v.Choices, v.Newest, detail})
		}
		os.RemoveAll(schedh.Root)
		json.NewEncoder(os.Stdout).Encode(out)
		return
	}
	for _, sc := range scenarios() {
		schedh.Materialise(sc)
		var obs schedh.Obs
		body := schedh.Body(sc, &obs)
		out.Scenarios++
		for _, newest := range []bool{false, true} {
			base := vsched.Options{Bound: *bound, DelayBound: true, NewestFirst: newest}
			st := vsched.ExploreOpt(body, base, true, [][]int{nil}, func(r *vsched.Result) bool {
				out.Stores += len(obs.Stores)
				if r.Status != "ok" {
					return true // scheduling oracles are C04's and C05's business
				}
				if cls, detail := judge(&obs); cls != "" {
					for n := 0; n < 2; n++ {
						var o2 schedh.Obs
						vsched.Run(vsched.Options{Prefix: r.Choices, DelayBound: true, NewestFirst: newest}, schedh.Body(sc, &o2))
						if c2, _ := judge(&o2); c2 != cls {
							fmt.Fprintf(os.Stderr, "HARNESS-NONDETERMINISM: replay of %v on %s gave %q vs %q\n", r.Choices, sc.Name, c2, cls)
							os.Exit(2)
						}
					}
					out.Violations = append(out.Violations, Violation{cls, sc, r.Choices, newest, sc.Name + ": " + detail})
					return false
				}
				return true
			}, stop)
			out.Executions += st.Executions
			out.Pruned += st.Pruned
			out.States += st.States
			out.Transitions += st.Transitions
			if !st.Complete && len(out.Violations) == 0 {
				out.Incomplete++
			}
			if len(out.Violations) > 0 {
				break
			}
		}
	}
	os.RemoveAll(schedh.Root)
	json.NewEncoder(os.Stdout).Encode(out)
}

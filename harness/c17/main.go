// C17: packages cannot observe or mutate each other's values.
// Generated build_defs files export nested values; generated BUILD files try every mutation / reordering path of the
// language on what they import. Packages sharing the subinclude are parsed by ONE real parser (real subinclude()
// builtin, real Subinclude cache) in every order, and with their top-level statements interleaved in every way;
// each package's result (error, targets, globals) must equal what it gets when parsed alone in a fresh interpreter.
package main

import (
	"encoding/json"
	"fmt"
	"os"
	"path/filepath"
	"reflect"
	"runtime"
	"runtime/pprof"
	"sort"
	"strings"
	"sync"
	"sync/atomic"
	"time"

	"github.com/thought-machine/please/rules"
	"github.com/thought-machine/please/src/core"
	"github.com/thought-machine/please/src/parse/asp"
	"github.com/thought-machine/please/verifharness/lib"
)

// ---------- generated inputs ----------

type defsT struct {
	Name   string `json:"name"`
	Shape  string `json:"shape"`
	X      string `json:"x"`
	inner  string // expression reaching the nested container ("" if none)
	topK   byte   // 'l' list, 'd' dict
	innerK byte   // 'l', 'd' or 0
}

var defsList = []defsT{
	{Name: "d0", Shape: "list-of-lists", X: `[[3, 1, 2], [4]]`, inner: `X[0]`, topK: 'l', innerK: 'l'},
	{Name: "d1", Shape: "dict-of-lists", X: `{"k": [3, 1, 2]}`, inner: `X["k"]`, topK: 'd', innerK: 'l'},
	{Name: "d2", Shape: "list-of-dicts", X: `[{"a": 1}]`, inner: `X[0]`, topK: 'l', innerK: 'd'},
	{Name: "d3", Shape: "dict-of-dicts", X: `{"a": {"a": 1}}`, inner: `X["a"]`, topK: 'd', innerK: 'd'},
	{Name: "d4", Shape: "flat-list", X: `[3, 1, 2]`, topK: 'l'},
	{Name: "d5", Shape: "flat-dict", X: `{"a": 1}`, topK: 'd'},
	{Name: "d6", Shape: "list-of-list-of-lists", X: `[[[3, 1, 2]]]`, inner: `X[0][0]`, topK: 'l', innerK: 'l'},
	// a flat list whose backing array has spare capacity (built by appending): `X + [...]` must still not write into it
	{Name: "d7", Shape: "flat-list-with-spare-capacity", X: `[x for x in [3, 1, 2, 5, 6] if x < 5]`, topK: 'l'},
}

func (d defsT) text() string {
	return "X = " + d.X + "\n" +
		"def getx():\n    return X\n" +
		"def lit():\n    return [3, 1, 2]\n" +
		"def dflt(l = [3, 1, 2]):\n    return l\n" +
		"CONFIG.setdefault(\"C17_LIST\", [3, 1, 2])\n"
}

// A mutator is a BUILD-file fragment that tries one way of changing / reordering a value it did not create.
type mutator struct {
	Name string
	Code string
	loc  string // which shared object it goes for
	expr string // the expression reaching it
	kind byte   // 'l' / 'd'
	path string // how it tries to change it
}

func withLoc(ms []mutator, loc, expr string, kind byte) []mutator {
	for i := range ms {
		ms[i].loc, ms[i].expr, ms[i].kind = loc, expr, kind
		ms[i].path = strings.TrimPrefix(ms[i].Name, loc+":")
	}
	return ms
}

func listMutators(where, e string) []mutator {
	p := where + ":"
	return withLoc([]mutator{
		{Name: p + "index-assign-through-alias", Code: "y = " + e + "\ny[0] = 9\n"},
		{Name: p + "index-augassign-through-alias", Code: "y = " + e + "\ny[0] += [9]\n"},
		{Name: p + "sorted", Code: "y = sorted(" + e + ")\n"},
		{Name: p + "sorted-reverse", Code: "y = sorted(" + e + ", reverse = True)\n"},
		{Name: p + "reversed", Code: "y = reversed(" + e + ")\n"},
		{Name: p + "augassign-rebinding", Code: "y = " + e + "\ny += [7]\n"},
		{Name: p + "add-empty-then-index-assign", Code: "y = " + e + " + []\ny[0] = 9\n"},
		{Name: p + "add-nonempty-keep-result-7", Code: "y = " + e + " + [7]\n"},
		{Name: p + "add-nonempty-keep-result-8", Code: "y = " + e + " + [8]\n"},
		{Name: p + "full-slice-then-index-assign", Code: "y = " + e + "[:]\ny[0] = 9\n"},
		{Name: p + "prefix-slice-then-add", Code: "y = " + e + "[:1]\nz = y + [9]\n"},
		{Name: p + "repeat-1-then-index-assign", Code: "y = " + e + " * 1\ny[0] = 9\n"},
		{Name: p + "function-argument-index-assign", Code: "def mut(l):\n    l[0] = 9\nmut(" + e + ")\n"},
		{Name: p + "loop-variable-index-assign", Code: "for y in [" + e + "]:\n    y[0] = 9\n"},
		{Name: p + "comprehension-element-index-assign", Code: "y = [e for e in [" + e + "]][0]\ny[0] = 9\n"},
		{Name: p + "dict-value-index-assign", Code: "d = {\"k\": " + e + "}\ny = d[\"k\"]\ny[0] = 9\n"},
		{Name: p + "filter-then-index-assign", Code: "y = filter(lambda e: True, " + e + ")\ny[0] = 9\n"},
	}, where, e, 'l')
}

func dictMutators(where, e string) []mutator {
	p := where + ":"
	return withLoc([]mutator{
		{Name: p + "index-assign-new-key-through-alias", Code: "y = " + e + "\ny[\"z\"] = 9\n"},
		{Name: p + "index-assign-existing-key-through-alias", Code: "y = " + e + "\ny[\"a\"] = 9\n"},
		{Name: p + "setdefault", Code: "y = " + e + "\nv = y.setdefault(\"z\", 9)\n"},
		{Name: p + "union", Code: "y = " + e + " | {\"z\": 9}\n"},
		{Name: p + "copy-then-index-assign", Code: "y = " + e + ".copy()\ny[\"z\"] = 9\n"},
		{Name: p + "union-with-empty-then-index-assign", Code: "y = " + e + " | {}\ny[\"z\"] = 9\n"},
		{Name: p + "union-with-empty-then-overwrite", Code: "y = " + e + " | {}\ny[\"a\"] = 9\n"},
		{Name: p + "empty-union-with-it-then-index-assign", Code: "y = {} | " + e + "\ny[\"z\"] = 9\n"},
		{Name: p + "union-with-itself-then-index-assign", Code: "y = " + e + " | " + e + "\ny[\"z\"] = 9\n"},
		{Name: p + "union-then-index-assign", Code: "y = " + e + " | {\"q\": 1}\ny[\"z\"] = 9\n"},
		{Name: p + "dict-comprehension-then-index-assign", Code: "y = {k: v for k, v in " + e + ".items()}\ny[\"z\"] = 9\n"},
		{Name: p + "items-element-index-assign", Code: "for kv in " + e + ".items():\n    kv[0] = 9\n"},
		{Name: p + "function-argument-index-assign", Code: "def mut(m):\n    m[\"z\"] = 9\nmut(" + e + ")\n"},
		{Name: p + "loop-variable-index-assign", Code: "for y in [" + e + "]:\n    y[\"z\"] = 9\n"},
	}, where, e, 'd')
}

func mutatorsFor(d defsT) []mutator {
	ms := []mutator{{Name: "none"}}
	if d.topK == 'l' {
		ms = append(ms, listMutators("exported-list", "X")...)
		ms = append(ms, listMutators("exported-list-via-function", "getx()")...)
	} else {
		ms = append(ms, dictMutators("exported-dict", "X")...)
	}
	switch d.innerK {
	case 'l':
		ms = append(ms, listMutators("list-nested-in-exported-"+d.Shape, d.inner)...)
		if d.topK == 'l' {
			ms = append(ms, withLoc([]mutator{{Name: "list-nested-in-exported-" + d.Shape + ":iterate-and-index-assign", Code: "for y in X:\n    y[0] = 9\n"}}, "list-nested-in-exported-"+d.Shape, d.inner, 'l')...)
		} else {
			ms = append(ms, withLoc([]mutator{{Name: "list-nested-in-exported-" + d.Shape + ":values-then-index-assign", Code: "y = X.values()[0]\ny[0] = 9\n"}}, "list-nested-in-exported-"+d.Shape, d.inner, 'l')...)
		}
	case 'd':
		ms = append(ms, dictMutators("dict-nested-in-exported-"+d.Shape, d.inner)...)
	}
	if d.Name == "d4" { // value-independent paths: once is enough
		ms = append(ms, listMutators("list-literal-returned-by-build_defs-function", "lit()")...)
		ms = append(ms, listMutators("list-literal-default-argument-of-build_defs-function", "dflt()")...)
		ms = append(ms, listMutators("list-in-CONFIG-set-by-build_defs", "CONFIG.C17_LIST")...)
		ms = append(ms, listMutators("list-in-CONFIG-from-plzconfig", "CONFIG.BUILD_FILE_NAMES")...)
		ms = append(ms, mutator{Name: "CONFIG:index-assign", Code: "CONFIG[\"C17_LIST\"] = [0]\n", loc: "CONFIG", path: "index-assign"})
		ms = append(ms, mutator{Name: "CONFIG:setdefault-new-key", Code: "CONFIG.setdefault(\"C17_NEW\", [0])\n", loc: "CONFIG", path: "setdefault-new-key"})
		ms = append(ms, mutator{Name: "global-rebinding", Code: "X = [0]\n", loc: "package-global", path: "rebinding"})
		ms = append(ms, mutator{Name: "function-rebinding", Code: "def lit():\n    return [0]\n", loc: "package-global", path: "function-rebinding"})
	}
	return ms
}

const epilogue = "build_rule(name = \"t\", cmd = json([X, getx(), lit(), dflt(), CONFIG.C17_LIST, CONFIG.BUILD_FILE_NAMES, CONFIG.get(\"C17_NEW\")]), labels = [str(len(X))])\n"

func pkgCode(d defsT, m mutator) string {
	return "subinclude(\"//defs:" + d.Name + "\")\n" + m.Code + epilogue
}

// ---------- one world: fresh state + parser + graph with the subinclude target already built ----------

var builtinsSrc []byte

// A base is a build state whose graph already holds the built subinclude targets. Creating a BuildState costs
// milliseconds, so one is reused for many scenarios: every scenario gets a FRESH parser/interpreter (fresh subinclude
// cache, fresh CONFIG object) and package names never used before on that state; the state itself only accumulates
// the scenario's targets. It is replaced regularly.
type base struct {
	state *core.BuildState
	seq   int
}

var sharedConfig = func() *core.Configuration {
	c := core.DefaultConfiguration()
	c.Parse.BuildFileName = []string{"BUILD", "BUILD.plz"} // what reading any .plzconfig leaves there; CONFIG.BUILD_FILE_NAMES
	return c
}()

func newBase() *base {
	state := core.NewBuildState(sharedConfig)
	pkg := core.NewPackage("defs")
	for _, d := range defsList {
		t := core.NewBuildTarget(core.NewBuildLabel("defs", d.Name))
		t.AddOutput(d.Name + ".build_defs")
		t.Visibility = core.WholeGraph
		t.SetState(core.Built)
		pkg.AddTarget(t)
		state.Graph.AddTarget(t)
	}
	state.Graph.AddPackage(pkg)
	return &base{state: state}
}

var basePool chan *base

func initBases(n int) {
	basePool = make(chan *base, n)
	for i := 0; i < n; i++ {
		basePool <- newBase()
	}
}

type world struct {
	b      *base
	p      *asp.Parser
	prefix string
}

func newWorld() *world {
	b := <-basePool
	if b.seq >= 3000 {
		b = newBase()
	}
	b.seq++
	p := asp.NewParser(b.state)
	p.MustLoadBuiltins("builtins.build_defs", builtinsSrc)
	return &world{b, p, fmt.Sprintf("q%d", b.seq)}
}

func (w *world) release() { basePool <- w.b }

func (w *world) pkgName(i int) string { return w.prefix + string(rune('a'+i)) }

// normErr removes the scenario-specific package names from an error text.
func (w *world) normErr(err error) string {
	return strings.ReplaceAll(firstLine(err.Error()), w.prefix, "PKG")
}

// obs is what a package produced.
type obs struct {
	Err     string         `json:"err,omitempty"`
	Targets []string       `json:"targets,omitempty"`
	Globals map[string]any `json:"globals,omitempty"`
}

func firstLine(s string) string {
	if i := strings.IndexByte(s, '\n'); i >= 0 {
		return s[:i]
	}
	return s
}

func targetsOf(pkg *core.Package) []string {
	var out []string
	for _, t := range pkg.AllTargets() {
		labels := append([]string{}, t.Labels...)
		sort.Strings(labels)
		out = append(out, fmt.Sprintf("%s cmd=%s labels=%v", t.Label.Name, t.Command, labels))
	}
	sort.Strings(out)
	return out
}


// runSchedule parses the packages in one world. schedule lists package indexes, one entry per top-level statement
// step; nil means "whole packages in the given order" through the ordinary whole-file entry point.
func runSchedule(codes []string, schedule []int) []obs {
	w := newWorld()
	defer w.release()
	n := len(codes)
	out := make([]obs, n)
	pkgs := make([]*core.Package, n)
	for i := range codes {
		pkgs[i] = core.NewPackage(w.pkgName(i))
	}
	if schedule == nil {
		globals := make([]map[string]any, n)
		for i, code := range codes {
			g, err := asp.VerifEvalBuildC16(w.p, pkgs[i], code)
			if err != nil {
				out[i].Err = w.normErr(err)
			}
			globals[i] = g
		}
		for i := range codes {
			out[i].Targets = targetsOf(pkgs[i])
			out[i].Globals = globals[i] // the converter ran at the end of that package's parse...
		}
		return out
	}
	runs := make([]*asp.VerifPkgRunC17, n)
	next := make([]int, n)
	for i, code := range codes {
		r, err := asp.VerifStartPackageC17(w.p, pkgs[i], code)
		if err != nil {
			out[i].Err = w.normErr(err)
			continue
		}
		runs[i] = r
	}
	for _, i := range schedule {
		if runs[i] == nil || out[i].Err != "" || next[i] >= runs[i].Len() {
			continue
		}
		if err := runs[i].Step(next[i]); err != nil {
			out[i].Err = w.normErr(err)
		}
		next[i]++
	}
	for i := range codes {
		out[i].Targets = targetsOf(pkgs[i])
		if runs[i] != nil && out[i].Err == "" {
			out[i].Globals = runs[i].Globals() // ...here it runs after everything: later packages may have changed them
		}
	}
	return out
}

// wholeOrder makes the stepping schedule equivalent to parsing whole packages in order (used so that globals are
// read at the very end for every package).
func wholeOrder(lens []int, order []int) []int {
	var s []int
	for _, i := range order {
		for k := 0; k < lens[i]; k++ {
			s = append(s, i)
		}
	}
	return s
}

func sameObs(a, b obs) (bool, string) {
	if a.Err != b.Err {
		return false, fmt.Sprintf("error %q vs alone %q", a.Err, b.Err)
	}
	if !reflect.DeepEqual(a.Targets, b.Targets) {
		return false, fmt.Sprintf("targets %v vs alone %v", a.Targets, b.Targets)
	}
	if a.Err == "" && !reflect.DeepEqual(a.Globals, b.Globals) {
		ja, _ := json.Marshal(a.Globals)
		jb, _ := json.Marshal(b.Globals)
		return false, fmt.Sprintf("values after all parsing %s vs alone %s", ja, jb)
	}
	return true, ""
}

// ---------- scenarios ----------

type witness struct {
	Defs     string   `json:"build_defs"`
	Packages []string `json:"packages"`
	Schedule []int    `json:"schedule"` // package index per top-level statement step
	Victim   int      `json:"victim"`
	Mutators []string `json:"mutators"`
	Shape    string   `json:"shape"`
}

var stmtCount sync.Map // code -> number of top-level statements

func numStmts(code string) int {
	if v, ok := stmtCount.Load(code); ok {
		return v.(int)
	}
	w := newWorld()
	defer w.release()
	r, err := asp.VerifStartPackageC17(w.p, core.NewPackage(w.pkgName(0)), code)
	n := 0
	if err == nil {
		n = r.Len()
	}
	stmtCount.Store(code, n)
	return n
}

var soloCache sync.Map // code -> obs

func solo(code string) obs {
	if v, ok := soloCache.Load(code); ok {
		return v.(obs)
	}
	o := runSchedule([]string{code}, wholeOrder([]int{numStmts(code)}, []int{0}))[0]
	o2 := runSchedule([]string{code}, wholeOrder([]int{numStmts(code)}, []int{0}))[0]
	if ok, why := sameObs(o, o2); !ok {
		lib.Fatal("HARNESS-NONDETERMINISM: a package parsed alone twice differs: %s\n%s", why, code)
	}
	// the ordinary whole-file entry point must agree with statement stepping
	o3 := runSchedule([]string{code}, nil)[0]
	if ok, why := sameObs(o3, o); !ok {
		lib.Fatal("HARNESS: stepping a package statement by statement differs from parsing it whole: %s\n%s", why, code)
	}
	soloCache.Store(code, o)
	return o
}

// interleavings enumerates all merges of sequences of the given lengths.
func interleavings(lens []int, emit func([]int)) {
	total := 0
	for _, l := range lens {
		total += l
	}
	cur := make([]int, 0, total)
	left := append([]int{}, lens...)
	var rec func()
	rec = func() {
		if len(cur) == total {
			emit(append([]int{}, cur...))
			return
		}
		for i := range left {
			if left[i] > 0 {
				left[i]--
				cur = append(cur, i)
				rec()
				cur = cur[:len(cur)-1]
				left[i]++
			}
		}
	}
	rec()
}

func isWhole(s []int) bool { // no package resumes after another one started in between
	seen := map[int]bool{}
	last := -1
	for _, i := range s {
		if i != last {
			if seen[i] {
				return false
			}
			seen[i] = true
			last = i
		}
	}
	return true
}

type job struct {
	d    defsT
	ms   []mutator
	tier string // "orders" or "interleavings"
}

type result struct {
	class   string
	w       witness
	detail  string
	size    int
	evals   int
	states  int
	steps   int
	nontriv bool
}

var culprit sync.Map // mutator name -> class, learnt from the whole-order tier

var protCache sync.Map

// protected probes (on the real interpreter, in a package parsed alone) whether the object a mutator goes for rejects
// direct assignment, i.e. is a frozen wrapper. It only chooses the NAME of a class, never a verdict.
func protected(d defsT, m mutator) bool {
	key := d.Name + "|" + m.expr
	if v, ok := protCache.Load(key); ok {
		return v.(bool)
	}
	probe := "y = " + m.expr + "\ny[0] = 9\n"
	if m.kind == 'd' {
		probe = "y = " + m.expr + "\ny[\"zz\"] = 9\n"
	}
	code := "subinclude(\"//defs:" + d.Name + "\")\n" + probe
	o := runSchedule([]string{code}, nil)[0]
	p := strings.Contains(o.Err, "immutable")
	protCache.Store(key, p)
	return p
}

// classOf names the root cause: a frozen object defeated through a particular path, or a mutable object that is simply
// shared between packages (then every mutation path works and the path is not part of the class).
func classOf(d defsT, m mutator) string {
	if m.expr == "" {
		return "leak:" + m.Name
	}
	kind := "list"
	if m.kind == 'd' {
		kind = "dict"
	}
	if protected(d, m) {
		return "leak:frozen-" + kind + ":" + m.path
	}
	where := m.loc
	switch {
	case strings.Contains(m.loc, "-nested-in-exported-"):
		where = "nested-in-exported-list"
		if d.topK == 'd' {
			where = "nested-in-exported-dict"
		}
	case strings.HasPrefix(m.loc, "exported-"):
		where = "exported-value-itself"
	}
	return "leak:shared-mutable-" + kind + ":" + where
}

func runJob(j job) (res []result, evals, states, steps int, nontrivial int) {
	codes := make([]string, len(j.ms))
	lens := make([]int, len(j.ms))
	solos := make([]obs, len(j.ms))
	names := make([]string, len(j.ms))
	for i, m := range j.ms {
		codes[i] = pkgCode(j.d, m)
		lens[i] = numStmts(codes[i])
		solos[i] = solo(codes[i])
		names[i] = m.Name
	}
	check := func(schedule []int) {
		out := runSchedule(codes, schedule)
		evals++
		states++
		steps += len(schedule)
		bad := -1
		why := ""
		for i := range codes {
			if ok, w := sameObs(out[i], solos[i]); !ok {
				bad, why = i, w
				break
			}
		}
		if bad < 0 {
			return
		}
		// reproduce
		out2 := runSchedule(codes, schedule)
		if ok, _ := sameObs(out2[bad], out[bad]); !ok {
			lib.Fatal("HARNESS-NONDETERMINISM: schedule %v over %v", schedule, names)
		}
		// which other package's mutator is responsible?
		var others []string
		for i, m := range j.ms {
			if i != bad && m.Name != "none" {
				others = append(others, m.Name)
			}
		}
		class := ""
		if len(others) == 0 {
			class = "differs-although-no-other-package-mutates:" + names[bad]
		} else if len(others) == 1 {
			var om mutator
			for i, m := range j.ms {
				if i != bad && m.Name != "none" {
					om = m
				}
			}
			class = classOf(j.d, om)
			if !isWhole(schedule) {
				// only an interleaving shows it? then the sequential tier has no record of this culprit
				if _, known := culprit.Load(others[0]); !known {
					class = "only-when-interleaved:" + class
				}
			} else {
				culprit.Store(others[0], class)
			}
		} else {
			for _, o := range others {
				if c, ok := culprit.Load(o); ok {
					class = c.(string)
					break
				}
			}
			if class == "" {
				class = "leak-needs-combination:" + strings.Join(others, "+")
			}
		}
		size := 0
		for _, c := range codes {
			size += len(c)
		}
		res = append(res, result{class: class, size: size*1000 + len(schedule),
			w:      witness{Defs: j.d.text(), Packages: codes, Schedule: schedule, Victim: bad, Mutators: names, Shape: j.d.Shape},
			detail: fmt.Sprintf("shape %s, packages %v, schedule %v: package #%d (%s) differs from being parsed alone: %s", j.d.Shape, names, schedule, bad, names[bad], why)})
	}
	idx := make([]int, len(j.ms))
	for i := range idx {
		idx[i] = i
	}
	if j.tier == "orders" {
		// the given order only: the caller enumerates all ordered tuples
		check(wholeOrder(lens, idx))
	} else {
		interleavings(lens, func(s []int) {
			if !isWhole(s) { // whole orders belong to the other tier
				check(s)
			}
		})
	}
	for _, m := range j.ms {
		if m.Name != "none" {
			nontrivial = 1
		}
	}
	return
}

func main() {
	r := lib.Start("C17", "model_checking")
	lib.Quiet()
	var err error
	if builtinsSrc, err = rules.ReadAsset("builtins.build_defs"); err != nil {
		lib.Fatal("builtins: %s", err)
	}
	initBases(runtime.NumCPU() + 2)
	dir, err := os.MkdirTemp("", "c17-")
	if err != nil {
		lib.Fatal("tmp: %s", err)
	}
	defer os.RemoveAll(dir)
	gen := filepath.Join(dir, "plz-out", "gen", "defs")
	os.MkdirAll(gen, 0o755)
	for _, d := range defsList {
		if err := os.WriteFile(filepath.Join(gen, d.Name+".build_defs"), []byte(d.text()), 0o644); err != nil {
			lib.Fatal("write defs: %s", err)
		}
	}
	if err := os.Chdir(dir); err != nil {
		lib.Fatal("chdir: %s", err)
	}
	core.RepoRoot = dir

	if os.Getenv("VERIF_C17_BENCH") != "" {
		c := pkgCode(defsList[0], mutator{Name: "none"})
		pf, _ := os.Create("/tmp/c17.prof")
		pprof.StartCPUProfile(pf)
		defer pprof.StopCPUProfile()
		t := time.Now()
		for i := 0; i < 500; i++ {
			runSchedule([]string{c, c}, []int{0, 0, 1, 1})
		}
		fmt.Printf("runSchedule(2 pkgs): %v each\n", time.Since(t)/500)
		pprof.StopCPUProfile()
		t = time.Now()
		for i := 0; i < 500; i++ {
			w := newWorld()
			w.release()
		}
		fmt.Printf("newWorld (parser+builtins): %v each\n", time.Since(t)/500)
		t = time.Now()
		st := core.NewBuildState(sharedConfig)
		for i := 0; i < 500; i++ {
			asp.NewParser(st)
		}
		fmt.Printf("NewParser: %v each\n", time.Since(t)/500)
		os.Exit(0)
	}
	if r.Replay != "" {
		var w witness
		lib.LoadReplay(r.Replay, &w)
		// the defs file of the witness replaces d0's
		os.WriteFile(filepath.Join(gen, "replay.build_defs"), []byte(w.Defs), 0o644)
		defsList = append(defsList, defsT{Name: "replay"})
		initBases(2) // again: the graph must know the replay target
		codes := make([]string, len(w.Packages))
		for i, c := range w.Packages {
			j := strings.Index(c, "\n")
			codes[i] = "subinclude(\"//defs:replay\")" + c[j:]
		}
		out := runSchedule(codes, w.Schedule)
		for i, c := range codes {
			s := runSchedule([]string{c}, wholeOrder([]int{numStmts(c)}, []int{0}))[0]
			if ok, why := sameObs(out[i], s); !ok {
				r.Violate("replay", w, fmt.Sprintf("package #%d differs from being parsed alone: %s", i, why))
			}
		}
		os.Chdir("/")
		os.RemoveAll(dir)
		r.Finish(lib.Coverage{Evaluations: 1, DistinctNontrivial: 1, Rule: "replay", Samples: []any{w}, States: 1, Transitions: len(w.Schedule), TracesValidated: 1, Exhaustive: true})
	}

	// sanity: the generated defs must load and the observer must produce a target
	for _, d := range defsList {
		o := solo(pkgCode(d, mutator{Name: "none"}))
		if o.Err != "" || len(o.Targets) != 1 {
			lib.Fatal("HARNESS: the plain observer package does not parse for %s: %+v", d.Name, o)
		}
	}

	// job list, simplest first. "core" mutators = the paths that differ in mechanism (the rest are syntactic variants
	// of index-assignment); the reduced sets keep the deeper tiers affordable.
	corePaths := map[string]bool{"index-assign-through-alias": true, "sorted": true, "reversed": true, "add-empty-then-index-assign": true,
		"full-slice-then-index-assign": true, "prefix-slice-then-add": true, "function-argument-index-assign": true, "augassign-rebinding": true,
		"index-assign-new-key-through-alias": true, "index-assign-existing-key-through-alias": true, "setdefault": true, "union": true,
		"iterate-and-index-assign": true, "values-then-index-assign": true}
	core := func(ms []mutator) []mutator {
		out := []mutator{}
		for _, m := range ms {
			if m.Name == "none" || m.expr == "" || corePaths[m.path] {
				out = append(out, m)
			}
		}
		return out
	}
	full := map[string][]mutator{}
	for _, d := range defsList {
		ms := mutatorsFor(d)
		if r.Quick() && d.Name == "d4" { // quick: the value-independent locations (function literals, CONFIG) with the core paths only
			keep := []mutator{}
			for _, m := range ms {
				if m.Name == "none" || m.expr == "" || strings.HasPrefix(m.loc, "exported-") || corePaths[m.path] {
					keep = append(keep, m)
				}
			}
			ms = keep
		}
		full[d.Name] = ms
	}
	var jobs []job
	mutCount := 0
	for _, d := range defsList {
		ms := full[d.Name]
		mutCount += len(ms) - 1
		for _, a := range ms { // ordered pairs, all orders
			for _, b := range ms {
				jobs = append(jobs, job{d, []mutator{a, b}, "orders"})
			}
		}
	}
	pairJobs := len(jobs)
	for _, d := range defsList {
		ms := full[d.Name]
		none := ms[0]
		for _, a := range ms[1:] { // mutator interleaved with a pure observer
			jobs = append(jobs, job{d, []mutator{a, none}, "interleavings"})
		}
	}
	if !r.Quick() {
		for _, d := range defsList { // every pair of core mutators, all statement interleavings
			ms := core(full[d.Name])
			for _, a := range ms[1:] {
				for _, b := range ms[1:] {
					jobs = append(jobs, job{d, []mutator{a, b}, "interleavings"})
				}
			}
		}
		for _, d := range defsList { // ordered triples of core mutators
			ms := core(full[d.Name])
			for _, a := range ms {
				for _, b := range ms {
					for _, c := range ms {
						jobs = append(jobs, job{d, []mutator{a, b, c}, "orders"})
					}
				}
			}
		}
	}

	type rec struct {
		count int
		best  result
	}
	classes := map[string]*rec{}
	var mu sync.Mutex
	var evals, states, steps, nontriv int64
	var samples lib.Samples
	exhaustive := true
	// the pair tier first and completely (it teaches which mutator is a culprit), then the rest
	runRange := func(lo, hi int) {
		var next int64 = int64(lo)
		var wg sync.WaitGroup
		for w := 0; w < runtime.NumCPU(); w++ {
			wg.Add(1)
			go func() {
				defer wg.Done()
				for {
					i := int(atomic.AddInt64(&next, 1)) - 1
					if i >= hi || r.OutOfTime() {
						return
					}
					res, e, s, st, nt := runJob(jobs[i])
					atomic.AddInt64(&evals, int64(e))
					atomic.AddInt64(&states, int64(s))
					atomic.AddInt64(&steps, int64(st))
					atomic.AddInt64(&nontriv, int64(nt*e))
					j := jobs[i]
					if i%97 == 0 {
						samples.Add(func() any {
							names := []string{}
							for _, m := range j.ms {
								names = append(names, m.Name)
							}
							return map[string]any{"shape": j.d.Shape, "mutators": names, "tier": j.tier}
						})
					}
					mu.Lock()
					for _, x := range res {
						c := classes[x.class]
						if c == nil {
							classes[x.class] = &rec{1, x}
						} else {
							c.count++
							if x.size < c.best.size {
								c.best = x
							}
						}
					}
					mu.Unlock()
				}
			}()
		}
		wg.Wait()
	}
	runRange(0, pairJobs)
	runRange(pairJobs, len(jobs))
	if r.Capped {
		exhaustive = false
	}
	os.Chdir("/")
	os.RemoveAll(dir)
	names := make([]string, 0, len(classes))
	for c := range classes {
		names = append(names, c)
	}
	sort.Strings(names)
	for _, c := range names {
		x := classes[c]
		r.Violate(c, x.best.w, x.best.detail)
		for i := 1; i < x.count; i++ {
			r.Violate(c, nil, "")
		}
	}
	r.Assume = []string{
		"the subinclude target is placed in the graph already built (state Built, visibility PUBLIC, output under plz-out/gen); everything from the subinclude() builtin onwards is the real code (WaitForBuiltTarget, Subinclude cache, parse+optimise+freeze of the build_defs file)",
		"'at the same time' is explored at the granularity of top-level statements: every interleaving of the packages' top-level statements is executed on one real interpreter (package scopes made by the real interpretAll). Finer-grained preemption inside a statement adds only data races on the same shared objects, which a race detector, not this check, would have to show",
		"a package's result = its error (first line), its targets (name, command, labels) and its global values read after all packages finished (the package scope stays alive for post-build functions)",
		"every package gets a fresh core.Package; one parser/state per scenario; the oracle is the same package parsed alone by a fresh parser (twice, and once through the ordinary whole-file entry point)",
	}
	r.Finish(lib.Coverage{
		Evaluations:        int(evals),
		DistinctNontrivial: int(nontriv),
		Rule:               "a case is one schedule (an order of whole packages, or an interleaving of their top-level statements) of 2-3 generated packages sharing one generated build_defs file; distinct by construction; non-trivial = at least one package attempts a mutation/reordering",
		Samples:            samples.List(),
		States:             int(states),
		Transitions:        int(steps),
		TracesValidated:    int(evals),
		Exhaustive:         exhaustive,
		Extra: map[string]any{
			"build_defs_shapes": len(defsList),
			"mutation_paths":    mutCount,
			"ordered_pair_scenarios": pairJobs,
			"jobs":              len(jobs),
			"tiers":             "quick: all ordered pairs of packages (whole-package orders) + every statement interleaving of each mutator with a pure observer (function-literal/CONFIG locations with the 8 core paths only); thorough: all paths everywhere, additionally every statement interleaving of every pair of core mutators and all ordered triples of core mutators",
		},
	})
}

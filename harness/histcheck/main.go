// histcheck decides the history-quantified properties (C01 C02 C03) with engine E3.
package main

import (
	"crypto/sha256"
	"encoding/hex"
	"encoding/json"
	"flag"
	"fmt"
	"os"
	"os/exec"
	"path/filepath"
	"sort"
	"strings"
	"sync"
	"sync/atomic"

	"github.com/thought-machine/please/verifharness/hist"
	"github.com/thought-machine/please/verifharness/lib"
)

type witness struct {
	Family  string   `json:"family"`
	Threads string   `json:"threads"`
	History []string `json:"history"`
	Config  string   `json:"config,omitempty"`
}

type sigFamily interface {
	hist.Family
	Sigs(s hist.Src, clean *hist.Obs) map[string]string
}

func main() {
	prop := flag.String("prop", "C01", "property")
	onlyFam := flag.String("family", "", "only this family")
	r := lib.Start(os.Getenv("VERIF_ID"), "model_checking")
	r.ID = *prop
	plz := filepath.Join(lib.VerifRoot, ".work", "bin", "plz")
	if p := os.Getenv("VERIF_PLZ"); p != "" {
		plz = p // the driver says which binary it built from the repository under test
	}
	root := filepath.Join(lib.VerifRoot, ".work", "hist", *prop)
	defer os.RemoveAll(root)

	type run struct {
		fam     sigFamily
		depth   int
		config  string
		cacheOn bool
		threads string
	}
	var runs []run
	cacheCfg := func(compress bool) string {
		return fmt.Sprintf("[cache]\ndir = ../cache\ndirclean = false\ndircompress = %v\n", compress)
	}
	noCache := "[cache]\ndir =\n"
	switch *prop {
	case "C01":
		runs = []run{{hist.Chain{Threads: "1"}, 2, noCache, false, "1"}, {hist.Dirs{Threads: "1"}, 2, noCache, false, "1"}, {hist.PreFam{}, 2, noCache, false, "1"}}
		if !r.Quick() {
			runs = []run{{hist.Chain{Threads: "1"}, 3, noCache, false, "1"}, {hist.Dirs{Threads: "1"}, 3, noCache, false, "1"},
				{hist.Chain{Threads: "4"}, 2, noCache, false, "4"}, {hist.Dirs{Threads: "4"}, 2, noCache, false, "4"}, {hist.PreFam{WithRm: true}, 3, noCache, false, "1"}}
		}
	case "C03":
		runs = []run{{hist.Chain{Threads: "1", WithNoop: true}, 2, noCache, false, "1"}, {hist.Dirs{Threads: "1", WithNoop: true}, 2, noCache, false, "1"}, {hist.PreFam{WithNoop: true}, 2, noCache, false, "1"}}
		if !r.Quick() {
			runs = []run{{hist.Chain{Threads: "1", WithNoop: true, WithRm: true}, 3, noCache, false, "1"}, {hist.Dirs{Threads: "1", WithNoop: true, WithRm: true}, 3, noCache, false, "1"},
				{hist.Chain{Threads: "4", WithNoop: true}, 2, noCache, false, "4"}}
		}
	case "C02":
		runs = []run{{hist.Chain{Threads: "1", WithRm: true}, 2, cacheCfg(false), true, "1"}, {hist.Dirs{Threads: "1", WithRm: true}, 2, cacheCfg(true), true, "1"}}
		if !r.Quick() {
			runs = []run{{hist.Chain{Threads: "1", WithRm: true}, 3, cacheCfg(false), true, "1"}, {hist.Chain{Threads: "1", WithRm: true}, 3, cacheCfg(true), true, "1"},
				{hist.Dirs{Threads: "1", WithRm: true}, 3, cacheCfg(false), true, "1"}, {hist.Dirs{Threads: "1", WithRm: true}, 3, cacheCfg(true), true, "1"}}
		}
	default:
		lib.Fatal("unknown prop %s", *prop)
	}

	if r.Replay != "" {
		var probe struct {
			Scenario json.RawMessage `json:"scenario"`
		}
		lib.LoadReplay(r.Replay, &probe)
		if len(probe.Scenario) > 0 { // a schedule of the store-discipline tier
			var raw json.RawMessage
			lib.LoadReplay(r.Replay, &raw)
			tmp := filepath.Join(root, "c02s-replay.json")
			os.MkdirAll(root, 0o755)
			os.WriteFile(tmp, raw, 0o644)
			so := runStoreTier("--replay", tmp)
			for _, v := range so.Violations {
				r.Violate(v.Class, v, v.Detail)
			}
			os.RemoveAll(root)
			r.Finish(lib.Coverage{Evaluations: 1, DistinctNontrivial: 1, States: 1, Transitions: 1, Exhaustive: true})
			return
		}
		var w witness
		lib.LoadReplay(r.Replay, &w)
		replay(r, plz, root, *prop, w)
		return
	}
	var so *storeOut
	if *prop == "C02" && *onlyFam == "" && os.Getenv("VERIF_AUX_C02S") != "" {
		bound, budget := "1", "4m"
		if !r.Quick() {
			bound, budget = "2", "20m"
		}
		so = runStoreTier("--bound", bound, "--budget", budget)
		for _, v := range so.Violations {
			r.Violate(v.Class, v, "[store-discipline tier] "+v.Detail)
		}
	}

	total := hist.Stats{EditKindsHit: map[string]int{}}
	complete := true
	var samples []any
	cleans := 0
	for _, rn := range runs {
		if *onlyFam != "" && rn.fam.Name() != *onlyFam {
			continue
		}
		e := hist.NewEngine(plz, filepath.Join(root, rn.fam.Name()+rn.threads), rn.fam)
		e.CacheOn = rn.cacheOn
		var mu sync.Mutex
		visit := makeVisit(r, e, rn.fam, *prop, rn.config, rn.threads, &mu)
		st := e.BFS(rn.depth, rn.config, visit, r.OutOfTime)
		total.States += st.States
		total.Transitions += st.Transitions
		cleans += int(e.Clean)
		if !st.Complete {
			complete = false
		}
		for k, v := range st.EditKindsHit {
			total.EditKindsHit[k] += v
		}
		for _, s := range st.Samples {
			samples = append(samples, map[string]any{"family": rn.fam.Name(), "threads": rn.threads, "history": s})
		}
		fmt.Fprintf(os.Stderr, "%s %s n=%s depth=%d: states=%d transitions=%d complete=%v\n", *prop, rn.fam.Name(), rn.threads, st.DepthDone, st.States, st.Transitions, st.Complete)
		os.RemoveAll(e.Root)
	}
	r.Assume = []string{
		"plz is run hermetically (env -i, pinned PATH, HOME in the scratch dir, selfupdate off, [cache] dir pinned) as the real binary built from the working tree",
		"state key = source state + plz-out/gen + plz-out/bin (contents, modes, symlink targets, user.* xattrs, metadata files) + cache dir; plz-out/log, plz-out/tmp and lock files are excluded (wiped/ignored by every build)",
		"source files are edited in place (open with O_TRUNC), which keeps hard links from filegroup outputs to sources alive — the more adversarial of the two common editor behaviours",
		"the oracle for every state is a clean build of the same tree in a fresh directory without cache, computed twice on first use (must agree)",
	}
	r.Finish(lib.Coverage{
		Evaluations:        total.Transitions,
		DistinctNontrivial: total.States,
		Rule:               "breadth-first search over all edit histories up to the stated depth from the first build; one transition = one edit (or noop / rm -rf plz-out) + one real `plz build //p:all`; distinct_nontrivial = distinct on-disk states",
		Samples:            samples,
		States:             total.States,
		Transitions:        total.Transitions,
		TracesValidated:    total.Transitions,
		Exhaustive:         complete,
		Extra:              storeExtra(so, map[string]any{"clean_builds_for_oracle": cleans, "edit_kinds_that_changed_state": total.EditKindsHit, "runs": len(runs), "transitions_served_from_cache_after_rm_plz_out": cacheRestores}),
	})
}

// storeOut is what the store-discipline tier (harness/c02s) prints.
type storeOut struct {
	Scenarios   int              `json:"scenarios"`
	Executions  int              `json:"executions"`
	Pruned      int              `json:"pruned"`
	States      int              `json:"states"`
	Transitions int              `json:"transitions"`
	Incomplete  int              `json:"incomplete"`
	Bound       int              `json:"bound"`
	Stores      int              `json:"store_calls_observed"`
	Violations  []storeViolation `json:"violations"`
}

type storeViolation struct {
	Class    string          `json:"class"`
	Scenario json.RawMessage `json:"scenario"`
	Choices  []int           `json:"choices"`
	Newest   bool            `json:"newest_first"`
	Detail   string          `json:"detail"`
}

func runStoreTier(args ...string) *storeOut {
	cmd := exec.Command(os.Getenv("VERIF_AUX_C02S"), args...)
	cmd.Env = append(os.Environ(), "GOMAXPROCS=1", "GOGC=off", "GOMEMLIMIT=2GiB")
	cmd.Stderr = os.Stderr
	b, err := cmd.Output()
	var so storeOut
	if err != nil || json.Unmarshal(b, &so) != nil {
		lib.Fatal("store-discipline tier failed: %v\n%s", err, b)
	}
	return &so
}

func storeExtra(so *storeOut, m map[string]any) map[string]any {
	if so != nil {
		m["store_tier_scenarios"], m["store_tier_executions"], m["store_tier_pruned"] = so.Scenarios, so.Executions, so.Pruned
		m["store_tier_states"], m["store_tier_transitions"], m["store_tier_delay_bound"] = so.States, so.Transitions, so.Bound
		m["store_tier_incomplete_explorations"], m["store_tier_store_calls_observed"] = so.Incomplete, so.Stores
	}
	return m
}

func hashMap(m map[string]string) string {
	h := sha256.New()
	for _, k := range hist.SortedKeys(m) {
		fmt.Fprintf(h, "%s=%s\n", k, m[k])
	}
	return hex.EncodeToString(h.Sum(nil)[:8])
}

var cacheRestores int64

func makeVisit(r *lib.Run, e *hist.Engine, fam sigFamily, prop, config, threads string, mu *sync.Mutex) hist.Visit {
	return func(from *hist.State, ed hist.Edit, obs *hist.Obs, dir string) (any, string) {
		clean := e.CleanObs(ed.Src, "[cache]\ndir =\n")
		var histry []string
		if from != nil {
			histry = append(append(histry, from.Hist...), ed.Name)
		} else {
			histry = []string{"init"}
		}
		w := witness{Family: fam.Name(), Threads: threads, History: histry, Config: config}
		if from == nil && (clean.Exit != 0 || obs.Exit != 0) {
			lib.Fatal("the initial tree of family %s does not build (vacuous scenario):\n%s", fam.Name(), obs.Output)
		}
		if obs.Exit == -9 || clean.Exit == -9 {
			fmt.Fprintf(os.Stderr, "NOTE: horizon (120s) hit on %v — no verdict for this transition\n", histry)
			return nil, ""
		}
		if ed.Pre != nil && e.CacheOn && len(obs.Actions) < len(clean.Actions) {
			atomic.AddInt64(&cacheRestores, 1)
		}
		switch prop {
		case "C01", "C02":
			// stale targets of the predecessor state: a violation is attributed to the transition that INTRODUCES it
			prev := map[string]bool{}
			if from != nil && from.Extra != nil {
				prev = from.Extra.(map[string]bool)
			}
			now := map[string]bool{}
			if clean.Exit == 0 {
				if d := hist.DiffOuts(obs, clean); d != "" {
					var fresh []string
					for _, t := range fam.Targets(ed.Src) {
						if obs.Outs[t.Label] != clean.Outs[t.Label] {
							now[t.Label] = true
							if !prev[t.Label] {
								fresh = append(fresh, t.Label)
							}
						}
					}
					sort.Strings(fresh)
					if obs.Exit != 0 && !prev["#fails"] {
						now["#fails"] = true
						r.Violate(fmt.Sprintf("%s:%s:build-fails", fam.Name(), ed.Kind), w, "incremental build fails where a clean build of the same tree succeeds:\n"+obs.Output)
					} else if len(fresh) > 0 {
						cls := fmt.Sprintf("%s:%s:differs=%s", fam.Name(), ed.Kind, strings.Join(fresh, ","))
						// With a cache, an entry stored under a name-blind directory hash (known C09 defect) can be restored for a
						// tree that differs only in names, many edits later. Such violations carry a marker so that the listed
						// finding never covers a staleness that arises WITHOUT a name-only change earlier in the history.
						if prop == "C02" && ed.Kind != "rename-in-output-dir" && ed.Kind != "output-dir-shape" && ed.Kind != "rename-in-source-dir" {
							for _, h := range histry[:len(histry)-1] {
								if strings.HasPrefix(h, "d_fname=") || strings.HasPrefix(h, "d_extra=") || strings.HasPrefix(h, "s_name=") {
									cls += ":after-name-only-directory-change-in-history"
									break
								}
							}
						}
						var dd []string
						for _, l := range strings.Split(d, "\n") {
							for _, t := range fam.Targets(ed.Src) {
								for _, o := range t.Outs {
									if strings.HasPrefix(l, o) && !prev[t.Label] {
										dd = append(dd, l)
									}
								}
							}
						}
						r.Violate(cls, w, "incremental build differs from a clean build of the same tree:\n"+strings.Join(dd, "\n")+"\nplz output:\n"+obs.Output)
					}
				}
			} else if obs.Exit == 0 {
				r.Violate(fmt.Sprintf("%s:%s:succeeds-where-clean-fails", fam.Name(), ed.Kind), w, "clean build fails but the incremental build succeeds:\n"+clean.Output)
			}
			return now, ""
		case "C03":
			sigs := fam.Sigs(ed.Src, clean)
			last := map[string]string{}
			if from != nil {
				for k, v := range from.Extra.(map[string]string) {
					if _, ok := sigs[k]; ok {
						last[k] = v
					}
				}
			}
			ran := map[string]int{}
			for _, a := range obs.Actions {
				ran[a]++
			}
			for t, n := range ran {
				may := last[t] != sigs[t] || ed.Pre != nil || from == nil
				if !may {
					cls := fmt.Sprintf("%s:%s:reran=%s", fam.Name(), ed.Kind, t)
					r.Violate(cls, w, fmt.Sprintf("%s ran although neither its definition nor the content of its inputs changed since it last ran\nactions this build: %v", t, obs.Actions))
				}
				if n > 1 {
					r.Violate(fmt.Sprintf("%s:%s:ran-twice=%s", fam.Name(), ed.Kind, t), w, fmt.Sprintf("actions: %v", obs.Actions))
				}
				if obs.Exit == 0 {
					last[t] = sigs[t]
				} else {
					delete(last, t) // a command of a failed build may legitimately run again
				}
			}
			return last, hashMap(last)
		}
		return nil, ""
	}
}

func replay(r *lib.Run, plz, root, prop string, w witness) {
	var fam sigFamily
	switch w.Family {
	case "chain":
		fam = hist.Chain{Threads: w.Threads, WithNoop: true, WithRm: true}
	case "dirs":
		fam = hist.Dirs{Threads: w.Threads, WithNoop: true, WithRm: true}
	default:
		lib.Fatal("unknown family %s", w.Family)
	}
	e := hist.NewEngine(plz, filepath.Join(root, "replay"), fam)
	e.CacheOn = strings.Contains(w.Config, "../cache")
	var mu sync.Mutex
	visit := makeVisit(r, e, fam, prop, w.Config, w.Threads, &mu)
	var st *hist.State
	src := fam.Initial()
	for i, name := range w.History {
		var ed hist.Edit
		if i == 0 {
			ed = hist.Edit{Name: "init", Src: src, Kind: "init"}
		} else {
			found := false
			for _, c := range fam.Edits(src) {
				if c.Name == name {
					ed, found = c, true
				}
			}
			if !found {
				lib.Fatal("edit %s not applicable", name)
			}
		}
		dir, obs := e.Step(st, ed, w.Config)
		fmt.Printf("== %s: exit=%d actions=%v\n%s", name, obs.Exit, obs.Actions, obs.Output)
		extra, _ := visit(st, ed, obs, dir)
		ns := &hist.State{Src: ed.Src, Snap: dir, Extra: extra, Depth: i}
		if st != nil {
			ns.Hist = append(append([]string{}, st.Hist...), name)
		} else {
			ns.Hist = []string{"init"}
		}
		st, src = ns, ed.Src
	}
	r.Finish(lib.Coverage{Evaluations: len(w.History), DistinctNontrivial: len(w.History), States: len(w.History), Transitions: len(w.History), TracesValidated: len(w.History), Samples: []any{w}})
}

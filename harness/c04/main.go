// C04 / C05: the real scheduler (plz.Run, parse.Parse, core state machine, asp, build.Build) under the controlled
// scheduler. C04: each action runs once, only after its dependencies succeeded, reported exactly once.
// C05: termination and faithful failure for injected failures.
package main

import (
	"encoding/json"
	"flag"
	"fmt"
	"os"
	"os/exec"
	"path/filepath"
	"runtime/pprof"
	"sort"
	"strings"
	"sync"
	"time"

	"github.com/thought-machine/please/verifharness/lib"
	"github.com/thought-machine/please/verifharness/schedh"
	"github.com/thought-machine/please/verifshim/vsched"
)

func rule(name string, deps ...string) string {
	d := ""
	for _, x := range deps {
		d += fmt.Sprintf("%q, ", x)
	}
	return fmt.Sprintf("build_rule(name=%q, cmd=\"FAKE\", outs=[%q], deps=[%s], visibility=[\"PUBLIC\"])\n", name, name+".out", d)
}

func c04Scenarios(tier string) []schedh.Scenario {
	var out []schedh.Scenario
	add := func(name string, files map[string]string, targets ...string) {
		ns := []int{2}
		if tier == "thorough" {
			ns = []int{1, 2}
		}
		for _, n := range ns {
			out = append(out, schedh.Scenario{Name: fmt.Sprintf("%s-n%d", name, n), Files: files, Targets: targets, Threads: n})
		}
	}
	add("chain2", map[string]string{"p/BUILD": rule("a", ":b") + rule("b")}, "//p:a")
	if tier == "thorough" {
		add("chain3", map[string]string{"p/BUILD": rule("a", ":b") + rule("b", ":c") + rule("c")}, "//p:a")
		add("fanin4", map[string]string{"p/BUILD": rule("a", ":b", ":c", ":d") + rule("b") + rule("c") + rule("d")}, "//p:a")
		add("all", map[string]string{"p/BUILD": rule("a", ":b") + rule("b") + rule("c", ":b")}, "//p:all")
	}
	add("diamond", map[string]string{"p/BUILD": rule("a", ":b", ":c") + rule("b", ":d") + rule("c", ":d") + rule("d")}, "//p:a")
	add("fanin", map[string]string{"p/BUILD": rule("a", ":b", ":c") + rule("b") + rule("c")}, "//p:a")
	add("twopkg", map[string]string{"p/BUILD": rule("a", "//q:b") + rule("c"), "q/BUILD": rule("b", "//p:c")}, "//p:a")
	add("twopkg2", map[string]string{"p/BUILD": rule("a", "//q:b") + rule("d", "//q:c"), "q/BUILD": rule("b") + rule("c")}, "//p:a", "//p:d")
	add("twice", map[string]string{"p/BUILD": rule("a", ":b") + rule("b")}, "//p:a", "//p:b", "//p:a")
	add("provide", map[string]string{"p/BUILD": "build_rule(name=\"a\", cmd=\"FAKE\", outs=[\"a.out\"], deps=[\":b\"], requires=[\"x\"])\n" +
		"build_rule(name=\"b\", cmd=\"FAKE\", outs=[\"b.out\"], provides={\"x\": \":c\"})\n" + rule("c")}, "//p:a")
	// targets needed by a subinclude() are discovered (and forced to build) while another package is parsed
	sub := map[string]string{"r/BUILD": "subinclude(\"//p:a\")\n" + rule("x"), "p/BUILD": rule("a", "//q:b"), "q/BUILD": rule("b")}
	add("subinclude", sub, "//r:x")
	qn := []int{2}
	if tier == "thorough" {
		add("subinclude-and-direct", sub, "//p:a", "//r:x")
		qn = []int{2, 3}
	}
	// the same in a query-style invocation: //p:a is first merely activated, then upgraded to "must be built" by the subinclude
	for _, n := range qn {
		out = append(out, schedh.Scenario{Name: fmt.Sprintf("query-subinclude-n%d", n), Files: sub, Targets: []string{"//p:a", "//r:x"}, Threads: n, Query: true})
	}
	// a dependant that is activated late (through another package) while the target whose post-build function will add a
	// dependency to it is already building
	pbLate := "def _pb(name, output):\n    build_rule(name=\"h\", cmd=\"FAKE\", outs=[\"h.out\"])\n    add_dep(\"a\", \":h\")\n" +
		"build_rule(name=\"g\", cmd=\"FAKE\", outs=[\"g.out\"], post_build=_pb, visibility=[\"PUBLIC\"])\n" + rule("a", ":g")
	add("postbuild-late-dependant", map[string]string{"p/BUILD": pbLate, "q/BUILD": rule("z", "//p:a")}, "//p:g", "//q:z")
	add("postbuild", map[string]string{"p/BUILD": "def _pb(name, output):\n    build_rule(name=\"h\", cmd=\"FAKE\", outs=[\"h.out\"])\n    add_dep(\"a\", \":h\")\n" +
		"build_rule(name=\"g\", cmd=\"FAKE\", outs=[\"g.out\"], post_build=_pb)\n" + rule("a", ":g")}, "//p:a")
	return out
}

func c05Scenarios(tier string) []schedh.Scenario {
	var out []schedh.Scenario
	add := func(quick bool, name string, files map[string]string, fail []string, kgs []bool, targets ...string) {
		if tier != "thorough" && !quick {
			return
		}
		ns := []int{2}
		if tier == "thorough" {
			ns = []int{1, 2}
			kgs = []bool{false, true}
		}
		for _, kg := range kgs {
			for _, n := range ns {
				out = append(out, schedh.Scenario{Name: fmt.Sprintf("%s-n%d-kg%v", name, n, kg), Files: files, Targets: targets, Threads: n, KeepGoing: kg, FailCmd: fail, MustFail: true})
			}
		}
	}
	f, t := []bool{false}, []bool{true}
	chain := map[string]string{"p/BUILD": rule("a", ":b") + rule("b", ":c") + rule("c")}
	add(true, "cmdfail-leaf", chain, []string{"//p:c"}, t, "//p:a") // depth 3: a's direct dependency is only marked, it did not fail itself
	add(true, "cmdfail-mid", chain, []string{"//p:b"}, t, "//p:a")
	// keep_going, a dependant of two independent targets of which the later-sorting one fails (while the first is still building)
	add(true, "cmdfail-fanin", map[string]string{"p/BUILD": rule("t", ":a", ":z") + rule("a") + rule("z")}, []string{"//p:z"}, t, "//p:t")
	add(false, "cmdfail-fanin-deep", map[string]string{"p/BUILD": rule("t", ":a", ":m") + rule("a") + rule("m", ":z") + rule("z")}, []string{"//p:z"}, t, "//p:t")
	add(false, "cmdfail-diamond", map[string]string{"p/BUILD": rule("a", ":b", ":c") + rule("b", ":d") + rule("c") + rule("d")}, []string{"//p:d"}, f, "//p:a")
	add(true, "parse-error", map[string]string{"p/BUILD": rule("a", "//q:b"), "q/BUILD": "build_rule(name=\"b\", cmd=\"FAKE\", outs=[\"b.out\"]\n"}, nil, f, "//p:a")
	add(true, "undefined-dep", map[string]string{"p/BUILD": rule("a", ":nope")}, nil, f, "//p:a")
	add(false, "undefined-dep-otherpkg", map[string]string{"p/BUILD": rule("a", "//q:nope"), "q/BUILD": rule("b")}, nil, f, "//p:a")
	add(true, "missing-package", map[string]string{"p/BUILD": rule("a", "//q:b")}, nil, f, "//p:a")
	add(true, "cycle2", map[string]string{"p/BUILD": rule("a", ":b") + rule("b", ":a")}, nil, f, "//p:a")
	// a cycle in a run in which something is really built too (a finished target must not keep the build "active": the
	// cycle check only runs once nothing is)
	add(true, "cycle-with-leaf", map[string]string{"p/BUILD": rule("a", ":b") + rule("b", ":a", ":c") + rule("c")}, nil, f, "//p:a")
	add(false, "cycle-beside-ok", map[string]string{"p/BUILD": rule("a", ":b") + rule("b", ":a") + rule("ok")}, nil, f, "//p:a", "//p:ok")
	add(false, "cycle3", map[string]string{"p/BUILD": rule("a", ":b") + rule("b", ":c") + rule("c", ":a")}, nil, f, "//p:a")
	add(false, "cycle-xpkg", map[string]string{"p/BUILD": rule("a", "//q:b"), "q/BUILD": rule("b", "//p:a")}, nil, f, "//p:a")
	// no failure injected: the build must succeed (exit status faithful in both directions)
	out = append(out, schedh.Scenario{Name: "nofail-twopkg2-n2", Files: map[string]string{"p/BUILD": rule("a", "//q:b") + rule("d", "//q:c"), "q/BUILD": rule("b") + rule("c")}, Targets: []string{"//p:a", "//p:d"}, Threads: 2})
	add(true, "two-roots-one-fails", map[string]string{"p/BUILD": rule("a") + rule("b")}, []string{"//p:b"}, t, "//p:a", "//p:b")
	return out
}

type violation struct {
	Class    string          `json:"class"`
	Scenario schedh.Scenario `json:"scenario"`
	Choices  []int           `json:"choices"`
	Delay    bool            `json:"delay_bound"`
	Newest   bool            `json:"newest_first"`
	Timers   bool            `json:"early_timers"`
	Detail   string          `json:"detail"`
}

// oracle returns (class, detail) or "".
// softClass is a violation that is reported (once per class) without ending the evaluation of the execution or the
// exploration: it is set by oracle and collected by the caller.
var softClass, softDetail string

// continuing lists classes (listed known findings on the pinned tree) after which exploration simply continues, so that a
// known defect never hides a different one behind it. They are still reported on every run.
var continuing = map[string]bool{
	"results-dropped-at-shutdown": true,
	"hang:cycle-check-ran-before-the-cycle-was-complete-and-is-never-rearmed": true,
}

func oracle(prop string, sc schedh.Scenario, obs *schedh.Obs, res *vsched.Result) (string, string) {
	softClass, softDetail = "", ""
	switch res.Status {
	case "ok":
	case "deadlock":
		if res.EarlyFires > 0 && strings.HasPrefix(sc.Name, "cycle") {
			return "hang:cycle-check-ran-before-the-cycle-was-complete-and-is-never-rearmed", "the 5s cycle-check timer fired while the graph was still being built, found nothing, and no later build result re-arms it, so the cyclic build waits forever; blocked: " + strings.Join(res.Blocked, ", ") + "\n" + obs.String()
		}
		return "deadlock", "no enabled thread; blocked: " + strings.Join(res.Blocked, ", ") + "\n" + obs.String()
	case "fatal":
		// log.Fatal: the process exits non-zero. For C05 that is an allowed way to terminate when a failure was injected.
		if prop == "C05" && sc.MustFail {
			return "", ""
		}
		return "fatal-exit", res.Detail + "\n" + obs.String()
	default:
		return "status:" + res.Status, res.Detail + "\n" + obs.String()
	}
	if !obs.Returned {
		return "run-did-not-return", obs.String()
	}
	if os.Getenv("VERIF_DEBUG_FAILFIRST") != "" {
		fi, ei := -1, -1
		for i, e := range obs.Events {
			if e.Kind == "fail" && fi < 0 {
				fi = i
			}
			if e.Kind == "end" && e.Label == "//p:a" {
				ei = i
			}
		}
		if fi >= 0 && (ei < 0 || fi < ei) {
			fmt.Fprintf(os.Stderr, "DEBUG fail-before-end:\n%s\n", obs.String())
		}
	}
	starts := map[string]int{}
	ended := map[string]int{} // index of end event
	failedCmd := map[string]bool{}
	terminal := map[string]int{}
	stores, totalStores := map[string]int{}, map[string]int{}
	for _, e := range obs.Events {
		if e.Kind == "stored" {
			totalStores[e.Label]++
		}
	}
	for i, e := range obs.Events {
		switch e.Kind {
		case "start":
			starts[e.Label]++
			if starts[e.Label] > 1 {
				return "ran-twice", e.Label + " was executed twice\n" + obs.String()
			}
			for _, d := range obs.Deps[e.Label] {
				if _, ok := ended[d]; !ok {
					return "started-before-dep", fmt.Sprintf("%s started at event %d before its dependency %s had finished successfully\n%s", e.Label, i, d, obs.String())
				}
				if stores[d] != totalStores[d] {
					return "started-before-dep-stored", fmt.Sprintf("%s started at event %d while its dependency %s was still being stored in the cache (build step not finished)\n%s", e.Label, i, d, obs.String())
				}
			}
		case "stored":
			stores[e.Label]++
		case "end":
			ended[e.Label] = i
		case "fail":
			failedCmd[e.Label] = true
		case "result":
			if e.Info == fmt.Sprint(schedh.StBuilt) || e.Info == fmt.Sprint(schedh.StCached) || e.Info == fmt.Sprint(schedh.StFailed) {
				terminal[e.Label]++
			}
		}
	}
	for l, n := range terminal {
		if n > 1 && prop == "C04" { // exactly-once reporting is C04's statement; C05 is about termination and the exit status

			return "reported-twice", fmt.Sprintf("%s has %d terminal results\n%s", l, n, obs.String())
		}
	}
	// a target whose command ran must have had every declared dependency resolved (a dependency added by a post-build
	// function is declared at once and resolved when the dependant's queueing loop goes round again)
	for l := range starts {
		if u := obs.Unresolved[l]; len(u) > 0 {
			return "started-with-unresolved-declared-dependency", fmt.Sprintf("%s ran although its declared dependency %s was never resolved (and so never waited for)\n%s", l, u[0], obs.String())
		}
	}
	for l := range ended {
		if terminal[l] != 1 && obs.Dropped > 0 {
			softClass, softDetail = "results-dropped-at-shutdown", fmt.Sprintf("%s completed but its terminal result never reached the results stream: %d logged results were never delivered before Run closed the stream\n%s", l, obs.Dropped, obs.String())
			continue
		}
		if terminal[l] != 1 && prop == "C04" {
			return "not-reported", fmt.Sprintf("%s completed but has %d terminal results\n%s", l, terminal[l], obs.String())
		}
	}
	if prop == "C04" {
		if obs.Failed {
			return "spurious-failure", "the build is reported failed although every target can be built\n" + obs.String()
		}
		// everything reachable from the requested targets through resolved dependencies must have been built
		need := map[string]bool{}
		var visit func(l string)
		visit = func(l string) {
			if need[l] {
				return
			}
			need[l] = true
			for _, d := range obs.Deps[l] {
				visit(d)
			}
		}
		roots := sc.Targets
		if sc.Query {
			// a query-style invocation builds only what a subinclude() needs: here //p:a (and what it depends on)
			roots = []string{"//p:a"}
		}
		for _, t := range roots {
			if strings.HasSuffix(t, ":all") {
				for l := range obs.Deps {
					if strings.HasPrefix(l, strings.TrimSuffix(t, "all")) {
						visit(l)
					}
				}
			} else {
				visit(t)
			}
		}
		for l := range need {
			if _, ok := ended[l]; !ok {
				return "target-not-built", l + " is in the graph of a successful build but its action never ran\n" + obs.String()
			}
		}
	} else {
		if !sc.MustFail && obs.Failed {
			return "spurious-failure", "the build is reported failed although every target can be built\n" + obs.String()
		}
		if sc.MustFail && !obs.Failed {
			return "failure-not-reported", "a requested target could not be built but the build reports success\n" + obs.String()
		}
		// never run a target whose dependency failed: neither its command nor its build step (a "building" result means the
		// target was handed to a build worker; with a failed dependency it may only be marked, never attempted)
		// (a dependency "failed" if its own command failed or, transitively, one of its dependencies did: it was never built)
		failedDep := map[string]bool{}
		var unbuilt func(l string, depth int) bool
		unbuilt = func(l string, depth int) bool {
			if failedCmd[l] {
				return true
			}
			if v, ok := failedDep[l]; ok {
				return v
			}
			failedDep[l] = false // cycles do not count
			if depth < 64 {
				for _, d := range obs.Deps[l] {
					if unbuilt(d, depth+1) {
						failedDep[l] = true
					}
				}
			}
			return failedDep[l]
		}
		for _, e := range obs.Events {
			if e.Kind == "result" && e.Info == "3" { // core.TargetBuilding
				for _, d := range obs.Deps[e.Label] {
					if unbuilt(d, 0) {
						return "build-attempted-after-failed-dep", e.Label + " was handed to a build worker although its dependency " + d + " failed\n" + obs.String()
					}
				}
			}
		}
		for l := range starts {
			for _, d := range obs.Deps[l] {
				if unbuilt(d, 0) {
					return "ran-after-failed-dep", l + " ran although its dependency " + d + " failed\n" + obs.String()
				}
			}
		}
	}
	return "", ""
}

type workerOut struct {
	Executions  int            `json:"executions"`
	Pruned      int            `json:"pruned"`
	States      int            `json:"states"`
	Transitions int            `json:"transitions"`
	Outcomes    map[string]int `json:"outcomes"`
	Complete    bool           `json:"complete"`
	Violations  []violation    `json:"violations"`
	Observed    int            `json:"distinct_observations"`
}

func exploreRoots(prop string, sc schedh.Scenario, bound int, delay, timers, newest bool, roots [][]int, stop func() bool) workerOut {
	schedh.Materialise(sc)
	var obs schedh.Obs
	body := schedh.Body(sc, &obs)
	out := workerOut{Outcomes: map[string]int{}}
	seen := map[string]bool{}
	softSeen := map[string]bool{}
	hard := 0
	st := vsched.ExploreOpt(body, vsched.Options{Bound: bound, DelayBound: delay, EarlyTimers: timers, NewestFirst: newest}, true, roots, func(r *vsched.Result) bool {
		seen[obs.String()] = true
		class, detail := oracle(prop, sc, &obs, r)
		if softClass != "" && !softSeen[softClass] {
			softSeen[softClass] = true
			out.Violations = append(out.Violations, violation{Class: softClass, Scenario: sc, Choices: r.Choices, Delay: delay, Timers: timers, Newest: newest, Detail: softDetail})
		}
		if class != "" && continuing[class] {
			if !softSeen[class] {
				softSeen[class] = true
				out.Violations = append(out.Violations, violation{Class: class, Scenario: sc, Choices: r.Choices, Delay: delay, Timers: timers, Newest: newest, Detail: detail})
			}
			return true
		}
		if class != "" {
			first := obs.String()
			r2 := vsched.Run(vsched.Options{Prefix: r.Choices, DelayBound: delay, EarlyTimers: timers, NewestFirst: newest}, body)
			c2, _ := oracle(prop, sc, &obs, r2)
			if c2 != class || obs.String() != first {
				fmt.Fprintf(os.Stderr, "HARNESS-NONDETERMINISM: scenario %s schedule %v: %q then %q\n%s\n---\n%s\n", sc.Name, r.Choices, class, c2, first, obs.String())
				os.Exit(2)
			}
			out.Violations = append(out.Violations, violation{Class: class, Scenario: sc, Choices: r.Choices, Delay: delay, Timers: timers, Newest: newest, Detail: detail})
			hard++
			return hard < 3
		}
		return true
	}, stop)
	out.Executions, out.Pruned, out.States, out.Transitions, out.Complete = st.Executions, st.Pruned, st.States, st.Transitions, st.Complete
	if hard > 0 {
		out.Complete = true
	}
	out.Outcomes = st.Outcomes
	out.Observed = len(seen)
	return out
}

func main() {
	prop := flag.String("prop", "C04", "C04 or C05")
	worker := flag.String("worker", "", "worker mode: file with job description")
	smoke := flag.String("smoke", "", "scenario name: one controlled run with trace")
	only := flag.String("only", "", "only scenarios containing this")
	r := lib.Start(os.Getenv("VERIF_ID"), "model_checking")
	r.ID = *prop
	lib.Quiet()
	// the scratch repository lives on tmpfs: ext4 metadata operations are serialised machine-wide and dominate otherwise
	scratch := filepath.Join(lib.VerifRoot, ".work", "sched")
	if fi, err := os.Stat("/dev/shm"); err == nil && fi.IsDir() {
		scratch = "/dev/shm/verif-sched"
	}
	schedh.Setup(filepath.Join(scratch, fmt.Sprintf("w%d", os.Getpid())))
	defer os.RemoveAll(schedh.Root)
	scs := c04Scenarios(r.Tier)
	if *prop == "C05" {
		scs = c05Scenarios(r.Tier)
	}
	timers := *prop == "C05"
	if *smoke != "" {
		for _, sc := range scs {
			if sc.Name != *smoke {
				continue
			}
			schedh.Materialise(sc)
			var obs schedh.Obs
			res := vsched.Run(vsched.Options{Trace: true, EarlyTimers: timers}, schedh.Body(sc, &obs))
			fmt.Printf("status=%s detail=%s steps=%d points=%d\n%s%v\n", res.Status, res.Detail, res.Steps, len(res.Points), obs.String(), res.Blocked)
			c, d := oracle(*prop, sc, &obs, res)
			fmt.Println("oracle:", c, d)
			if os.Getenv("VERIF_DEBUG") != "" {
				fmt.Println(vsched.FormatTrace(res.Trace))
			}
		}
		os.RemoveAll(schedh.Root)
		return
	}
	if r.Replay != "" {
		var v violation
		lib.LoadReplay(r.Replay, &v)
		schedh.Materialise(v.Scenario)
		var obs schedh.Obs
		res := vsched.Run(vsched.Options{Prefix: v.Choices, Trace: true, DelayBound: v.Delay, EarlyTimers: v.Timers, NewestFirst: v.Newest}, schedh.Body(v.Scenario, &obs))
		fmt.Println(vsched.FormatTrace(res.Trace))
		fmt.Print(obs.String())
		c, d := oracle(*prop, v.Scenario, &obs, res)
		if softClass != "" {
			r.Violate(softClass, v, softDetail)
		}
		if c != "" {
			r.Violate(c, v, d)
		}
		os.RemoveAll(schedh.Root)
		r.Finish(lib.Coverage{Evaluations: 1, DistinctNontrivial: 1, States: 1, Transitions: res.Steps, TracesValidated: 1, Samples: []any{v.Scenario.Name}})
	}
	if *worker != "" {
		var job struct {
			Scenario schedh.Scenario
			Bound    int
			Delay    bool
			Newest   bool
			Roots    [][]int
		}
		b, _ := os.ReadFile(*worker)
		if err := json.Unmarshal(b, &job); err != nil {
			lib.Fatal("job: %s", err)
		}
		if pf := os.Getenv("VERIF_PROF"); pf != "" {
			f, _ := os.Create(pf)
			pprof.StartCPUProfile(f)
			defer pprof.StopCPUProfile()
		}
		t0 := time.Now()
		out := exploreRoots(*prop, job.Scenario, job.Bound, job.Delay, timers, job.Newest, job.Roots, r.OutOfTime)
		if os.Getenv("VERIF_DEBUG") != "" {
			fmt.Fprintf(os.Stderr, "worker: explore took %v for %d executions\n", time.Since(t0), out.Executions)
		}
		os.RemoveAll(schedh.Root)
		json.NewEncoder(os.Stdout).Encode(out)
		pprof.StopCPUProfile()
		return
	}

	// coordinator
	type scStat struct {
		Scenario   string `json:"scenario"`
		Bound      int    `json:"bound_completed"`
		Model      string `json:"deviation_model"`
		Executions int    `json:"executions"`
		Points     int    `json:"choice_points_in_default_run"`
	}
	var stats []scStat
	total := workerOut{Outcomes: map[string]int{}, Complete: true}
	// private to this run: C04 and C05 (and runs against other trees) may be running at the same time
	jobDir := filepath.Join(lib.VerifRoot, ".work", "sched", fmt.Sprintf("jobs-%s-%d", *prop, os.Getpid()))
	os.MkdirAll(jobDir, 0o755)
	defer os.RemoveAll(jobDir)
	const nworkers = 16
	hardTotal := 0
	maxBound := 1
	if !r.Quick() {
		maxBound = 2
	}
	for _, sc := range scs {
		if *only != "" && !strings.Contains(sc.Name, *only) {
			continue
		}
		if r.OutOfTime() {
			total.Complete = false
			break
		}
		stat := scStat{Scenario: sc.Name, Bound: -1, Model: "delay (every non-default scheduling choice costs 1)"}
		type pass struct {
			bound  int
			newest bool
		}
		passes := []pass{{0, false}, {0, true}, {1, false}, {1, true}}
		for b := 2; b <= maxBound; b++ {
			passes = append(passes, pass{b, false})
		}
		for _, ps := range passes {
			bound, newest := ps.bound, ps.newest
			// root execution in the coordinator
			schedh.Materialise(sc)
			var obs schedh.Obs
			body := schedh.Body(sc, &obs)
			root := vsched.Run(vsched.Options{Bound: bound, DelayBound: true, EarlyTimers: timers, NewestFirst: newest}, body)
			stat.Points = len(root.Points)
			total.Executions++
			total.Transitions += root.Steps
			c, d := oracle(*prop, sc, &obs, root)
			if softClass != "" {
				total.Violations = append(total.Violations, violation{Class: softClass, Scenario: sc, Choices: root.Choices, Delay: true, Timers: timers, Newest: newest, Detail: softDetail})
			}
			if c != "" {
				total.Violations = append(total.Violations, violation{Class: c, Scenario: sc, Choices: root.Choices, Delay: true, Timers: timers, Newest: newest, Detail: d})
				if !continuing[c] {
					hardTotal++
					break
				}
			}
			if bound == 0 {
				stat.Bound = 0
				continue
			}
			var roots [][]int
			for i, p := range root.Points {
				cost := root.Costs[i]
				if p.Preempt {
					cost++
				}
				if cost > bound {
					continue
				}
				for alt := 1; alt < p.N; alt++ {
					np := append(append([]int{}, root.Choices[:i]...), alt)
					roots = append(roots, np)
				}
			}
			var wg sync.WaitGroup
			var mu sync.Mutex
			complete := true
			for w := 0; w < nworkers; w++ {
				var mine [][]int
				for i := w; i < len(roots); i += nworkers {
					mine = append(mine, roots[i])
				}
				if len(mine) == 0 {
					continue
				}
				wg.Add(1)
				go func(w int, mine [][]int) {
					defer wg.Done()
					jf := filepath.Join(jobDir, fmt.Sprintf("%s-%d.json", sc.Name, w))
					jb, _ := json.Marshal(map[string]any{"Scenario": sc, "Bound": bound, "Delay": true, "Newest": newest, "Roots": mine})
					os.WriteFile(jf, jb, 0o644)
					cmd := exec.Command(os.Args[0], "--prop", *prop, "--tier", r.Tier, "--worker", jf)
					cmd.Env = append(os.Environ(), "GOMAXPROCS=1", "GOGC=off", "GOMEMLIMIT=1GiB") // GC cycles dominate otherwise (large per-execution allocations)
					cmd.Stderr = os.Stderr
					o, err := cmd.Output()
					var wo workerOut
					if err != nil || json.Unmarshal(o, &wo) != nil {
						lib.Fatal("worker failed: %v\n%s", err, o)
					}
					mu.Lock()
					defer mu.Unlock()
					total.Executions += wo.Executions
					total.Pruned += wo.Pruned
					total.States += wo.States
					total.Transitions += wo.Transitions
					total.Observed += wo.Observed
					stat.Executions += wo.Executions
					for k, v := range wo.Outcomes {
						total.Outcomes[k] += v
					}
					total.Violations = append(total.Violations, wo.Violations...)
					if !wo.Complete {
						complete = false
					}
				}(w, mine)
			}
			wg.Wait()
			hardTotal = 0
			for _, v := range total.Violations {
				if !continuing[v.Class] {
					hardTotal++
				}
			}
			if hardTotal > 0 {
				break
			}
			if !complete {
				total.Complete = false
				break
			}
			if !newest {
				stat.Bound = bound
			}
		}
		stats = append(stats, stat)
		fmt.Fprintf(os.Stderr, "%s %s: bound %d complete, %d executions, %d choice points in the default run\n", *prop, sc.Name, stat.Bound, stat.Executions, stat.Points)
		if hardTotal > 6 {
			break
		}
	}
	os.RemoveAll(jobDir)
	sort.Slice(total.Violations, func(i, j int) bool { return len(total.Violations[i].Choices) < len(total.Violations[j].Choices) })
	for _, v := range total.Violations {
		r.Violate(v.Class, v, v.Scenario.Name+"\n"+v.Detail)
	}
	var samples []any
	for i, s := range stats {
		if i < 3 {
			samples = append(samples, s)
		}
	}
	r.Assume = []string{
		"real code under exploration: plz.Run worker loop, parse.Parse, core.BuildState task queues and target state machine, cmap, the asp parser/interpreter, build.Build (directories, hashing, xattrs on the real file system); only the shell command is answered by an in-process fake that creates the declared outputs and yields once",
		"deviation model: delay bounding — every departure from the default scheduler costs one deviation; bounds 0 and 1 are explored under two default schedulers (keep running the current thread, else the OLDEST enabled thread; and: else the NEWEST enabled thread), higher bounds under the first; within a bound every execution is explored, with happens-before state-key pruning",
		"file-system operations of one build step are atomic between two synchronisation points; the results consumer stops the build on the first failure unless keep_going, as output.MonitorState does",
		"timers (cycle-check 5 s, waitOnChan 10 s) run on a fake clock: they fire when nothing else can run, and (C05) early at the cost of one deviation",
	}
	os.RemoveAll(jobDir) // (r.Finish exits the process)
	r.Finish(lib.Coverage{
		Evaluations:        total.Executions,
		DistinctNontrivial: total.Observed,
		Rule:               "for each scenario (graph shape x worker count [x keep_going x injected failure]) every schedule with at most `bound` deviations from the default scheduler; distinct_nontrivial = distinct observed event sequences (start/end/result order) summed over scenarios",
		Samples:            samples,
		States:             total.States,
		Transitions:        total.Transitions,
		TracesValidated:    total.Executions - total.Pruned,
		Exhaustive:         total.Complete,
		Extra:              map[string]any{"per_scenario": stats, "outcomes": total.Outcomes, "pruned_executions": total.Pruned, "max_bound": maxBound},
	})
}

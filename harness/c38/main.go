// C38: `plz fmt` never changes what a BUILD file means.
//
// Bounded-exhaustive enumeration of small BUILD programs, family by family (string literals, adjacent-literal
// concatenation, operator expressions with every parenthesisation, function definitions with annotations/aliases,
// statement templates with every comment/blank-line placement, rule calls with every keyword order and list order,
// sequences of subinclude statements, the repository's own BUILD files). Every program that the real asp interpreter
// accepts is formatted by the real format.Format (rewriting a scratch file, as `plz fmt -w` does) and evaluated again:
// globals, targets (+attributes) and the sequence of subincluded labels must be equal, and a second format pass
// must change nothing.
package main

import (
	"bytes"
	"encoding/json"
	"fmt"
	"os"
	"path/filepath"
	"reflect"
	"runtime"
	"sort"
	"strings"
	"sync"
	"sync/atomic"
	"time"
	"unicode/utf8"

	"github.com/thought-machine/please/rules"
	"github.com/thought-machine/please/src/core"
	"github.com/thought-machine/please/src/format"
	"github.com/thought-machine/please/src/parse/asp"
	"github.com/thought-machine/please/verifharness/lib"
)

// A prog is one generated BUILD file.
type prog struct {
	Fam  string `json:"family"`
	Feat string `json:"feature"` // the construct under test; the stem of the violation class
	Code string `json:"code"`
	// SyntaxOnly: the file cannot be evaluated in isolation (real BUILD files); only "asp still parses it" and
	// idempotence are checked.
	SyntaxOnly bool `json:"syntax_only,omitempty"`
	// Aux: for string literals, the text between the quotes.
	Aux string `json:"aux,omitempty"`
}

// ---------------------------------------------------------------------------------------------------------------
// evaluation

type observation struct {
	Globals     map[string]any               `json:"globals"`
	Targets     map[string]map[string]string `json:"targets"`
	Subincludes []string                     `json:"subincludes"`
}

type evaluator struct {
	state *core.BuildState
	p     *asp.Parser
	rec   []string
	file  string
	cfg   *core.Configuration
}

func newEvaluator(dir string, n int) *evaluator {
	e := &evaluator{state: core.NewDefaultBuildState(), cfg: core.DefaultConfiguration()}
	e.p = asp.NewParser(e.state)
	names, err := rules.AllAssets()
	if err != nil {
		lib.Fatal("rules.AllAssets: %s", err)
	}
	sort.Strings(names)
	for _, fn := range names { // as src/parse/init.go does
		src, _ := rules.ReadAsset(fn)
		if err := e.p.LoadBuiltins(fn, src); err != nil {
			lib.Fatal("loading builtin %s: %s", fn, err)
		}
	}
	asp.VerifRecordSubincludesC38(e.p, func(l string) { e.rec = append(e.rec, l) })
	d := filepath.Join(dir, fmt.Sprintf("w%d", n))
	if err := os.MkdirAll(d, 0o755); err != nil {
		lib.Fatal("%s", err)
	}
	e.file = filepath.Join(d, "BUILD")
	return e
}

var skipField = map[string]bool{"Progress": true, "FileSize": true, "Subrepo": true, "RuleHash": true, "Test": true, "Debug": true}

func dumpTarget(t *core.BuildTarget) map[string]string {
	out := map[string]string{}
	v := reflect.ValueOf(t).Elem()
	for i := 0; i < v.NumField(); i++ {
		f := v.Type().Field(i)
		if !f.IsExported() || skipField[f.Name] {
			continue
		}
		fv := v.Field(i)
		if fv.Kind() == reflect.Func {
			out[f.Name] = fmt.Sprint(!fv.IsNil())
			continue
		}
		for fv.Kind() == reflect.Ptr && !fv.IsNil() {
			fv = fv.Elem()
		}
		s := fmt.Sprintf("%+v", fv.Interface())
		if strings.Contains(s, "0xc0") {
			lib.Fatal("target dump of field %s contains an address: %s", f.Name, s)
		}
		out[f.Name] = s
	}
	vis := make([]string, len(t.Visibility))
	for i, v := range t.Visibility {
		vis[i] = v.String()
	}
	sort.Strings(vis) // a set: order has no meaning (CanSee only asks for membership)
	out["Visibility"] = fmt.Sprint(vis)
	out["is_test"] = fmt.Sprint(t.IsTest())
	out["declared_dependencies"] = fmt.Sprint(t.DeclaredDependencies())
	exp := core.BuildLabels(t.ExportedDependencies())
	sort.Sort(exp) // a set, like the declared dependencies (which Please sorts itself)
	out["exported_dependencies"] = fmt.Sprint(exp)
	out["declared_outputs"] = fmt.Sprint(t.DeclaredOutputs())
	out["declared_named_outputs"] = fmt.Sprint(t.DeclaredNamedOutputs())
	out["all_sources"] = fmt.Sprint(t.AllSources())
	out["all_tools"] = fmt.Sprint(t.AllTools())
	out["all_data"] = fmt.Sprint(t.AllData())
	return out
}

// eval interprets code as the BUILD file of //test/pkg.
func (e *evaluator) eval(code string) (*observation, error) {
	e.state.Graph = core.NewGraph()
	pkg := core.NewPackage("test/pkg")
	e.rec = nil
	g, err := asp.VerifEvalBuildC38(e.p, pkg, code)
	if err != nil {
		return nil, err
	}
	o := &observation{Globals: g, Targets: map[string]map[string]string{}, Subincludes: append([]string{}, e.rec...)}
	for _, t := range pkg.AllTargets() {
		o.Targets[t.Label.Name] = dumpTarget(t)
	}
	return o, nil
}

// fmtOnce runs the real formatter over a scratch BUILD file holding code (plz fmt -w) and returns the new contents.
func (e *evaluator) fmtOnce(code string) (string, error) {
	if err := os.WriteFile(e.file, []byte(code), 0o644); err != nil {
		lib.Fatal("%s", err)
	}
	if _, err := format.Format(e.cfg, []string{e.file}, true, true); err != nil {
		return "", err
	}
	b, err := os.ReadFile(e.file)
	if err != nil {
		lib.Fatal("%s", err)
	}
	return string(b), nil
}

var symlinkChecks int64

// fmtThroughSymlink formats code in a file that is reached through a symbolic link and returns what reading the link gives.
func (e *evaluator) fmtThroughSymlink(code string) (string, error) {
	real := e.file + ".real"
	link := e.file + ".link"
	os.Remove(link)
	if err := os.WriteFile(real, []byte(code), 0o644); err != nil {
		lib.Fatal("%s", err)
	}
	if err := os.Symlink(filepath.Base(real), link); err != nil {
		lib.Fatal("%s", err)
	}
	defer os.Remove(link)
	defer os.Remove(real)
	if _, err := format.Format(e.cfg, []string{link}, true, true); err != nil {
		return "", err
	}
	b, err := os.ReadFile(link)
	return string(b), err
}

type result struct {
	Status    string // skipped-rejected | formatter-error | ok | violation
	Effect    string
	Detail    string
	Formatted string
	Changed   bool
}

func short(v any) string {
	b, _ := json.Marshal(v)
	if len(b) > 300 {
		return string(b[:300]) + "..."
	}
	return string(b)
}

func (e *evaluator) check(p prog) result {
	var before *observation
	if p.SyntaxOnly {
		if _, err := e.p.ParseData([]byte(p.Code), "verif_c38_input.build"); err != nil {
			return result{Status: "skipped-rejected", Detail: err.Error()}
		}
	} else {
		var err error
		if before, err = e.eval(p.Code); err != nil {
			return result{Status: "skipped-rejected", Detail: err.Error()}
		}
	}
	if crashesFormatter(p.Code) {
		return result{Status: "formatter-crash-shape", Detail: "backslash followed by a rune >= U+0100 (or invalid UTF-8) in a string literal"}
	}
	f1, err := e.fmtOnce(p.Code)
	if err != nil {
		return result{Status: "formatter-error", Detail: err.Error()}
	}
	res := result{Status: "ok", Formatted: f1, Changed: f1 != p.Code}
	viol := func(effect, detail string) result {
		return result{Status: "violation", Effect: effect, Detail: detail, Formatted: f1, Changed: true}
	}
	// the write-back: a BUILD file that is a symlink (a generated or shared file) must end up with the same text as a
	// regular one - checked where the formatted text is shorter than the original (a write that does not truncate shows there)
	if len(f1) < len(p.Code) && (p.Fam == "subinclude" || len(p.Code)%3 == 0) { // (a deterministic third of the other families)
		atomic.AddInt64(&symlinkChecks, 1)
		if f2, err := e.fmtThroughSymlink(p.Code); err != nil || f2 != f1 {
			return viol("write-back-through-symlink-differs", fmt.Sprintf("formatting a symlinked file leaves %q (err %v); formatting a regular file leaves %q", f2, err, f1))
		}
	}
	if p.SyntaxOnly {
		if _, err := e.p.ParseData([]byte(f1), "verif_c38_input.build"); err != nil {
			return viol("formatted-rejected", "asp no longer parses the formatted file: "+firstLine(err.Error()))
		}
	} else {
		after, err := e.eval(f1)
		if err != nil {
			return viol("formatted-rejected", "asp accepted the original but rejects the formatted file: "+firstLine(err.Error()))
		}
		if !reflect.DeepEqual(before.Globals, after.Globals) {
			var names []string
			for k, v := range before.Globals {
				if w, ok := after.Globals[k]; !ok || !reflect.DeepEqual(v, w) {
					names = append(names, k)
				}
			}
			for k := range after.Globals {
				if _, ok := before.Globals[k]; !ok {
					names = append(names, k)
				}
			}
			sort.Strings(names)
			n := names[0]
			return viol("value-changed", fmt.Sprintf("global %s: %s before, %s after formatting", n, short(before.Globals[n]), short(after.Globals[n])))
		}
		if !reflect.DeepEqual(before.Subincludes, after.Subincludes) {
			return viol("subincludes-changed", fmt.Sprintf("subincluded labels %v before, %v after formatting", before.Subincludes, after.Subincludes))
		}
		if !reflect.DeepEqual(before.Targets, after.Targets) {
			attrs := map[string]bool{}
			detail := ""
			for name, bt := range before.Targets {
				at, ok := after.Targets[name]
				if !ok {
					return viol("target-set-changed", "target "+name+" disappeared")
				}
				for k, v := range bt {
					if at[k] != v {
						attrs[k] = true
						if detail == "" {
							detail = fmt.Sprintf("target %s attribute %s: %s before, %s after formatting", name, k, v, at[k])
						}
					}
				}
			}
			if len(before.Targets) != len(after.Targets) {
				return viol("target-set-changed", "a target appeared")
			}
			var al []string
			for k := range attrs {
				if k == "all_sources" || k == "all_tools" || k == "all_data" { // derived views of Sources/Tools/Data
					continue
				}
				al = append(al, k)
			}
			sort.Strings(al)
			return viol("target-attr-changed:"+strings.Join(al, "+"), detail)
		}
	}
	f2, err := e.fmtOnce(f1)
	if err != nil {
		return viol("formatted-unformattable", "the formatter rejects its own output: "+firstLine(err.Error()))
	}
	if f2 != f1 {
		return viol("not-idempotent", fmt.Sprintf("second pass changes the file again: %q -> %q", f1, f2))
	}
	return res
}

// crashesFormatter recognises the one input shape known to make the formatter PANIC (buildtools build.IsCorrectEscaping
// indexes a [256]bool with the rune after a backslash: `v = "\€"` kills `plz fmt` with "index out of range [8364] with
// length 256"). The panic happens on a goroutine of format.formatAll and cannot be recovered here, so the shape is
// skipped and counted; it is a crash, not a change of meaning, hence outside this property's oracle.
func crashesFormatter(code string) bool {
	for i := 0; i+1 < len(code); i++ {
		if code[i] == '\\' && code[i+1] >= 0x80 {
			if r, _ := utf8.DecodeRuneInString(code[i+1:]); r >= 256 {
				return true
			}
		}
	}
	return false
}

func firstLine(s string) string {
	s = strings.TrimSpace(s)
	if i := strings.IndexByte(s, '\n'); i >= 0 {
		s = s[:i]
	}
	return s
}

// ---------------------------------------------------------------------------------------------------------------
// generators (each emits its cases simplest first)

type emitFn func(prog)

func mk(fam, feat, code string) prog { return prog{Fam: fam, Feat: feat, Code: code} }

func ipow(b, n int) int {
	r := 1
	for i := 0; i < n; i++ {
		r *= b
	}
	return r
}

// strings: every literal prefix x quote x content.
var stringAlphaBase = []string{"a", "x", "'", "\"", "\\", "n", "{", "}", "\n", " "}

// extra: bytes a re-quoting printer may want to escape (tab, a control byte, DEL, a two-byte UTF-8 rune) and escapes
// that Python and asp read differently (\x41, \101, \u0041 start with these)
var stringAlphaExtra = []string{"\t", "\x01", "\x7f", "\u00e9", "\\x41", "\\101", "\\u0041", "\\a", "\\r", "\\0", "$"}

// genStrings: contents made only of the first skipPure symbols are left out (another call covers them).
func genStrings(alpha []string, minLen, maxLen, skipPure int, emit emitFn) {
	prefixes := []string{"", "r", "f"}
	quotes := []string{"\"", "'", "\"\"\"", "'''"}
	for n := minLen; n <= maxLen; n++ {
		for idx := 0; idx < ipow(len(alpha), n); idx++ {
			var sb strings.Builder
			x := idx
			parts := make([]string, n)
			pure := skipPure > 0
			for i := n - 1; i >= 0; i-- {
				parts[i] = alpha[x%len(alpha)]
				if x%len(alpha) >= skipPure {
					pure = false
				}
				x /= len(alpha)
			}
			if pure {
				continue
			}
			for _, s := range parts {
				sb.WriteString(s)
			}
			content := sb.String()
			for _, pf := range prefixes {
				for _, q := range quotes {
					feat := "prefix=" + orNone(pf) + ":quote=" + q
					sp := mk("string", feat, "x = \"X\"\nv = "+pf+q+content+q+"\n")
					sp.Aux = content
					emit(sp)
				}
			}
		}
	}
}

// literals other than strings.
func genLiterals(emit emitFn) {
	lits := []string{"0", "7", "-7", "017", "0o17", "0777", "00", "-0", "1000000000000", "True", "False", "None", "[]", "{}", "()", "(1,)", "(1, 2)", "[1,]", "[1, 2,]",
		"{\"a\": 1,}", "{\"b\": 1, \"a\": 2}", "[[1], [2, [3]]]", "{\"a\": {\"b\": [1]}}", "[1][0]", "[1, 2][1:]", "[1, 2][:1]", "[1, 2][0:1]", "\"abc\"[1:]", "\"abc\"[-1]",
		"{\"a\": 1}[\"a\"]", "{\"a\": 1}.get(\"a\")", "\"a\".upper()", "\"a b\".split(\" \")[0]", "len([1])", "(1)", "((1))", "(\"a\")", "([1])", "(\"a\" \"b\")",
		"[x for x in [1, 2]]", "[x for x in [1, 2] if x == 1]", "[x + y for x in [1] for y in [2]]", "{x: x for x in [\"a\"]}", "[(x) for x in [1]]", "[x for x in ([1])]",
		"lambda: 1", "(lambda: 1)()", "(lambda x: x)(1)", "(lambda x, y=2: x + y)(1)", "1 if True else 2", "(1 if True else 2)", "[1 if True else 2]", "not True", "not (True)", "(not True)", "-(1)", "- 1"}
	for _, l := range lits {
		emit(mk("literal", l, "v = "+l+"\n"))
		emit(mk("literal", l+":in-list", "v = [\n    "+l+",\n]\n"))
		emit(mk("literal", l+":as-argument", "v = str("+l+")\n"))
	}
}

func orNone(s string) string {
	if s == "" {
		return "none"
	}
	return s
}

var concatLits = []struct{ kind, text string }{
	{"str", `"a"`}, {"str", `'b'`}, {"raw", `r"c\n"`}, {"raw", `r'd'`}, {"fvar", `f"{x}"`}, {"fplain", `f'e'`}, {"fvar", `f"g{x}h"`},
	{"str", `"""i"""`}, {"str", `'''j'''`}, {"str", `"k\"l"`}, {"str", `'m"n'`}, {"str", `"o'p"`},
}

func genConcat(maxN int, emit emitFn) {
	ctxs := []struct{ name, pre, sep, post string }{
		{"same-line", "v = ", " ", "\n"},
		{"adjacent", "v = ", "", "\n"},
		{"parens-multiline", "v = (\n    ", "\n    ", "\n)\n"},
		{"list-item", "v = [\n    ", "\n    ", ",\n    \"z\",\n]\n"},
		{"call-arg", "v = len(", " ", ")\n"},
	}
	for n := 2; n <= maxN; n++ {
		for idx := 0; idx < ipow(len(concatLits), n); idx++ {
			x := idx
			sel := make([]int, n)
			for i := n - 1; i >= 0; i-- {
				sel[i] = x % len(concatLits)
				x /= len(concatLits)
			}
			kinds := make([]string, n)
			texts := make([]string, n)
			for i, s := range sel {
				kinds[i], texts[i] = concatLits[s].kind, concatLits[s].text
			}
			for ci, c := range ctxs {
				if n > 2 && ci > 0 {
					continue
				}
				emit(mk("concat", strings.Join(kinds, "+")+":"+c.name, "x = \"X\"\n"+c.pre+strings.Join(texts, c.sep)+c.post))
			}
		}
	}
}

// expressions: n operands, every operator choice, every parenthesisation (explicit parens, also doubled), unary prefixes.
var exprOps = []string{"+", "-", "*", "%", "<", "==", "and", "or", "is", "is not", "in", "not in"}

type bracketing struct {
	name string
	// open[i] = number of "(" before operand i, close[i] = number of ")" after operand i
	open, close []int
}

func bracketings(n int) []bracketing {
	if n == 2 {
		return []bracketing{{"none", []int{0, 0}, []int{0, 0}}, {"(ab)", []int{1, 0}, []int{0, 1}}, {"((ab))", []int{2, 0}, []int{0, 2}}}
	}
	if n == 3 {
		return []bracketing{
			{"none", []int{0, 0, 0}, []int{0, 0, 0}},
			{"(ab)c", []int{1, 0, 0}, []int{0, 1, 0}},
			{"a(bc)", []int{0, 1, 0}, []int{0, 0, 1}},
			{"((ab))c", []int{2, 0, 0}, []int{0, 2, 0}},
			{"a((bc))", []int{0, 2, 0}, []int{0, 0, 2}},
			{"(abc)", []int{1, 0, 0}, []int{0, 0, 1}},
			{"((ab)c)", []int{2, 0, 0}, []int{0, 1, 1}},
			{"(a(bc))", []int{1, 1, 0}, []int{0, 0, 2}},
		}
	}
	return []bracketing{
		{"none", []int{0, 0, 0, 0}, []int{0, 0, 0, 0}},
		{"(ab)cd", []int{1, 0, 0, 0}, []int{0, 1, 0, 0}},
		{"a(bc)d", []int{0, 1, 0, 0}, []int{0, 0, 1, 0}},
		{"ab(cd)", []int{0, 0, 1, 0}, []int{0, 0, 0, 1}},
		{"(abc)d", []int{1, 0, 0, 0}, []int{0, 0, 1, 0}},
		{"a(bcd)", []int{0, 1, 0, 0}, []int{0, 0, 0, 1}},
		{"(ab)(cd)", []int{1, 0, 1, 0}, []int{0, 1, 0, 1}},
		{"((ab)c)d", []int{2, 0, 0, 0}, []int{0, 1, 1, 0}},
		{"(a(bc))d", []int{1, 1, 0, 0}, []int{0, 0, 2, 0}},
		{"a((bc)d)", []int{0, 2, 0, 0}, []int{0, 0, 1, 1}},
		{"a(b(cd))", []int{0, 1, 1, 0}, []int{0, 0, 0, 2}},
	}
}

func genExprs(maxOperands int, emit emitFn) {
	vals := []string{"7", "3", "2", "5"}
	unary := []string{"", "not ", "-"}
	for n := 2; n <= maxOperands; n++ {
		for idx := 0; idx < ipow(len(exprOps), n-1); idx++ {
			x := idx
			ops := make([]string, n-1)
			for i := n - 2; i >= 0; i-- {
				ops[i] = exprOps[x%len(exprOps)]
				x /= len(exprOps)
			}
			for _, br := range bracketings(n) {
				for _, un := range unary {
					var sb strings.Builder
					sb.WriteString(un)
					for i := 0; i < n; i++ {
						sb.WriteString(strings.Repeat("(", br.open[i]))
						v := vals[i]
						if i > 0 && (ops[i-1] == "in" || ops[i-1] == "not in") && br.open[i] == 0 {
							v = "[" + v + ", 9]"
						}
						sb.WriteString(v)
						sb.WriteString(strings.Repeat(")", br.close[i]))
						if i < n-1 {
							sb.WriteString(" " + ops[i] + " ")
						}
					}
					feat := "ops=" + strings.Join(ops, ",") + ":parens=" + br.name + ":unary=" + orNone(strings.TrimSpace(un))
					emit(mk("expr", feat, "v = "+sb.String()+"\n"))
				}
			}
		}
	}
	// inline if with binary operands and parenthesised parts
	parts := []string{"7", "(7)", "7 - 3", "(7 - 3)", "0", "7 if 0 else 3", "(7 if 0 else 3)", "not 7", "(not 7)", "7 or 0", "lambda: 7", "(lambda: 7)"}
	for _, a := range parts {
		for _, b := range parts {
			for _, c := range parts {
				emit(mk("expr", "inline-if", "v = "+a+" if "+b+" else "+c+"\n"))
				emit(mk("expr", "inline-if:parenthesised", "v = ("+a+" if "+b+" else "+c+")\nw = [("+a+") for i in [1] if ("+b+")]\n"))
			}
		}
	}
}

// defs: parameter forms x spacing x return annotation, followed by calls.
// genDefs: forms2 limits the parameter forms used when there are two parameters (0 = all).
func genDefs(maxParams, forms2 int, emit emitFn) {
	forms := []struct{ name, text string }{
		{"plain", "A"}, {"default", "A=1"}, {"type", "A:int"}, {"type-default", "A:int=1"}, {"union", "A:int|str"},
		{"union-default", "A:str|int=1"}, {"type-alias", "A:int&Z"}, {"union-aliases-default", "A:int|str&Z&Y=1"},
		{"alias", "A&Z"}, {"alias-default", "A&Z=1"}, {"list-default", "A:list=[]"}, {"dict-default", "A:dict={}"},
		{"bool-default", "A:bool=False"}, {"none-default", "A:function=None"}, {"str-default", "A:str='s'"},
	}
	rets := []string{"", " -> list", "->list"}
	spaced := func(s string) string {
		for _, c := range []string{":", "|", "&", "="} {
			s = strings.ReplaceAll(s, c, " "+c+" ")
		}
		return s
	}
	inst := func(f string, k int) string {
		if k == 1 {
			f = strings.NewReplacer("A", "b", "Z", "w", "Y", "u").Replace(f)
		} else {
			f = strings.NewReplacer("A", "a", "Z", "z", "Y", "y").Replace(f)
		}
		return f
	}
	for n := 1; n <= maxParams; n++ {
		nf := len(forms)
		if n == 2 && forms2 > 0 {
			nf = forms2
		}
		for idx := 0; idx < ipow(nf, n); idx++ {
			x := idx
			sel := make([]int, n)
			for i := n - 1; i >= 0; i-- {
				sel[i] = x % nf
				x /= nf
			}
			for _, ret := range rets {
				for sp := 0; sp < 2; sp++ {
					var ps, names, feats []string
					for k, s := range sel {
						t := inst(forms[s].text, k)
						if sp == 1 {
							t = spaced(t)
						}
						ps = append(ps, t)
						names = append(names, []string{"a", "b"}[k])
						feats = append(feats, forms[s].name)
					}
					code := "def f(" + strings.Join(ps, ", ") + ")" + ret + ":\n    return [" + strings.Join(names, ", ") + "]\n"
					if n == 1 {
						code += "r1 = f(1)\nr2 = f(a=2)\n"
					} else {
						code += "r1 = f(1, 2)\nr2 = f(a=2, b=3)\nr3 = f(1)\nr5 = f(b=3, a=2)\n"
						emit(mk("def", "params="+strings.Join(feats, ",")+":keyword-before-positional-call", code+"r6 = f(b=3, 1)\n"))
					}
					feat := "params=" + strings.Join(feats, ",") + ":return=" + orNone(strings.TrimSpace(ret)) + ":spaced=" + fmt.Sprint(sp == 1)
					emit(mk("def", feat, code))
					// calls through aliases (each accepted or rejected by asp as it may be)
					emit(mk("def", feat+":alias-call", code+"r4 = f(z=4)\n"))
				}
			}
		}
	}
}

// statement templates with every placement of comments / blank lines between lines and at line ends.
var stmtTemplates = []struct {
	name  string
	lines []string
}{
	{"if-elif-else", []string{"a = 1", "if a == 1:", "    b = 1", "elif a == 2:", "    b = 2", "else:", "    b = 3"}},
	{"for-if-continue", []string{"t = 0", "for i in [1, 2, 3]:", "    if i == 2:", "        continue", "    t = t + i"}},
	{"def-docstring-nested", []string{"def f(a):", "    \"\"\"doc.\"\"\"", "    def g(b):", "        return b + 1", "    return g(a)", "r = f(1)"}},
	{"multiline-list", []string{"v = [", "    1,", "    2,", "]"}},
	{"multiline-dict", []string{"v = {", "    \"b\": 1,", "    \"a\": 2,", "}"}},
	{"multiline-call", []string{"v = sorted(", "    [\"b\", \"a\"],", ")"}},
	{"comprehension", []string{"v = [", "    i + 1", "    for i in [1, 2]", "    if i", "]"}},
	{"misc-statements", []string{"d = {\"k\": 1}", "d[\"k\"] = 2", "d[\"k\"] += 1", "a, b = (1, 2)", "l = [1]", "l += [2]", "assert a == 1, \"m\"", "s = \"%s-%s\" % (a, b)", "u = l[0:1]", "w = (1,)", "z = lambda q: q + 1", "zz = z(1)", "pass"}},
	{"def-pass-only", []string{"def f():", "    pass", "r = f()"}},
	{"if-pass", []string{"a = 1", "if a:", "    pass", "b = 2"}},
}

func genStmts(thorough bool, emit emitFn) {
	gapOpts := []string{"", "#c"} // "#c" = comment line at the indentation of the following line
	if thorough {
		gapOpts = []string{"", "#c", "blank", "#col0"}
	}
	for _, t := range stmtTemplates {
		gaps := len(t.lines) // gap i is BEFORE line i (gap 0 = file start); plus end-of-line comments one at a time
		lim := gaps
		if lim > 7 {
			lim = 7
		}
		for idx := 0; idx < ipow(len(gapOpts), lim); idx++ {
			x := idx
			sel := make([]int, gaps)
			for i := 0; i < lim; i++ {
				sel[i] = x % len(gapOpts)
				x /= len(gapOpts)
			}
			var sb strings.Builder
			for i, l := range t.lines {
				ind := l[:len(l)-len(strings.TrimLeft(l, " "))]
				switch gapOpts[sel[i]] {
				case "#c":
					sb.WriteString(ind + "# c\n")
				case "blank":
					sb.WriteString("\n")
				case "#col0":
					sb.WriteString("# c\n")
				}
				sb.WriteString(l + "\n")
			}
			emit(mk("stmt", t.name+":comment-placement", sb.String()))
		}
		emit(mk("stmt", t.name+":crlf-line-endings", strings.Join(t.lines, "\r\n")+"\r\n"))
		emit(mk("stmt", t.name+":no-final-newline", strings.Join(t.lines, "\n")))
		emit(mk("stmt", t.name+":trailing-spaces", strings.Join(t.lines, "  \n")+"\n"))
		for i := range t.lines { // one end-of-line comment
			var sb strings.Builder
			for j, l := range t.lines {
				if i == j {
					l += "  # c"
				}
				sb.WriteString(l + "\n")
			}
			emit(mk("stmt", t.name+":eol-comment", sb.String()))
		}
	}
}

// rule calls: every keyword order and list order.
type attrVal struct{ name, val, tag string }

func perms(n int) [][]int {
	if n == 0 {
		return [][]int{{}}
	}
	var out [][]int
	for _, p := range perms(n - 1) {
		for i := 0; i <= len(p); i++ {
			q := append(append(append([]int{}, p[:i]...), n-1), p[i:]...)
			out = append(out, q)
		}
	}
	return out
}

var ruleAttrs = map[string][]attrVal{
	"srcs":          {{"srcs", `["b.txt", "a.txt"]`, "unsorted-files"}, {"srcs", `["a.txt", "a.txt"]`, "duplicate-files"}, {"srcs", `[":z", ":y"]`, "unsorted-labels"}, {"srcs", `["//q:q"]`, "redundant-target-name"}, {"srcs", `["@r//q:q"]`, "subrepo-redundant-target-name"}},
	"deps":          {{"deps", `["//b:x", "//a:x"]`, "unsorted-labels"}, {"deps", `["//a:a"]`, "redundant-target-name"}, {"deps", `["//a" + ":x"]`, "concatenated-label"}, {"deps", `["@r//:r"]`, "subrepo-redundant-target-name"}, {"deps", `[":y", ":y"]`, "duplicate-labels"}},
	"visibility":    {{"visibility", `["//b/...", "//a/..."]`, "unsorted"}, {"visibility", `["PUBLIC"]`, "public"}},
	"labels":        {{"labels", `["b", "a"]`, "unsorted"}, {"labels", `["a", "a"]`, "duplicate"}},
	"tools":         {{"tools", `["//t:b", "//t:a"]`, "unsorted-labels"}, {"tools", `["//t:t"]`, "redundant-target-name"}, {"tools", `["@r//t:t"]`, "subrepo-redundant-target-name"}},
	"data":          {{"data", `["d2.txt", "d1.txt"]`, "unsorted-files"}, {"data", `["@r//d:d"]`, "subrepo-redundant-target-name"}},
	"outs":          {{"outs", `["b.out", "a.out"]`, "unsorted"}},
	"tag":           {{"tag", `"tg"`, "set"}},
	"test_only":     {{"test_only", `True`, "set"}},
	"exported_deps": {{"exported_deps", `["//e:x", "//d:x"]`, "unsorted-labels"}},
	"hashes":        {{"hashes", `["h2", "h1"]`, "unsorted"}},
	"licences":      {{"licences", `["MIT", "Apache-2.0"]`, "unsorted"}},
	"requires":      {{"requires", `["r2", "r1"]`, "unsorted"}},
	"pass_env":      {{"pass_env", `["B", "A"]`, "unsorted"}},
	"secrets":       {{"secrets", `["s2", "s1"]`, "unsorted"}},
	"output_dirs":   {{"output_dirs", `["o2", "o1"]`, "unsorted"}},
	"optional_outs": {{"optional_outs", `["p2", "p1"]`, "unsorted"}},
}

type ruleKind struct {
	name, pre, fixed string
	attrs            []string
}

var ruleKinds = []ruleKind{
	{"filegroup", "", ``, []string{"srcs", "deps", "visibility", "labels", "tag", "test_only", "exported_deps", "hashes", "licences", "requires"}},
	{"genrule", "", `cmd = "c"`, []string{"srcs", "outs", "deps", "tools", "visibility", "labels", "data", "hashes", "licences", "requires", "pass_env", "secrets", "output_dirs", "optional_outs"}},
	{"build_rule", "", `cmd = "c"`, []string{"srcs", "outs", "deps", "tools", "visibility", "labels", "data", "tag", "hashes", "licences", "requires", "pass_env", "secrets", "output_dirs", "optional_outs"}},
	// a user-defined macro whose list arguments are used as VALUES (order, duplicates and spelling are all visible in cmd)
	{"macro", "def macro(name, srcs=[], deps=[], outs=[], tools=[], labels=[], visibility=None):\n    return build_rule(name = name, cmd = \" \".join(srcs + deps + outs + tools + labels), visibility = visibility)\n\n", ``, []string{"srcs", "deps", "outs", "tools", "labels", "visibility"}},
}

// ruleProg renders one call. order is a permutation of the arguments (nil = as declared).
func ruleProg(kind ruleKind, vals []attrVal, order []int, multiline bool) prog {
	args := []string{`name = "t"`}
	if kind.fixed != "" {
		args = append(args, kind.fixed)
	}
	tags := []string{}
	for _, v := range vals {
		args = append(args, v.name+" = "+v.val)
		tags = append(tags, v.name+"="+v.tag)
	}
	ordered := args
	inOrder := true
	if order != nil {
		ordered = make([]string, len(args))
		for i, j := range order {
			ordered[i] = args[j]
			if j != i {
				inOrder = false
			}
		}
	}
	var call string
	if !multiline {
		call = kind.name + "(" + strings.Join(ordered, ", ") + ")\n"
	} else {
		call = kind.name + "(\n    " + strings.Join(ordered, ",\n    ") + ",\n)\n"
	}
	feat := kind.name + ":" + strings.Join(tags, ",") + ":declared-order=" + fmt.Sprint(inOrder)
	return mk("rule", feat, kind.pre+call)
}

func genRules(maxAttrs int, allOrders bool, emit emitFn) {
	for k := 1; k <= maxAttrs; k++ {
		for _, kind := range ruleKinds {
			var choose func(start int, cur []string)
			choose = func(start int, cur []string) {
				if len(cur) == k {
					var vals func(i int, curv []attrVal)
					vals = func(i int, curv []attrVal) {
						if i == len(cur) {
							n := 1 + len(curv)
							if kind.fixed != "" {
								n++
							}
							ps := perms(n)
							for pi, p := range ps {
								if !allOrders && pi != 0 && pi != len(ps)-1 {
									continue // quick tier: declared order and one other order
								}
								if k >= 3 && pi%5 != 0 && pi != len(ps)-1 {
									continue // every 5th order (and the last one) when there are >= 4 arguments
								}
								emit(ruleProg(kind, curv, p, false))
								if pi == 0 {
									emit(ruleProg(kind, curv, p, true))
								}
							}
							return
						}
						for _, v := range ruleAttrs[cur[i]] {
							vals(i+1, append(append([]attrVal{}, curv...), v))
						}
					}
					vals(0, nil)
					return
				}
				for i := start; i < len(kind.attrs); i++ {
					choose(i+1, append(append([]string{}, cur...), kind.attrs[i]))
				}
			}
			choose(0, nil)
		}
	}
}

// subinclude sequences.
func genSubincludes(maxN int, emit emitFn) {
	stmts := []struct{ name, text string }{
		{"one", `subinclude("//a:a")`}, {"two", `subinclude("//b:b", "//c:c")`}, {"empty", `subinclude()`},
		{"trailing-comma", `subinclude("//d:d", "//e:e",)`}, {"variable", `subinclude(L)`}, {"list", `subinclude(["//f:f"])`},
		{"assignment", `v = 1`}, {"comment", `# c`}, {"blank", ``}, {"eol-comment", `subinclude("//g:g")  # c`},
		{"multi-line", "subinclude(\n    \"//h:h\",\n)"}, {"nested", "if True:\n    subinclude(\"//i:i\")\n    subinclude(\"//j:j\")"},
		{"concat-arg", `subinclude("//k" ":k")`}, {"fstring-arg", `subinclude(f"//l:l")`}, {"other-call", `package(default_visibility = ["PUBLIC"])`},
		{"target", `filegroup(name = "t")`}, {"local-label", `subinclude(":t")`},
	}
	for n := 1; n <= maxN; n++ {
		for idx := 0; idx < ipow(len(stmts), n); idx++ {
			x := idx
			sel := make([]int, n)
			for i := n - 1; i >= 0; i-- {
				sel[i] = x % len(stmts)
				x /= len(stmts)
			}
			names := make([]string, n)
			var sb strings.Builder
			sb.WriteString("L = [\"//m:m\"]\n")
			for i, s := range sel {
				names[i] = stmts[s].name
				sb.WriteString(stmts[s].text + "\n")
			}
			emit(mk("subinclude", strings.Join(names, ","), sb.String()))
		}
	}
}

// ---- real subincludes ------------------------------------------------------------------------------------------------
// The formatter merges consecutive subinclude statements into ONE call with several arguments. That only preserves
// meaning if subinclude(a, b, c) does what subinclude(a); subinclude(b); subinclude(c) does - a fact about the builtin,
// which the recorder above replaces. Here the REAL builtin loads real (pre-built) targets: //x:a and //x:b define a common
// name, //x:t has two named outputs. Every sequence of <=3 statements is evaluated before and after formatting.

func realSubincludeTier(r *lib.Run, dir string) int {
	root := filepath.Join(dir, "realsub")
	files := map[string]string{
		"plz-out/gen/x/a.build_defs":   "V = \"a\"\nA = 1\n",
		"plz-out/gen/x/b.build_defs":   "V = \"b\"\nB = 1\n",
		"plz-out/gen/x/one.build_defs": "V = \"one\"\nONE = 1\n",
		"plz-out/gen/x/two.build_defs": "V = \"two\"\nTWO = 1\n",
	}
	for p, c := range files {
		os.MkdirAll(filepath.Join(root, filepath.Dir(p)), 0o755)
		os.WriteFile(filepath.Join(root, p), []byte(c), 0o644)
	}
	old, _ := os.Getwd()
	oldRoot := core.RepoRoot
	os.Chdir(root)
	core.RepoRoot = root
	defer func() { os.Chdir(old); core.RepoRoot = oldRoot }()
	dbg := func(m string) {
		if os.Getenv("C38_DEBUG") != "" {
			f, _ := os.OpenFile("/tmp/c38.dbg", os.O_APPEND|os.O_CREATE|os.O_WRONLY, 0o644)
			f.WriteString(m + "\n")
			f.Close()
		}
	}
	dbg("start")
	names, _ := rules.AllAssets()
	sort.Strings(names)
	dbg("assets")
	eval := func(code string) (map[string]any, error) {
		state := core.NewDefaultBuildState()
		pkg := core.NewPackage("x")
		mk := func(name string, outs ...string) *core.BuildTarget {
			t := core.NewBuildTarget(core.NewBuildLabel("x", name))
			for _, o := range outs {
				t.AddOutput(o)
			}
			t.Visibility = core.WholeGraph
			t.SetState(core.Built)
			pkg.AddTarget(t)
			state.Graph.AddTarget(t)
			return t
		}
		mk("a", "a.build_defs")
		mk("b", "b.build_defs")
		t := mk("t")
		t.AddNamedOutput("one", "one.build_defs")
		t.AddNamedOutput("two", "two.build_defs")
		state.Graph.AddPackage(pkg)
		p := asp.NewParser(state)
		for _, fn := range names {
			src, _ := rules.ReadAsset(fn)
			if err := p.LoadBuiltins(fn, src); err != nil {
				lib.Fatal("loading builtin %s: %s", fn, err)
			}
		}
		g, err := asp.VerifEvalBuildC38(p, core.NewPackage("test/pkg"), code)
		if err != nil {
			return nil, err
		}
		out := map[string]any{}
		for k, v := range g {
			if m, isMap := v.(map[string]any); isMap {
				if _, isFunc := m["<func>"]; isFunc {
					continue
				}
			}
			out[k] = v
		}
		return out, nil
	}
	// (a subinclude that waits for something nobody will build would block for ever: that is a harness error, not a verdict)
	evalT := func(code string) (map[string]any, error) {
		type res struct {
			g   map[string]any
			err error
		}
		ch := make(chan res, 1)
		go func() { g, err := eval(code); ch <- res{g, err} }()
		select {
		case x := <-ch:
			return x.g, x.err
		case <-time.After(60 * time.Second):
			lib.Fatal("real-subinclude tier: evaluation of %q did not return within 60 s", code)
			return nil, nil
		}
	}
	stmts := []string{`subinclude("//x:a")`, `subinclude("//x:b")`, `subinclude("//x:t|one")`, `subinclude("//x:t|two")`, `subinclude("//x:t")`, `v = 1`}
	e := &evaluator{cfg: core.DefaultConfiguration(), file: filepath.Join(root, "BUILD")}
	n := 0
	for length := 1; length <= 3; length++ {
		for idx := 0; idx < ipow(len(stmts), length); idx++ {
			x := idx
			var lines []string
			for i := 0; i < length; i++ {
				lines = append([]string{stmts[x%len(stmts)]}, lines...)
				x /= len(stmts)
			}
			code := strings.Join(lines, "\n") + "\n"
			dbg("eval " + code)
			before, err := evalT(code)
			if err != nil {
				continue
			}
			n++
			formatted, err := e.fmtOnce(code)
			if err != nil {
				continue
			}
			after, err := evalT(formatted)
			if err != nil {
				r.Violate("subinclude-real:merged-call-differs-from-separate-calls:formatted-rejected", prog{Fam: "subinclude-real", Code: code},
					fmt.Sprintf("accepted before formatting; the formatted file %q is rejected: %s", formatted, firstLine(err.Error())))
				continue
			}
			if !reflect.DeepEqual(before, after) {
				r.Violate("subinclude-real:merged-call-differs-from-separate-calls:value-changed", prog{Fam: "subinclude-real", Code: code},
					fmt.Sprintf("globals %s before formatting, %s after (formatted: %q)", short(before), short(after), formatted))
			}
		}
	}
	return n
}

func genCorpus(emit emitFn) {
	root := os.Getenv("VERIF_REPO")
	if root == "" {
		root = "/repo"
	}
	var files []string
	filepath.Walk(root, func(p string, info os.FileInfo, err error) error {
		if err != nil {
			return nil
		}
		if info.IsDir() {
			if n := info.Name(); n == "plz-out" || n == ".git" {
				return filepath.SkipDir
			}
			return nil
		}
		n := info.Name()
		if info.Mode().IsRegular() && (n == "BUILD" || n == "BUILD.plz" || strings.HasSuffix(n, ".build_defs") || strings.HasSuffix(n, ".build")) {
			files = append(files, p)
		}
		return nil
	})
	sort.Strings(files)
	for _, f := range files {
		b, err := os.ReadFile(f)
		if err != nil {
			continue
		}
		rel, _ := filepath.Rel(root, f)
		emit(prog{Fam: "corpus", Feat: rel, Code: string(b), SyntaxOnly: true})
	}
}

// ---------------------------------------------------------------------------------------------------------------

type famStats struct {
	Cases, Rejected, FormatterError, FormatterCrashShapeSkipped, Unchanged, Reformatted, Violations int64
}

func main() {
	r := lib.Start("C38", "exploration")
	lib.Quiet()
	base := ""
	if st, err := os.Stat("/dev/shm"); err == nil && st.IsDir() {
		base = "/dev/shm" // tmpfs: the formatter's write+rename per case is much cheaper there
	}
	dir, err := os.MkdirTemp(base, "verif-c38-")
	if err != nil && base != "" {
		dir, err = os.MkdirTemp("", "verif-c38-")
	}
	if err != nil {
		lib.Fatal("%s", err)
	}
	defer os.RemoveAll(dir)

	realSubPrograms := 0
	if r.Replay == "" {
		realSubPrograms = realSubincludeTier(r, dir)
	}
	if r.Replay != "" {
		var p prog
		lib.LoadReplay(r.Replay, &p)
		if p.Fam == "subinclude-real" {
			realSubincludeTier(r, dir) // (small: the whole tier is re-run)
			os.RemoveAll(dir)
			r.Finish(lib.Coverage{Evaluations: 1, DistinctNontrivial: 1, Rule: "replay", Samples: []any{p}, Exhaustive: true})
		}
		e := newEvaluator(dir, 0)
		res := e.check(p)
		if res.Status == "violation" {
			cls, _ := classesOf(e, p, res)
			for _, c := range cls {
				r.Violate(c, p, res.Detail+" | formatted: "+fmt.Sprintf("%q", res.Formatted))
			}
		}
		os.RemoveAll(dir)
		r.Finish(lib.Coverage{Evaluations: 1, DistinctNontrivial: 1, Rule: "replay (status " + res.Status + ")", Samples: []any{p}, Exhaustive: true})
	}

	quick := r.Quick()
	ch := make(chan prog, 1024)
	go func() {
		defer close(ch)
		emit := func(p prog) { ch <- p }
		if quick {
			genLiterals(emit)
			genStrings(stringAlphaBase, 0, 2, 0, emit)
			genStrings([]string{"a", "'", "\"", "\\", "n", "{", "\n"}, 3, 3, 0, emit) // length 3 over the 7 symbols that interact
			genStrings(append(append([]string{}, stringAlphaBase...), stringAlphaExtra...), 1, 2, len(stringAlphaBase), emit)
			genConcat(2, emit)
			genExprs(3, emit)
			genDefs(2, 4, emit)
			genStmts(false, emit)
			genRules(2, false, emit)
			genSubincludes(3, emit)
			genCorpus(emit)
		} else {
			genLiterals(emit)
			genStrings(stringAlphaBase, 0, 4, 0, emit)
			genStrings(append(append([]string{}, stringAlphaBase...), stringAlphaExtra...), 1, 3, len(stringAlphaBase), emit)
			genConcat(3, emit)
			genExprs(4, emit)
			genDefs(2, 0, emit)
			genStmts(true, emit)
			genRules(3, true, emit)
			genSubincludes(4, emit)
			genCorpus(emit)
		}
	}()

	var mu sync.Mutex
	stats := map[string]*famStats{}
	fmtErrFeat := map[string]int{}
	type best struct {
		p      prog
		detail string
		n      int
	}
	bests := map[string]*best{}
	var samples lib.Samples
	var capped atomic.Bool
	var wg sync.WaitGroup
	for w := 0; w < runtime.NumCPU(); w++ {
		wg.Add(1)
		go func(w int) {
			defer wg.Done()
			e := newEvaluator(dir, w)
			for p := range ch {
				if r.OutOfTime() {
					capped.Store(true)
					continue
				}
				res := e.check(p)
				var classes []string
				var wits []prog
				if res.Status == "violation" {
					if res2 := e.check(p); res2.Status != "violation" || res2.Effect != res.Effect {
						lib.Fatal("HARNESS-NONDETERMINISM %q: %s/%s then %s/%s", p.Code, res.Status, res.Effect, res2.Status, res2.Effect)
					}
					classes, wits = classesOf(e, p, res)
				}
				mu.Lock()
				st := stats[p.Fam]
				if st == nil {
					st = &famStats{}
					stats[p.Fam] = st
				}
				st.Cases++
				switch res.Status {
				case "skipped-rejected":
					st.Rejected++
				case "formatter-crash-shape":
					st.FormatterCrashShapeSkipped++
				case "formatter-error":
					st.FormatterError++
					fmtErrFeat[p.Fam+":"+errKind(firstLine(stripPos(res.Detail)))]++
				case "ok":
					if res.Changed {
						st.Reformatted++
					} else {
						st.Unchanged++
					}
				case "violation":
					st.Violations++
					for i, class := range classes {
						wp := wits[i]
						detail := res.Detail + " | formatted: " + fmt.Sprintf("%q", res.Formatted)
						if wp.Code != p.Code {
							detail = "witness reduced from a larger violating case of the same class; replay it for the exact difference"
						}
						b := bests[class]
						if b == nil {
							b = &best{p: wp, detail: detail}
							bests[class] = b
						} else if simpler(wp, b.p) {
							b.p, b.detail = wp, detail
						}
						b.n++
					}
				}
				mu.Unlock()
				if !p.SyntaxOnly {
					samples.Add(func() any { return p })
				}
			}
		}(w)
	}
	wg.Wait()
	os.RemoveAll(dir)

	classes := make([]string, 0, len(bests))
	for c := range bests {
		classes = append(classes, c)
	}
	sort.Strings(classes)
	for _, c := range classes {
		b := bests[c]
		r.Violate(c, b.p, b.detail)
		for i := 1; i < b.n; i++ {
			r.Violate(c, nil, "")
		}
	}
	var evals, nontrivial int64
	for _, st := range stats {
		evals += st.Cases
		nontrivial += st.Reformatted + st.Violations
	}
	r.Assume = []string{
		"precondition 'a file that Please accepts' = the real asp parser+interpreter evaluates it without error as the BUILD file of //test/pkg with all built-in rules loaded; programs asp rejects are skipped and counted",
		"a formatter ERROR (buildtools cannot parse the dialect, e.g. docs/commands.html#fmt: 'lacks one or two features') leaves the file untouched and is not a violation; counted in formatter_errors",
		"'same targets with the same attributes' is read through the core.BuildTarget API (every exported field + declared deps/outputs): Please itself stores deps and outs sorted, so re-ordering those is invisible, while srcs/tools/data/labels order is an attribute value",
		"subinclude() is replaced by a recorder of its flattened argument sequence (nothing is loaded), each label together with the targets the package has and the variables the scope has at that call; merged subincludes must give the same sequence, i.e. a subinclude may not move across a statement it can observe",
		"the repository's own BUILD files cannot be evaluated in isolation; for them only 'asp still parses the formatted text' and idempotence are checked",
	}
	r.Finish(lib.Coverage{
		Evaluations:        int(evals),
		DistinctNontrivial: int(nontrivial),
		Rule:               "cases are distinct generated files; non-trivial = accepted by asp AND actually changed by the formatter (or violating)",
		Samples:            samples.List(),
		Exhaustive:         !capped.Load(),
		Extra:              map[string]any{"families": stats, "formatter_errors": fmtErrFeat, "real_subinclude_programs_compared": realSubPrograms, "write_backs_through_a_symlink_compared": atomic.LoadInt64(&symlinkChecks)},
	})
}

// simpler orders witnesses: shorter first, then calls written in declared argument order, then lexicographically.
func simpler(a, b prog) bool {
	if len(a.Code) != len(b.Code) {
		return len(a.Code) < len(b.Code)
	}
	ao, bo := strings.Contains(a.Feat, "declared-order=false"), strings.Contains(b.Feat, "declared-order=false")
	if ao != bo {
		return bo
	}
	return a.Code < b.Code
}

// errKind drops the quoted input text from a buildtools error message.
func errKind(s string) string {
	for _, k := range []string{"escape sequence", "syntax error near"} {
		if i := strings.Index(s, k); i >= 0 {
			return s[:i+len(k)]
		}
	}
	return s
}

func stripPos(s string) string {
	// buildtools errors look like "<file>:<line>:<col>: message"
	if i := strings.Index(s, ": "); i >= 0 && strings.Contains(s[:i], "BUILD") {
		return s[i+2:]
	}
	return s
}

// causeOfTag maps the shape of a list argument to the buildtools rewrite that touches it.
func causeOfTag(tag string) string {
	switch {
	case strings.HasPrefix(tag, "unsorted"):
		return "listsort:reorders"
	case strings.HasPrefix(tag, "duplicate"):
		return "listsort:deduplicates"
	case strings.Contains(tag, "redundant-target-name"):
		return "fixlabels:drops-redundant-target-name"
	case tag == "concatenated-label":
		return "fixlabels:joins-concatenated-label"
	}
	return "other:" + tag
}

func stringLiteralOf(p prog) string {
	f := p.Feat // prefix=<p>:quote=<q>
	pf := f[len("prefix="):strings.Index(f, ":quote=")]
	if pf == "none" {
		pf = ""
	}
	q := f[strings.Index(f, ":quote=")+len(":quote="):]
	return pf + q + p.Aux + q
}

// stringUnits splits a literal's text into escape sequences and single bytes.
func stringUnits(s string) []string {
	var out []string
	for i := 0; i < len(s); {
		j := i + 1
		if s[i] == '\\' && j < len(s) {
			n := s[j]
			j++
			if n >= 0xc0 { // backslash + a multi-byte rune stay together
				for j < len(s) && s[j]&0xc0 == 0x80 {
					j++
				}
			}
			take := func(max int, ok func(byte) bool) {
				for k := 0; k < max && j < len(s) && ok(s[j]); k++ {
					j++
				}
			}
			isHex := func(b byte) bool { return b >= '0' && b <= '9' || b >= 'a' && b <= 'f' || b >= 'A' && b <= 'F' }
			switch {
			case n == 'x':
				take(2, isHex)
			case n == 'u':
				take(4, isHex)
			case n >= '0' && n <= '7':
				take(2, func(b byte) bool { return b >= '0' && b <= '7' })
			}
		} else if s[i] >= 0xc0 { // keep a UTF-8 sequence together
			for j < len(s) && s[j]&0xc0 == 0x80 {
				j++
			}
		}
		out = append(out, s[i:j])
		i = j
	}
	return out
}

// stringCause names what in a (non-raw) literal's text Python-style unquoting/quoting and asp's lexer read differently.
func stringCause(content string) string {
	for i := 0; i+1 < len(content); i++ {
		if content[i] != '\\' {
			continue
		}
		n := content[i+1]
		i++
		switch {
		case n == '\n':
			return "backslash-newline-read-as-continuation"
		case n == 'n' || n == 't' || n == '\\' || n == '\'' || n == '"':
			continue // the escapes asp implements
		case n == 'x':
			return "python-hex-escape-interpreted-on-requote"
		case n >= '0' && n <= '7':
			return "python-octal-escape-interpreted-on-requote"
		case n == 'u' || n == 'U':
			return "python-unicode-escape-interpreted-on-requote"
		case strings.IndexByte("abfvr", n) >= 0:
			return "python-escape-backslash-" + string(n) + "-interpreted-on-requote"
		}
	}
	for i := 0; i < len(content); i++ {
		c := content[i]
		if c >= 0x80 {
			return "non-ascii-byte-requoted-as-octal-escape"
		}
		if c < 0x20 && c != '\n' && c != '\t' {
			return "control-byte-requoted-as-octal-escape"
		}
	}
	return ""
}

func effectOfRule(kind string, effect string) string {
	if kind == "macro" && effect == "target-attr-changed:Command" {
		return "macro-argument-value-changed"
	}
	return effect
}

// classesOf names the root cause(s) of a violation: the rewrite / construct involved and the observed effect.
// Rule calls with several attributes are reduced to their single-attribute projections first.
func classesOf(e *evaluator, p prog, res result) (classes []string, witness []prog) {
	one := func(c string) ([]string, []prog) { return []string{c}, []prog{p} }
	if res.Effect == "formatted-rejected" && strings.Contains(res.Formatted, " \\\n") && strings.Contains(res.Detail, "Unknown symbol \\") {
		return one("fmt:implicit-string-concat-outside-brackets:printed-with-backslash-continuation:formatted-rejected")
	}
	switch p.Fam {
	case "expr":
		if strings.Contains(p.Feat, "ops=") {
			ops := strings.Split(strings.TrimPrefix(strings.Split(p.Feat, ":")[0], "ops="), ",")
			set := map[string]bool{}
			is := false
			for _, o := range ops {
				if o == "is" || o == "is not" {
					is = true
				}
				set[o] = true
			}
			if is && len(ops) > 1 {
				return one("fmt:is-operator-parsed-with-lowest-precedence:parentheses-inserted:" + res.Effect)
			}
			var l []string
			for o := range set {
				l = append(l, o)
			}
			sort.Strings(l)
			un := p.Feat[strings.LastIndex(p.Feat, ":unary=")+1:]
			return one("expr:ops=" + strings.Join(l, ",") + ":" + un + ":" + res.Effect)
		}
	case "string":
		if res.Effect == "value-changed" && !strings.Contains(p.Feat, "prefix=r") {
			// reduce the literal's text unit by unit (escape sequences are units) while the value still changes
			cur := p
			for changed := true; changed; {
				changed = false
				us := stringUnits(cur.Aux)
				for i := range us {
					cand := cur
					cand.Aux = strings.Join(append(append([]string{}, us[:i]...), us[i+1:]...), "")
					cand.Code = strings.Replace(cur.Code, stringLiteralOf(cur), stringLiteralOf(cand), 1)
					if r2 := e.check(cand); r2.Status == "violation" && r2.Effect == "value-changed" {
						cur, changed = cand, true
						break
					}
				}
			}
			if c := stringCause(cur.Aux); c != "" {
				return []string{"string-literal:" + c + ":value-changed"}, []prog{cur}
			}
		}
	case "rule":
		parts := strings.Split(p.Feat, ":")
		kindName := parts[0]
		var kind ruleKind
		for _, k := range ruleKinds {
			if k.name == kindName {
				kind = k
			}
		}
		var vals []attrVal
		for _, t := range strings.Split(parts[1], ",") {
			nt := strings.SplitN(t, "=", 2)
			for _, v := range ruleAttrs[nt[0]] {
				if v.tag == nt[1] {
					vals = append(vals, v)
				}
			}
		}
		if len(vals) == 1 {
			return one("fmt:" + causeOfTag(vals[0].tag) + ":arg=" + vals[0].name + ":" + effectOfRule(kindName, res.Effect))
		}
		for _, v := range vals {
			sub := ruleProg(kind, []attrVal{v}, nil, false)
			if r2 := e.check(sub); r2.Status == "violation" {
				classes = append(classes, "fmt:"+causeOfTag(v.tag)+":arg="+v.name+":"+effectOfRule(kindName, r2.Effect))
				witness = append(witness, sub)
			}
		}
		if len(classes) > 0 {
			return classes, witness
		}
		return one("rule:interaction:" + parts[0] + ":" + parts[1] + ":" + res.Effect)
	}
	if p.Fam == "def" && strings.Contains(p.Feat, "keyword-before-positional-call") {
		// asp accepts f(b=3, 1) (binding 1 by argument position); the reorderarguments rewrite moves it to the front
		cur := p // drop the calls that do not matter
		for changed := true; changed; {
			changed = false
			lines := strings.SplitAfter(cur.Code, "\n")
			for i, l := range lines {
				if !strings.HasPrefix(l, "r") {
					continue
				}
				cand := cur
				cand.Code = strings.Join(append(append([]string{}, lines[:i]...), lines[i+1:]...), "")
				if r2 := e.check(cand); r2.Status == "violation" && r2.Effect == res.Effect {
					cur, changed = cand, true
					break
				}
			}
		}
		return []string{"fmt:reorderarguments:positional-argument-after-keyword-argument-moved:" + res.Effect}, []prog{cur}
	}
	if p.Fam == "subinclude" {
		return one("subinclude-sequence:simplify-merge:" + res.Effect)
	}
	return one(p.Fam + ":" + p.Feat + ":" + res.Effect)
}

var _ = bytes.Equal

// Package schedh is the shared harness for C04/C05: it runs the REAL plz.Run worker loop, parse.Parse, core state
// machine, asp parser and build.Build control flow (all mechanically rewritten for the controlled scheduler) on a tiny
// repository, with only the command execution answered in-process by a fake that records start/end events.
package schedh

import (
	"fmt"
	"os"
	"path/filepath"
	"sort"
	"strings"

	"github.com/thought-machine/please/src/cli"
	"github.com/thought-machine/please/src/core"
	"github.com/thought-machine/please/src/plz"
	"github.com/thought-machine/please/src/process"
	"github.com/thought-machine/please/verifshim/vsched"
)

// Scenario is one tiny repository plus an invocation.
type Scenario struct {
	Name      string            `json:"name"`
	Files     map[string]string `json:"files"`   // path -> content (BUILD files and sources)
	Targets   []string          `json:"targets"` // command-line labels
	Threads   int               `json:"threads"`
	KeepGoing bool              `json:"keep_going,omitempty"`
	FailCmd   []string          `json:"fail_cmd,omitempty"` // labels whose command exits non-zero
	// Expectation for C05: labels that cannot be built (for the exit-status oracle); nil = everything builds.
	MustFail bool `json:"must_fail,omitempty"`
	// Query: a query-style invocation (state.NeedBuild == false): targets are only activated, and built only where a
	// subinclude() needs them.
	Query bool `json:"query,omitempty"`
}

// Event is one observation.
type Event struct {
	Kind  string // start, end, fail, result
	Label string
	Info  string
}

// StoreRec is one call of Cache.Store.
type StoreRec struct {
	Label string   `json:"label"`
	Key   string   `json:"key"`
	Files []string `json:"files"`
}

// Obs is everything observed in one execution.
type Obs struct {
	Events     []Event
	Returned   bool
	Dropped    int                 // results logged but never forwarded when the results channel was closed
	Failed     bool                // state.Failures() "anything"
	Deps       map[string][]string // resolved deps per built target (from the graph at the end)
	Stores     []StoreRec          // every Cache.Store call: key and file list
	Unresolved map[string][]string // per target: declared dependencies that were never resolved to any target
}

func (o *Obs) String() string {
	var sb strings.Builder
	for _, e := range o.Events {
		fmt.Fprintf(&sb, "%s %s %s\n", e.Kind, e.Label, e.Info)
	}
	fmt.Fprintf(&sb, "returned=%v failed=%v results_logged_but_never_delivered=%d\n", o.Returned, o.Failed, o.Dropped)
	return sb.String()
}

// Root is the per-process scratch repository root.
var Root string

// Setup prepares the process: scratch dir, chdir, RepoRoot.
func Setup(root string) {
	Root = root
	os.RemoveAll(root)
	if err := os.MkdirAll(root, 0o755); err != nil {
		panic(err)
	}
	if err := os.Chdir(root); err != nil {
		panic(err)
	}
	core.RepoRoot = root
}

// Materialise writes the scenario's files (outside any controlled execution).
func Materialise(sc Scenario) {
	es, _ := os.ReadDir(Root)
	for _, e := range es {
		os.RemoveAll(filepath.Join(Root, e.Name()))
	}
	for p, c := range sc.Files {
		os.MkdirAll(filepath.Dir(filepath.Join(Root, p)), 0o755)
		if err := os.WriteFile(filepath.Join(Root, p), []byte(c), 0o644); err != nil {
			panic(err)
		}
	}
}

// Body returns the function to run under vsched.Run (or free-running) and the observation it fills.
func Body(sc Scenario, obs *Obs) func() {
	return func() {
		os.RemoveAll(filepath.Join(Root, "plz-out"))
		*obs = Obs{Deps: map[string][]string{}}
		core.VerifLogged = 0
		fails := map[string]bool{}
		for _, l := range sc.FailCmd {
			fails[l] = true
		}
		process.VerifExecHook = func(target process.Target, dir string, env []string, cmd string) ([]byte, []byte, error) {
			label := target.String()
			vsched.Event("action")
			obs.Events = append(obs.Events, Event{"start", label, ""})
			// create the declared outputs in the temporary directory
			for _, e := range env {
				if strings.HasPrefix(e, "OUTS=") {
					for _, o := range strings.Fields(strings.TrimPrefix(e, "OUTS=")) {
						os.MkdirAll(filepath.Dir(filepath.Join(dir, o)), 0o755)
						os.WriteFile(filepath.Join(dir, o), []byte("# "+label+"\n"), 0o644) // (a comment: an output may be subincluded)
					}
				}
			}
			vsched.Yield()
			vsched.Event("action")
			if fails[label] {
				obs.Events = append(obs.Events, Event{"fail", label, ""})
				return nil, []byte("boom"), fmt.Errorf("exit status 1")
			}
			obs.Events = append(obs.Events, Event{"end", label, ""})
			return nil, nil, nil
		}
		config := core.DefaultConfiguration()
		config.Please.NumThreads = sc.Threads
		config.Display.SystemStats = false
		config.Build.Xattrs = true
		config.Parse.BuildFileName = []string{"BUILD"}
		config.Cache.Dir = ""
		config.Cache.DirClean = false
		state := core.NewBuildState(config)
		state.Cache = &fakeCache{obs: obs}
		state.KeepGoing = sc.KeepGoing
		state.NeedBuild = !sc.Query
		var labels []core.BuildLabel
		for _, t := range sc.Targets {
			labels = append(labels, core.ParseBuildLabel(t, ""))
		}
		results := state.Results()
		done := make(chan struct{})
		vsched.GoNamed("results-consumer", func() {
			for r := range vsched.RangeChan(results) {
				obs.Events = append(obs.Events, Event{"result", r.Label.String(), fmt.Sprintf("%d", r.Status)})
				// the real consumer (output.MonitorState) stops the build on the first failure unless --keep_going
				if r.Status.IsFailure() && (!state.KeepGoing || r.Status == core.ParseFailed) {
					state.Stop()
				}
			}
			vsched.Close(done)
		})
		plz.Run(labels, nil, state, config, cli.HostArch())
		vsched.Recv(done)
		nres := 0
		for _, e := range obs.Events {
			if e.Kind == "result" {
				nres++
			}
		}
		obs.Dropped = core.VerifLogged - nres
		obs.Returned = true
		obs.Failed, _, _ = state.Failures()
		for _, t := range state.Graph.AllTargets() {
			var ds []string
			for _, d := range t.Dependencies() {
				ds = append(ds, d.Label.String())
			}
			sort.Strings(ds)
			obs.Deps[t.Label.String()] = ds
			for _, l := range t.DeclaredDependencies() {
				if len(t.DependenciesFor(l)) == 0 {
					if obs.Unresolved == nil {
						obs.Unresolved = map[string][]string{}
					}
					obs.Unresolved[t.Label.String()] = append(obs.Unresolved[t.Label.String()], l.String())
				}
			}
		}
		vsched.End()
	}
}

// Status names for the terminal build results.
const (
	StBuilt  = int(core.TargetBuilt)
	StCached = int(core.TargetCached)
	StFailed = int(core.TargetBuildFailed)
)

// fakeCache never hits; a store takes time (one scheduling point) and is recorded, so "the dependency has finished
// building" includes its cache store, as in the real build step.
type fakeCache struct{ obs *Obs }

func (c *fakeCache) Store(target *core.BuildTarget, key []byte, files []string) {
	vsched.Event("action")
	vsched.Yield()
	vsched.Event("action")
	c.obs.Events = append(c.obs.Events, Event{"stored", target.Label.String(), ""})
	fs := append([]string{}, files...)
	sort.Strings(fs)
	c.obs.Stores = append(c.obs.Stores, StoreRec{Label: target.Label.String(), Key: fmt.Sprintf("%x", key), Files: fs})
}
func (c *fakeCache) Retrieve(target *core.BuildTarget, key []byte, files []string) bool { return false }
func (c *fakeCache) Clean(target *core.BuildTarget)                                     {}
func (c *fakeCache) CleanAll()                                                          {}
func (c *fakeCache) Shutdown()                                                          {}

// C20: build labels round-trip through String()/TryParseBuildLabel, and target patterns (//p/..., //p:all, //p:t)
// select exactly their targets at every site that uses them.
//
// Part A (round trip): every string up to a length bound over the alphabet  / : . a b @ _ # |  is given to the real
// TryParseBuildLabel; whenever it is accepted, the printed form must be accepted too and give the same label.
// Part B (patterns): every (pattern, label) pair over a generated package universe (all paths of <=2 / <=3 components
// over {p,q,pq,pfoo}, plus the root package) is put through each real call site that interprets a pattern and compared
// with the reference "//X/... selects X and X/**, //X:all selects X, //X:t selects //X:t".
package main

import (
	"fmt"
	"runtime"
	"sort"
	"strings"
	"sync"
	"sync/atomic"

	"github.com/thought-machine/please/src/core"
	"github.com/thought-machine/please/src/parse/asp"
	"github.com/thought-machine/please/verifharness/lib"
)

type witness struct {
	Kind string `json:"kind"` // "roundtrip" or "pattern"
	// roundtrip
	S   string `json:"s,omitempty"`
	Cwd string `json:"cwd,omitempty"`
	// pattern
	Site    string   `json:"site,omitempty"`
	Pattern string   `json:"pattern,omitempty"` // pattern string, or the experimental dir for the experimental-dir sites
	Pkg     string   `json:"pkg,omitempty"`
	Name    string   `json:"name,omitempty"`
	Pkgs    []string `json:"pkgs,omitempty"` // packages in the graph (ExpandLabels only)
}

// ---------------------------------------------------------------------------------------------------------------
// Part A

const alphabet = "/:.ab@_#|"

func nth(length int, idx uint64) string {
	b := make([]byte, length)
	for i := length - 1; i >= 0; i-- {
		b[i] = alphabet[idx%uint64(len(alphabet))]
		idx /= uint64(len(alphabet))
	}
	return string(b)
}

const forbiddenNameChars = `|$*?[]{}:()&/\`

// rtCheck returns (accepted, class, detail).
func rtCheck(s, cwd string) (bool, string, string) {
	l, err := core.TryParseBuildLabel(s, cwd, "")
	if err != nil {
		return false, "", ""
	}
	printed := l.String()
	l2, err2 := core.TryParseBuildLabel(printed, "", "")
	if err2 == nil && l2 == l {
		return true, "", ""
	}
	// Classify by the parser path that produced the name (mirrors the parser's own dispatch; used for naming only).
	form := parsePath(s)
	if err2 != nil {
		// what makes the printed form unacceptable (names the cause; the oracle is the re-parse above)
		defect := "other"
		switch {
		case (l.Name != "..." && strings.HasPrefix(l.Name, ".")) || strings.ContainsAny(l.Name, forbiddenNameChars):
			defect = "invalid-name"
		case strings.HasPrefix(l.PackageName, "/") || strings.HasSuffix(l.PackageName, "/") || strings.Contains(l.PackageName, "//") ||
			strings.ContainsAny(l.PackageName, `|$*?[]{}:()&\`):
			defect = "invalid-package"
		}
		return true, "roundtrip:" + form + ":printed-form-rejected:" + defect,
			fmt.Sprintf("TryParseBuildLabel(%q, %q) = %#v; String() = %q; TryParseBuildLabel(%q) fails: %v", s, cwd, l, printed, printed, err2)
	}
	if strings.HasPrefix(l.Subrepo, "/") || strings.HasSuffix(l.Subrepo, "/") {
		return true, "roundtrip:subrepo-edge-slash:reparse-differs",
			fmt.Sprintf("TryParseBuildLabel(%q, %q) = %#v; String() = %q; which parses to %#v", s, cwd, l, printed, l2)
	}
	diff := []string{}
	if l.PackageName != l2.PackageName {
		diff = append(diff, "package")
	}
	if l.Name != l2.Name {
		diff = append(diff, "name")
	}
	if l.Subrepo != l2.Subrepo {
		diff = append(diff, "subrepo")
	}
	return true, "roundtrip:" + form + ":reparse-differs:" + strings.Join(diff, "+"),
		fmt.Sprintf("TryParseBuildLabel(%q, %q) = %#v; String() = %q; which parses to %#v", s, cwd, l, printed, l2)
}

// parsePath says which branch of ParseBuildLabelParts / parseBuildLabelSubrepo yields the name of s.
func parsePath(s string) string {
	for {
		body := ""
		switch {
		case strings.HasPrefix(s, "@"):
			body = s[1:]
		case strings.HasPrefix(s, "///"):
			body = s[3:]
		default:
			if strings.Contains(s, ":") {
				return "explicit"
			}
			return "abbreviated"
		}
		idx := strings.Index(body, "//")
		if idx == -1 {
			if idx = strings.IndexByte(body, ':'); idx == -1 {
				return "subrepo-shorthand"
			}
		}
		s = body[idx:]
	}
}

func cwdsFor(s string) []string {
	if s[0] == ':' || s[0] == '@' {
		return []string{"", "p/q"}
	}
	return []string{""}
}

// ---------------------------------------------------------------------------------------------------------------
// Part B

func sel(x, y string) bool { return x == "" || y == x || strings.HasPrefix(y, x+"/") }

func patString(pkg, name string) string {
	if name == "..." {
		if pkg == "" {
			return "//..."
		}
		return "//" + pkg + "/..."
	}
	return "//" + pkg + ":" + name
}

func mustParse(s string) core.BuildLabel {
	l, err := core.TryParseBuildLabel(s, "", "")
	if err != nil {
		lib.Fatal("cannot parse generated pattern %q: %v", s, err)
	}
	return l
}

// parentName is the documented hidden-target convention (_x#y belongs to x).
func parentName(name string) string {
	if i := strings.IndexByte(name, '#'); i != -1 && strings.HasPrefix(name, "_") {
		return strings.TrimLeft(name[:i], "_")
	}
	return name
}

// refIncludes: exact selection.
func refIncludes(p core.BuildLabel, pkg, name string) bool {
	switch p.Name {
	case "...":
		return sel(p.PackageName, pkg)
	case "all":
		return p.PackageName == pkg
	}
	return p.PackageName == pkg && p.Name == name
}

// refMatches: as refIncludes, but a plain label also matches its hidden children (documented on Matches).
func refMatches(p core.BuildLabel, pkg, name string) bool {
	switch p.Name {
	case "...", "all":
		return refIncludes(p, pkg, name)
	}
	return p.PackageName == pkg && p.Name == parentName(name)
}

type env struct {
	base      *core.BuildState
	expStates map[string]*core.BuildState
}

func newEnv() *env {
	return &env{base: core.NewDefaultBuildState(), expStates: map[string]*core.BuildState{}}
}

func (e *env) expState(dir string) *core.BuildState {
	if s, ok := e.expStates[dir]; ok {
		return s
	}
	c := core.DefaultConfiguration()
	c.Parse.ExperimentalDir = []string{dir}
	c.Sandbox.ExcludeableTargets = []core.BuildLabel{mustParse("//zzz_nothing:zzz")}
	s := core.NewBuildState(c)
	e.expStates[dir] = s
	return s
}

var sites = []string{"Includes", "Matches", "TargetSet.Match", "validateSandbox:whitelist", "validateSandbox:experimental-dir",
	"isExperimental", "ShouldInclude:ExcludeTargets", "CanSee:visibility", "ExpandLabels"}

// evalSite returns (applicable, got, want): does the site say that `pattern` selects //pkg:name ?
func (e *env) evalSite(site, pattern, pkg, name string, pkgs []string) (bool, bool, bool) {
	label := core.BuildLabel{PackageName: pkg, Name: name}
	switch site {
	case "Includes":
		p := mustParse(pattern)
		return true, p.Includes(label), refIncludes(p, pkg, name)
	case "Matches":
		p := mustParse(pattern)
		return true, p.Matches(label), refMatches(p, pkg, name)
	case "TargetSet.Match":
		p := mustParse(pattern)
		if p.IsAllSubpackages() {
			return false, false, false
		}
		ts := core.NewTargetSet()
		ts.Add(p)
		got, _ := ts.Match(label)
		return true, got, refIncludes(p, pkg, name)
	case "validateSandbox:whitelist":
		p := mustParse(pattern)
		old := e.base.Config.Sandbox.ExcludeableTargets
		e.base.Config.Sandbox.ExcludeableTargets = []core.BuildLabel{p}
		defer func() { e.base.Config.Sandbox.ExcludeableTargets = old }()
		t := core.NewBuildTarget(label)
		t.Sandbox = false
		if pkg == "_please" {
			return false, false, false
		}
		return true, asp.VerifValidateSandboxC20(e.base, t) == nil, refMatches(p, pkg, name)
	case "validateSandbox:experimental-dir":
		if pattern == "" {
			return false, false, false
		}
		t := core.NewBuildTarget(label)
		t.Sandbox = false
		return true, asp.VerifValidateSandboxC20(e.expState(pattern), t) == nil, sel(pattern, pkg)
	case "isExperimental":
		if pattern == "" {
			return false, false, false
		}
		return true, core.VerifIsExperimentalC20(e.expState(pattern), label), sel(pattern, pkg)
	case "ShouldInclude:ExcludeTargets":
		p := mustParse(pattern)
		old := e.base.ExcludeTargets
		e.base.ExcludeTargets = nil
		e.base.SetIncludeAndExclude(nil, []string{pattern})
		defer func() { e.base.ExcludeTargets = old; e.base.Include = nil; e.base.Exclude = nil }()
		if len(e.base.ExcludeTargets) != 1 || e.base.ExcludeTargets[0] != p {
			lib.Fatal("SetIncludeAndExclude did not record %q as an exclude target: %v", pattern, e.base.ExcludeTargets)
		}
		return true, !e.base.ShouldInclude(core.NewBuildTarget(label)), refIncludes(p, pkg, name)
	case "CanSee:visibility":
		p := mustParse(pattern)
		const depPkg = "zzz_dep"
		if pkg == depPkg {
			return false, false, false
		}
		dep := core.NewBuildTarget(core.BuildLabel{PackageName: depPkg, Name: "d"})
		dep.Visibility = []core.BuildLabel{p}
		// documented: a hidden target is seen as its parent rule
		return true, label.CanSee(e.base, dep), refIncludes(p, pkg, parentName(name))
	case "ExpandLabels":
		p := mustParse(pattern)
		if !p.IsPseudoTarget() {
			return false, false, false
		}
		exp := expand(p, pkgs)
		return true, exp[label], refIncludes(p, pkg, name)
	}
	lib.Fatal("unknown site %q", site)
	return false, false, false
}

var targetNames = []string{"t", "u", "_t#x"}

// expand runs the real ExpandLabels on a graph with targets t,u,_t#x in each of pkgs.
func expand(p core.BuildLabel, pkgs []string) map[core.BuildLabel]bool {
	state := core.NewDefaultBuildState()
	for _, name := range pkgs {
		pkg := core.NewPackage(name)
		for _, tn := range targetNames {
			t := core.NewBuildTarget(core.BuildLabel{PackageName: name, Name: tn})
			state.Graph.AddTarget(t)
			pkg.AddTarget(t)
		}
		state.Graph.AddPackage(pkg)
	}
	out := map[core.BuildLabel]bool{}
	for _, l := range state.ExpandLabels([]core.BuildLabel{p}) {
		out[l] = true
	}
	return out
}

// relation describes how the target's package relates to the pattern's package (for stable classes).
func relation(x, y string) string {
	switch {
	case x == y:
		return "same-package"
	case x == "":
		return "root-pattern"
	case strings.HasPrefix(y, x+"/"):
		return "subpackage"
	case strings.HasPrefix(y, x):
		return "prefix-sibling"
	case strings.HasPrefix(x, y+"/") || y == "":
		return "parent-package"
	}
	return "unrelated-package"
}

func patKind(site, pattern string) (string, string) {
	if site == "validateSandbox:experimental-dir" || site == "isExperimental" {
		return "dir", pattern
	}
	p := mustParse(pattern)
	switch p.Name {
	case "...":
		return "...", p.PackageName
	case "all":
		return ":all", p.PackageName
	}
	return ":name", p.PackageName
}

// rootClass names the violation by its root cause: the hidden-child marker is kept only when the plain parent name is
// judged correctly at the same site, and a whitelist misjudgement that BuildLabel.Matches itself makes on the same pair
// is attributed to Matches (validateSandbox only forwards to it).
func rootClass(e *env, w witness, got bool) string {
	site, name := w.Site, w.Name
	if name != parentName(name) {
		if ok, g, wnt := e.evalSite(site, w.Pattern, w.Pkg, parentName(name), w.Pkgs); ok && g != wnt {
			name = parentName(name)
		}
	}
	if site == "validateSandbox:whitelist" {
		if _, g, wnt := e.evalSite("Matches", w.Pattern, w.Pkg, w.Name, nil); g != wnt && g == got {
			site = "Matches"
		}
	}
	return patternClass(site, w.Pattern, w.Pkg, name, got)
}

func patternClass(site, pattern, pkg, name string, got bool) string {
	kind, ppkg := patKind(site, pattern)
	dir := "under-select"
	if got {
		dir = "over-select"
	}
	hidden := ""
	if name != parentName(name) {
		hidden = ":hidden-child"
	}
	return "pattern:" + site + ":" + kind + ":" + relation(ppkg, pkg) + hidden + ":" + dir
}

func universe(comps int) []string {
	names := []string{"p", "q", "pq", "pfoo", "p-q", "p.q", "p0"} // (siblings that share a prefix, also with bytes sorting just below and just above the separator)
	out := []string{""}
	level := []string{""}
	for c := 0; c < comps; c++ {
		var next []string
		for _, pre := range level {
			for _, n := range names {
				s := n
				if pre != "" {
					s = pre + "/" + n
				}
				next = append(next, s)
			}
		}
		out = append(out, next...)
		level = next
	}
	// simplest first
	sort.SliceStable(out, func(i, j int) bool {
		if len(out[i]) != len(out[j]) {
			return len(out[i]) < len(out[j])
		}
		return out[i] < out[j]
	})
	return out
}

func main() {
	r := lib.Start("C20", "exploration")
	lib.Quiet()
	if r.Replay != "" {
		var w witness
		lib.LoadReplay(r.Replay, &w)
		switch w.Kind {
		case "roundtrip":
			if _, class, detail := rtCheck(w.S, w.Cwd); class != "" {
				r.Violate(class, w, detail)
			}
		case "pattern":
			e := newEnv()
			if ok, got, want := e.evalSite(w.Site, w.Pattern, w.Pkg, w.Name, w.Pkgs); ok && got != want {
				r.Violate(rootClass(e, w, got), w, patternDetail(w, got, want))
			}
		default:
			lib.Fatal("unknown witness kind %q", w.Kind)
		}
		r.Finish(lib.Coverage{Evaluations: 1, DistinctNontrivial: 1, Rule: "replay", Samples: []any{w}, Exhaustive: true})
	}

	var samples lib.Samples
	exhaustive := true

	// ---- Part B first: it is tiny.
	comps := 2
	if !r.Quick() {
		comps = 3
	}
	pkgs := universe(comps)
	e := newEnv()
	var patEvals, patSelected int
	perSite := map[string]int{}
	for _, site := range sites {
		isDir := site == "validateSandbox:experimental-dir" || site == "isExperimental"
		var patterns []string
		for _, x := range pkgs {
			if isDir {
				patterns = append(patterns, x)
			} else {
				patterns = append(patterns, patString(x, "..."), patString(x, "all"), patString(x, "t"))
			}
		}
		if site == "ExpandLabels" {
			for _, pat := range patterns {
				p := mustParse(pat)
				if !p.IsPseudoTarget() {
					continue
				}
				exp := expand(p, pkgs)
				for _, y := range pkgs {
					for _, n := range targetNames {
						patEvals++
						perSite[site]++
						got, want := exp[core.BuildLabel{PackageName: y, Name: n}], refIncludes(p, y, n)
						if want {
							patSelected++
						}
						if got != want {
							w := witness{Kind: "pattern", Site: site, Pattern: pat, Pkg: y, Name: n, Pkgs: uniq(p.PackageName, y)}
							if _, g2, w2 := e.evalSite(site, pat, y, n, w.Pkgs); g2 == w2 {
								w.Pkgs = pkgs // does not reproduce on the two-package graph: keep the whole universe
							}
							report(r, e, w, got, want)
						}
					}
				}
				for l := range exp { // anything outside the universe?
					if !contains(pkgs, l.PackageName) {
						lib.Fatal("ExpandLabels(%s) returned %s which is not in the graph", pat, l)
					}
				}
			}
			continue
		}
		for _, pat := range patterns {
			for _, y := range pkgs {
				for _, n := range targetNames {
					ok, got, want := e.evalSite(site, pat, y, n, nil)
					if !ok {
						continue
					}
					patEvals++
					perSite[site]++
					if want {
						patSelected++
					}
					if patEvals%9973 == 0 {
						samples.Add(func() any { return witness{Kind: "pattern", Site: site, Pattern: pat, Pkg: y, Name: n} })
					}
					if got != want {
						report(r, e, witness{Kind: "pattern", Site: site, Pattern: pat, Pkg: y, Name: n}, got, want)
					}
				}
			}
		}
	}

	// ---- Part A
	maxLen := 7
	if !r.Quick() {
		maxLen = 9
	}
	var evals, accepted int64
	completedLen := 0
	for length := 1; length <= maxLen; length++ {
		total := uint64(1)
		for i := 0; i < length; i++ {
			total *= uint64(len(alphabet))
		}
		var next uint64
		var wg sync.WaitGroup
		const chunk = 8192
		for w := 0; w < runtime.NumCPU(); w++ {
			wg.Add(1)
			go func() {
				defer wg.Done()
				var ev, acc int64
				defer func() { atomic.AddInt64(&evals, ev); atomic.AddInt64(&accepted, acc) }()
				for {
					lo := atomic.AddUint64(&next, chunk) - chunk
					if lo >= total || r.OutOfTime() {
						return
					}
					for m := lo; m < lo+chunk && m < total; m++ {
						s := nth(length, m)
						for _, cwd := range cwdsFor(s) {
							ev++
							ok, class, detail := rtCheck(s, cwd)
							if ok {
								acc++
							}
							if m%1000003 == 0 && cwd == "" {
								samples.Add(func() any { return witness{Kind: "roundtrip", S: s} })
							}
							if class != "" {
								if _, c2, _ := rtCheck(s, cwd); c2 != class {
									lib.Fatal("HARNESS-NONDETERMINISM roundtrip %q", s)
								}
								// lengths are enumerated in order and strings within a length lexicographically only
								// per worker, so keep the smallest witness ourselves.
								recordMin(r, class, witness{Kind: "roundtrip", S: s, Cwd: cwd}, detail)
							}
						}
					}
				}
			}()
		}
		wg.Wait()
		if r.Capped {
			exhaustive = false
			break
		}
		completedLen = length
	}
	flushMin(r)

	r.Assume = []string{
		"'valid label string' = a string the real TryParseBuildLabel accepts; 'printed form' = BuildLabel.String(); the printed form is absolute, so it is re-parsed with an empty current package",
		"pattern semantics are decided on package names only; subrepos are not part of the enumerated space (Includes/Matches ignore the subrepo of the pattern by design of subrepo-local visibility)",
		"a plain label used as a sandbox whitelist entry also covers its hidden children (_t#x), as documented on BuildLabel.Matches; a hidden target is seen by visibility as its parent rule, as documented on CanSee",
		"command-line expansion of //p/... onto the file system (FindAllBuildFiles) is enumerated by C22; here the command line is covered by ExpandLabels (expandOriginalPseudoTarget) and TargetSet.Match",
	}
	r.Finish(lib.Coverage{
		Evaluations:        int(evals) + patEvals,
		DistinctNontrivial: int(accepted) + patSelected,
		Rule: fmt.Sprintf("round trip: every string of length<=%d over the 9-symbol alphabet %q (each once; strings starting with ':' or '@' additionally with current package p/q); non-trivial = accepted by TryParseBuildLabel. "+
			"patterns: every (pattern, label) pair over the package universe of all paths with <=%d components over {p,q,pq,pfoo} plus the root, patterns //X/..., //X:all, //X:t (or experimental dir X), labels //Y:t, //Y:u, //Y:_t#x, at each of %d call sites; non-trivial = the reference says the pattern selects the label", completedLen, alphabet, comps, len(sites)),
		Samples:    samples.List(),
		Exhaustive: exhaustive,
		Extra: map[string]any{"roundtrip_strings": evals, "roundtrip_accepted": accepted, "roundtrip_max_len_completed": completedLen,
			"pattern_pairs": patEvals, "pattern_pairs_selected_by_reference": patSelected, "pattern_pairs_per_site": perSite, "packages": len(pkgs)},
	})
}

func uniq(a, b string) []string {
	if a == b {
		return []string{a}
	}
	return []string{a, b}
}

func contains(l []string, s string) bool {
	for _, x := range l {
		if x == s {
			return true
		}
	}
	return false
}

func patternDetail(w witness, got, want bool) string {
	what := "pattern " + w.Pattern
	if w.Site == "validateSandbox:experimental-dir" || w.Site == "isExperimental" {
		what = "experimental dir " + w.Pattern
	}
	return fmt.Sprintf("%s: %s selects //%s:%s = %v, exact semantics say %v", w.Site, what, w.Pkg, w.Name, got, want)
}

func report(r *lib.Run, e *env, w witness, got, want bool) {
	if ok, g2, w2 := e.evalSite(w.Site, w.Pattern, w.Pkg, w.Name, w.Pkgs); !ok || g2 != got || w2 != want {
		lib.Fatal("HARNESS-NONDETERMINISM pattern %+v", w)
	}
	// the universe is ordered simplest-first, so the first hit per class is the minimal one
	r.Violate(rootClass(e, w, got), w, patternDetail(w, got, want))
}

// smallest witness per round-trip class across workers
var (
	minMu  sync.Mutex
	minW   = map[string]witness{}
	minDet = map[string]string{}
	minCnt = map[string]int{}
)

func recordMin(r *lib.Run, class string, w witness, detail string) {
	minMu.Lock()
	defer minMu.Unlock()
	minCnt[class]++
	old, ok := minW[class]
	if !ok || len(w.S) < len(old.S) || (len(w.S) == len(old.S) && (len(w.Cwd) < len(old.Cwd) || (len(w.Cwd) == len(old.Cwd) && w.S < old.S))) {
		minW[class] = w
		minDet[class] = detail
	}
}

func flushMin(r *lib.Run) {
	classes := []string{}
	for c := range minW {
		classes = append(classes, c)
	}
	sort.Strings(classes)
	for _, c := range classes {
		r.Violate(c, minW[c], minDet[c])
		for i := 1; i < minCnt[c]; i++ {
			r.Violate(c, nil, "")
		}
	}
}

// C30: timed-out actions are killed with all their children (input side: exhaustive product of command behaviours,
// one real execution each through the real process.Executor.ExecWithTimeout).
package main

import (
	"context"
	"encoding/json"
	"errors"
	"fmt"
	"os"
	"os/exec"
	"path/filepath"
	"sort"
	"strconv"
	"strings"
	"sync"
	"syscall"
	"time"

	"github.com/thought-machine/please/src/process"
	"github.com/thought-machine/please/verifharness/lib"
)

type cse struct {
	IgnoreTerm      bool    `json:"ignore_term"`
	ChildIgnoreTerm bool    `json:"child_ignore_term"` // (a child of a shell that ignores SIGTERM inherits that)
	Child           string  `json:"child"`             // none | holds-stdout | detached
	Exit            string  `json:"exit"`              // before | at | after
	Timeout         float64 `json:"timeout_s"`
}

func (c cse) String() string {
	return fmt.Sprintf("ignoreTERM=%v childIgnoresTERM=%v child=%s exit=%s timeout=%.1fs", c.IgnoreTerm, c.ChildIgnoreTerm, c.Child, c.Exit, c.Timeout)
}

func alive(pid int) bool {
	if pid <= 0 {
		return false
	}
	if err := syscall.Kill(pid, 0); err != nil {
		return false
	}
	// a zombie is not running
	b, err := os.ReadFile(fmt.Sprintf("/proc/%d/stat", pid))
	if err != nil {
		return false
	}
	if i := strings.LastIndexByte(string(b), ')'); i >= 0 && len(b) > i+2 && b[i+2] == 'Z' {
		return false
	}
	return true
}

func readPid(p string) int {
	b, _ := os.ReadFile(p)
	n, _ := strconv.Atoi(strings.TrimSpace(string(b)))
	return n
}

// run executes one case; returns (class, detail, outcome); class "" = held.
func run(e *process.Executor, c cse, dir string) (string, string, *outcome) {
	os.MkdirAll(dir, 0o755)
	mainPid, childPid := filepath.Join(dir, "main.pid"), filepath.Join(dir, "child.pid")
	var sb strings.Builder
	if c.IgnoreTerm {
		sb.WriteString("trap '' TERM; ")
	}
	fmt.Fprintf(&sb, "echo $$ > %s; ", mainPid)
	childCmd := "sleep 30"
	if c.ChildIgnoreTerm {
		childCmd = "bash -c \"trap '' TERM; sleep 30\""
	}
	switch c.Child {
	case "holds-stdout":
		fmt.Fprintf(&sb, "%s & echo $! > %s; ", childCmd, childPid)
	case "detached":
		fmt.Fprintf(&sb, "%s >/dev/null 2>&1 </dev/null & echo $! > %s; ", childCmd, childPid)
	}
	// the shell notes the instant at which it ends by itself ($EPOCHREALTIME is a bash builtin: no process is created)
	mainEnd := filepath.Join(dir, "main.end")
	switch c.Exit {
	case "before":
		fmt.Fprintf(&sb, "sleep 0.05; echo $EPOCHREALTIME > %s", mainEnd)
	case "at":
		fmt.Fprintf(&sb, "sleep %.2f; echo $EPOCHREALTIME > %s", c.Timeout, mainEnd)
	case "after":
		sb.WriteString("sleep 30; sleep 30")
	}
	timeout := time.Duration(c.Timeout * float64(time.Second))
	start := time.Now()
	_, _, err := e.ExecWithTimeout(context.Background(), nil, dir, []string{"PATH=/usr/bin:/bin"}, timeout, false, false, false, false, process.NoSandbox, []string{"bash", "-c", sb.String()})
	took := time.Since(start)
	timedOut := errors.Is(err, context.DeadlineExceeded)
	o := &outcome{TimedOut: timedOut}
	// generous, documented bound: deadline + the code's own TERM (30ms) and KILL (1s) waits + 5s slack. A machine so loaded
	// that a trivial command takes seconds says nothing about plz: then the lateness is noted, not reported.
	bound := timeout + 1030*time.Millisecond + 5*time.Second
	if took > bound {
		t0 := time.Now()
		e.ExecWithTimeout(context.Background(), nil, dir, []string{"PATH=/usr/bin:/bin"}, 30*time.Second, false, false, false, false, process.NoSandbox, []string{"bash", "-c", "true"})
		if probe := time.Since(t0); probe > time.Second {
			fmt.Fprintf(os.Stderr, "NOTE: %s returned after %v but the machine needs %v for `true`; lateness not judged\n", c, took, probe)
		} else {
			return "returned-too-late", fmt.Sprintf("%s: returned after %v (> %v), err=%v", c, took, bound, err), o
		}
	}
	// What really happened decides what must be reported: the shell's own end (if it got there) against the deadline.
	// Half the timeout is left as a margin for a loaded machine: inside it both verdicts are accepted.
	endedAt, ended := readEnd(mainEnd)
	deadline := start.Add(timeout)
	holder := c.Child == "holds-stdout" // a child holding the output pipe keeps the action unfinished until the deadline
	switch {
	case !ended && !timedOut:
		return "success-reported-for-a-command-that-did-not-finish", fmt.Sprintf("%s: the shell never reached its end but err=%v after %v", c, err, took), o
	case c.Exit == "after" && !timedOut:
		return "deadline-not-reported", fmt.Sprintf("%s: expected a deadline error, got %v after %v", c, err, took), o
	case holder && ended && endedAt.Before(deadline.Add(-timeout/2)) && !timedOut:
		return "deadline-not-reported", fmt.Sprintf("%s: a child held the output pipe beyond the deadline, but err=%v after %v", c, err, took), o
	case !holder && ended && endedAt.Before(deadline.Add(-timeout/2)) && timedOut:
		return "spurious-deadline", fmt.Sprintf("%s: the shell ended %v before the deadline but %v was reported", c, deadline.Sub(endedAt), err), o
	}
	time.Sleep(1500 * time.Millisecond)
	mp, cp := readPid(mainPid), readPid(childPid)
	if alive(mp) {
		syscall.Kill(-mp, syscall.SIGKILL)
		o.MainAlive = true
		return "main-process-survives", fmt.Sprintf("%s: the command's shell (pid %d) is still running 1.5s after the action was reported finished (err=%v)", c, mp, err), o
	}
	if cp > 0 && alive(cp) {
		syscall.Kill(cp, syscall.SIGKILL)
		o.Others = 1
		if timedOut {
			return "timeout:child-in-process-group-survives", fmt.Sprintf("%s: background child %d survives a timed-out action", c, cp), o
		}
		return "normal-exit:background-child-survives", fmt.Sprintf("%s: background child %d (same process group, output detached) keeps running after the action finished normally", c, cp), o
	}
	return "", "", o
}

// outcome is what the model tier also records per execution.
type outcome struct {
	TimedOut  bool
	MainAlive bool
	Others    int
}

func (o *outcome) key() string {
	return fmt.Sprintf("timedOut=%v main=%v others=%d", o.TimedOut, o.MainAlive, o.Others)
}

func readEnd(p string) (time.Time, bool) {
	b, err := os.ReadFile(p)
	if err != nil {
		return time.Time{}, false
	}
	f, err := strconv.ParseFloat(strings.TrimSpace(string(b)), 64)
	if err != nil {
		return time.Time{}, false
	}
	return time.Unix(0, int64(f*1e9)), true
}

func (c cse) key() string {
	return fmt.Sprintf("ignoreTERM=%v childIgnoresTERM=%v child=%s exit=%s", c.IgnoreTerm, c.ChildIgnoreTerm, c.Child, c.Exit)
}

// modelOut is what the model tier (harness/c30m) prints.
type modelOut struct {
	Cases       int                 `json:"cases"`
	Executions  int                 `json:"executions"`
	Pruned      int                 `json:"pruned"`
	States      int                 `json:"states"`
	Transitions int                 `json:"transitions"`
	MaxPoints   int                 `json:"max_points"`
	Incomplete  int                 `json:"incomplete"`
	Bound       int                 `json:"bound"`
	PairBound   int                 `json:"pair_bound"`
	Outcomes    map[string][]string `json:"outcomes"`
	Statuses    map[string]int      `json:"statuses"`
	Violations  []modelViolation    `json:"violations"`
}

type modelViolation struct {
	Class   string          `json:"class"`
	Cases   json.RawMessage `json:"cases"`
	Choices []int           `json:"choices"`
	Newest  bool            `json:"newest_first"`
	Detail  string          `json:"detail"`
	Model   bool            `json:"model_tier"` // marks the witness as a schedule of the model tier (replayed by harness/c30m)
}

func runModelOnce(args ...string) *modelOut {
	bin := os.Getenv("VERIF_AUX_C30M")
	if bin == "" {
		lib.Fatal("VERIF_AUX_C30M not set (the driver builds the model tier)")
	}
	cmd := exec.Command(bin, args...)
	cmd.Env = append(os.Environ(), "GOMAXPROCS=1", "GOGC=off", "GOMEMLIMIT=2GiB")
	cmd.Stderr = os.Stderr
	b, err := cmd.Output()
	var m modelOut
	if err != nil || json.Unmarshal(b, &m) != nil {
		lib.Fatal("model tier failed: %v\n%s", err, b)
	}
	return &m
}

// runModel runs the model tier as n shard processes and merges what they report.
func runModel(n int, args ...string) *modelOut {
	if n <= 1 {
		return runModelOnce(args...)
	}
	outs := make([]*modelOut, n)
	var wg sync.WaitGroup
	for k := 0; k < n; k++ {
		wg.Add(1)
		go func(k int) {
			defer wg.Done()
			outs[k] = runModelOnce(append(append([]string{}, args...), "--shard", fmt.Sprintf("%d/%d", k, n))...)
		}(k)
	}
	wg.Wait()
	m := &modelOut{Outcomes: map[string][]string{}, Statuses: map[string]int{}}
	for _, o := range outs {
		m.Cases += o.Cases
		m.Executions += o.Executions
		m.Pruned += o.Pruned
		m.States += o.States
		m.Transitions += o.Transitions
		m.Incomplete += o.Incomplete
		m.Bound, m.PairBound = o.Bound, o.PairBound
		if o.MaxPoints > m.MaxPoints {
			m.MaxPoints = o.MaxPoints
		}
		for k, v := range o.Outcomes {
			m.Outcomes[k] = v
		}
		for k, v := range o.Statuses {
			m.Statuses[k] += v
		}
		m.Violations = append(m.Violations, o.Violations...)
	}
	sort.SliceStable(m.Violations, func(i, j int) bool { return m.Violations[i].Class < m.Violations[j].Class })
	return m
}

func main() {
	r := lib.Start("C30", "model_checking")
	lib.Quiet()
	if r.Replay != "" {
		var probe struct {
			Model    bool `json:"model_tier"`
			Declared bool `json:"declared_tier"`
			Reported bool `json:"reported_tier"`
		}
		lib.LoadReplay(r.Replay, &probe)
		if probe.Reported {
			var c repCase
			lib.LoadReplay(r.Replay, &c)
			reportedTier(r, &c)
			r.Finish(lib.Coverage{Evaluations: 1, DistinctNontrivial: 1, States: 1, Transitions: 1, Exhaustive: true})
			return
		}
		if probe.Declared {
			var c declCase
			lib.LoadReplay(r.Replay, &c)
			declaredTier(r, &c)
			r.Finish(lib.Coverage{Evaluations: 1, DistinctNontrivial: 1, States: 1, Transitions: 1, Exhaustive: true})
			return
		}
		if probe.Model {
			var w modelViolation
			lib.LoadReplay(r.Replay, &w)
			tmp := filepath.Join(lib.VerifRoot, ".work", "c30-replay.json")
			b, _ := json.Marshal(w)
			os.WriteFile(tmp, b, 0o644)
			defer os.Remove(tmp)
			m := runModel(1, "--replay", tmp)
			for _, v := range m.Violations {
				v.Model = true
				r.Violate(v.Class, v, v.Detail)
			}
			r.Finish(lib.Coverage{Evaluations: 1, DistinctNontrivial: 1, States: 1, Transitions: 1, TracesValidated: 0, Exhaustive: true})
			return
		}
	}

	// ---- model tier: every interleaving (within the deviation bound) of the real ExecWithTimeout against the kernel model
	tier := "quick"
	budget := "4m"
	if !r.Quick() {
		tier, budget = "thorough", "25m"
	}
	var m *modelOut
	if r.Replay == "" {
		bound := "3"
		if !r.Quick() {
			bound = "4"
		}
		m = runModel(12, "--tier", tier, "--budget", budget, "--bound", bound, "--continue", strings.Join(r.KnownClasses(), ","))
		for _, v := range m.Violations {
			v.Model = true
			r.Violate(v.Class, v, "[model tier] "+v.Detail)
		}
	}

	// ---- declared-deadline tier: the deadline a command gets is the one its BUILD file declares
	declared, reported := 0, 0
	if r.Replay == "" {
		declared = declaredTier(r, nil)
		reported = reportedTier(r, nil)
	}

	// ---- real tier: the same behaviours, one real execution each
	var cases []cse
	timeouts := []float64{1.0}
	if !r.Quick() {
		timeouts = []float64{0.5, 1.0, 2.0}
	}
	for _, to := range timeouts {
		for _, it := range []bool{false, true} {
			for _, ch := range []string{"none", "holds-stdout", "detached"} {
				for _, cit := range []bool{false, true} {
					// a shell that ignores SIGTERM hands that on to its children; without a child the flag means nothing
					if (it && !cit && ch != "none") || (ch == "none" && cit) {
						continue
					}
					for _, ex := range []string{"before", "at", "after"} {
						cases = append(cases, cse{it, cit, ch, ex, to})
					}
				}
			}
		}
	}
	base := filepath.Join(lib.VerifRoot, ".work", "c30")
	os.RemoveAll(base)
	defer os.RemoveAll(base)
	e := process.New()
	if r.Replay != "" {
		var c cse
		lib.LoadReplay(r.Replay, &c)
		cases = []cse{c}
	}
	var wg sync.WaitGroup
	var mu sync.Mutex
	conform, mismatch := 0, []string{}
	sem := make(chan struct{}, 6)
	for i, c := range cases {
		wg.Add(1)
		sem <- struct{}{}
		go func(i int, c cse) {
			defer wg.Done()
			defer func() { <-sem }()
			cls, detail, o := run(e, c, filepath.Join(base, fmt.Sprint(i)))
			if cls != "" {
				// classify failures before believing them: the same case must fail the same way again
				cls2, _, _ := run(e, c, filepath.Join(base, fmt.Sprint(i)+"r"))
				if cls2 != cls {
					fmt.Fprintf(os.Stderr, "NOTE: %s gave %q then %q; not reported (timing-dependent outcome)\n", c, cls, cls2)
					return
				}
				r.Violate(cls, c, detail)
			}
			// conformance of the kernel model: what the real kernel did must be one of the outcomes the model produced
			if m != nil {
				found := false
				for _, k := range m.Outcomes[c.key()] {
					if k == "0: "+o.key() {
						found = true
					}
				}
				mu.Lock()
				if found {
					conform++
				} else {
					mismatch = append(mismatch, fmt.Sprintf("%s: real outcome %q not among the model's %v", c, o.key(), m.Outcomes[c.key()]))
				}
				mu.Unlock()
			}
		}(i, c)
	}
	wg.Wait()
	if len(mismatch) > 0 {
		sort.Strings(mismatch)
		lib.Fatal("MODEL-CONFORMANCE: the kernel model of the model tier does not produce what the real kernel did:\n%s", strings.Join(mismatch, "\n"))
	}
	var samples []any
	for i, c := range cases {
		if i%7 == 0 {
			samples = append(samples, c)
		}
	}
	r.Assume = []string{
		"model tier: src/process is mechanically rewritten (goroutines, channels, select, mutex, time.After under the controlled scheduler); (*exec.Cmd).Start/Wait, syscall.Kill and context.WithTimeout are replaced by the kernel model verifshim/vproc on the fake clock: a process group dies on SIGKILL, members that do not ignore SIGTERM die on SIGTERM, Wait returns when the main process is dead and no live process holds the output pipe. Signals take effect immediately.",
		"model tier bounds: delay bounding (every non-default scheduling choice and every early timer firing costs one deviation) under two default schedulers (oldest / newest thread first), state-key pruned; the bound is in the evidence. An early timer firing models arbitrarily slow threads; durations are judged only in executions without one.",
		"real tier: kernel scheduling, signal delivery and timer firing are not under the explorer's control: one real execution per behaviour (failures are re-run once and only reported if they reproduce); it doubles as the conformance check of the kernel model: every real outcome must be among the model's outcomes for that behaviour",
		"real-tier bounds are generous and documented: return within deadline + 1.03s (the code's own TERM/KILL waits) + 5s slack (not judged if the machine needs more than 1s for `true`); the expected verdict follows from the instant at which the shell really ended, with half the timeout as a margin in which both verdicts are accepted; survivors are checked 1.5s after return",
		"declared-deadline tier: the deadline of a command is target.BuildTimeout / target.Test.Timeout as the real parser sets them; declared means: an integer > 0 is the number of seconds (rules/misc_rules.build_defs: 'Maximum time in seconds this rule can run for before being killed'), a string names a size, otherwise the size's timeout, otherwise the configured default; 0 and negative integers are not generated",
		"reported tier: one real `plz build` / `plz test` per behaviour {build, test} x {no results file, a complete all-passing results file written before the overrun} x {leader sleeps, leader exits while a child holds the output} x {ignores SIGTERM}; timeout 2 s; judged: plz exits non-zero, no process of the command is left 1.5 s later (failures re-run once); a 120 s horizon gives no verdict",
		"children are background jobs of the action's shell, i.e. in the action's process group (the statement's scope)",
	}
	cov := lib.Coverage{
		Evaluations:        len(cases),
		DistinctNontrivial: len(cases),
		Rule:               "model tier: for each behaviour {main ignores SIGTERM} x {none / child holding stdout / detached child} x {child ignores SIGTERM} x {exits before / at / after the deadline} (and pairs of behaviours on one Executor) every schedule within the deviation bound; real tier: the realisable part of the same product x timeouts, one real execution each through ExecWithTimeout (all non-trivial: every case spawns real processes)",
		Samples:            samples,
		Exhaustive:         true,
		TracesValidated:    conform,
	}
	cov.Evaluations += declared + reported
	cov.DistinctNontrivial += declared + reported
	if m != nil {
		cov.Evaluations += m.Executions
		cov.DistinctNontrivial += m.Executions - m.Pruned
		cov.States, cov.Transitions = m.States, m.Transitions
		cov.Exhaustive = m.Incomplete == 0
		cov.Extra = map[string]any{"model_cases_and_pairs": m.Cases, "model_executions": m.Executions, "model_pruned": m.Pruned, "model_deviation_bound_single": m.Bound, "model_deviation_bound_pairs": m.PairBound, "model_incomplete_explorations": m.Incomplete, "model_execution_statuses": m.Statuses, "model_max_choice_points": m.MaxPoints, "declared_deadline_cases": declared, "reported_tier_plz_invocations": reported, "real_cases": len(cases), "real_outcomes_found_in_model": conform}
	}
	r.Finish(cov)
}
